import XmppModel.Model.Muc
import XmppModel.Model.MucLive
import XmppModel.Lemmas.MucLive
import XmppModel.Lemmas.Muc
import XmppModel.Generated.C18
/-!
# C18 — MUC membership follows the room's presence exactly

Theorems over the LTS of `Model/Muc.lean`: every history of join / re-join (also under another
nickname) / leave / cancel calls on any number of channels interleaved with any sequence of
presences, error replies, invitations and unrelated stanzas (`Reach`).  No hypothesis on the
occupant addresses: the code refuses a second channel for an address that is in use
(`C18_second_channel_refused`), which is what makes the invariant inductive.
-/
namespace XmppModel.Props.C18
open XmppModel.Muc

set_option hygiene false in
macro "step_cases" : tactic => `(tactic|
  (cases a <;> simp only [step] at hs <;> (try split at hs) <;> (try split at hs) <;> (try split at hs) <;>
    (try simp at hs) <;> (try subst hs) <;> (try simp only [upd] at *)))

/-! ### joining -/

/-- a `Join` call succeeds only through the processing of the self-presence from the occupant
address it asked for, while that call is pending -/
theorem C18_join_success_iff {s a s'} (hs : step s a = some s') {c : Nat}
    (hnew : s'.lastJoin c = some .ok) (hold : s.lastJoin c ≠ some .ok) :
    a = .avail (s.req c) ∧ s.jpc c = .pending ∧ s.managed (s.req c) = some c ∧ s'.cur c = s.req c := by
  step_cases <;> grind

/-- conversely the self-presence of a pending join completes it, sets membership and makes the
requested address the one the channel holds -/
theorem C18_self_presence_completes_join {s} {c : Nat}
    (hm : s.managed (s.req c) = some c) (hp : s.jpc c = .pending) :
    ∃ s', step s (.avail (s.req c)) = some s' ∧ s'.lastJoin c = some .ok ∧ s'.joined c = true
      ∧ s'.jpc c = .idle ∧ s'.cur c = s.req c := by
  simp [step, hm, hp, upd]

/-- a `Join` call returns the stanza error only after the room's error reply to that request,
the context's error only after its context was done, and any other error only after its request
could not be sent or the reply carried no error element (`joinFail`: the third exit of the internal
goroutine of `JoinPresence`) -/
theorem C18_join_error {s a s'} (hs : step s a = some s') {c : Nat} {e : JErr}
    (hnew : s'.jpc c = .failing e) (hold : s.jpc c ≠ .failing e) :
    s.jpc c = .pending ∧ ((e = .stanzaErr ∧ a = .joinError c) ∨ (e = .ctxErr ∧ a = .joinCancel c) ∨
      (e = .other ∧ a = .joinFail c)) := by
  step_cases <;> grind

theorem C18_join_error_returned {s} {c : Nat} {e : JErr} (h : s.jpc c = .failing e) :
    ∃ s', step s (.joinCleanup c) = some s' ∧ s'.lastJoin c = some (.err e) ∧ s'.jpc c = .idle
      ∧ s'.joined c = s.joined c ∧ s'.cur c = s.cur c := by
  simp [step, h, upd]

/-- the code enforces "one channel per occupant address": a join asking for an address another
channel is registered under is refused at once and changes nothing else -/
theorem C18_second_channel_refused {s} {c c' a : Nat} (hidle : s.jpc c = .idle)
    (hm : s.managed a = some c') (hne : c' ≠ c) :
    ∃ s', step s (.joinStart c a) = some s' ∧ s'.lastJoin c = some (.err .refused) ∧
      s'.managed = s.managed ∧ s'.joined = s.joined ∧ s'.jpc = s.jpc ∧ s'.cur = s.cur := by
  simp [step, hidle, hm, hne, upd]

/-- … hence no address is ever held by two joined channels -/
theorem C18_one_channel_per_address {addr0 s} (hr : Reach addr0 s) {c c' : Nat}
    (h : s.joined c = true) (h' : s.joined c' = true) (ha : s.cur c = s.cur c') : c = c' := by
  have hi := inv_reach hr
  have h1 := hi.reg c h
  have h2 := hi.reg c' h'
  rw [ha, h2] at h1
  injection h1 with h1; exact h1.symm

/-! ### membership -/

/- FULL-STRENGTH STATEMENT (property text), false for the code as it is:

    theorem C18_membership (hr : Reach addr0 s) (c) : s.joined c = s.member c

  `member` is cleared only by the unavailable presence of the occupant address the channel holds.
  The code also ends the membership when the room answers `Leave` with an error, because the
  package's own test (`TestPartError`) demands `Joined() = false` after a refused `Leave`.  Known
  finding `clause=membership key=not-joined-after-error-reply-to-leave`. -/

/-- `Joined()` is exactly the ghost `memberX`: true from the success of a `Join` call until the
unavailable presence of the occupant address the channel holds — or an error reply to `Leave` —
has been processed, false before and after, in every reachable state, for any number of channels
and addresses (no distinctness hypothesis) -/
theorem C18_membership_partial {addr0 s} (hr : Reach addr0 s) (c : Nat) : s.joined c = s.memberX c :=
  (inv_reach hr).mem c

theorem reach_run {addr0 s} (h : Reach addr0 s) : ∀ {as s'}, run s as = some s' → Reach addr0 s' := by
  intro as
  induction as generalizing s with
  | nil => intro s' hr; simp [run] at hr; subst hr; exact h
  | cons a as ih =>
    intro s' hr
    simp only [run] at hr
    split at hr
    · rename_i s1 hs1; exact ih (Reach.step h hs1) hr
    · simp at hr

/-- negation witness of the full-strength statement: join, self-presence, leave, error reply -/
theorem C18_membership_fails :
    ¬ (∀ s, Reach (fun c => c) s → ∀ c, s.joined c = s.member c) := by
  intro h
  have hr : ∃ s, run (init fun c => c) [.joinStart 0 0, .avail 0, .leaveStart 0, .leaveError 0] = some s ∧
      s.joined 0 = false ∧ s.member 0 = true := by
    simp [run, step, init, upd]
  obtain ⟨s, hs, hj, hm⟩ := hr
  have := h s (reach_run Reach.init hs) 0
  rw [hj, hm] at this
  exact Bool.noConfusion this

/-- without error replies to `Leave` the two ghosts coincide, i.e. the literal statement holds on
every history in which no `Leave` is refused -/
theorem C18_membership_literal_without_refused_leave {s a s'}
    (hs : step s a = some s') (hne : ∀ c, a ≠ .leaveError c) (h : ∀ c, s.member c = s.memberX c) :
    ∀ c, s'.member c = s'.memberX c := by
  intro c
  step_cases <;> grind

/-- what drives the ghost (read off `step`): only a successful join sets it, only the unavailable
presence of the address the channel holds clears it -/
theorem C18_member_spec {s a s'} (hs : step s a = some s') (c : Nat) :
    (s'.member c = true ∧ s.member c = false → s'.lastJoin c = some .ok ∧ s.jpc c = .pending) ∧
    (s'.member c = false ∧ s.member c = true → a = .unavail (s.cur c)) := by
  step_cases <;> grind

example : ∃ s, run (init fun c => c) [.joinStart 0 0, .avail 0] = some s ∧ s.joined 0 = true := by
  simp [run, step, init, upd]
example : ∃ s, run (init fun c => c) [.joinStart 0 0, .avail 0, .unavail 0] = some s ∧ s.joined 0 = false := by
  simp [run, step, init, upd]
example : ∃ s, run (init fun c => c) [.joinStart 0 0, .joinError 0, .joinCleanup 0, .avail 0] = some s ∧
    s.joined 0 = false ∧ s.upres = 0 := by
  simp [run, step, init, upd]

/-- a joined channel stays registered under the occupant address it holds (so the unavailable
presence finds it) -/
theorem C18_registered_while_joined {addr0 s} (hr : Reach addr0 s) {c : Nat} (h : s.joined c = true) :
    s.managed (s.cur c) = some c :=
  (inv_reach hr).reg c h

/-! ### re-joining under another nickname -/

/-- while a change of nickname is pending, a presence of the nickname still held does not
complete it (it is an ordinary occupant presence) and the membership is untouched -/
theorem C18_nick_change_not_completed_by_old {s} {c : Nat} (hp : s.jpc c = .pending)
    (hne : s.req c ≠ s.cur c) (hm : s.managed (s.cur c) = some c) :
    ∃ s', step s (.avail (s.cur c)) = some s' ∧ s'.jpc c = .pending ∧ s'.joined c = s.joined c ∧
      s'.cur c = s.cur c ∧ s'.upres = s.upres + 1 := by
  simp [step, hm, hne, hp]

/-- the self-presence from the new nickname completes it: the channel now holds the new address
and is no longer registered under the old one -/
theorem C18_nick_change_completed {s} {c : Nat} (hp : s.jpc c = .pending) (hne : s.req c ≠ s.cur c)
    (hm : s.managed (s.req c) = some c) (hold : s.managed (s.cur c) = some c) :
    ∃ s', step s (.avail (s.req c)) = some s' ∧ s'.joined c = true ∧ s'.cur c = s.req c ∧
      s'.managed (s.cur c) = none ∧ s'.managed (s.req c) = some c := by
  have h1 : s.cur c ≠ s.req c := fun h => hne h.symm
  simp [step, hm, hp, upd, h1, hold, hne]

/-- a refused (or cancelled) change of nickname leaves the channel exactly where it was: still
joined, still holding and registered under the old address, nothing registered under the new one -/
theorem C18_nick_change_refused_keeps_membership {addr0 s} (hr : Reach addr0 s) {c : Nat} {e : JErr}
    (hf : s.jpc c = .failing e) (hne : s.req c ≠ s.cur c) (hj : s.joined c = true) :
    ∃ s', step s (.joinCleanup c) = some s' ∧ s'.joined c = true ∧ s'.cur c = s.cur c ∧
      s'.managed (s.cur c) = some c ∧ s'.managed (s.req c) ≠ some c := by
  have hreg := (inv_reach hr).reg c hj
  have h1 : ¬ (s.joined c = true ∧ s.cur c = s.req c) := fun h => hne h.2.symm
  have h2 : s.cur c ≠ s.req c := fun h => hne h.symm
  by_cases hm : s.managed (s.req c) = some c
  · simp [step, hf, upd, hm, hj, hreg, hne, h2]
  · simp [step, hf, upd, hm, hj, hreg]

example : ∃ s, run (init fun c => c)
    [.joinStart 0 0, .avail 0, .joinStart 0 10, .avail 0, .unavail 0, .avail 10] = some s ∧
    s.joined 0 = true ∧ s.cur 0 = 10 ∧ s.managed 0 = none ∧ s.upres = 1 := by
  simp [run, step, init, upd]

/-! ### leaving -/

/-- no lost wake-up: processing the unavailable presence of the address the channel holds leaves
a token for `Leave` … -/
theorem C18_unavailable_leaves_token {s} {c : Nat} (hm : s.managed (s.cur c) = some c) :
    ∃ s', step s (.unavail (s.cur c)) = some s' ∧ s'.depart c = true ∧ s'.joined c = false ∧
      s'.managed (s.cur c) = none := by
  simp [step, hm, upd]

/-- … which only `Leave` itself, the start of the next join (also one that gives up at once) or its
completion remove … -/
theorem C18_token_kept {s a s'} (hs : step s a = some s') {c : Nat}
    (h : s.depart c = true) (h1 : a ≠ .leaveDepart c) (h2 : ∀ x, a ≠ .joinStart c x)
    (h3 : a ≠ .avail (s.req c)) (h4 : ∀ x, a ≠ .joinAbort c x) : s'.depart c = true := by
  step_cases <;> grind

/-- … so a waiting `Leave` returns when that presence has arrived (whenever it arrived), when the
error reply arrives, or when its context is done -/
theorem C18_leave_returns {s} {c : Nat} (hw : s.lpc c = .waiting) :
    (s.depart c = true → ∃ s', step s (.leaveDepart c) = some s' ∧ s'.lastLeave c = some .ok) ∧
    (∃ s', step s (.leaveError c) = some s' ∧ s'.lastLeave c = some (.err .stanzaErr) ∧ s'.joined c = false) ∧
    (∃ s', step s (.leaveCancel c) = some s' ∧ s'.lastLeave c = some (.err .ctxErr)) := by
  refine ⟨?_, ?_, ?_⟩
  · intro h; simp [step, hw, h, upd]
  · simp [step, hw, upd]
  · simp [step, hw, upd]

/-- `Leave` returns success only by consuming the token of an unavailable presence -/
theorem C18_leave_success_iff {s a s'} (hs : step s a = some s') {c : Nat}
    (hnew : s'.lastLeave c = some .ok) (hold : s.lastLeave c ≠ some .ok) :
    a = .leaveDepart c ∧ s.depart c = true := by
  step_cases <;> grind

/-! ### calls of one channel and the other channels (round C) -/

/-- no call (`Join`, `Leave` and every way they end, clean-ups included) of channel `c` touches
another channel `c'`: its membership, the address it holds, its departure token, its ghost — and
its registration under the address it holds stays.  (Every clean-up of the code is guarded by "is
the entry mine?"; this is the statement those guards exist for.) -/
theorem C18_call_frame {s a s'} (hs : step s a = some s') {c c' : Nat}
    (hcall : a.callOf = some c) (hne : c' ≠ c) :
    s'.joined c' = s.joined c' ∧ s'.cur c' = s.cur c' ∧ s'.depart c' = s.depart c' ∧
    s'.memberX c' = s.memberX c' ∧ s'.jpc c' = s.jpc c' ∧
    (s.managed (s.cur c') = some c' → s'.managed (s.cur c') = some c') := by
  step_cases <;> simp only [Act.callOf] at hcall <;> grind

/-- in particular a `Leave` that the room answers with an error on a channel that does not hold
the registration (its join failed or was refused, it has left) leaves the registration of the
channel that does hold it alone … -/
theorem C18_refused_leave_of_other_keeps_registration {s} {c c' : Nat} (hw : s.lpc c = .waiting)
    (hm : s.managed (s.cur c) = some c') (hne : c' ≠ c) :
    ∃ s', step s (.leaveError c) = some s' ∧ s'.managed = s.managed ∧ s'.joined c' = s.joined c' := by
  have h : ¬ (s.managed (s.cur c) = some c) := by rw [hm]; intro h; injection h with h; exact hne h
  simp [step, hw, h, upd, hne]

/-- … so the occupant's unavailable presence still ends the membership of the joined channel,
whatever calls other channels made in between (`Reach` covers them): in every reachable state a
joined channel is one unavailable presence away from `Joined() = false` with the departure
token left for `Leave` -/
theorem C18_unavailable_ends_membership {addr0 s} (hr : Reach addr0 s) {c : Nat} (hj : s.joined c = true) :
    ∃ s', step s (.unavail (s.cur c)) = some s' ∧ s'.joined c = false ∧ s'.depart c = true ∧
      s'.managed (s.cur c) = none := by
  have hm := (inv_reach hr).reg c hj
  simp [step, hm, upd]

example : ∃ s, run (init fun _ => 0)
    [.joinStart 0 0, .joinError 0, .joinCleanup 0, .joinStart 1 0, .avail 0,
     .leaveStart 0, .leaveError 0, .unavail 0] = some s ∧ s.joined 1 = false ∧ s.depart 1 = true := by
  simp [run, step, init, upd]
example : ∃ s, run (init fun _ => 0)
    [.joinStart 0 0, .joinError 0, .joinCleanup 0, .joinStart 1 0, .avail 0,
     .leaveStart 0, .leaveError 0] = some s ∧ s.joined 1 = true ∧ s.managed 0 = some 1 := by
  simp [run, step, init, upd]

/-- a pending `Join` can always end: by the error reply, by its context, and — while it is
registered under the address it asked for — by the self-presence from that address; the two
failures return after the clean-up -/
theorem C18_join_returns {s} {c : Nat} (hp : s.jpc c = .pending) :
    (∃ s', step s (.joinError c) = some s' ∧ s'.jpc c = .failing .stanzaErr) ∧
    (∃ s', step s (.joinCancel c) = some s' ∧ s'.jpc c = .failing .ctxErr) ∧
    (s.managed (s.req c) = some c → ∃ s', step s (.avail (s.req c)) = some s' ∧ s'.lastJoin c = some .ok) := by
  refine ⟨by simp [step, hp, upd], by simp [step, hp, upd], ?_⟩
  intro hm
  simp [step, hm, hp, upd]

/-! ### the payload of the room's presences (round C) -/

/-- every name of XEP-0045 decodes to its own constant (so the decoders are the inverses of
`String()` on the defined values) … -/
theorem C18_affiliation_names_decode (a : Aff) : parseAff a.name = some a := by
  cases a <;> decide

theorem C18_role_names_decode (r : Role) : parseRole r.name = some r := by
  cases r <;> decide

/-- … hence every `<item/>` whose attributes are absent or carry a name of XEP-0045 — in
particular `affiliation='outcast' role='none'`, the ban — decodes: the presence it arrives in is
one of those the `avail` / `unavail` steps of the LTS stand for, never a handler error -/
theorem C18_legal_item_decodes (a : Option Aff) (r : Option Role) :
    decodeItem ⟨a.map Aff.name, r.map Role.name⟩ =
      some ((match a with | some a => a | none => .none), (match r with | some r => r | none => .none)) := by
  cases a <;> cases r <;> simp [decodeItem, C18_affiliation_names_decode, C18_role_names_decode]

example : decodeItem ⟨some "outcast", some "none"⟩ = some (.outcast, .none) := by decide
example : decodeItem ⟨some "bogus", none⟩ = none := by decide

/-- probe fact: the real decoding of `<item affiliation=v/>` / `<item role=v/>` into `muc.Item`,
run on the whole probe domain (all names of both enumerations and near misses), is `parseAff` /
`parseRole` followed by the constant's value; absent attributes give the zero values -/
theorem C18_gen_item_decoding :
    Generated.C18.affiliationDecode = some (probeNames.map fun n => (n, (parseAff n).map Aff.code)) ∧
    Generated.C18.roleDecode = some (probeNames.map fun n => (n, (parseRole n).map Role.code)) ∧
    Generated.C18.absentDecode = some (Aff.none.code, Role.none.code) := by decide

/-- probe fact: `String()` of the defined constants are the names of the model -/
theorem C18_gen_item_names :
    Generated.C18.affiliationNames = some (Aff.all.map fun a => (a.code, a.name)) ∧
    Generated.C18.roleNames = some (Role.all.map fun r => (r.code, r.name)) := by decide

/-! ### the room's error reply (round D) -/

/-- `Join` returns the room's stanza error, and `Leave` recognises the refusal, whatever the stanza
namespace of the session is and whatever the room echoes in front of the error: if no child before
it is an element called `error`, the scan decodes exactly the error element — `ns` is arbitrary
(`jabber:client`, `jabber:server`, `jabber:component:accept`, none) -/
theorem C18_error_reply_found (ns : String) (pre post : List RChild)
    (hpre : ∀ c ∈ pre, c.isError = false) :
    findError (pre ++ RChild.elem ns "error" :: post) = some pre.length := by
  induction pre with
  | nil => simp [findError, RChild.isError]
  | cons c cs ih =>
    have hc : c.isError = false := hpre c (by simp)
    have := ih (fun d hd => hpre d (by simp [hd]))
    simp [findError, hc, this]

/-- … so which error child is decoded does not depend on the namespace of the stream -/
theorem C18_error_reply_any_namespace (ns ns' : String) (pre post : List RChild)
    (hpre : ∀ c ∈ pre, c.isError = false) :
    findError (pre ++ RChild.elem ns "error" :: post) = findError (pre ++ RChild.elem ns' "error" :: post) := by
  rw [C18_error_reply_found ns pre post hpre, C18_error_reply_found ns' pre post hpre]

/-- a reply is taken for a refusal only if it carries an error element: nothing else — echoed
payloads, white space, elements with a similar name — is mistaken for one -/
theorem C18_error_reply_only_error (cs : List RChild) :
    findError cs = none ↔ ∀ c ∈ cs, c.isError = false := by
  induction cs with
  | nil => simp [findError]
  | cons c cs ih =>
    cases hc : c.isError <;> simp [findError, hc, ih]

/-- the index found is that of an element called `error`, and the first such -/
theorem C18_error_reply_first {cs : List RChild} {i : Nat} (h : findError cs = some i) :
    (∃ c, cs[i]? = some c ∧ c.isError = true) ∧ ∀ j, j < i → ∀ c, cs[j]? = some c → c.isError = false := by
  induction cs generalizing i with
  | nil => simp [findError] at h
  | cons d ds ih =>
    cases hd : d.isError
    · simp only [findError, hd] at h
      cases hf : findError ds with
      | none => simp [hf] at h
      | some k =>
        simp [hf] at h
        subst h
        obtain ⟨h1, h2⟩ := ih hf
        refine ⟨by simpa using h1, ?_⟩
        intro j hj c hc
        cases j with
        | zero => simp at hc; subst hc; exact hd
        | succ j => exact h2 j (by omega) c (by simpa using hc)
    · simp [findError, hd] at h
      subst h
      exact ⟨⟨d, by simp, hd⟩, by intro j hj; omega⟩

/-- Leaving returns when an error reply arrives — on a session of any stanza namespace, whatever
the room echoes in front of the error: the waiting `Leave` ends with the room's stanza error (and,
known finding, the code ends the membership) -/
theorem C18_refused_leave_any_namespace {s} {c : Nat} (ns : String) (pre post : List RChild)
    (hpre : ∀ d ∈ pre, d.isError = false) (hw : s.lpc c = .waiting) :
    ∃ a s', replyAct true c (pre ++ RChild.elem ns "error" :: post) = some a ∧ step s a = some s' ∧
      s'.lpc c = .idle ∧ s'.lastLeave c = some (.err .stanzaErr) ∧ s'.joined c = false := by
  refine ⟨.leaveError c, ?_⟩
  simp [replyAct, C18_error_reply_found ns pre post hpre, step, hw, upd]

/-- … and a pending `Join` takes the room's error: it will return the stanza error -/
theorem C18_refused_join_any_namespace {s} {c : Nat} (ns : String) (pre post : List RChild)
    (hpre : ∀ d ∈ pre, d.isError = false) (hp : s.jpc c = .pending) :
    ∃ a s' s'', replyAct false c (pre ++ RChild.elem ns "error" :: post) = some a ∧ step s a = some s' ∧
      step s' (.joinCleanup c) = some s'' ∧ s''.jpc c = .idle ∧ s''.lastJoin c = some (.err .stanzaErr) := by
  refine ⟨.joinError c, ?_⟩
  simp [replyAct, C18_error_reply_found ns pre post hpre, step, hp, upd]

/-- a reply without an error element is no refusal (nothing of the bookkeeping moves on it) -/
theorem C18_reply_without_error_is_no_refusal (leave : Bool) (c : Nat) (cs : List RChild)
    (h : ∀ d ∈ cs, d.isError = false) : replyAct leave c cs = none := by
  simp [replyAct, (C18_error_reply_only_error cs).mpr h]

example : replyAct true 0 [.elem nsMuc "x", .text, .elem nsAccept "error"] = some (.leaveError 0) := by decide

-- non-vacuity: a component session's reply with the echoed muc payload and white space first
example : findError [.elem nsMuc "x", .text, .elem nsAccept "error"] = some 2 := by decide
example : findError [.elem nsMuc "x", .elem "urn:verif" "errors", .text] = none := by decide
example : ∀ c ∈ [RChild.elem nsMuc "x", RChild.text], c.isError = false := by decide

set_option maxRecDepth 20000 in
/-- probe fact: `stanza.UnmarshalError` — the function through which `JoinPresence` and
`LeavePresence` see the room's error reply — run on the children of every reply of the probe
domain (at most three children out of white space, echoed payloads, a near miss of the name and
the error element in each of the five stanza namespaces; at most one error element), decodes
exactly the child `findError` names, and returns no stanza error where `findError` finds none -/
theorem C18_gen_error_reply_scan :
    Generated.C18.errorScan = some (replyDomain.map fun cs => (cs, findError (replyChildren cs))) := by
  decide

/-! ### overlapping calls on one channel; exits other than the room's answer (round E) -/

/-- a `Join` call that gives up before its hand-off request is queued (its context is over and the
slot is taken by a pending call of the same channel, or the `select` chose the context) returns the
context's error — `ErrOccupantInUse` iff another channel is registered under the address — … -/
theorem C18_aborted_join_returns (s : St) (c a : Nat) :
    ∃ s', step s (.joinAbort c a) = some s' ∧
      s'.lastAbort c = some (.err (if s.managed a ≠ none ∧ s.managed a ≠ some c then .refused else .ctxErr)) := by
  by_cases h : s.managed a ≠ none ∧ s.managed a ≠ some c <;> simp [step, h, upd]

/-- … and changes nothing of the bookkeeping except that it empties the channel's own `depart`:
registrations, every call in flight (also the pending `Join` of the same channel and its hand-off
request), membership, addresses held and requested, ghosts and callback counts are as before -/
theorem C18_aborted_join_frame {s s'} {c a : Nat} (hs : step s (.joinAbort c a) = some s') :
    s'.managed = s.managed ∧ s'.jpc = s.jpc ∧ s'.lpc = s.lpc ∧ s'.joined = s.joined ∧ s'.cur = s.cur ∧
    s'.req = s.req ∧ s'.member = s.member ∧ s'.memberX = s.memberX ∧ s'.lastJoin = s.lastJoin ∧
    s'.lastLeave = s.lastLeave ∧ s'.upres = s.upres ∧ s'.invites = s.invites ∧
    (∀ c', c' ≠ c → s'.depart c' = s.depart c') := by
  simp only [step] at hs
  split at hs <;> simp at hs <;> subst hs <;> simp [upd]
  intro c' hc'; simp [hc']

/-- in particular the pending call is not disturbed: the self-presence of the address it asked for
still completes it, whatever calls of that channel gave up in the meantime -/
theorem C18_aborted_join_keeps_pending_join {s s'} {c a : Nat} (hs : step s (.joinAbort c a) = some s')
    (hp : s.jpc c = .pending) (hm : s.managed (s.req c) = some c) :
    ∃ s'', step s' (.avail (s.req c)) = some s'' ∧ s''.lastJoin c = some .ok ∧ s''.joined c = true ∧
      s''.cur c = s.req c := by
  obtain ⟨h1, h2, _, _, _, h6, _⟩ := C18_aborted_join_frame hs
  have hm' : s'.managed (s'.req c) = some c := by rw [h1, h6]; exact hm
  have hp' : s'.jpc c = .pending := by rw [h2]; exact hp
  have := C18_self_presence_completes_join hm' hp'
  rw [h6] at this
  obtain ⟨s'', e1, e2, e3, _, e5⟩ := this
  exact ⟨s'', e1, e2, e3, e5⟩

/-- no stale registration, in every reachable state: whoever is registered under an occupant address
is joined under it or has a `Join` call in flight that asked for it — a join that failed, was
cancelled, or gave up before it had queued its request leaves nothing registered (so the room's
presences for that address are ignored again and another channel may ask for it) -/
theorem C18_no_stale_registration {addr0 s} (hr : Reach addr0 s) {a c : Nat} (hm : s.managed a = some c) :
    (a = s.cur c ∧ s.joined c = true) ∨ (a = s.req c ∧ s.jpc c ≠ .idle) :=
  owned_reach hr a c hm

/-- … hence between calls presences of an address the channel is not joined under change nothing -/
theorem C18_idle_unjoined_address_ignored {addr0 s} (hr : Reach addr0 s) {a : Nat}
    (h : ∀ c, s.jpc c = .idle) (hj : ∀ c, s.joined c = true → s.cur c ≠ a) : step s (.avail a) = some s := by
  cases hm : s.managed a with
  | none => simp [step, hm]
  | some c =>
    rcases C18_no_stale_registration hr hm with ⟨h1, h2⟩ | ⟨_, h2⟩
    · exact absurd h1.symm (hj c h2)
    · exact absurd (h c) h2

/-- the third exit of `JoinPresence` (the request cannot be sent, the reply carries no error element):
the call returns that error after the same clean-up as every failed join; membership, address and
ghost are untouched -/
theorem C18_join_fail_returned {s} {c : Nat} (hp : s.jpc c = .pending) :
    ∃ s' s'', step s (.joinFail c) = some s' ∧ step s' (.joinCleanup c) = some s'' ∧
      s''.lastJoin c = some (.err .other) ∧ s''.jpc c = .idle ∧ s''.joined = s.joined ∧ s''.cur = s.cur ∧
      s''.memberX = s.memberX := by
  simp [step, hp, upd]

/-- the third exit of `LeavePresence`: a plain error, nothing of the bookkeeping moves (the channel
is still joined, still registered, a departure token is kept) -/
theorem C18_leave_fail_frame {s s'} {c : Nat} (hs : step s (.leaveFail c) = some s') :
    s.lpc c = .waiting ∧ s'.lastLeave c = some (.err .other) ∧ s'.managed = s.managed ∧ s'.joined = s.joined ∧
    s'.depart = s.depart ∧ s'.memberX = s.memberX ∧ s'.member = s.member ∧ s'.cur = s.cur ∧ s'.jpc = s.jpc := by
  simp only [step] at hs
  split at hs <;> simp at hs
  subst hs; simp [upd, *]

/-- every way a `Leave` call can end, exhaustively: success only by consuming the token of the
unavailable presence, the stanza error only by the room's error reply, the context's error only
after its context was done, anything else only through the send / reply failure -/
theorem C18_leave_outcome {s a s'} (hs : step s a = some s') {c : Nat} {o : JOut}
    (hnew : s'.lastLeave c = some o) (hold : s.lastLeave c ≠ some o) :
    s.lpc c = .waiting ∧
    ((o = .ok ∧ a = .leaveDepart c ∧ s.depart c = true) ∨ (o = .err .stanzaErr ∧ a = .leaveError c) ∨
     (o = .err .ctxErr ∧ a = .leaveCancel c) ∨ (o = .err .other ∧ a = .leaveFail c)) := by
  step_cases <;> grind

/-- … and every way a `Join` call can end -/
theorem C18_join_outcome {s a s'} (hs : step s a = some s') {c : Nat} {o : JOut}
    (hnew : s'.lastJoin c = some o) (hold : s.lastJoin c ≠ some o) :
    (o = .ok ∧ a = .avail (s.req c) ∧ s.jpc c = .pending) ∨
    (o = .err .refused ∧ a.isJoinStartOf c = true ∧ s.jpc c = .idle) ∨
    (∃ e, o = .err e ∧ a = .joinCleanup c ∧ s.jpc c = .failing e) := by
  step_cases <;> simp only [Act.isJoinStartOf] <;> grind

-- non-vacuity: joined, a change of nickname pending, a second call gives up, the room confirms
example : ∃ s, run (init fun c => c)
    [.joinStart 0 0, .avail 0, .joinStart 0 10, .joinAbort 0 20, .joinAbort 0 10, .avail 10] = some s ∧
    s.joined 0 = true ∧ s.cur 0 = 10 ∧ s.lastJoin 0 = some .ok ∧ s.managed 20 = none ∧
    s.lastAbort 0 = some (.err .ctxErr) := by
  simp [run, step, init, upd]
example : ∃ s, run (init fun _ => 0) [.joinStart 0 0, .avail 0, .joinAbort 1 0] = some s ∧
    s.lastAbort 1 = some (.err .refused) ∧ s.managed 0 = some 0 := by
  simp [run, step, init, upd]
example : ∃ s, run (init fun c => c) [.joinStart 0 0, .avail 0, .leaveStart 0, .leaveFail 0] = some s ∧
    s.joined 0 = true ∧ s.lastLeave 0 = some (.err .other) := by
  simp [run, step, init, upd]
example : ∃ s, run (init fun c => c) [.joinStart 0 0, .joinFail 0, .joinCleanup 0, .avail 0] = some s ∧
    s.joined 0 = false ∧ s.managed 0 = none ∧ s.upres = 0 ∧ s.lastJoin 0 = some (.err .other) := by
  simp [run, step, init, upd]

/-! ### presences for rooms that were never joined, invitations -/

/-- presences from an address no channel is registered for change nothing and call nothing -/
theorem C18_unmanaged_ignored {addr0 s} (hr : Reach addr0 s) {a : Nat} (hm : s.managed a = none) :
    step s (.avail a) = some s ∧
    ∃ s', step s (.unavail a) = some s' ∧ s'.joined = s.joined ∧ s'.managed = s.managed ∧
      s'.upres = s.upres ∧ s'.depart = s.depart ∧ ∀ c, s'.memberX c = s.memberX c := by
  have hi := inv_reach hr
  refine ⟨by simp [step, hm], ?_⟩
  simp only [step, hm]
  refine ⟨_, rfl, rfl, rfl, rfl, rfl, ?_⟩
  intro c
  show (if s.cur c = a then false else s.memberX c) = s.memberX c
  by_cases hc : s.cur c = a
  · have : s.joined c = false := by
      cases hj : s.joined c
      · rfl
      · have := hi.reg c hj; rw [hc, hm] at this; simp at this
    simp [hc, ← hi.mem c, this]
  · simp [hc]

/- FULL-STRENGTH STATEMENT (property text), false for the code as it is:

    theorem C18_invite_once : step s (.message cs) = some s' → s'.invites = s.invites + invitationsIn cs

  The multiplexer calls the handler once per muc#user payload with the whole message, and the
  handler keeps only the last payload.  Known finding
  `clause=invite-once key=several-muc-user-payloads-in-one-message`. -/

/-- the callback is called for messages only, `inviteCalls` times -/
theorem C18_invite_calls {s a s'} (hs : step s a = some s') :
    s'.invites = match a with
      | .message cs => s.invites + inviteCalls cs
      | _ => s.invites := by
  step_cases <;> simp

theorem invitationsIn_payloads (cs : List Child) : invitationsIn cs = invitationsIn (mucPayloads cs) := by
  unfold invitationsIn mucPayloads
  rw [List.filter_filter]
  congr 1
  apply List.filter_congr
  intro x _
  cases x <;> rfl

/-- each mediated invitation is delivered exactly once — for every message that carries at most one
muc#user payload (what a room forwards), whatever else the message carries and wherever the payload
stands among the children -/
theorem C18_invite_once_partial {s s'} {cs : List Child} (hs : step s (.message cs) = some s')
    (h : (mucPayloads cs).length ≤ 1) : s'.invites = s.invites + invitationsIn cs := by
  have hc := C18_invite_calls hs
  simp only at hc
  rw [hc, invitationsIn_payloads]
  unfold inviteCalls
  generalize mucPayloads cs = l at h
  match l, h with
  | [], _ => rfl
  | [x], _ => cases x <;> rfl
  | _ :: _ :: _, h => simp at h

/-- negation witness of the full-strength statement: an invitation followed by a decline in one
message is not delivered at all (and one that follows a decline is delivered twice) -/
theorem C18_invite_once_fails :
    ¬ (∀ s s' cs, step s (.message cs) = some s' → s'.invites = s.invites + invitationsIn cs) := by
  intro h
  have := h (init fun c => c) _ [.mucInvite, .mucOther] rfl
  revert this
  decide

example : inviteCalls [.mucOther, .mucInvite] = 2 ∧ invitationsIn [.mucOther, .mucInvite] = 1 := by decide
example : inviteCalls [.mucInvite, .mucOther] = 0 ∧ invitationsIn [.mucInvite, .mucOther] = 1 := by decide

/-- the order of the children does not matter (at most one muc#user payload) -/
theorem C18_invite_order_irrelevant {cs cs' : List Child} (h : cs.Perm cs') (h1 : (mucPayloads cs).length ≤ 1) :
    inviteCalls cs = inviteCalls cs' := by
  have hp : (mucPayloads cs).length = (mucPayloads cs').length := (h.filter _).length_eq
  have e1 := C18_invite_once_partial (s := init fun c => c) (cs := cs) rfl h1
  have e2 := C18_invite_once_partial (s := init fun c => c) (cs := cs') rfl (hp ▸ h1)
  have hi : invitationsIn cs = invitationsIn cs' := by
    unfold invitationsIn
    exact (h.filter _).length_eq
  simp [init] at e1 e2
  omega

/-- a message with exactly one mediated invitation payload, anywhere, gives exactly one callback;
one with a decline instead, or without any muc#user payload, gives none (body, subject, legacy direct
invitation, other payloads) -/
theorem C18_invite_anywhere (pre post : List Child) (hpre : ∀ c ∈ pre, c.isMucUser = false)
    (hpost : ∀ c ∈ post, c.isMucUser = false) :
    inviteCalls (pre ++ .mucInvite :: post) = 1 ∧ inviteCalls (pre ++ .mucOther :: post) = 0 ∧
    inviteCalls (pre ++ post) = 0 := by
  have h : ∀ l : List Child, (∀ c ∈ l, c.isMucUser = false) → mucPayloads l = [] := by
    intro l hl
    apply List.filter_eq_nil_iff.mpr
    intro x hx; simp [hl x hx]
  have h1 := h pre hpre
  have h2 := h post hpost
  unfold mucPayloads at h1 h2
  unfold inviteCalls mucPayloads
  simp [List.filter_append, List.filter_cons, Child.isMucUser, h1, h2]

example : inviteCalls [.body, .legacyX, .mucInvite, .subject] = 1 := by decide
example : inviteCalls [.body, .legacyX, .mucOther] = 0 := by decide

/-! ### configuration: registration with the multiplexer, one Client on several sessions (round F) -/

/-- probe fact: on the real multiplexer `muc.HandleClient(h)` makes `h` the handler of available and
unavailable presences and of normal messages with a muc#user payload in every stanza namespace,
whichever callbacks are set at registration time (they are exported fields, assigned whenever the
application likes) -/
theorem C18_gen_registration :
    Generated.C18.registration =
      some (regConfigs.map fun (ns, i, u) => ((ns, i, u), some (registeredFor i u))) := by decide

/-- … so a callback assigned after the registration gets exactly the invitations one assigned before
gets: delivery depends on the field when the message is handled, not on the registration -/
theorem C18_late_callback_same_delivery (atReg : Bool) (cs : List Child) :
    (registeredFor atReg false).2.2 = true ∧ invitesDelivered true cs = inviteCalls cs ∧
    invitesDelivered false cs = 0 := by
  simp [registeredFor, invitesDelivered]

/-- one Client on several sessions: `Client.managed` is keyed by the occupant address alone and the
model's refusal does not know sessions — a second channel for an address in use is refused wherever
it lives.  Why it must be so: if a channel of another session were allowed to take the registration
over (`takeover`), the occupant's unavailable presence would end the membership of the wrong channel
and the first channel would stay joined forever — the invariant `reg` fails after three steps -/
theorem C18_takeover_breaks_registration :
    let s0 := init fun _ => 0
    ∃ s1 s2, step s0 (.joinStart 0 0) = some s1 ∧ step s1 (.avail 0) = some s2 ∧ s2.joined 0 = true ∧
      -- the refusal keeps channel 0 registered …
      (∃ s3, step s2 (.joinStart 1 0) = some s3 ∧ s3.managed 0 = some 0 ∧ s3.lastJoin 1 = some (.err .refused)) ∧
      -- … whereas the take-over leaves a joined channel that is not registered under its address
      (let s3 : St := { s2 with managed := upd s2.managed 0 (some 1), req := upd s2.req 1 0, jpc := upd s2.jpc 1 .pending }
       s3.joined 0 = true ∧ s3.managed (s3.cur 0) ≠ some 0 ∧
       ∃ s4, step s3 (.unavail 0) = some s4 ∧ s4.joined 0 = true ∧ s4.joined 1 = false) := by
  simp [step, init, upd]

/-! ### sessions: the limit of the model, as a theorem pair (round G) -/

/-- projection to one session: if all channels live on one session, the session-aware refusal IS the
LTS's refusal — every theorem about `step` (the invariant `Inv` with `reg`, `Owned`, the membership
specification) holds of it … -/
theorem C18_session_guard_one_session (sess : Nat → Nat) (h : ∀ c c', sess c = sess c') (s : St) (a : Act) :
    stepS sess s a = step s a := by
  cases a <;> simp only [stepS, step]
  case joinStart c x =>
    cases hm : s.managed x with
    | none => simp
    | some c' => simp [h c' c]

/-- … in particular it keeps the invariant (a joined channel is registered under the address it holds) -/
theorem C18_session_guard_keeps_reg_on_one_session (sess : Nat → Nat) (h : ∀ c c', sess c = sess c')
    {s s' : St} {a : Act} (hi : Inv s) (hs : stepS sess s a = some s') : Inv s' :=
  inv_step hi (C18_session_guard_one_session sess h s a ▸ hs)

/-- mixed sessions: with two channels of one occupant address on two sessions the session-aware
refusal lets the second take the registration over; the first is joined but no longer registered
(`reg` fails), and its unavailable presence ends the membership of the second instead -/
theorem C18_session_guard_breaks_reg :
    ∃ s, runS (fun c => c) (init fun _ => 0) [.joinStart 0 0, .avail 0, .joinStart 1 0, .avail 0] = some s ∧
      s.joined 0 = true ∧ s.managed (s.cur 0) ≠ some 0 ∧ ¬ Inv s ∧
      ∃ s', stepS (fun c => c) s (.unavail 0) = some s' ∧ s'.joined 0 = true ∧ s'.joined 1 = false := by
  refine ⟨_, rfl, by simp [step, init, upd], by simp [step, init, upd], ?_, ?_⟩
  · intro hi
    have := hi.reg 0
    simp [step, init, upd] at this
  · simp [stepS, step, init, upd]

/-! ### two LIVE `Join` calls on one channel: the hand-off slot (round G, `Model/MucLive.lean`) -/

section Live
open XmppModel.MucLive

/-- the registration invariant under overlapping live calls, one step: a joined channel stays
registered under the address it holds — given that a call which waits for the slot and made its
registration itself does not ask for the address the channel is joined under (`hb`; true of the code's
runs: such a registration is made only where none was, and a hand-off lets the waiting call in) -/
theorem C18_live_reg_step_partial {s s' : LSt} {a : LAct} (h : s.joined = true → s.managed s.cur = true)
    (hb : ∀ i, (s.call i).pc = .blocked → (s.call i).fresh = true → s.joined = true → s.cur ≠ (s.call i).req)
    (hs : MucLive.step s a = some s') : s'.joined = true → s'.managed s'.cur = true := by
  cases a <;> simp only [MucLive.step] at hs
  case start i x =>
    split at hs <;> simp at hs; subst hs; simp [setM]; intro hj; simp [h hj]
  case fail i e =>
    split at hs <;> simp at hs <;> subst hs <;> simp [refill, setM] <;> (repeat' split) <;>
      (first | (intro hj; have := hb i (by assumption) (by assumption) hj; simp_all [setM]) | simp_all [setM])
  case avail x =>
    split at hs
    · simp at hs; subst hs; exact h
    · split at hs
      · simp at hs; subst hs; exact h
      · split at hs
        · simp at hs; subst hs
          intro _
          have hmx : s.managed x = true := by simp_all
          by_cases hc : s.cur = x
          · simp [hc, hmx]
          · have hx : ¬ x = s.cur := fun e => hc e.symm
            simp [hc, setM, hx, hmx]
        · split at hs <;> simp at hs <;> subst hs <;> simp [refill] <;> (repeat' split) <;> simp_all
  case unavail x =>
    simp at hs; subst hs; simp [setM]; intro h1 h2; simp [h1, h h2]

/-- … and without side condition in every reachable state of the two-call model (inductive invariant
`LInv` of `Lemmas/MucLive.lean`: reg; a waiting call that made its registration itself does not ask
for the address the channel is joined under; the slot holds the request of a call that queued it;
calls wait only while the slot is taken): whatever two live `Join` calls do to each other, a joined
channel stays registered under the address it holds, so the occupant's unavailable presence finds it -/
theorem C18_live_registered_while_joined {addr0 : Nat} {s : LSt} (hr : MucLive.Reach addr0 s)
    (hj : s.joined = true) : s.managed s.cur = true :=
  (linv_reach hr).reg hj

/-- the request in the hand-off slot always belongs to a call that has queued it and is still pending,
and a call waits for the slot only while another call's request is in it -/
theorem C18_live_slot_discipline {addr0 : Nat} {s : LSt} (hr : MucLive.Reach addr0 s) :
    (∀ i, s.slot = some i → (s.call i).pc = .queued) ∧ (∀ i, s.slot = none → (s.call i).pc ≠ .blocked) :=
  ⟨(linv_reach hr).sq, (linv_reach hr).nb⟩

/-- the self-presence of the address the call IN THE SLOT asked for completes that call -/
theorem C18_live_self_presence_completes {s : LSt} {i : Bool} (hslot : s.slot = some i)
    (hm : s.managed (s.call i).req = true) :
    ∃ s', MucLive.step s (.avail (s.call i).req) = some s' ∧ (s'.call i).pc = .done .ok ∧ s'.joined = true ∧
      s'.cur = (s.call i).req := by
  simp [MucLive.step, hslot, hm, setCall]

/- FULL-STRENGTH STATEMENT (property text: a Join returns success once the self-presence for the
   address it asked for has arrived), false for the code with two live calls:

     ∀ reachable s, (s.call i).pc ∈ {queued, orphan} → s.managed (s.call i).req →
       ∃ s', step s (.avail (s.call i).req) = some s' ∧ (s'.call i).pc = .done .ok

   Negation witnesses (both reproduced on the real code: known findings, `C18 liveoverlap …`): -/

/-- joined as 0; call A asks for 10 (queued), call B asks for 20 (blocked); an ordinary presence of 0
makes the handler take A's request out, B's moves in, the put-back fails: A is an orphan and the
self-presence of 10 — the channel is registered there — no longer completes it -/
theorem C18_live_overlap_request_lost :
    ∃ s s', MucLive.run (MucLive.init 0)
        [.start false 0, .avail 0, .start false 10, .start true 20, .avail 0] = some s ∧
      (s.call false).pc = .orphan ∧ s.managed 10 = true ∧ s.slot = some true ∧
      MucLive.step s (.avail 10) = some s' ∧ (s'.call false).pc = .orphan ∧ s'.cur = 0 := by
  refine ⟨_, _, rfl, ?_, ?_, ?_, rfl, ?_, ?_⟩ <;> decide

/-- not joined; calls A and B both ask for 0; A is cancelled: its clean-up removes the registration
B relies on, the room's self-presence is ignored and B stays pending -/
theorem C18_live_overlap_registration_removed :
    ∃ s s', MucLive.run (MucLive.init 0) [.start false 0, .start true 0, .fail false .ctxErr] = some s ∧
      (s.call true).pc = .queued ∧ s.slot = some true ∧ s.managed 0 = false ∧
      MucLive.step s (.avail 0) = some s' ∧ (s'.call true).pc = .queued ∧ s'.joined = false := by
  refine ⟨_, _, rfl, ?_, ?_, ?_, rfl, ?_, ?_⟩ <;> decide

/-- with ONE call at a time the slot never drops a request: a mismatching presence leaves the queued
request where it was (the put-back succeeds) -/
theorem C18_live_single_call_keeps_request {s : LSt} {i : Bool} {a : Nat} (hslot : s.slot = some i)
    (hm : s.managed a = true) (hne : (s.call i).req ≠ a) (hno : ∀ j, (s.call j).pc ≠ .blocked) :
    MucLive.step s (.avail a) = some { s with upres := s.upres + 1 } := by
  simp [MucLive.step, hslot, hm, hne, refill, hno]

/-- `Leave` returns nil only by taking a departure token, and there is at most one token per processed
unavailable presence: in every reachable state of the leave model the calls that returned nil plus
the token still in `depart` do not exceed the presences processed -/
theorem C18_live_leave_tokens {s : LvSt} (hr : LvReach s) :
    s.returned + (if s.token then 1 else 0) ≤ s.presences := by
  induction hr with
  | init => decide
  | step _ hs ih =>
    rename_i s0 s1 a _
    cases a <;> simp only [lvStep] at hs
    · simp at hs; subst hs; simpa using ih
    · simp at hs; subst hs; simp; split at ih <;> omega
    · split at hs <;> simp at hs
      subst hs
      rename_i h
      simp [h.1] at ih
      simp; omega

/-- negation witness of "leaving returns when that unavailable presence arrives" for two waiting calls:
after one presence one call returns, the other cannot (it waits for its context) — reproduced on the
real code (`C18 liveoverlap leaves`, known finding) -/
theorem C18_live_overlap_leave_one_token :
    ∃ s, lvRun lvInit [.leaveStart, .leaveStart, .unavail, .leaveReturn] = some s ∧ s.waiting = 1 ∧
      s.joined = false ∧ lvStep s .leaveReturn = none := by
  refine ⟨_, rfl, ?_, ?_, ?_⟩ <;> decide

end Live

/-! ### a presence whose muc#user payload stands twice (round F)

The multiplexer runs the handler once per child it is registered for, each time with the whole
presence: such a presence is two consecutive `avail` / `unavail` steps.  The bookkeeping is the same
as for one (the second run is an ordinary occupant presence / finds nothing). -/

theorem C18_unavailable_twice {s s1 s2 : St} {a : Nat} (h1 : step s (.unavail a) = some s1)
    (h2 : step s1 (.unavail a) = some s2) (c x : Nat) :
    s2.joined c = s1.joined c ∧ s2.managed x = s1.managed x ∧ s2.depart c = s1.depart c ∧
    s2.jpc c = s1.jpc c ∧ s2.cur c = s1.cur c ∧ s2.memberX c = s1.memberX c := by
  simp only [step] at h1
  split at h1 <;> (try split at h1) <;> simp at h1 <;> subst h1 <;> simp only [step] at h2 <;>
    (split at h2 <;> (try split at h2) <;> simp at h2 <;> subst h2 <;> (try simp only [upd] at *) <;> grind [upd])

theorem C18_available_twice {s s1 s2 : St} {a : Nat} (h1 : step s (.avail a) = some s1)
    (h2 : step s1 (.avail a) = some s2) (c x : Nat) :
    s2.joined c = s1.joined c ∧ s2.managed x = s1.managed x ∧ s2.cur c = s1.cur c ∧ s2.jpc c = s1.jpc c ∧
    s2.lastJoin c = s1.lastJoin c ∧ s2.depart c = s1.depart c ∧ s2.memberX c = s1.memberX c := by
  simp only [step] at h1
  split at h1 <;> (try split at h1) <;> simp at h1 <;> subst h1 <;> simp only [step] at h2 <;>
    (split at h2 <;> (try split at h2) <;> simp at h2 <;> subst h2 <;> (try simp only [upd] at *) <;> grind [upd])

end XmppModel.Props.C18
