import XmppModel.Model.Escape
import XmppModel.Lemmas.Escape
import XmppModel.Generated.C16
/-!
# C16 — JID escaping is a lossless, chunk-independent transform

Property theorems only (helpers are in `Lemmas/Escape.lean`).  Quantifiers: every byte
string, every split of the input, every destination capacity, every schedule of the
surrounding loop.
-/
namespace XmppModel.Props.C16
open XmppModel XmppModel.Escape

/-! ### Tie to the source: the regenerated constants are the model's constants -/

/-- the bytes the real `jid.Escape` rewrites (all 256 one-byte strings evaluated on every run)
are the model's set -/
theorem C16_gen_escape_set : Generated.C16.escapeSet = some escSet := by decide

/-- … and what it writes for each of them is the model's `escByte`; every other byte value is
left alone by both -/
theorem C16_gen_escape_table : Generated.C16.escapeTable = some escTable := by decide

/-- the table of rewritten codes, obtained by running the real `Unescape` on all 65536
byte pairs, is exactly the model's `shouldUnescape`/`unhex2` -/
theorem C16_gen_unescape_table :
    ∃ t, Generated.C16.unescapeTable = some t ∧
      (∀ e ∈ t, shouldUnescape e.1 e.2.1 = true ∧ unhex2 e.1 e.2.1 = e.2.2) ∧
      (∀ a b, shouldUnescape a b = true → (a, b, unhex2 a b) ∈ t) := by
  refine ⟨_, rfl, by decide, ?_⟩
  intro a b h
  unfold shouldUnescape at h
  simp only [Bool.or_eq_true, Bool.and_eq_true, beq_iff_eq] at h
  rcases h with ((⟨rfl, h⟩ | ⟨rfl, h⟩) | ⟨rfl, rfl⟩) | ⟨rfl, h⟩
  · rcases h with ((((rfl | rfl) | rfl) | rfl) | rfl) | rfl <;> decide
  · rcases h with ((((rfl | rfl) | rfl) | rfl) | rfl) | rfl <;> decide
  · decide
  · rcases h with rfl | rfl <;> decide

/-! ### Round trip and exactness -/

/-- unescaping an escaped string returns the original, for every byte string -/
theorem C16_roundtrip (s : Bytes) : unescape (escape s) = s := by
  induction s with
  | nil => simp [escape, unescape]
  | cons c s ih =>
    rw [escape_cons]
    by_cases hc : c ∈ escSet
    · have h := esc_code_ok c hc
      simp only [escByte, hc, if_true, List.cons_append, List.nil_append]
      rw [unescape_code h.1, h.2, ih]
    · have hne : c ≠ bslash := fun h => hc (h ▸ bslash_mem)
      simp only [escByte, hc, if_false, List.cons_append, List.nil_append]
      rw [unescape_cons_ne hne, ih]

/-- an escaped string contains none of the ten bytes except the backslashes that
introduce the escapes (so none of the nine other characters at all) -/
theorem C16_escape_clean (s : Bytes) : ∀ x ∈ escape s, x ∈ escSet → x = bslash := by
  induction s with
  | nil => simp [escape]
  | cons c s ih =>
    intro x hx hmem
    rw [escape_cons, List.mem_append] at hx
    rcases hx with hx | hx
    · by_cases hc : c ∈ escSet
      · have h := esc_code_clean c hc
        simp only [escByte, hc, if_true, List.mem_cons, List.not_mem_nil, or_false] at hx
        rcases hx with rfl | rfl | rfl
        · rfl
        · exact absurd hmem h.1
        · exact absurd hmem h.2
      · simp only [escByte, hc, if_false, List.mem_cons, List.not_mem_nil, or_false] at hx
        exact absurd (hx ▸ hmem) hc
    · exact ih x hx hmem

/-- escaping rewrites exactly the ten bytes: a byte outside the set is copied -/
theorem C16_escape_exact (c : UInt8) :
    (c ∈ escSet → escByte c = [bslash, hexdig (c >>> 4), hexdig (c &&& 15)]) ∧
    (c ∉ escSet → escByte c = [c]) := by
  constructor <;> intro h <;> simp [escByte, h]

/-- a string without escapable bytes is unchanged by `escape` -/
theorem C16_escape_id (s : Bytes) (h : ∀ x ∈ s, x ∉ escSet) : escape s = s := by
  induction s with
  | nil => rfl
  | cons c s ih =>
    have hc : c ∉ escSet := h c (by simp)
    rw [escape_cons, ih (fun x hx => h x (by simp [hx]))]
    simp [escByte, hc]

/-- `unescape` rewrites a backslash followed by a defined code … -/
theorem C16_unescape_defined (a b : UInt8) (r : Bytes) (h : shouldUnescape a b = true) :
    unescape (bslash :: a :: b :: r) = unhex2 a b :: unescape r := unescape_code h r

/-- … and copies every other byte, including a backslash that does not start a defined code
(followed by fewer than two bytes, or by two bytes that are not a defined code) -/
theorem C16_unescape_only_defined (c : UInt8) (l : Bytes)
    (h : ∀ a b r, c = bslash → l = a :: b :: r → shouldUnescape a b = false) :
    unescape (c :: l) = c :: unescape l := by
  match l, h with
  | [], _ => simp [unescape]
  | [a], _ => simp [unescape]
  | a :: b :: r, h =>
    apply unescape_cons_nocode
    intro hc
    have := h a b r hc.1 rfl
    simp [this] at hc

/-- the defined codes are exactly the two-digit hexadecimal codes of the ten bytes, in
either letter case -/
theorem C16_codes_are_the_ten (a b : UInt8) :
    shouldUnescape a b = true ↔
      (ishex a = true ∧ ishex b = true ∧ unhex2 a b ∈ escSet) := by
  constructor
  · intro h
    obtain ⟨t, ht, hall, hmem⟩ := C16_gen_unescape_table
    have := hmem a b h
    cases ht
    revert this
    generalize unhex2 a b = v
    intro hm
    have key : ∀ e ∈ (Generated.C16.unescapeTable.get (by decide)),
        ishex e.1 = true ∧ ishex e.2.1 = true ∧ e.2.2 ∈ escSet := by decide
    exact key _ hm
  · intro ⟨ha, hb, hv⟩
    -- 22 × 22 hexadecimal digit pairs: decided by enumeration of the digits
    have hexl : ∀ x : UInt8, ishex x = true → x ∈ ([0x30,0x31,0x32,0x33,0x34,0x35,0x36,0x37,0x38,0x39,
        0x61,0x62,0x63,0x64,0x65,0x66,0x41,0x42,0x43,0x44,0x45,0x46] : List UInt8) := by
      intro x hx
      unfold ishex at hx
      simp only [Bool.or_eq_true, Bool.and_eq_true, decide_eq_true_eq] at hx
      have : x.toNat < 256 := x.toNat_lt
      simp only [List.mem_cons, List.not_mem_nil, or_false]
      rcases hx with (⟨h1, h2⟩ | ⟨h1, h2⟩) | ⟨h1, h2⟩ <;>
        (simp only [UInt8.le_iff_toNat_le] at h1 h2
         simp only [← UInt8.toNat_inj]
         simp at h1 h2 ⊢
         omega)
    have key : ∀ x ∈ ([0x30,0x31,0x32,0x33,0x34,0x35,0x36,0x37,0x38,0x39,
        0x61,0x62,0x63,0x64,0x65,0x66,0x41,0x42,0x43,0x44,0x45,0x46] : List UInt8),
        ∀ y ∈ ([0x30,0x31,0x32,0x33,0x34,0x35,0x36,0x37,0x38,0x39,
        0x61,0x62,0x63,0x64,0x65,0x66,0x41,0x42,0x43,0x44,0x45,0x46] : List UInt8),
        unhex2 x y ∈ escSet → shouldUnescape x y = true := by decide
    exact key a (hexl a ha) b (hexl b hb) hv

/-! ### Chunk independence -/

/-- The contract of one `Transform` call with respect to the whole-string function `f`:
whatever follows the source buffer (`rest`, empty when `atEOF`), the bytes produced are the
beginning of `f` of the whole input and the rest of the input continues it. -/
def StepOK (f : Bytes → Bytes) (step : Step) : Prop :=
  ∀ cap atEOF src rest, (atEOF = true → rest = []) →
    (step cap atEOF src).nSrc ≤ src.length ∧
    (step cap atEOF src).out.length ≤ cap ∧
    (step cap atEOF src).out ++ f (src.drop (step cap atEOF src).nSrc ++ rest) = f (src ++ rest)

/-- invariant of the generic transform loop, for every schedule of feeds and calls -/
theorem C16_drive_invariant (f : Bytes → Bytes) (step : Step) (hs : StepOK f step)
    (s : Bytes) (sched : List Act) :
    (drive step s sched).out ++ f ((drive step s sched).buf ++ (drive step s sched).pending) = f s := by
  unfold drive
  suffices h : ∀ (d : Drv), (d.out ++ f (d.buf ++ d.pending) = f s) →
      ((sched.foldl (Drv.act step) d).out ++
        f ((sched.foldl (Drv.act step) d).buf ++ (sched.foldl (Drv.act step) d).pending) = f s) by
    exact h ⟨s, [], []⟩ (by simp)
  induction sched with
  | nil => intro d h; simpa using h
  | cons a sched ih =>
    intro d h
    apply ih
    cases a with
    | feed k =>
      simp only [Drv.act, List.append_assoc, List.take_append_drop]
      exact h
    | call cap =>
      simp only [Drv.act]
      have hp : (d.pending.isEmpty = true → d.pending = []) := by
        intro e; simpa using e
      obtain ⟨_, _, h3⟩ := hs cap d.pending.isEmpty d.buf d.pending hp
      rw [List.append_assoc, h3]
      exact h

/-- **chunk independence**: for every transformer step that honours the contract, every
split of the input and every sequence of destination capacities, once everything has been
consumed the output is the whole-string result -/
theorem C16_chunk_independent (f : Bytes → Bytes) (step : Step) (hs : StepOK f step)
    (hnil : f [] = []) (s : Bytes) (sched : List Act)
    (hb : (drive step s sched).buf = []) (hp : (drive step s sched).pending = []) :
    (drive step s sched).out = f s := by
  have h := C16_drive_invariant f step hs s sched
  rw [hb, hp] at h
  simpa [hnil] using h

/-- the modelled `escapeMapping.Transform` honours the contract -/
theorem C16_esc_step_ok : StepOK escape (fun cap _ src => escStep cap src) := by
  intro cap atEOF src rest _
  show (escStep cap src).nSrc ≤ src.length ∧ (escStep cap src).out.length ≤ cap ∧
    (escStep cap src).out ++ escape (src.drop (escStep cap src).nSrc ++ rest) = escape (src ++ rest)
  induction src generalizing cap with
  | nil => simp [escStep]
  | cons c s ih =>
    unfold escStep
    by_cases hc : c ∈ escSet
    · simp only [hc, if_true]
      by_cases h3 : cap < 3
      · simp [h3]
      · obtain ⟨i1, i2, i3⟩ := ih (cap - 3)
        have hl : (escByte c).length = 3 := by simp [escByte, hc]
        simp only [h3, if_false, push_nSrc, push_out, List.length_cons, List.length_append]
        refine ⟨by omega, by omega, ?_⟩
        rw [Nat.add_comm, List.drop_succ_cons, List.append_assoc, i3, List.cons_append, escape_cons]
    · simp only [hc, if_false]
      by_cases h1 : cap < 1
      · simp [h1]
      · obtain ⟨i1, i2, i3⟩ := ih (cap - 1)
        simp only [h1, if_false, push_nSrc, push_out, List.length_cons, List.length_append, List.length_nil]
        refine ⟨by omega, by omega, ?_⟩
        rw [Nat.add_comm, List.drop_succ_cons, List.append_assoc, i3]
        simp [escape_cons, escByte, hc]

/-- the modelled `unescapeMapping.Transform` honours the contract -/
theorem C16_unesc_step_ok : StepOK unescape unescStep := by
  intro cap atEOF src rest hrest
  fun_induction unescStep cap atEOF src with
  | case1 cap => simp
  | case2 cap c h => simp
  | case3 cap c h hcap => simp
  | case4 cap c h hcap =>
    refine ⟨by simp, by simp; omega, ?_⟩
    simp only [List.drop_succ_cons, List.drop_zero, List.nil_append, List.cons_append]
    by_cases hc : c = bslash
    · have he : atEOF = true := by
        cases atEOF <;> simp_all
      rw [hrest he]; simp [unescape]
    · rw [unescape_cons_ne hc]
  | case5 cap c a h => simp
  | case6 cap c a h hcap => simp
  | case7 cap c a h hcap ih =>
    obtain ⟨i1, i2, i3⟩ := ih
    simp only [push_nSrc, push_out, List.length_cons, List.length_append, List.length_nil] at *
    refine ⟨by omega, by omega, ?_⟩
    rw [Nat.add_comm, List.drop_succ_cons, List.append_assoc, i3]
    simp only [List.cons_append, List.nil_append]
    by_cases hc : c = bslash
    · by_cases he : atEOF = true
      · rw [hrest he]; simp [unescape]
      · have hx : ishex a = false := by
          cases hh : ishex a <;> simp_all
        match rest with
        | [] => simp [unescape]
        | b :: r =>
          have : shouldUnescape a b = false := by
            cases hs : shouldUnescape a b
            · rfl
            · rw [shouldUnescape_ishex hs] at hx; cases hx
          rw [hc, unescape_nocode this]
    · rw [unescape_cons_ne hc]
  | case8 cap c a b r h hcap => simp
  | case9 cap c a b r h hcap ih =>
    obtain ⟨i1, i2, i3⟩ := ih
    simp only [push_nSrc, push_out, List.length_cons, List.length_append, List.length_nil] at *
    refine ⟨by omega, by omega, ?_⟩
    have e3 : List.drop (3 + (unescStep (cap - 1) atEOF r).nSrc) (c :: a :: b :: r)
        = List.drop (unescStep (cap - 1) atEOF r).nSrc r := by
      rw [Nat.add_comm]; rfl
    rw [e3, List.append_assoc, i3, h.1]
    simp only [List.cons_append, List.nil_append]
    rw [unescape_code h.2]
  | case10 cap c a b r h hcap => simp
  | case11 cap c a b r h hcap ih =>
    obtain ⟨i1, i2, i3⟩ := ih
    simp only [push_nSrc, push_out, List.length_cons, List.length_append, List.length_nil] at *
    refine ⟨by omega, by omega, ?_⟩
    rw [Nat.add_comm, List.drop_succ_cons, List.append_assoc, i3]
    simp only [List.cons_append, List.nil_append]
    rw [unescape_cons_nocode h]

/-- chunk independence of `jid.Escape`, instantiated with the modelled `Transform` -/
theorem C16_escape_chunked (s : Bytes) (sched : List Act)
    (hb : (drive (fun cap _ src => escStep cap src) s sched).buf = [])
    (hp : (drive (fun cap _ src => escStep cap src) s sched).pending = []) :
    (drive (fun cap _ src => escStep cap src) s sched).out = escape s :=
  C16_chunk_independent escape _ C16_esc_step_ok rfl s sched hb hp

/-- chunk independence of `jid.Unescape`, instantiated with the modelled `Transform` -/
theorem C16_unescape_chunked (s : Bytes) (sched : List Act)
    (hb : (drive unescStep s sched).buf = []) (hp : (drive unescStep s sched).pending = []) :
    (drive unescStep s sched).out = unescape s :=
  C16_chunk_independent unescape _ C16_unesc_step_ok (by simp [unescape]) s sched hb hp

-- non-vacuity: a schedule with 1-byte feeds and 1-byte destinations that ends with
-- everything consumed, on an input with an escape at offset 2 and a split inside it
example :
    let d := drive unescStep [0x61, 0x62, 0x5c, 0x32, 0x30, 0x5c]
      [.feed 3, .call 1, .call 1, .call 1, .feed 1, .call 4, .feed 1, .call 0, .call 1, .feed 9, .call 1]
    d.buf = [] ∧ d.pending = [] ∧ d.out = [0x61, 0x62, 0x20, 0x5c] := by decide

example :
    let d := drive (fun cap _ src => escStep cap src) [0x61, 0x20, 0x40]
      [.feed 2, .call 2, .call 3, .feed 1, .call 3]
    d.buf = [] ∧ d.pending = [] ∧ d.out = [0x61, 0x5c, 0x32, 0x30, 0x5c, 0x34, 0x30] := by decide

/-! ### Progress: the loop cannot spin, and "no error" means "all consumed" -/

/-- with room for one escape the escape step consumes at least one byte -/
theorem C16_esc_progress (cap : Nat) (src : Bytes) (hc : 3 ≤ cap) (hs : src ≠ []) :
    0 < (escStep cap src).nSrc := by
  match src, hs with
  | c :: s, _ =>
    unfold escStep
    by_cases hm : c ∈ escSet
    · have : ¬ cap < 3 := by omega
      simp [hm, this]; omega
    · have : ¬ cap < 1 := by omega
      simp [hm, this]; omega

/-- with room for one byte the unescape step consumes at least one byte or asks for more
source, and it asks for more source only when more can come -/
theorem C16_unesc_progress (cap : Nat) (atEOF : Bool) (src : Bytes) (hc : 1 ≤ cap) (hs : src ≠ []) :
    0 < (unescStep cap atEOF src).nSrc ∨
      ((unescStep cap atEOF src).err = .shortSrc ∧ atEOF = false) := by
  have h1 : ¬ cap < 1 := by omega
  match src, hs with
  | [c], _ =>
    unfold unescStep
    by_cases h : c = bslash ∧ atEOF = false
    · right; simp [h]
    · left; simp [h, h1]
  | [c, a], _ =>
    unfold unescStep
    by_cases h : c = bslash ∧ atEOF = false ∧ ishex a = true
    · right; simp [h]
    · left; simp [h, h1]; omega
  | c :: a :: b :: r, _ =>
    unfold unescStep
    by_cases h : c = bslash ∧ shouldUnescape a b = true
    · left; simp [h, h1]; omega
    · left; simp [h, h1]; omega

/-- a step that reports no error has consumed its whole source (escape) -/
theorem C16_esc_nil_consumes (cap : Nat) (src : Bytes) (h : (escStep cap src).err = .nil) :
    (escStep cap src).nSrc = src.length := by
  induction src generalizing cap with
  | nil => simp [escStep]
  | cons c s ih =>
    unfold escStep at h ⊢
    by_cases hm : c ∈ escSet
    · by_cases h3 : cap < 3
      · simp [hm, h3] at h
      · simp only [hm, h3, if_true, if_false, push_err, push_nSrc, List.length_cons] at h ⊢
        rw [ih _ h]; omega
    · by_cases h1 : cap < 1
      · simp [hm, h1] at h
      · simp only [hm, h1, if_false, push_err, push_nSrc, List.length_cons] at h ⊢
        rw [ih _ h]; omega

/-- a step that reports no error has consumed its whole source (unescape) -/
theorem C16_unesc_nil_consumes (cap : Nat) (atEOF : Bool) (src : Bytes)
    (h : (unescStep cap atEOF src).err = .nil) :
    (unescStep cap atEOF src).nSrc = src.length := by
  fun_induction unescStep cap atEOF src with
  | case1 => rfl
  | case2 => simp at h
  | case3 => simp at h
  | case4 => rfl
  | case5 => simp at h
  | case6 => simp at h
  | case7 cap c a _ _ ih => simp only [push_err] at h; simp [ih h]
  | case8 => simp at h
  | case9 cap c a b r _ _ ih => simp only [push_err] at h; simp [ih h]; omega
  | case10 => simp at h
  | case11 cap c a b r _ _ ih => simp only [push_err] at h; simp [ih h]; omega

/-- at end of input the unescape step never asks for more source -/
theorem C16_unesc_no_shortsrc_at_eof (cap : Nat) (src : Bytes) :
    (unescStep cap true src).err ≠ .shortSrc := by
  fun_induction unescStep cap true src <;> simp_all

/-! ### `Span` agrees with the transform -/

/-- `escapeMapping.Span` returns a prefix the transform leaves unchanged, and stops only at
an escapable byte -/
theorem C16_esc_span_ok (s : Bytes) :
    (escSpan s).1 ≤ s.length ∧ escape (s.take (escSpan s).1) = s.take (escSpan s).1 ∧
    ((escSpan s).2 = .nil → (escSpan s).1 = s.length) ∧
    ((escSpan s).2 = .endOfSpan → ∃ c, s[(escSpan s).1]? = some c ∧ c ∈ escSet) := by
  induction s with
  | nil => simp [escSpan, escape]
  | cons c s ih =>
    unfold escSpan
    by_cases hm : c ∈ escSet
    · simp [hm, escape]
    · obtain ⟨i1, i2, i3, i4⟩ := ih
      simp only [hm, if_false, spanCons, List.length_cons, List.take_succ_cons, escape_cons]
      refine ⟨by omega, ?_, ?_, ?_⟩
      · rw [i2]; simp [escByte, hm]
      · intro h; rw [i3 h]
      · intro h; simpa using i4 h

/-- `unescapeMapping.Span` returns a prefix the transform leaves unchanged whatever follows
(nothing follows when `atEOF`) -/
theorem C16_unesc_span_ok (atEOF : Bool) (s rest : Bytes) (hrest : atEOF = true → rest = []) :
    (unescSpan atEOF s).1 ≤ s.length ∧
    unescape (s ++ rest) = s.take (unescSpan atEOF s).1 ++ unescape (s.drop (unescSpan atEOF s).1 ++ rest) := by
  fun_induction unescSpan atEOF s with
  | case1 => simp
  | case2 c h => simp
  | case3 c h =>
    refine ⟨by simp, ?_⟩
    simp only [List.take_succ_cons, List.take_zero, List.drop_succ_cons, List.drop_zero, List.nil_append,
      List.cons_append]
    by_cases hc : c = bslash
    · have he : atEOF = true := by cases atEOF <;> simp_all
      rw [hrest he]; simp [unescape]
    · rw [unescape_cons_ne hc]
  | case4 c a h => simp
  | case5 c a h ih =>
    obtain ⟨i1, i2⟩ := ih
    simp only [spanCons, List.length_cons, List.length_nil] at *
    refine ⟨by omega, ?_⟩
    simp only [List.take_succ_cons, List.drop_succ_cons, List.cons_append, List.nil_append] at i2 ⊢
    rw [← i2]
    by_cases hc : c = bslash
    · by_cases he : atEOF = true
      · rw [hrest he]; simp [unescape]
      · have hx : ishex a = false := by cases hh : ishex a <;> simp_all
        match rest with
        | [] => simp [unescape]
        | b :: r =>
          have : shouldUnescape a b = false := by
            cases hs : shouldUnescape a b
            · rfl
            · rw [shouldUnescape_ishex hs] at hx; cases hx
          rw [hc]; exact unescape_nocode this _
    · exact unescape_cons_ne hc _
  | case6 c a b r h => simp
  | case7 c a b r h ih =>
    obtain ⟨i1, i2⟩ := ih
    simp only [spanCons, List.length_cons] at *
    refine ⟨by omega, ?_⟩
    simp only [List.take_succ_cons, List.drop_succ_cons, List.cons_append] at i2 ⊢
    rw [← i2]
    exact unescape_cons_nocode h _


/-! ### One transformer value shared by many streams (goroutines)

`jid.Escape` / `jid.Unescape` are package-level values.  The result of a stream must depend on
its own input only, whatever other streams do with the same value in between. -/

/-- **Interleaving independence.**  If no call changes the state of the shared value
(`Frozen`, the regenerated fact `sharedStateWrites = 0`), then under every interleaving of the
loop actions of any number of streams each stream ends exactly where it ends when it runs
alone (same output, same buffer), and the value is unchanged. -/
theorem C16_shared_independent {σ : Type} (step : SStep σ) (hf : Frozen step) (st : σ) (ds : Nat → Drv)
    (sched : List (Nat × Act)) (i : Nat) :
    (driveShared step st ds sched).st = st ∧
    (driveShared step st ds sched).streams i =
      (project sched i).foldl (Drv.act (fun c e s => (step st c e s).1)) (ds i) := by
  unfold driveShared project
  induction sched generalizing ds with
  | nil => exact ⟨rfl, rfl⟩
  | cons ia sched ih =>
    rw [List.foldl_cons, shared_act_frozen step hf]
    obtain ⟨h1, h2⟩ := ih (setStream ds ia.1 (Drv.act (fun c e s => (step st c e s).1) (ds ia.1) ia.2))
    refine ⟨h1, ?_⟩
    rw [h2]
    by_cases hi : ia.1 = i
    · subst hi; simp [setStream]
    · have : (ia.1 == i) = false := by simpa using hi
      have hi' : ¬ i = ia.1 := fun h => hi h.symm
      simp [this, setStream, hi']

/-- the modelled transformers have no state -/
theorem C16_model_frozen (step : Step) : Frozen (liftStep step) := fun _ _ _ _ => rfl

/-- … so every stream of every interleaved use of the shared `Escape` value that ends with
everything consumed has produced `escape` of its own input -/
theorem C16_escape_shared (inputs : Nat → Bytes) (sched : List (Nat × Act)) (i : Nat)
    (hb : ((driveShared (liftStep fun cap _ src => escStep cap src) () (fun j => ⟨inputs j, [], []⟩) sched).streams i).buf = [])
    (hp : ((driveShared (liftStep fun cap _ src => escStep cap src) () (fun j => ⟨inputs j, [], []⟩) sched).streams i).pending = []) :
    ((driveShared (liftStep fun cap _ src => escStep cap src) () (fun j => ⟨inputs j, [], []⟩) sched).streams i).out
      = escape (inputs i) := by
  have h := (C16_shared_independent _ (C16_model_frozen fun cap _ src => escStep cap src) ()
    (fun j => ⟨inputs j, [], []⟩) sched i).2
  rw [h] at hb hp ⊢
  exact C16_escape_chunked (inputs i) (project sched i) hb hp

theorem C16_unescape_shared (inputs : Nat → Bytes) (sched : List (Nat × Act)) (i : Nat)
    (hb : ((driveShared (liftStep unescStep) () (fun j => ⟨inputs j, [], []⟩) sched).streams i).buf = [])
    (hp : ((driveShared (liftStep unescStep) () (fun j => ⟨inputs j, [], []⟩) sched).streams i).pending = []) :
    ((driveShared (liftStep unescStep) () (fun j => ⟨inputs j, [], []⟩) sched).streams i).out
      = unescape (inputs i) := by
  have h := (C16_shared_independent _ (C16_model_frozen unescStep) ()
    (fun j => ⟨inputs j, [], []⟩) sched i).2
  rw [h] at hb hp ⊢
  exact C16_unescape_chunked (inputs i) (project sched i) hb hp

-- non-vacuity: two streams interleaved byte by byte over the shared value
example :
    let w := driveShared (liftStep fun cap _ src => escStep cap src) ()
      (fun j => ⟨if j = 0 then [0x61, 0x20] else [0x40], [], []⟩)
      [(0, .feed 1), (1, .feed 1), (0, .call 3), (1, .call 3), (0, .feed 1), (0, .call 3)]
    (w.streams 0).buf = [] ∧ (w.streams 0).pending = [] ∧ (w.streams 1).buf = [] ∧ (w.streams 1).pending = [] ∧
    (w.streams 0).out = [0x61, 0x5c, 0x32, 0x30] ∧ (w.streams 1).out = [0x5c, 0x34, 0x30] := by decide

/-- `Frozen` cannot be dropped: a value whose calls write a scratch buffer in the shared state
gives a stream another stream's escape code (here `&` comes out as `\\20`). -/
theorem C16_shared_state_matters :
    ¬ Frozen scratchStep ∧
    ∃ sched : List (Nat × Act),
      ((driveShared scratchStep (escByte 0x26) (fun j => ⟨if j = 0 then [0x26] else [0x20], [], []⟩) sched).streams 0).out
        ≠ ((project sched 0).foldl (Drv.act (fun c e s => (scratchStep (escByte 0x26) c e s).1)) ⟨[0x26], [], []⟩).out := by
  refine ⟨fun h => absurd (h [] 3 true [0x20]) (by decide), ?_⟩
  exact ⟨[(0, .feed 1), (1, .feed 1), (1, .call 3), (0, .call 3)], by decide⟩

/-- no call of the real transformers writes memory reachable from the package-level values
(deep snapshot of `jid.Escape` / `jid.Unescape` before and after a battery of calls through
every interface, taken by the harness on every run): the model's state type is `Unit` -/
theorem C16_gen_shared_state :
    Generated.C16.sharedStateWrites = some [0, 0] := by decide

/-! ### Chained transformers (round D): `transform.Chain(jid.Escape, jid.Unescape)` is the identity -/

/-- invariant of two chained stages that honour the step contract, for every schedule -/
theorem C16_chain_invariant (f g : Bytes → Bytes) (s1 s2 : Step) (h1 : StepOK f s1) (h2 : StepOK g s2)
    (hnil : f [] = []) (s : Bytes) (sched : List CAct) :
    (driveChain s1 s2 s sched).out ++
      g ((driveChain s1 s2 s sched).mid ++ f ((driveChain s1 s2 s sched).buf ++ (driveChain s1 s2 s sched).pending))
      = g (f s) := by
  unfold driveChain
  suffices h : ∀ (c : Chain), (c.out ++ g (c.mid ++ f (c.buf ++ c.pending)) = g (f s)) →
      ((sched.foldl (Chain.act s1 s2) c).out ++
        g ((sched.foldl (Chain.act s1 s2) c).mid ++
          f ((sched.foldl (Chain.act s1 s2) c).buf ++ (sched.foldl (Chain.act s1 s2) c).pending)) = g (f s)) by
    exact h ⟨s, [], [], []⟩ (by simp)
  induction sched with
  | nil => intro c h; simpa using h
  | cons a sched ih =>
    intro c h
    apply ih
    cases a with
    | feed k =>
      simp only [Chain.act, List.append_assoc, List.take_append_drop]
      exact h
    | call1 cap =>
      simp only [Chain.act]
      have hp : (c.pending.isEmpty = true → c.pending = []) := by intro e; simpa using e
      obtain ⟨_, _, h3⟩ := h1 cap c.pending.isEmpty c.buf c.pending hp
      rw [List.append_assoc, h3]
      exact h
    | call2 cap =>
      simp only [Chain.act]
      have hp : ((c.pending.isEmpty && c.buf.isEmpty) = true → f (c.buf ++ c.pending) = []) := by
        intro e
        simp only [Bool.and_eq_true, List.isEmpty_iff] at e
        rw [e.1, e.2]; simpa using hnil
      obtain ⟨_, _, h3⟩ := h2 cap (c.pending.isEmpty && c.buf.isEmpty) c.mid (f (c.buf ++ c.pending)) hp
      rw [List.append_assoc, h3]
      exact h

/-- once everything has been consumed the chain has produced the composition -/
theorem C16_chain_complete (f g : Bytes → Bytes) (s1 s2 : Step) (h1 : StepOK f s1) (h2 : StepOK g s2)
    (hf : f [] = []) (hg : g [] = []) (s : Bytes) (sched : List CAct)
    (hp : (driveChain s1 s2 s sched).pending = []) (hb : (driveChain s1 s2 s sched).buf = [])
    (hm : (driveChain s1 s2 s sched).mid = []) :
    (driveChain s1 s2 s sched).out = g (f s) := by
  have h := C16_chain_invariant f g s1 s2 h1 h2 hf s sched
  rw [hp, hb, hm] at h
  simpa [hf, hg] using h

/-- **streaming round trip**: escaping and unescaping as two stages of one chain returns the
input, for every split of the input, every destination capacity of either stage and every
interleaving of the two stages -/
theorem C16_chain_roundtrip (s : Bytes) (sched : List CAct)
    (hp : (driveChain (fun cap _ src => escStep cap src) unescStep s sched).pending = [])
    (hb : (driveChain (fun cap _ src => escStep cap src) unescStep s sched).buf = [])
    (hm : (driveChain (fun cap _ src => escStep cap src) unescStep s sched).mid = []) :
    (driveChain (fun cap _ src => escStep cap src) unescStep s sched).out = s := by
  rw [C16_chain_complete escape unescape _ _ C16_esc_step_ok C16_unesc_step_ok rfl (by simp [unescape])
    s sched hp hb hm]
  exact C16_roundtrip s

-- non-vacuity: `a @\` through the chain with small destinations, the second stage running
-- while the first still holds input, ends with everything consumed
example :
    let c := driveChain (fun cap _ src => escStep cap src) unescStep [0x61, 0x20, 0x40, 0x5c]
      [.feed 2, .call1 4, .call2 1, .call2 1, .feed 2, .call1 3, .call2 2, .call1 3, .call2 8, .call2 8]
    c.pending = [] ∧ c.buf = [] ∧ c.mid = [] ∧ c.out = [0x61, 0x20, 0x40, 0x5c] := by decide

/-! ### The differential lines are a relation (round E, review C16-1)

The `estepok` / `ustepok` / `espanok` / `uspanok` lines carry the call the real code made and
the driver answers with `stepJudge` / `spanJudge` (`Model/Escape.lean`): the decidable instance
of the contract for that call.  So an implementation that stops earlier than the model's step
(or later) is accepted as long as it honours `StepOK`, which is all the chunk-independence
theorems need. -/

/-- **the judge never rejects a step that honours the contract**: the prefix part of the
verdict is an instance of `StepOK f` (for the actual input and every probed continuation) -/
theorem C16_judge_core_sound (f : Bytes → Bytes) (step : Step) (hs : StepOK f step)
    (cap : Nat) (atEOF : Bool) (src : Bytes) :
    stepJudgeCore f cap atEOF src (step cap atEOF src) = true := by
  unfold stepJudgeCore
  have h0 := hs cap atEOF src [] (fun _ => rfl)
  simp only [Bool.and_eq_true, decide_eq_true_eq, List.all_eq_true, beq_iff_eq]
  refine ⟨⟨h0.1, h0.2.1⟩, ?_⟩
  intro rest hr
  cases atEOF with
  | true =>
    simp only [if_true, List.mem_singleton] at hr
    subst hr
    exact h0.2.2
  | false => exact (hs cap false src rest (by simp)).2.2

/-- the model's own steps are accepted in full (error obligations included) on every call of
the small scope; the general statement follows from `C16_judge_core_sound`,
`C16_esc_progress`, `C16_esc_nil_consumes`, `C16_unesc_progress`, `C16_unesc_nil_consumes`,
`C16_unesc_no_shortsrc_at_eof` -/
example : ([0, 1, 2, 3, 4, 7].all fun cap => [true, false].all fun e =>
    [[], [0x20], [0x61, 0x20], [bslash], [bslash, 0x32], [bslash, 0x32, 0x30], [0x61, bslash, 0x35, 0x63, 0x40]].all fun src =>
      (stepJudge escape 3 false cap e src (escStep cap src)).isNone &&
      (stepJudge unescape 1 true cap e src (unescStep cap e src)).isNone &&
      (spanJudge escape false e src (escSpan src).1 (escSpan src).2).isNone &&
      (spanJudge unescape true e src (unescSpan e src).1 (unescSpan e src).2).isNone) = true := by
  decide +kernel

/-- the judge is not vacuous: a step that emits the escape code but "forgets" to consume the
byte, one that swallows a backslash whose code may still come, one that reports success with
source left, and one that makes no progress although there is room are all rejected -/
example :
    stepJudge escape 3 false 8 true [0x20, 0x61] ⟨[bslash, 0x32, 0x30], 0, .shortDst⟩ = some "prefix" ∧
    stepJudge unescape 1 true 8 false [0x61, bslash] ⟨[0x61, bslash], 2, .nil⟩ = some "prefix" ∧
    stepJudge unescape 1 true 8 true [0x61, 0x62] ⟨[0x61], 1, .nil⟩ = some "nil-but-source-left" ∧
    stepJudge escape 3 false 8 true [0x61] ⟨[], 0, .shortDst⟩ = some "no-progress" ∧
    -- … while stopping early is fine
    stepJudge escape 3 false 8 false [0x61, 0x62, 0x20] ⟨[0x61], 1, .shortDst⟩ = none := by
  decide +kernel

/-! ### The code tables at other offsets (round E, review C16-3)

`escapeTable` / `unescapeTable` are probed on strings whose only item sits at offset 0.  The
model treats an item the same wherever it stands; the facts `escapeOffsets` / `unescapeOffsets`
say the real code does so behind six kinds of prefix (ordinary bytes, a previous escape, an
incomplete escape), for all 256 bytes / all 65536 pairs. -/

/-- escaping is byte-wise: it distributes over concatenation -/
theorem C16_escape_append (p s : Bytes) : escape (p ++ s) = escape p ++ escape s := by
  simp [escape, List.flatMap_append]

/-- unescaping `\ab` behind each of the probed prefixes is unescaping the prefix, then `\ab` -/
theorem C16_unescape_after_prefix (a b : UInt8) :
    ∀ p ∈ ([[0x78], [0x78, 0x78], [bslash, 0x32, 0x30], [bslash], [bslash, 0x32], [0x61, bslash, 0x33, 0x61]] : List Bytes),
      unescape (p ++ [bslash, a, b]) = unescape p ++ unescape [bslash, a, b] := by
  intro p hp
  simp only [List.mem_cons, List.not_mem_nil, or_false] at hp
  rcases hp with rfl | rfl | rfl | rfl | rfl | rfl <;>
    simp [unescape, bslash, shouldUnescape, unhex2, unhex]

/-- regenerated facts (probes): the real `Escape` / `Unescape` agree with that on every byte /
every pair behind every probed prefix -/
theorem C16_gen_offset_tables :
    Generated.C16.escapeOffsets = some [0, 0, 0, 0] ∧
    Generated.C16.unescapeOffsets = some [0, 0, 0, 0, 0, 0] := by decide

/-! ### The surrounding loop terminates (round F, review C16-2)

The chunk-independence theorems speak about states in which everything has been consumed.
`C16_loop_consumes` shows that a loop following the x/text protocol reaches such a state
within `2·|input|` rounds whenever the step makes progress (`Progress`: with `need` bytes of
room and a non-empty source a call consumes something unless more input can still come);
`C16_esc_makes_progress` / `C16_unesc_makes_progress` show that the modelled steps do. -/

/-- with `need` bytes of room a call on a non-empty source consumes something, unless it is
not at the end of the input (then the caller reads more) -/
def Progress (step : Step) (need : Nat) : Prop :=
  ∀ cap atEOF src, need ≤ cap → src ≠ [] → 0 < (step cap atEOF src).nSrc ∨ atEOF = false

theorem C16_esc_makes_progress : Progress (fun cap _ src => escStep cap src) 3 :=
  fun cap _ src hc hs => .inl (C16_esc_progress cap src hc hs)

theorem C16_unesc_makes_progress : Progress unescStep 1 := by
  intro cap atEOF src hc hs
  rcases C16_unesc_progress cap atEOF src hc hs with h | ⟨_, h⟩
  · exact .inl h
  · exact .inr h

theorem todo_feed (step : Step) (d : Drv) (k : Nat) (hk : 1 ≤ k) (hp : d.pending ≠ []) :
    (d.act step (.feed k)).todo < d.todo := by
  have hl : 0 < d.pending.length := List.length_pos_iff.mpr hp
  simp only [Drv.act, Drv.todo, List.length_append, List.length_take, List.length_drop]
  omega

theorem todo_call (step : Step) (d : Drv) (cap : Nat) :
    (d.act step (.call cap)).todo ≤ d.todo ∧
    (0 < (step cap d.pending.isEmpty d.buf).nSrc → d.buf ≠ [] → (d.act step (.call cap)).todo < d.todo) ∧
    (d.act step (.call cap)).pending = d.pending := by
  have hl : d.buf ≠ [] → 0 < d.buf.length := fun h => List.length_pos_iff.mpr h
  simp only [Drv.act, Drv.todo, List.length_drop]
  refine ⟨by omega, fun h hb => ?_, trivial⟩
  have := hl hb
  omega

/-- **the loop reaches the consumed state**: for every step that makes progress, every
destination size with room for one unit, every read size ≥ 1, within `todo` rounds -/
theorem C16_loop_consumes (step : Step) (need : Nat) (hp : Progress step need) (cap chunk : Nat)
    (hc : need ≤ cap) (hk : 1 ≤ chunk) :
    ∀ (fuel : Nat) (d : Drv), d.todo ≤ fuel →
      (runLoop step cap chunk fuel d).buf = [] ∧ (runLoop step cap chunk fuel d).pending = [] := by
  intro fuel
  induction fuel with
  | zero =>
    intro d h
    have hb : d.buf.length = 0 := by simp only [Drv.todo] at h; omega
    have hq : d.pending.length = 0 := by simp only [Drv.todo] at h; omega
    exact ⟨List.length_eq_zero_iff.mp hb, List.length_eq_zero_iff.mp hq⟩
  | succ fuel ih =>
    intro d h
    unfold runLoop
    by_cases h0 : d.buf = [] ∧ d.pending = []
    · rw [if_pos h0]; exact h0
    rw [if_neg h0]
    by_cases hb : d.buf = []
    · rw [if_pos hb]
      have hpe : d.pending ≠ [] := fun e => h0 ⟨hb, e⟩
      exact ih _ (by have := todo_feed step d chunk hk hpe; omega)
    rw [if_neg hb]
    obtain ⟨hle, hlt, hpend⟩ := todo_call step d cap
    by_cases hn : (step cap d.pending.isEmpty d.buf).nSrc = 0
    · rw [if_pos hn]
      -- no progress: by `Progress` the input is not exhausted, so reading more helps
      have hpe : d.pending ≠ [] := by
        rcases hp cap d.pending.isEmpty d.buf hc hb with h1 | h1
        · omega
        · intro e; rw [e] at h1; simp at h1
      have hpe' : (d.act step (.call cap)).pending ≠ [] := by rw [hpend]; exact hpe
      exact ih _ (by have := todo_feed step _ chunk hk hpe'; omega)
    · rw [if_neg hn]
      exact ih _ (by have := hlt (by omega) hb; omega)

/-- the loop is a `drive`: it performs some schedule of feeds and calls -/
theorem C16_loop_is_drive (step : Step) (cap chunk : Nat) :
    ∀ (fuel : Nat) (d : Drv), ∃ sched : List Act, runLoop step cap chunk fuel d = sched.foldl (Drv.act step) d := by
  intro fuel
  induction fuel with
  | zero => intro d; exact ⟨[], rfl⟩
  | succ fuel ih =>
    intro d
    unfold runLoop
    split
    · exact ⟨[], rfl⟩
    · split
      · obtain ⟨sc, e⟩ := ih (d.act step (.feed chunk)); exact ⟨.feed chunk :: sc, by rw [e]; rfl⟩
      · split
        · obtain ⟨sc, e⟩ := ih ((d.act step (.call cap)).act step (.feed chunk))
          exact ⟨.call cap :: .feed chunk :: sc, by rw [e]; rfl⟩
        · obtain ⟨sc, e⟩ := ih (d.act step (.call cap)); exact ⟨.call cap :: sc, by rw [e]; rfl⟩

/-- **`Escape` through any loop of the protocol terminates with the right result**: every
read size ≥ 1, every destination with room for one escape (3 bytes), within `2·|s|` rounds -/
theorem C16_escape_loop (s : Bytes) (cap chunk : Nat) (hc : 3 ≤ cap) (hk : 1 ≤ chunk) :
    runLoop (fun cap _ src => escStep cap src) cap chunk (2 * s.length) ⟨s, [], []⟩ = ⟨[], [], escape s⟩ := by
  obtain ⟨hb, hq⟩ := C16_loop_consumes _ 3 C16_esc_makes_progress cap chunk hc hk (2 * s.length) ⟨s, [], []⟩ (by simp [Drv.todo])
  obtain ⟨sc, e⟩ := C16_loop_is_drive (fun cap _ src => escStep cap src) cap chunk (2 * s.length) ⟨s, [], []⟩
  have ho := C16_escape_chunked s sc (by unfold drive; rw [← e]; exact hb) (by unfold drive; rw [← e]; exact hq)
  unfold drive at ho; rw [← e] at ho
  cases hr : runLoop (fun cap _ src => escStep cap src) cap chunk (2 * s.length) ⟨s, [], []⟩ with
  | mk p b o => rw [hr] at hb hq ho; simp only at hb hq ho; rw [hb, hq, ho]

/-- … and `Unescape` (room for one byte) -/
theorem C16_unescape_loop (s : Bytes) (cap chunk : Nat) (hc : 1 ≤ cap) (hk : 1 ≤ chunk) :
    runLoop unescStep cap chunk (2 * s.length) ⟨s, [], []⟩ = ⟨[], [], unescape s⟩ := by
  obtain ⟨hb, hq⟩ := C16_loop_consumes _ 1 C16_unesc_makes_progress cap chunk hc hk (2 * s.length) ⟨s, [], []⟩ (by simp [Drv.todo])
  obtain ⟨sc, e⟩ := C16_loop_is_drive unescStep cap chunk (2 * s.length) ⟨s, [], []⟩
  have ho := C16_unescape_chunked s sc (by unfold drive; rw [← e]; exact hb) (by unfold drive; rw [← e]; exact hq)
  unfold drive at ho; rw [← e] at ho
  cases hr : runLoop unescStep cap chunk (2 * s.length) ⟨s, [], []⟩ with
  | mk p b o => rw [hr] at hb hq ho; simp only at hb hq ho; rw [hb, hq, ho]

/-- the room is needed: with a destination of 2 bytes the escape loop never gets past an
escapable byte (it spins until the fuel is gone) -/
example : (runLoop (fun cap _ src => escStep cap src) 2 1 100 ⟨[0x20], [], []⟩).buf = [0x20] := by
  decide +kernel

/-! ### Consequences of the round trip: injectivity, size bounds, and what does not hold -/

/-- escaping loses nothing: two strings with the same escaped form are the same string
(corollary of `C16_roundtrip`; this is what makes an escaped localpart an *identifier*) -/
theorem C16_escape_injective (s t : Bytes) (h : escape s = escape t) : s = t := by
  rw [← C16_roundtrip s, ← C16_roundtrip t, h]

theorem escByte_length (c : UInt8) : 1 ≤ (escByte c).length ∧ (escByte c).length ≤ 3 := by
  unfold escByte; split <;> simp

/-- size bounds of `jid.Escape`: never shorter, at most three times as long (the capacity the
Go code may reserve; the streaming transformer's `ErrShortDst` threshold is 3 bytes) -/
theorem C16_escape_length (s : Bytes) : s.length ≤ (escape s).length ∧ (escape s).length ≤ 3 * s.length := by
  induction s with
  | nil => simp [escape]
  | cons c s ih =>
    have h := escByte_length c
    simp only [escape, List.flatMap_cons, List.length_append, List.length_cons] at ih ⊢
    omega

/-- `jid.Unescape` never makes a string longer -/
theorem C16_unescape_length (s : Bytes) : (unescape s).length ≤ s.length := by
  fun_induction unescape s <;> simp_all <;> omega

/-- the other composition is *not* the identity: unescaping is not injective (a raw space and
its escape unescape to the same string), so `escape (unescape t) = t` fails for a `t` with an
unescaped character of the set -/
theorem C16_unescape_not_injective :
    unescape [0x20] = unescape [0x5c, 0x32, 0x30] ∧ escape (unescape [0x20]) ≠ [0x20] := by
  decide

/-- what escaping is for: the escaped form of any string holds neither of the separators `@`
and `/` nor any other character RFC 7622 forbids in a localpart (`"`, `&`, `'`, `:`, `<`, `>`)
nor a space — so it can be placed before `@domain` and the address splits where it was joined
(hypotheses `cSlash ∉ l`, `cAt ∉ l` of `C11_split_assemble`) -/
theorem C16_escape_no_separator (s : Bytes) :
    ∀ c ∈ [0x20, 0x22, 0x26, 0x27, 0x2f, 0x3a, 0x3c, 0x3e, 0x40], c ∉ escape s := by
  intro c hc hm
  have hset : c ∈ escSet := by
    simp only [List.mem_cons, List.not_mem_nil, or_false] at hc
    rcases hc with h | h | h | h | h | h | h | h | h <;> subst h <;> decide
  have hb := C16_escape_clean s c hm hset
  subst hb
  revert hc; decide
end XmppModel.Props.C16
