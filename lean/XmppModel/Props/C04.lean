import XmppModel.Model.Negotiate
import XmppModel.Lemmas.Negotiate
import XmppModel.Lemmas.NegotiateReach
import XmppModel.Lemmas.NegotiateTerm
import XmppModel.Lemmas.NegotiateDyn
import XmppModel.Lemmas.Component
import XmppModel.Lemmas.Deadline
import XmppModel.Generated.C04
/-!
# C04 — session establishment fails closed under faults

The negotiation machine of C01 with faults: the `k`-th I/O operation fails for any set of
`k` (`O.fault`), the peer's input may end anywhere (`script`), any callback may fail
(`O.list`, `O.parseErr`, `O.neg`), the context may be done at any point of the trace (`O.cancel`:
`ctx.Done()` fires — by a cancel function, an expiring deadline or timeout, or a cancelled parent;
the model does not distinguish the kinds, `C04_gen_watcher` is why the code does not either).  Theorems hold for every such pattern.
-/
namespace XmppModel.Props.C04
open XmppModel XmppModel.Negotiate

variable {C : List Feature} {O : Oracle} {st0 : St} {script : List Peer} {picks : List FName}

/-- what C04 demands of one row of `Generated.C04.loopTable` -/
def loopRowOk : Bool × Bool × Nat × Nat × Bool × Bool × Bool × Nat → Bool
  | (maskReady, _restart, errKind, ctxDone, failed, ready, applied, calls) =>
    if errKind != 0 || ctxDone != 0 then failed && !ready && !applied && calls == 1
    else !failed && ready && applied && calls == (if maskReady then 1 else 2)

/-- tie to the source (probe of the real code): what `negotiateSession` does with the result of a
negotiator call, for every kind of result — mask with/without `Ready`, new ReadWriter or not, no error
or an error of **any kind of value** (plain, a `net.Error` time-out, temporary, closed connection,
`io.ErrUnexpectedEOF`, `context.DeadlineExceeded`, `context.Canceled`, `io.EOF` — all with a live
context), context live or done during the call (cancel function, far deadline + cancel, cancelled
parent): an error or a done context ends the session with an error, without applying the mask and
without a further call (the `ret` step of the model, which therefore need not know the kind of
error); otherwise the mask is applied and the loop goes on until `Ready` -/
theorem C04_gen_loop : ∃ t, Generated.C04.loopTable = some t ∧ t.length = 144 ∧
    ∀ r ∈ t, match r with
      | (maskReady, _restart, errKind, ctxDone, failed, ready, applied, calls) =>
        if errKind ≠ 0 ∨ ctxDone ≠ 0 then failed = true ∧ ready = false ∧ applied = false ∧ calls = 1
        else failed = false ∧ ready = true ∧ applied = true ∧ calls = (if maskReady then 1 else 2) := by
  refine ⟨_, rfl, rfl, ?_⟩
  have h : (Generated.C04.loopTable.getD []).all loopRowOk = true := by
    set_option maxRecDepth 8000 in decide
  intro r hr
  have := List.all_eq_true.mp h r hr
  obtain ⟨a, b, c, d, e, f, g, k⟩ := r
  simp only [loopRowOk] at this
  split at this <;> rename_i hc <;> simp_all

/-- **a nil error only for a clean run**: if session establishment reports success, every
executed step — every read, every write, every `List`, `Parse` and `Negotiate` callback —
succeeded -/
theorem C04_nil_only_if_clean {c : Conf} (h : Reach C O st0 script picks c) (hd : c.pc = .done) :
    ∀ e ∈ c.tr, e.faulty = false :=
  (invB_reach h).live (by rw [hd]; rfl)

/-- **fail closed**: as soon as any step has failed the machine is failing: it is in a
`fail` state, or about to flush the unfinished features list and then fail -/
theorem C04_fail_closed {c : Conf} (h : Reach C O st0 script picks c) {e : Ev} (he : e ∈ c.tr)
    (hf : e.faulty = true) : (∃ cls, c.pc = .fail cls) ∨ c.pc = .abort := by
  have hb := invB_reach h
  cases hp : c.pc <;> first
    | exact Or.inl ⟨_, rfl⟩
    | exact Or.inr rfl
    | (have := hb.live (by rw [hp]; rfl) e he; rw [hf] at this; cases this)

/-- the flush of the unfinished list is followed by the failure -/
theorem C04_abort_fails (c : Conf) (h : c.pc = .abort) : (step C O c).pc = .fail .cb := by
  unfold step; simp [h]

/-- a failed run stays failed: no further step, no further event -/
theorem C04_fail_fixed (c : Conf) (e : ErrCls) (h : c.pc = .fail e) : step C O c = c := by
  unfold step; simp [h]

/-- **nothing continues after a fault**: in every reachable trace at most one step failed, and
it is the last event — the single exception is the deferred flush of a features list whose
`List` callback failed (`writeStreamFeatures` closes its token writer on return) -/
theorem C04_no_continue_after_fault {c : Conf} (h : Reach C O st0 script picks c) :
    FaultShape c.tr := (invB_reach h).shape

/-- **the call ends** — *partial*: on a finite peer input the machine reaches a final control point
within a bound linear in the input. "Final" includes "blocked for good" (`hung`): see
`C04_returns` for what the final point can be. -/
theorem C04_returns_partial (C : List Feature) (O : Oracle) (st0 : St) (script : List Peer)
    (picks : List FName) : ∃ n, (run C O n (init st0 script picks)).pc.final = true :=
  ⟨_, run_final C O _ _ (Nat.le_refl _)⟩

/-- **the call returns, or is blocked with a context that is not done / on a transport without
deadlines** (review A, C04-3): whatever fails, is cut or is cancelled, on a finite peer input every
run ends in one of: success; a failure; `stuck` (a pick script that is no possible map iteration:
never produced by an observed run); or blocked for good in a read / write (`hung wr`) — and then
the context is not done, or the watcher does not move the deadline of that direction (a plain
`io.ReadWriter`: "on transports that support deadlines"). With `dlRd ∧ dlWr` (the code:
`C04_gen_deadline`) a call only stays blocked while its context is live. -/
theorem C04_returns (C : List Feature) (O : Oracle) (st0 : St) (script : List Peer)
    (picks : List FName) : ∃ n, let c := run C O n (init st0 script picks)
      c.pc = .done ∨ (∃ e, c.pc = .fail e) ∨ c.pc = .stuck ∨
      ∃ wr, c.pc = .hung wr ∧ (O.cancel c.tr = false ∨ (if wr then O.dlWr else O.dlRd) = false) := by
  obtain ⟨n, hn⟩ := C04_returns_partial C O st0 script picks
  refine ⟨n, ?_⟩
  have hr : Reach C O st0 script picks (run C O n (init st0 script picks)) := ⟨n, rfl⟩
  have hs := invS_reach hr
  have hu := invU_reach hr
  intro c
  have hfin : c.pc.final = true := hn
  cases hp : c.pc with
  | done => exact Or.inl rfl
  | fail e => exact Or.inr (Or.inl ⟨e, rfl⟩)
  | stuck => exact Or.inr (Or.inr (Or.inl rfl))
  | crash => exact absurd hp hs.crash
  | tee => exact absurd hp hs.tee
  | hung wr =>
    refine Or.inr (Or.inr (Or.inr ⟨wr, rfl, ?_⟩))
    have h1 := hu.hung wr hp
    cases hc : O.cancel c.tr
    · exact Or.inl rfl
    · right
      rw [hc, Bool.true_and] at h1
      exact h1
  | _ => rw [hp] at hfin; cases hfin

/-- **not ready on failure**: when session establishment fails, the ready bit is only set if
the caller passed it in or a feature's own `Negotiate` had returned it — the library itself
never sets it on a failing run -/
theorem C04_fail_not_ready {c : Conf} (h : Reach C O st0 script picks c) {e : ErrCls}
    (hf : c.pc = .fail e) (hr : has c.st bReady = true) : has st0 bReady = true ∨ FeatReady c.tr := by
  rcases (invC_reach h).prov hr with h1 | h1 | h1 | h1
  · exact Or.inl h1
  · exact Or.inr h1
  · rw [hf] at h1; cases h1
  · rw [hf] at h1; cases h1

/-- **cancellation**: if success is reported, the context was not cancelled at any point the
machine looked at — in particular not after the last event (the check after every
negotiator call); the only exception is a session that was already ready on entry, for
which nothing is negotiated at all -/
theorem C04_cancel_never_succeeds {c : Conf} (h : Reach C O st0 script picks c) (hd : c.pc = .done) :
    has st0 bReady = true ∨ O.cancel c.tr = false := by
  have hh := invH_reach h
  cases hf : c.first
  · exact Or.inr (hh.checked (Or.inr hd) hf)
  · exact Or.inl (hh.doneFirst hd hf)

/-- a context never becomes live again: once `ctx.Done()` has fired it stays fired, whatever happens
next (true of every `context.Context`; the harness's cancellation `Cn` is of this form) -/
def MonotoneCancel (O : Oracle) : Prop := ∀ tr e, O.cancel tr = true → O.cancel (e :: tr) = true

theorem MonotoneCancel.append {O : Oracle} (hm : MonotoneCancel O) (l₁ l₂ : List Ev)
    (h : O.cancel l₂ = true) : O.cancel (l₁ ++ l₂) = true := by
  induction l₁ with
  | nil => exact h
  | cons e l ih => exact hm _ e ih

/-- **cancellation, at every instant** (review A, C04-5): for a context that never becomes live again
(`MonotoneCancel`), if success is reported the context was not done at **any** point of the run — after
no prefix of the events (`l₂` is the trace up to some instant, `l₁` what followed) — unless the session
was already ready on entry. Without monotonicity `C04_cancel_never_succeeds` only speaks about the final
trace. -/
theorem C04_cancel_never_succeeds_prefix {c : Conf} (h : Reach C O st0 script picks c)
    (hm : MonotoneCancel O) (hd : c.pc = .done) :
    has st0 bReady = true ∨ ∀ l₁ l₂, c.tr = l₁ ++ l₂ → O.cancel l₂ = false := by
  rcases C04_cancel_never_succeeds h hd with h0 | hc
  · exact Or.inl h0
  · refine Or.inr fun l₁ l₂ ht => ?_
    cases hl : O.cancel l₂
    · rfl
    · have := hm.append l₁ l₂ hl
      rw [← ht, hc] at this; cases this

/-- **after cancellation every I/O operation fails** (the watcher moves both deadlines of the
connection into the past): one step from a cancelled configuration never logs a successful
read or write -/
theorem C04_cancel_io_fails (c : Conf) (hr : O.dlRd = true) (hw : O.dlWr = true)
    (hc : O.cancel c.tr = true) (e : Ev) (he : (step C O c).tr = e :: c.tr) :
    e ≠ .hdrOut true ∧ (∀ k, e ≠ .rd k .got) ∧ (∀ st fs, e ≠ .listOut st fs true) ∧ e ≠ .listAbort true := by
  revert he
  step_all
  all_goals intro he
  all_goals first
    | exact absurd he.symm (List.cons_ne_self _ _)
    | (injection he with h1 h2; subst h1; clear h2; simp_all [rdFails, wrFails]; done)

/-! ### blocked in a read, blocked in a write -/

/-- the quiet oracle: nothing fails, nothing is cancelled, callbacks succeed with empty masks -/
def quiet : Oracle :=
  { neg := fun _ _ _ => ⟨0, false, false⟩, list := fun _ _ _ => ⟨false, false⟩,
    parseErr := fun _ _ _ => false, fault := fun _ => false, cancel := fun _ => false,
    block := fun _ => false, dlRd := true, dlWr := true, layer := fun _ _ => false }

-- the hypothesis is satisfiable by a cancellation that really happens: "done once 4 events were seen"
example : MonotoneCancel { quiet with cancel := fun tr => decide (4 ≤ tr.length) } := by
  intro tr e h
  simp only [decide_eq_true_eq, List.length_cons] at h ⊢
  omega



open XmppModel.Deadline in
/-- tie to the source (probe of the real code, replaces the reading of `setDeadline`'s syntax): the
real `negotiateSession` is run on a recording `net.Conn`; whenever the context is done — at entry or
during a step — the negotiation step sees **both** the read and the write deadline of the connection
in the past (whichever setters the watcher uses, through whatever helper), and establishment fails;
these are the hypotheses `O.dlRd = true`, `O.dlWr = true` of `C04_cancel_progress` -/
theorem C04_gen_deadline : ∃ t, Generated.C04.deadlineProbe = some t ∧
    moves false t = true ∧ moves true t = true ∧ ∀ r ∈ t, rowOk r = true :=
  ⟨_, rfl, by decide, by decide, by decide⟩

open XmppModel.Deadline in
/-- tie to the source (probe, replaces the reading of `negotiateSession`'s syntax): the watcher acts
for **every kind of context** — cancel function, far deadline cancelled explicitly, timeout nested in
a cancelled parent, near deadline that expires — done at entry or during a step (each combination is
in the table), so "the context is done" of the model needs no kind; and a context that is never done
never gets a deadline in the past -/
theorem C04_gen_watcher : ∃ t, Generated.C04.deadlineProbe = some t ∧ covers t = true ∧
    ∀ (k : Fin 4) (m : Fin 3), ∃ r ∈ t, r.1 = k.val ∧ r.2.1 = m.val ∧ rowOk r = true :=
  ⟨_, rfl, by decide, by decide⟩

open XmppModel.Deadline in
/-- the watcher of `Session.Send` (after establishment; it shares its code with the watcher of the
handshake since the helper was extracted): the write deadline is in the past while the element is
produced once the context is done, never for a live context -/
theorem C04_gen_send_deadline : ∃ t, Generated.C04.sendProbe = some t ∧ t.length = 9 ∧
    ∀ r ∈ t, sendRowOk r = true :=
  ⟨_, rfl, by decide, by decide⟩

/-- which deadlines the code moves when the context is done, read off the probe -/
def codeDl : Bool × Bool :=
  match Generated.C04.deadlineProbe with
  | some t => (Deadline.moves false t, Deadline.moves true t)
  | none => (false, false)

/-- **cancellation ends a blocked read and a blocked write alike**: if the context watcher
moves both deadlines, a call that is blocked — in a read because the peer is silent
(`wr = false`), or in a write because the peer does not read (`wr = true`) — never stays blocked
once the context is done: the `hung` point is only reached with a context that was never
cancelled -/
theorem C04_cancel_progress {c : Conf} (h : Reach C O st0 script picks c)
    (hr : O.dlRd = true) (hw : O.dlWr = true) {wr : Bool} (hh : c.pc = .hung wr) :
    O.cancel c.tr = false := by
  have := (invU_reach h).hung wr hh
  cases wr <;> simp_all

/-- **the same with the hypothesis discharged from the code**: for the deadlines the real watcher
moves (`codeDl`, computed from the probe of the real `negotiateSession`), a run is never left hanging
in a read or in a write once the context is done -/
theorem C04_cancel_progress_code {c : Conf} (h : Reach C O st0 script picks c)
    (hO : (O.dlRd, O.dlWr) = codeDl) {wr : Bool} (hh : c.pc = .hung wr) : O.cancel c.tr = false := by
  have hc : codeDl = (true, true) := by decide
  rw [hc] at hO
  injection hO with h1 h2
  exact C04_cancel_progress h h1 h2 hh

-- the hypothesis of `C04_cancel_progress_code` is satisfiable: the quiet oracle has it
example : (quiet.dlRd, quiet.dlWr) = codeDl := by decide

/-- one step: a blocked operation whose deadline was moved fails as soon as the context is done:
the failure event of that operation is logged and the run ends in `fail io` -/
theorem C04_blocked_unblocks (c : Conf) (op : IoOp) (hpc : c.pc = .blocked op)
    (hc : O.cancel c.tr = true) (hd : (if op.wr then O.dlWr else O.dlRd) = true) :
    (step C O c).pc = .fail .io ∧ ∃ e, (step C O c).tr = e :: c.tr ∧ e.faulty = true := by
  unfold step
  cases op <;> simp_all [unblock, IoOp.wr, Ev.faulty]

/-- **the write deadline is needed** (negation witness; the seeded change that turned
`SetDeadline` into `SetReadDeadline`): if the watcher only moves the read deadline, a run whose
first write blocks and whose context is cancelled while it is blocked never returns -/
theorem C04_cancel_progress_needs_write_deadline :
    ∃ (O : Oracle) (c : Conf), O.dlRd = true ∧ Reach [] O 0 [] [] c ∧ c.pc = .hung true ∧ O.cancel c.tr = true :=
  ⟨{ quiet with block := fun k => k == 0, cancel := fun tr => tr.any (fun e => e == .blocked .hdrOut), dlWr := false },
   _, rfl, ⟨4, rfl⟩, by decide, by decide⟩

/-- … and the read deadline for a blocked read (a receiver whose peer is silent) -/
theorem C04_cancel_progress_needs_read_deadline :
    ∃ (O : Oracle) (c : Conf), O.dlWr = true ∧ Reach [] O bReceived [] [] c ∧ c.pc = .hung false ∧ O.cancel c.tr = true :=
  ⟨{ quiet with block := fun k => k == 0, cancel := fun tr => tr.any (fun e => e == .blocked .hdrIn), dlRd := false },
   _, rfl, ⟨4, rfl⟩, by decide, by decide⟩

/-- **no panic — what the model can say** (review A, C04-1): the places where the anchored code
could panic by itself are the call of a nil `Negotiate` (an informational feature) and, before the
`fix:` commit, the receiving side of the component handshake (`C04_component_receive_refused`).
The machine has no transition into `crash` (the control point is only a name for the driver's
`PANIC` outcome), so `pc ≠ crash` alone would be vacuous; the statement with content is: **every
`Negotiate` the machine runs is the callback of a negotiable feature** — also the forced STARTTLS
attempt, also on the receiving side. Everything else of "nothing panics" (callbacks, encoding/xml,
TLS, the real features) is decided by the harness (`recover` around every run: clause `panic`). -/
theorem C04_no_nil_call {c : Conf} (h : Reach C O st0 script picks c) {f : Feature} {st : St}
    {rq fo sv : Bool} {r : NegRes} (he : Ev.neg f st rq fo sv r ∈ c.tr) :
    f.negotiable = true ∧ c.pc ≠ .crash :=
  ⟨((invA_reach h).good _ he).2, (invS_reach h).crash⟩

/-! ### the component handshake as a front-end (`Model/Component.lean`)

`component.Negotiator` inside `negotiateSession`, for every peer script, fault / blocking
pattern and cancellation instant. -/

section component
open XmppModel.Component

/-- **a component session is established only by a clean, completely acknowledged handshake**:
success implies that no read or write failed, the context is not done, and what was consumed of
the peer's input contains a stream header carrying a stream id and **ends with the end of the
acknowledgement** — `<handshake/>` in one piece, or the end tag `</handshake>` that closes the
start tag read before (a cut or failure between the two never yields a session) -/
theorem C04_component_success {O : Component.Oracle} {script : List Item} {c : Component.Conf}
    (h : Component.Reach O script c) (hd : c.pc = .done) :
    (∀ e ∈ c.tr, e.faulty = false) ∧ O.cancel c.tr = false ∧
    ∃ l, script = l ++ c.script ∧ Item.hdr true ∈ l ∧ EndsAck l := by
  have hi := Component.inv_reach h
  refine ⟨hi.clean (by rw [hd]; rfl), hi.notCancelled hd, ?_⟩
  obtain ⟨l, hl, hs⟩ := hi.consumed
  rw [hd] at hs
  exact ⟨l, hl, hs.1, hs.2⟩

/-- the start tag of the acknowledgement alone does not establish the session: with the input
`[hdr, <handshake>]` the run ends in a failure (end of input inside the element) -/
example : (Component.run ⟨fun _ => false, fun _ => false, fun _ => false, true, true⟩ 10
    (Component.init [.hdr true, .ackOpen])).pc = .fail .io := by decide

example : (Component.run ⟨fun _ => false, fun _ => false, fun _ => false, true, true⟩ 10
    (Component.init [.hdr true, .ackOpen, .text, .ackClose])).pc = .done := by decide

/-- **fail closed**: once a read or write has failed the handshake has failed (no `Ready`), and
the failed operation is the last event -/
theorem C04_component_fail_closed {O : Component.Oracle} {script : List Item} {c : Component.Conf}
    (h : Component.Reach O script c) {e : Component.Ev} (he : e ∈ c.tr) (hf : e.faulty = true) :
    (∃ cls, c.pc = .fail cls) ∧ ∃ rest, c.tr = e :: rest := by
  have hi := Component.inv_reach h
  have hfail : c.pc.failed = true := by
    cases hp : c.pc.failed
    · have := hi.clean hp e he; rw [hf] at this; cases this
    · rfl
  constructor
  · cases hpc : c.pc <;> simp_all [Component.Pc.failed]
  · rcases hi.shape with hc | ⟨e', rest, ht, _, hrest⟩
    · have := hc e he; rw [hf] at this; cases this
    · rw [ht] at he
      simp only [List.mem_cons] at he
      rcases he with rfl | he
      · exact ⟨rest, ht⟩
      · have := hrest e he; rw [hf] at this; cases this

/-- **cancellation ends a blocked read and a blocked write** of the component handshake too -/
theorem C04_component_cancel_progress {O : Component.Oracle} {script : List Item}
    {c : Component.Conf} (h : Component.Reach O script c) (hr : O.dlRd = true) (hw : O.dlWr = true)
    {wr : Bool} (hh : c.pc = .hung wr) : O.cancel c.tr = false := by
  have := (Component.inv_reach h).hung wr hh
  cases wr <;> simp_all

/-- the handshake always ends: after `2·|script| + 6` steps the machine is in a final point -/
theorem C04_component_returns (O : Component.Oracle) (script : List Item) :
    (Component.run O (2 * script.length + 6) (Component.init script)).pc.final = true :=
  Component.run_final O _ _ (by simp [Component.measure, Component.init, Component.rank])

example : (Component.run ⟨fun _ => false, fun _ => false, fun _ => false, true, true⟩ 10
    (Component.init [.pi, .hdr true, .ack])).pc = .done := by decide

/-- **the receiving side of the component handshake** (`component.ReceiveSession`, not implemented
by the library): whatever the peer sends and whatever fails or is cancelled, no session is ever
reported, nothing is read or written, and after one step the run has failed — the negotiator
refuses with an error (before the `fix:` commit it panicked on every call: finding
`panic|component-receive`) -/
theorem C04_component_receive_refused (O : Component.Oracle) (script : List Item) (n : Nat) :
    (Component.run O n (initRecv script)).pc ≠ .done ∧ (Component.run O n (initRecv script)).tr = [] ∧
    (1 ≤ n → (Component.run O n (initRecv script)).pc = .fail .proto) := by
  cases n with
  | zero => exact ⟨by simp [Component.run, initRecv], rfl, by omega⟩
  | succ n =>
    have h : Component.step O (initRecv script) = { initRecv script with pc := .fail .proto } := rfl
    rw [Component.run, h, Component.run_of_final O n _ rfl]
    exact ⟨by simp, rfl, fun _ => rfl⟩

end component

/-! ### non-vacuity -/

def fV : Feature := ⟨0, ⟨2, 1⟩, 0, 0, true⟩

/-- a voluntary feature whose `Negotiate` fails (the witness of the swallowed error) -/
def errO : Oracle := { quiet with neg := fun _ _ _ => ⟨0, false, true⟩ }

def swallowed : Conf := run [fV] errO 30 (init 0 [.hdr true, .adv [.feat ⟨2, 1⟩ false]] [⟨2, 1⟩])

example : swallowed.pc = .fail .cb := by decide
-- hypothesis of `C04_fail_closed`: a failed step in the trace
example : Ev.neg fV 0 false false false ⟨0, false, true⟩ ∈ swallowed.tr := by decide
example : (Ev.neg fV 0 false false false ⟨0, false, true⟩).faulty = true := by decide

/-- the third I/O operation (reading the features list) fails -/
def cut : Conf :=
  run [fV] { quiet with fault := fun k => k == 2 } 30 (init 0 [.hdr true, .adv [.feat ⟨2, 1⟩ false]] [⟨2, 1⟩])

example : cut.pc = .fail .io ∧ cut.tr = [.rd .list .fault, .rd .hdr .got, .hdrOut true] := by decide

/-- the context is cancelled inside the last callback: nothing is read or written afterwards,
the check after the negotiator call reports it -/
def cancelled : Conf :=
  run [fV] { quiet with cancel := fun tr => decide (4 ≤ tr.length) } 30
    (init 0 [.hdr true, .adv [.feat ⟨2, 1⟩ false]] [⟨2, 1⟩])

example : cancelled.pc = .fail .io := by decide
-- … and without the cancellation the same run is reported established (`C04_nil_only_if_clean`)
example : (run [fV] quiet 30 (init 0 [.hdr true, .adv [.feat ⟨2, 1⟩ false]] [⟨2, 1⟩])).pc = .done := by
  decide

/-! ### a stream configuration that depends on the session (`stepD`, see Props/C01)

Fail-closed does not depend on which features the config function returns for which state. -/

/-- **nil only if clean**, **fail closed**, **nothing after the failed step** for every config
function `F` -/
theorem C04_dyn_nil_only_if_clean {F : St → List Feature} {d : DConf}
    (h : ReachD F O st0 script picks d) (hd : d.c.pc = .done) : ∀ e ∈ d.c.tr, e.faulty = false :=
  (invB_reachD h).live (by rw [hd]; rfl)

theorem C04_dyn_fail_closed {F : St → List Feature} {d : DConf} (h : ReachD F O st0 script picks d)
    {e : Ev} (he : e ∈ d.c.tr) (hf : e.faulty = true) :
    (∃ cls, d.c.pc = .fail cls) ∨ d.c.pc = .abort := by
  have hb := invB_reachD h
  cases hp : d.c.pc <;> first
    | exact Or.inl ⟨_, rfl⟩
    | exact Or.inr rfl
    | (have := hb.live (by rw [hp]; rfl) e he; rw [hf] at this; cases this)

theorem C04_dyn_no_continue_after_fault {F : St → List Feature} {d : DConf}
    (h : ReachD F O st0 script picks d) : FaultShape d.c.tr := (invB_reachD h).shape

end XmppModel.Props.C04
