import XmppModel.Model.Negotiate
namespace XmppModel.Props.C04
open XmppModel XmppModel.Negotiate

/-- a failed run stays failed -/
theorem C04_fail_fixed (C : List Feature) (O : Oracle) (c : Conf) (e : ErrCls) (h : c.pc = .fail e) :
    step C O c = c := by
  unfold step
  simp [h]

end XmppModel.Props.C04
