import XmppModel.Model.Negotiate
import XmppModel.Lemmas.Negotiate
/-!
# C04 — session establishment fails closed under faults

The negotiation machine of C01 with faults: the `k`-th I/O operation fails for any set of
`k` (`O.fault`), the peer's input may end anywhere (`script`), any callback may fail
(`O.list`, `O.parseErr`, `O.neg`), the context may be cancelled at any point of the trace
(`O.cancel`).  Theorems hold for every such pattern.
-/
namespace XmppModel.Props.C04
open XmppModel XmppModel.Negotiate

variable {C : List Feature} {O : Oracle} {st0 : St} {script : List Peer} {picks : List FName}

theorem invB_reach {c : Conf} (h : Reach C O st0 script picks c) : InvB c := by
  refine reach_ind (P := InvB) ?_ (fun c _ hc => invB_step C O c hc) c h
  constructor
  · intro _ e he; cases he
  · intro h; cases h
  · left; intro e he; cases he

/-- **a nil error only for a clean run**: if session establishment reports success, every
executed step — every read, every write, every `List`, `Parse` and `Negotiate` callback —
succeeded -/
theorem C04_nil_only_if_clean {c : Conf} (h : Reach C O st0 script picks c) (hd : c.pc = .done) :
    ∀ e ∈ c.tr, e.faulty = false :=
  (invB_reach h).live (by rw [hd]; rfl)

/-- **fail closed**: as soon as any step has failed the machine is failing: it is in a
`fail` state, or about to flush the unfinished features list and then fail -/
theorem C04_fail_closed {c : Conf} (h : Reach C O st0 script picks c) {e : Ev} (he : e ∈ c.tr)
    (hf : e.faulty = true) : (∃ cls, c.pc = .fail cls) ∨ c.pc = .abort := by
  have hb := invB_reach h
  cases hp : c.pc <;> first
    | exact Or.inl ⟨_, rfl⟩
    | exact Or.inr rfl
    | (have := hb.live (by rw [hp]; rfl) e he; rw [hf] at this; cases this)

/-- the flush of the unfinished list is followed by the failure -/
theorem C04_abort_fails (c : Conf) (h : c.pc = .abort) : (step C O c).pc = .fail .cb := by
  unfold step; simp [h]

/-- a failed run stays failed: no further step, no further event -/
theorem C04_fail_fixed (c : Conf) (e : ErrCls) (h : c.pc = .fail e) : step C O c = c := by
  unfold step; simp [h]

/-- **nothing continues after a fault**: in every reachable trace at most one step failed, and
it is the last event — the single exception is the deferred flush of a features list whose
`List` callback failed (`writeStreamFeatures` closes its token writer on return) -/
theorem C04_no_continue_after_fault {c : Conf} (h : Reach C O st0 script picks c) :
    FaultShape c.tr := (invB_reach h).shape

end XmppModel.Props.C04
