import XmppModel.Model.Mux
/-!
# C14 — the multiplexer always picks the most specific registered handler

Property theorems only (helpers are in `Lemmas/Mux.lean`).
-/
namespace XmppModel.Props.C14
open XmppModel XmppModel.Xml XmppModel.Mux

/-- registering a pattern twice, or with a nil handler, is refused -/
theorem C14_register_refuse (tbl : Table) (p : Pattern) (nilHandler : Bool)
    (h : nilHandler = true ∨ p ∈ tbl) : register tbl p nilHandler = none := by
  unfold register
  rcases h with h | h
  · simp [h]
  · by_cases hn : nilHandler = true
    · simp [hn]
    · simp [hn, h]

end XmppModel.Props.C14
