import XmppModel.Model.Mux
import XmppModel.Lemmas.Mux
import XmppModel.Model.MuxElem
import XmppModel.Lemmas.MuxElem
import XmppModel.Generated.C14
/-!
# C14 — the multiplexer always picks the most specific registered handler

Property theorems only (helpers are in `Lemmas/Mux.lean`).  Quantifiers: every pattern table
(no bound on size), every query name (degenerate names with empty parts included), every
stanza and every list of consumption amounts.
-/
namespace XmppModel.Props.C14
open XmppModel XmppModel.Xml XmppModel.Mux

/-! ### the lookup cascades -/

/-- what a successful lookup returns is registered, belongs to the query's own kind and type,
and matches the queried name -/
theorem C14_lookup_sound (tbl : Table) (k : Kind) (typ : String) (n : Name) (p : Pattern)
    (h : lookup tbl k typ n = some p) :
    p ∈ tbl ∧ p.kind = k ∧ p.typ = typ ∧ matchesName p.name n = true := by
  unfold lookup at h
  cases hf : firstHit (fun s => decide (⟨k, typ, s⟩ ∈ tbl)) (shapes k n) with
  | none => simp [hf] at h
  | some s =>
    simp [hf] at h
    subst h
    have := firstHit_some hf
    refine ⟨by simpa using this.1, rfl, rfl, ?_⟩
    have hm : s ∈ shapes .iq n := by
      have h2 := this.2
      cases k <;> simp only [shapes, List.mem_cons, List.not_mem_nil, or_false] at h2 ⊢
      · rcases h2 with h | h | h <;> simp [h]
      all_goals exact h2
    exact matchesName_shapes n s hm

/-- **most specific**: for the stanza tables (IQ, message, presence) the handler returned is
the match of minimal specificity rank — exact name (0) before local name only (1) before
namespace only (2) before the bare wildcard (3) — among *all* registered patterns of the
query's kind and type that match the name -/
theorem C14_most_specific (tbl : Table) (k : Kind) (hk : k ≠ .top) (typ : String) (n : Name)
    (p : Pattern) (h : lookup tbl k typ n = some p) :
    ∀ q ∈ tbl, q.kind = k → q.typ = typ → matchesName q.name n = true →
      rank p.name ≤ rank q.name := by
  intro q hq hqk hqt hqm
  unfold lookup at h
  cases hf : firstHit (fun s => decide (⟨k, typ, s⟩ ∈ tbl)) (shapes k n) with
  | none => simp [hf] at h
  | some s =>
    simp [hf] at h
    subst h
    obtain ⟨pre, post, hl, hpre⟩ := firstHit_before hf
    have hqin : decide ((⟨k, typ, q.name⟩ : Pattern) ∈ tbl) = true := by
      have : (⟨k, typ, q.name⟩ : Pattern) = q := by cases q; simp_all
      simp [this, hq]
    have hnot : q.name ∉ pre := fun hc => by
      have := hpre _ hc
      simp [hqin] at this
    have hcases := matchesName_cases hqm
    rcases n with ⟨sp, lo⟩
    have hshape : shapes k ⟨sp, lo⟩ = [⟨sp, lo⟩, ⟨"", lo⟩, ⟨sp, ""⟩, ⟨"", ""⟩] := by
      cases k <;> simp_all [shapes]
    rw [hshape] at hl
    simp only at hcases
    -- which position was hit
    have hpos : (pre = [] ∧ s = ⟨sp, lo⟩) ∨ (pre = [⟨sp, lo⟩] ∧ s = ⟨"", lo⟩) ∨
        (pre = [⟨sp, lo⟩, ⟨"", lo⟩] ∧ s = ⟨sp, ""⟩) ∨
        (pre = [⟨sp, lo⟩, ⟨"", lo⟩, ⟨sp, ""⟩] ∧ s = ⟨"", ""⟩) := by
      match pre, hl with
      | [], hl => simp at hl; exact Or.inl ⟨rfl, hl.1.symm⟩
      | [a], hl => simp at hl; exact Or.inr (Or.inl ⟨by simp [hl.1], hl.2.1.symm⟩)
      | [a, b], hl => simp at hl; exact Or.inr (Or.inr (Or.inl ⟨by simp [hl.1, hl.2.1], hl.2.2.1.symm⟩))
      | [a, b, c], hl =>
        simp at hl
        exact Or.inr (Or.inr (Or.inr ⟨by simp [hl.1, hl.2.1, hl.2.2.1], hl.2.2.2.1.symm⟩))
      | a :: b :: c :: d :: e, hl => simp at hl
    by_cases hs : sp = "" <;> by_cases hlo : lo = "" <;>
      rcases hpos with ⟨hp, rfl⟩ | ⟨hp, rfl⟩ | ⟨hp, rfl⟩ | ⟨hp, rfl⟩ <;>
      rcases hcases with hc | hc | hc | hc <;>
      simp_all [rank] <;> (try omega) <;> (try (split <;> omega))

/-- a lookup fails exactly when no registered pattern of the query's kind and type matches
the name (stanza tables) -/
theorem C14_none_iff_no_match (tbl : Table) (k : Kind) (hk : k ≠ .top) (typ : String) (n : Name) :
    lookup tbl k typ n = none ↔
      ∀ q ∈ tbl, q.kind = k → q.typ = typ → matchesName q.name n = false := by
  constructor
  · intro h q hq hqk hqt
    unfold lookup at h
    cases hf : firstHit (fun s => decide (⟨k, typ, s⟩ ∈ tbl)) (shapes k n) with
    | some s => simp [hf] at h
    | none =>
      have hall := firstHit_none hf
      cases hm : matchesName q.name n with
      | false => rfl
      | true =>
        have hc := matchesName_cases hm
        have hin : q.name ∈ shapes k n := by
          cases k <;> simp_all [shapes]
        have := hall _ hin
        have hq' : (⟨k, typ, q.name⟩ : Pattern) = q := by cases q; simp_all
        simp [hq', hq] at this
  · intro h
    unfold lookup
    cases hf : firstHit (fun s => decide (⟨k, typ, s⟩ ∈ tbl)) (shapes k n) with
    | none => simp
    | some s =>
      have hs := firstHit_some hf
      have hm : s ∈ shapes .iq n := by
        have h2 := hs.2
        cases k <;> simp only [shapes, List.mem_cons, List.not_mem_nil, or_false] at h2 ⊢
        · exact absurd rfl hk
        all_goals exact h2
      have := h ⟨k, typ, s⟩ (by simpa using hs.1) rfl rfl
      simp [matchesName_shapes n s hm] at this

/-- patterns of another kind or another type never influence a lookup -/
theorem C14_kind_type_isolated (tbl : Table) (k : Kind) (typ : String) (n : Name) :
    lookup tbl k typ n = lookup (tbl.filter fun p => p.kind == k && p.typ == typ) k typ n := by
  unfold lookup
  congr 1
  congr 1
  funext s
  simp [List.mem_filter]

/-- the top-level table is consulted with the exact name, the local name only and the
namespace only, in that order; otherwise stanzas of the multiplexer's namespace go to the
stanza routers and everything else to the no-op default -/
theorem C14_route_cascade (tbl : Table) (ns : String) (n : Name) :
    route tbl ns n =
      if (⟨.top, "", n⟩ : Pattern) ∈ tbl then .handler ⟨.top, "", n⟩
      else if (⟨.top, "", ⟨"", n.loc⟩⟩ : Pattern) ∈ tbl then .handler ⟨.top, "", ⟨"", n.loc⟩⟩
      else if (⟨.top, "", ⟨n.space, ""⟩⟩ : Pattern) ∈ tbl then .handler ⟨.top, "", ⟨n.space, ""⟩⟩
      else if isStanzaLocal n && (ns == "" || n.space == ns) then
        (if n.loc == "iq" then .iqRouter else if n.loc == "message" then .msgRouter else .presRouter)
      else .nop := by
  unfold route lookup shapes
  simp only [firstHit]
  by_cases h1 : (⟨.top, "", n⟩ : Pattern) ∈ tbl
  · simp [h1]
  · by_cases h2 : (⟨.top, "", ⟨"", n.loc⟩⟩ : Pattern) ∈ tbl
    · simp [h1, h2]
    · by_cases h3 : (⟨.top, "", ⟨n.space, ""⟩⟩ : Pattern) ∈ tbl
      · simp [h1, h2, h3]
      · simp [h1, h2, h3]

/-! ### per-child dispatch with the replay buffer -/

/-- **full stanza**: whatever amounts the handlers of earlier children consumed (every list
`cons`), the handler chosen for a child payload reads the stanza from its start element: the
calls made by the buffered loop are exactly those of the reference semantics `specCalls`, in
which a handler that reads `c` tokens sees the first `c` tokens of the complete stanza -/
theorem C14_full_stanza (tbl : Table) (k : Kind) (typ : String) (start : Tok) (body : List Tok)
    (cons : List Nat) :
    (dispatchChildren tbl k typ (children (start :: body)) cons { buf := [start], rest := body }).1
      = specCalls tbl k typ (start :: body) (children (start :: body)) cons :=
  (dispatchChildren_spec tbl k typ (start :: body) _ cons _ rfl).1

/-- a handler that reads at least as many tokens as the stanza has gets the whole stanza -/
theorem C14_full_stanza_complete (stanza : List Tok) (c : Nat) (h : stanza.length ≤ c) :
    stanza.take c = stanza := List.take_of_length_le h

/-- the handler of each child is the most specific match for that child's name (the lookup of
`C14_most_specific`), in document order -/
theorem C14_children_handlers (tbl : Table) (k : Kind) (typ : String) (stanza : List Tok)
    (cs : List (Nat × Name)) (cons : List Nat) :
    (specCalls tbl k typ stanza cs cons).map (·.pat) = cs.map fun c => lookup tbl k typ c.2 := by
  induction cs generalizing cons with
  | nil => simp [specCalls]
  | cons c cs ih =>
    obtain ⟨pos, n⟩ := c
    unfold specCalls
    cases hl : lookup tbl k typ n <;> simp [ih, hl]

/-- **empty stanzas go to the type wildcard**: a stanza that consists of its start and end
tags only is offered once, from its start tag, to the lookup with the empty payload name -/
theorem C14_empty_to_wildcard (tbl : Table) (k : Kind) (typ : String) (n : Name) (as : List Attr)
    (e : Name) (cons : List Nat) (p : Pattern) (h : lookup tbl k typ ⟨"", ""⟩ = some p) :
    forChildren tbl k typ [.start n as, .stop e] cons
      = [{ pat := some p, view := [Tok.start n as, Tok.stop e].take (cons.headD 0) }] := by
  simp [forChildren, children, childrenAux, dispatchChildren, h]

example : lookup [⟨.msg, "chat", ⟨"", ""⟩⟩] .msg "chat" ⟨"", ""⟩ = some ⟨.msg, "chat", ⟨"", ""⟩⟩ := by decide

/-! ### the defaults -/

/-- **defaults**: an IQ for whose payload no pattern of its type matches is answered with a
service-unavailable error when it is a request (any type other than result / error), and with
nothing when it is itself a reply; a registered match always wins -/
theorem C14_iq_default (tbl : Table) (typ : String) (n : Name) :
    (lookup tbl .iq typ n = none →
      iqDispatch tbl typ n = if typ == "error" || typ == "result" then .nothing else .fallback) ∧
    (∀ p, lookup tbl .iq typ n = some p → iqDispatch tbl typ n = .handler p) := by
  constructor
  · intro h; simp [iqDispatch, h]
  · intro p h; simp [iqDispatch, h]

/-- messages and presences have no default action: when no pattern matches a child the no-op
handler runs, it reads nothing and nothing is written (`specCalls` records `pat = none` with an
empty view) -/
theorem C14_stanza_default (tbl : Table) (k : Kind) (typ : String) (stanza : List Tok)
    (pos : Nat) (n : Name) (cs : List (Nat × Name)) (cons : List Nat)
    (h : lookup tbl k typ n = none) :
    specCalls tbl k typ stanza ((pos, n) :: cs) cons
      = { pat := none, view := [] } :: specCalls tbl k typ stanza cs cons := by
  simp [specCalls, h]

/-! ### registration -/

/-- registering a pattern twice, or with a nil handler, is refused -/
theorem C14_register_refuse (tbl : Table) (p : Pattern) (nilHandler : Bool)
    (h : nilHandler = true ∨ p ∈ tbl) : register tbl p nilHandler = none := by
  unfold register
  rcases h with h | h
  · simp [h]
  · by_cases hn : nilHandler = true
    · simp [hn]
    · simp [hn, h]

/-- a new stanza pattern with a handler is accepted and is then found by its exact name -/
theorem C14_register_accept (tbl : Table) (p : Pattern) (hk : p.kind ≠ .top) (hnew : p ∉ tbl) :
    register tbl p false = some (p :: tbl) ∧
      lookup (p :: tbl) p.kind p.typ p.name = some p := by
  constructor
  · unfold register
    cases hkk : p.kind <;> simp_all
  · rcases p with ⟨pk, pt, pn⟩
    cases pk <;> simp_all [lookup, shapes, firstHit]

/-! ### histories: a lookup is a function of the registrations made so far -/

/-- a lookup depends only on *which* patterns are registered: not on the order of
registration, not on duplicates in the list representation -/
theorem C14_lookup_set (t1 t2 : Table) (h : ∀ p, p ∈ t1 ↔ p ∈ t2) (k : Kind) (typ : String) (n : Name) :
    lookup t1 k typ n = lookup t2 k typ n := by
  unfold lookup
  have : (fun s => decide ((⟨k, typ, s⟩ : Pattern) ∈ t1)) = (fun s => decide ((⟨k, typ, s⟩ : Pattern) ∈ t2)) := by
    funext s; simp [h]
  rw [this]

/-- **history independence**: on one multiplexer, the answer to the i-th operation of any
history (registrations, lookups in any of the four tables, top-level dispatches, in any
interleaving) is the answer a fresh multiplexer holding exactly the registrations made before
it would give — earlier lookups and dispatches leave no trace -/
theorem C14_history (ns : String) : ∀ (ops : List HOp) (tbl : Table) (i : Nat) (op : HOp),
    ops[i]? = some op →
    (runHist ns tbl ops)[i]? = some (histRes ns (tableAfter tbl (ops.take i)) op) := by
  intro ops
  induction ops with
  | nil => intro tbl i op h; simp at h
  | cons o ops ih =>
    intro tbl i op h
    cases i with
    | zero => simp at h; subst h; simp [runHist, tableAfter]
    | succ i =>
      simp only [List.getElem?_cons_succ] at h
      simpa [runHist, tableAfter] using ih (histStep tbl o) i op h

def HOp.isReg : HOp → Bool
  | .reg .. => true
  | _ => false

/-- lookups and dispatches never change the table: the state after a history is the state
after its registrations alone -/
theorem C14_history_state (ops : List HOp) : ∀ tbl : Table,
    tableAfter tbl ops = tableAfter tbl (ops.filter HOp.isReg) := by
  induction ops with
  | nil => intro tbl; rfl
  | cons o ops ih =>
    intro tbl
    cases o with
    | reg p nl => simp [tableAfter, HOp.isReg, List.filter] at ih ⊢; exact ih _
    | look k typ n => simp [tableAfter, HOp.isReg, List.filter, histStep] at ih ⊢; exact ih _
    | disp n => simp [tableAfter, HOp.isReg, List.filter, histStep] at ih ⊢; exact ih _

/-- a pattern registered later is seen by the very next lookup: registering the exact name
after the name was already looked up (and resolved to something less specific) changes the
answer to the exact pattern -/
theorem C14_history_later_registration (ns : String) (tbl : Table) (k : Kind) (hk : k ≠ .top)
    (typ : String) (n : Name) (hnew : (⟨k, typ, n⟩ : Pattern) ∉ tbl) :
    runHist ns tbl [.look k typ n, .reg ⟨k, typ, n⟩ false, .look k typ n]
      = [histRes ns tbl (.look k typ n), .regOk, .found ⟨k, typ, n⟩] := by
  have hr := (C14_register_accept tbl ⟨k, typ, n⟩ hk hnew)
  cases k with
  | top => exact absurd rfl hk
  | iq => have h2 := hr.2; simp only at h2; simp [runHist, histRes, histStep, hr.1, h2]
  | msg => have h2 := hr.2; simp only at h2; simp [runHist, histRes, histStep, hr.1, h2]
  | pres => have h2 := hr.2; simp only at h2; simp [runHist, histRes, histStep, hr.1, h2]

example : register [] ⟨.iq, "get", ⟨"urn:a", "x"⟩⟩ false = some [⟨.iq, "get", ⟨"urn:a", "x"⟩⟩] := by decide

/-! ### the replay buffer call by call, over either end-of-input framing -/

/-- **`bufReader.Token`**: whichever way the reader underneath reports the end of its input
(`io.EOF` on a separate call, or together with the last token), a reader whose offset lies in
its buffer hands out, over any number `c` of calls, exactly the next tokens of `buf ++ rest`,
and loses none of them: afterwards `buf' ++ rest' = buf ++ rest` and the old buffer is a prefix
of the new one -/
theorem C14_bufreader_replay (f : Framing) (c : Nat) (buf rest : List Tok) (off : Nat)
    (h : off ≤ buf.length) :
    (BufR.readN f c ⟨buf, off, rest⟩).1 = ((buf ++ rest).drop off).take c ∧
    (BufR.readN f c ⟨buf, off, rest⟩).2.buf ++ (BufR.readN f c ⟨buf, off, rest⟩).2.rest = buf ++ rest ∧
    buf <+: (BufR.readN f c ⟨buf, off, rest⟩).2.buf := by
  have hs := BufR.readN_spec f c buf rest off h
  refine ⟨hs.1, ?_, ?_⟩
  · rw [hs.2.1, hs.2.2, List.append_assoc, List.take_append_drop]
  · rw [hs.2.1]; exact List.prefix_append _ _

/-- the last token of the stanza arriving together with `io.EOF` is buffered like any other:
the next reader replays the complete stanza -/
example : (BufR.readN .eof 9 ⟨[.start ⟨"jabber:client", "message"⟩ []], 0, [.stop ⟨"jabber:client", "message"⟩]⟩).2.buf
    = [.start ⟨"jabber:client", "message"⟩ [], .stop ⟨"jabber:client", "message"⟩] := by decide

/-- a fresh reader over the handed-back buffer (offset 0) read `c` times sees the first `c`
tokens of the stanza: the call-by-call reader is the abstract `handlerRead`, for both framings -/
theorem C14_bufreader_fresh (f : Framing) (b : BR) (c : Nat) :
    b.stepRead f c = ((b.buf ++ b.rest).take c, b.advance c) := BR.stepRead_eq f b c

/-- **framing independence**: the whole per-child dispatch, every handler read computed call
by call over a reader of framing `f`, is the dispatch of `forChildren` — so every statement
above (full stanza from its start element, most specific handler per child, empty stanza to
the type wildcard) holds for readers that deliver the final end element together with `io.EOF` -/
theorem C14_framing_independent (f : Framing) (tbl : Table) (k : Kind) (typ : String)
    (stanza : List Tok) (cons : List Nat) :
    forChildrenF f tbl k typ stanza cons = forChildren tbl k typ stanza cons :=
  forChildrenF_eq f tbl k typ stanza cons

/-- the empty stanza over a reader that ends with `(end element, io.EOF)` reaches the type wildcard -/
example : (forChildrenF .eof [⟨.msg, "chat", ⟨"", ""⟩⟩] .msg "chat"
    [.start ⟨"jabber:client", "message"⟩ [], .stop ⟨"jabber:client", "message"⟩] [2]).length = 1 := by decide

/-! ### the payload handed to an IQ handler -/

/-- **IQ payload**: the handler registered for the most specific pattern matching the IQ's first
child element is given that element's start tag and reads exactly what follows it inside the
IQ — never the IQ's own end tag — and an IQ whose payload no pattern of its type matches gets
the defaults of `C14_iq_default` -/
theorem C14_iq_payload (tbl : Table) (typ : String) (s e : Tok) (n : Name) (as : List Attr)
    (rest : List Tok) (c : Nat) :
    iqRoute tbl typ (s :: .start n as :: (rest ++ [e])) c =
      match iqDispatch tbl typ n with
      | .handler p => .handler p n (rest.take c)
      | .fallback => .fallback
      | .nothing => .nothing := by
  have hd : (Tok.start n as :: (rest ++ [e])).dropLast = Tok.start n as :: rest := by
    rw [← List.cons_append, List.dropLast_concat]
  simp only [iqRoute, hd, List.dropWhile, isSpaceTok]
  cases iqDispatch tbl typ n <;> rfl

/-- whitespace before the payload is skipped, siblings after it stay readable -/
example : iqRoute [⟨.iq, "get", ⟨"urn:a", ""⟩⟩] "get"
    [.start ⟨"jabber:client", "iq"⟩ [], .chars " \n", .start ⟨"urn:a", "x"⟩ [], .stop ⟨"urn:a", "x"⟩,
     .chars "tail", .stop ⟨"jabber:client", "iq"⟩] 9
    = .handler ⟨.iq, "get", ⟨"urn:a", ""⟩⟩ ⟨"urn:a", "x"⟩ [.stop ⟨"urn:a", "x"⟩, .chars "tail"] := by
  simp [iqRoute, iqDispatch, lookup, shapes, firstHit, isSpaceTok, List.dropLast, List.dropWhile]

/-! ### the stanza's own attributes: type, id and addresses -/

/-- **only the stanza's own attributes count**: the type under which a message / presence / IQ
is dispatched, and the id and addresses `iqFallback` answers with, are those of the
*unqualified* attributes of the start element; attributes in any namespace (a foreign one, the
`xml` one, the stanza's own namespace bound to a prefix) may be added, removed or reordered
among them without any effect -/
theorem C14_own_attributes_only (k : Kind) (attrs : List Attr) :
    stanzaHdr k attrs = stanzaHdr k (attrs.filter fun a => a.name.space == "") :=
  stanzaHdr_filter k attrs

/-- an own `type` attribute sets the type (verbatim for IQs and presences, one of the five
declared types or `normal` for messages), whatever precedes it -/
theorem C14_type_of_own_attribute (k : Kind) (attrs : List Attr) (a : Attr)
    (h : ownAttr a "type" = true) :
    (stanzaHdr k (attrs ++ [a])).typ = typeOfAttr k a.value := by
  have ⟨h1, h2⟩ : a.name.space = "" ∧ a.name.loc = "type" := by simpa [ownAttr] using h
  simp [stanzaHdr, List.foldl_append, hdrStep, h1, h2]

/-- any other attribute — in particular a qualified one whose local name is `type` — leaves
the type as it was -/
theorem C14_type_unchanged (k : Kind) (attrs : List Attr) (a : Attr)
    (h : ownAttr a "type" = false) :
    (stanzaHdr k (attrs ++ [a])).typ = (stanzaHdr k attrs).typ := by
  simp only [stanzaHdr, List.foldl_append, List.foldl_cons, List.foldl_nil]
  exact hdrStep_typ_other k _ a h

/-- without an own `type` attribute a message is `normal`, a presence is available (the empty
type) and an IQ has the empty type -/
theorem C14_type_absent (k : Kind) (attrs : List Attr) (h : ∀ a ∈ attrs, ownAttr a "type" = false) :
    (stanzaHdr k attrs).typ = if k == .msg then "normal" else "" := by
  have := foldl_hdrStep_typ k attrs (hdrInit k) h
  simpa [stanzaHdr, hdrInit] using this

/-- a presence with a foreign attribute named `type` is dispatched as an available presence -/
example : (stanzaHdr .pres [⟨⟨"urn:ext", "type"⟩, "unavailable"⟩, ⟨⟨"", "id"⟩, "p1"⟩]).typ = "" := by decide
example : (stanzaHdr .msg [⟨⟨"jabber:client", "type"⟩, "chat"⟩, ⟨⟨"", "type"⟩, "Chat"⟩]).typ = "normal" := by decide

/-- **`msgRouter` / `presenceRouter`**: the whole dispatch of a stanza, from its start element,
over a reader of either framing, is `forChildren` with the type of the stanza's own
attributes — so by `C14_kind_type_isolated` only patterns of that type can run -/
theorem C14_router_type (f : Framing) (tbl : Table) (k : Kind) (n : Name) (attrs : List Attr)
    (body : List Tok) (cons : List Nat) :
    stanzaRoute f tbl k (.start n attrs :: body) cons =
      forChildren tbl k (stanzaHdr k (attrs.filter fun a => a.name.space == "")).typ
        (.start n attrs :: body) cons := by
  simp only [stanzaRoute, startAttrs, forChildrenF_eq]
  rw [← stanzaHdr_filter]

/-! ### the default reply -/

/-- **every unhandled request is answered**: for an IQ whose type is not `result` / `error`,
`iqFallback` writes one error reply carrying the request's id and addressed back to its sender —
for *all* addresses: absent, different, or equal (an entity querying its own address) -/
theorem C14_fallback_reply (h : Hdr) (h1 : h.typ ≠ "error") (h2 : h.typ ≠ "result") :
    fallbackReply h = some ⟨"error", h.id, h.frm, h.to⟩ := by
  simp [fallbackReply, h1, h2]

/-- a reply is never answered -/
theorem C14_fallback_silent (h : Hdr) (ht : h.typ = "error" ∨ h.typ = "result") :
    fallbackReply h = none := by
  rcases ht with ht | ht <;> simp [fallbackReply, ht]

example : fallbackReply ⟨"get", "42", "romeo@example.com/orchard", "romeo@example.com/orchard"⟩
    = some ⟨"error", "42", "romeo@example.com/orchard", "romeo@example.com/orchard"⟩ := by decide

/-- **defaults, from the start element on**: an IQ whose first child element matches no
pattern of its own type ends in the default of `C14_fallback_reply` / `C14_fallback_silent`
computed from its own attributes; a matching pattern's handler runs instead -/
theorem C14_iq_unhandled (tbl : Table) (n : Name) (attrs : List Attr) (pn : Name) (pas : List Attr)
    (rest : List Tok) (e : Tok) (c : Nat)
    (hno : lookup tbl .iq (stanzaHdr .iq attrs).typ pn = none) :
    iqRouteA tbl (.start n attrs :: .start pn pas :: (rest ++ [e])) c =
      match fallbackReply (stanzaHdr .iq (attrs.filter fun a => a.name.space == "")) with
      | some r => .reply r
      | none => .nothing := by
  rw [← stanzaHdr_filter]
  simp only [iqRouteA, startAttrs, C14_iq_payload, iqDispatch, hno]
  by_cases ht : ((stanzaHdr .iq attrs).typ == "error" || (stanzaHdr .iq attrs).typ == "result") = true
  · simp only [ht, if_true]
    simp [fallbackReply, ht]
  · simp only [ht]
    simp [fallbackReply, ht]

/-! ### tables probed on the real code -/

set_option maxRecDepth 200000 in
/-- **types are compared verbatim** (probe fact): for every kind and every ordered pair of
types of the probe universe — declared constants, the empty type, an unknown type, a case
variant — the real options and exported lookups find a pattern of type `T1` by a lookup of type
`T2`, and refuse the same name for `T2` after `T1`, exactly when the model does, i.e. exactly
when `T1 = T2` -/
theorem C14_probe_types : Generated.C14.typeTable = some typeTableModel := by decide

set_option maxRecDepth 200000 in
theorem C14_probe_types_identity :
    ∀ r ∈ typeTableModel, r.wild = (r.t1 == r.t2) ∧ r.exact = (r.t1 == r.t2) ∧ r.second = !(r.t1 == r.t2) := by decide

set_option maxRecDepth 200000 in
/-- **cascade order** (probe fact): for every kind and every subset of the four shapes of a
name the real exported lookup returns the handler of the pattern the model's cascade returns -/
theorem C14_probe_cascade : Generated.C14.cascadeTable = some cascadeTableModel := by decide

set_option maxRecDepth 200000 in
/-- **header** (probe fact): for every kind and every attribute list of length ≤ 2 over own and
foreign `type` / `id` / `to` / `from` / `xml:lang` attributes, the real multiplexer dispatches the
stanza under the type, and hands the handler a stanza value with the id and addresses, that the
model reads from the start element -/
theorem C14_probe_hdr : Generated.C14.hdrTable = some hdrTableModel := by decide

set_option maxRecDepth 200000 in
/-- **default reply** (probe fact): a real multiplexer without patterns, sent an IQ of every type
× every pair of addresses (absent, different, equal) × with / without id, writes exactly the
reply of the model (`iqRouteA`: header from the attributes, lookup, `fallbackReply`) or nothing -/
theorem C14_probe_fallback : Generated.C14.fallbackTable = some fallbackTableModel := by decide

set_option maxRecDepth 200000 in
/-- the model's table is the specification: a reply exactly for the types other than `result` /
`error`, with the request's id, to and from exchanged — in every row, whatever the addresses -/
theorem C14_fallback_table_spec :
    ∀ r ∈ fallbackTableModel,
      r.reply = if r.req.typ == "error" || r.req.typ == "result" then none
                else some ⟨"error", r.req.id, r.req.frm, r.req.to⟩ := by decide

/-! ## Round E: the multiplexer from the element on -/

/-! ### stanzas belong to the patterns of their own kind and type -/

/- Full strength (the property's "considering only patterns of the element's own stanza kind and
type — and otherwise its defaults"), FALSE for the code as it is (`C14_top_level_shadows_fails`):

    ∀ tbl ns n as body cons k, kindOfLocal n.loc = some k → (ns = "" ∨ n.space = ns) →
      handleElem tbl ns (.start n as :: body) cons = handleElem (own kind and type of tbl) ns … cons
-/
/-- **own kind and type, from the element on** (partial: hypothesis `hno`): a stanza of the
multiplexer's namespace which no *top-level* pattern matches is dispatched — registered
handlers, their order, the default reply — exactly as by a multiplexer holding only the patterns
of the stanza's own kind and of the type of its own attributes: patterns of the other kinds, of
other types and all top-level patterns can be removed without any effect -/
theorem C14_stanza_own_kind_partial (tbl : Table) (ns : String) (n : Name) (as : List Attr)
    (body : List Tok) (cons : List Nat) (k : Kind)
    (hk : kindOfLocal n.loc = some k) (hns : ns = "" ∨ n.space = ns)
    (hno : lookup tbl .top "" n = none) :
    handleElem tbl ns (.start n as :: body) cons =
      handleElem (tbl.filter fun p => p.kind == k &&
          p.typ == (stanzaHdr k (as.filter fun a => a.name.space == "")).typ)
        ns (.start n as :: body) cons := by
  rw [← stanzaHdr_filter]
  have hktop : k ≠ .top := by
    intro e; subst e
    simp only [kindOfLocal] at hk
    split at hk <;> (try split at hk) <;> (try split at hk) <;> simp at hk
  have hno' : lookup (tbl.filter fun p => p.kind == k && p.typ == (stanzaHdr k as).typ) .top "" n = none := by
    apply lookup_none_of_no_kind
    intro p hp hpk
    simp only [List.mem_filter, Bool.and_eq_true, beq_iff_eq] at hp
    exact hktop (hp.2.1 ▸ hpk)
  have hst : isStanzaFor ns n = true := by
    have hl : isStanzaLocal n = true := by
      simp only [kindOfLocal] at hk
      simp only [isStanzaLocal, Bool.or_eq_true]
      by_cases h1 : (n.loc == "iq") = true
      · exact Or.inl (Or.inl h1)
      · by_cases h2 : (n.loc == "message") = true
        · exact Or.inl (Or.inr h2)
        · by_cases h3 : (n.loc == "presence") = true
          · exact Or.inr h3
          · simp [h1, h2, h3] at hk
    rcases hns with h | h <;> simp [isStanzaFor, hl, h]
  simp only [handleElem, route_no_top _ _ _ hno, route_no_top _ _ _ hno', hst, if_true]
  simp only [kindOfLocal] at hk
  by_cases h1 : (n.loc == "iq") = true
  · simp only [h1, if_true] at hk ⊢
    have hk' : k = .iq := by simpa using hk.symm
    subst hk'
    simp only [iqRouteA, startAttrs]
    rw [iqRoute_congr _ _ _ (fun m => lookup_filter tbl .iq (stanzaHdr .iq as).typ m)]
  · simp only [h1, Bool.false_eq_true, if_false] at hk ⊢
    by_cases h2 : (n.loc == "message") = true
    · simp only [h2, if_true] at hk ⊢
      have hk' : k = .msg := by simpa using hk.symm
      subst hk'
      simp only [stanzaRoute, startAttrs, forChildrenF_eq]
      rw [forChildren_congr _ _ _ _ (fun m => lookup_filter tbl .msg (stanzaHdr .msg as).typ m)]
    · simp only [h2, Bool.false_eq_true, if_false] at hk ⊢
      by_cases h3 : (n.loc == "presence") = true
      · simp only [h3, if_true] at hk
        have hk' : k = .pres := by simpa using hk.symm
        subst hk'
        simp only [stanzaRoute, startAttrs, forChildrenF_eq]
        rw [forChildren_congr _ _ _ _ (fun m => lookup_filter tbl .pres (stanzaHdr .pres as).typ m)]
      · simp [h3] at hk

/-- the hypotheses are satisfiable with handlers that run -/
example : handleElem [⟨.msg, "normal", ⟨"", ""⟩⟩, ⟨.top, "", ⟨"urn:a", "x"⟩⟩, ⟨.pres, "", ⟨"", ""⟩⟩] "jabber:client"
    [.start ⟨"jabber:client", "message"⟩ [], .start ⟨"urn:a", "x"⟩ [], .stop ⟨"urn:a", "x"⟩, .stop ⟨"jabber:client", "message"⟩] [1]
    = .ran [⟨.msg, "normal", ⟨"", ""⟩⟩] := by decide

/-- **negation witness** (KNOWN_FINDINGS `top-level-pattern-shadows-stanzas`): without `hno` the
statement is false — a namespace-only top-level pattern, which `Handle` accepts
(`C14_shadowing_pattern_accepted`), takes a message of the multiplexer's namespace away from
the message pattern registered for it -/
theorem C14_top_level_shadows_fails :
    ¬ ∀ (tbl : Table) (ns : String) (n : Name) (as : List Attr) (body : List Tok) (cons : List Nat) (k : Kind),
      kindOfLocal n.loc = some k → (ns = "" ∨ n.space = ns) →
      handleElem tbl ns (.start n as :: body) cons =
        handleElem (tbl.filter fun p => p.kind == k &&
            p.typ == (stanzaHdr k (as.filter fun a => a.name.space == "")).typ)
          ns (.start n as :: body) cons := by
  intro h
  have := h [⟨.top, "", ⟨"jabber:client", ""⟩⟩, ⟨.msg, "normal", ⟨"", ""⟩⟩] "jabber:client"
    ⟨"jabber:client", "message"⟩ [] [.stop ⟨"jabber:client", "message"⟩] [] .msg (by decide) (Or.inr rfl)
  revert this
  decide

theorem C14_shadowing_pattern_accepted :
    (register [⟨.msg, "normal", ⟨"", ""⟩⟩] ⟨.top, "", ⟨"jabber:client", ""⟩⟩ false).isSome = true := by decide

/-- **the dispatch of an element is a function of the SET of registrations**: whatever the order
of the registrations, and whether or not elements were dispatched between them (the model's
state is the table: `C14_history_state`), two multiplexers holding the same patterns treat every
element alike — handlers, their order, their views, the default reply -/
theorem C14_elem_set (t1 t2 : Table) (h : ∀ p, p ∈ t1 ↔ p ∈ t2) (ns : String) (toks : List Tok)
    (cons : List Nat) : handleElem t1 ns toks cons = handleElem t2 ns toks cons := by
  have hl : ∀ k typ n, lookup t1 k typ n = lookup t2 k typ n :=
    fun k typ n => C14_lookup_set t1 t2 h k typ n
  have hr : ∀ n, route t1 ns n = route t2 ns n := fun n => by simp [route, hl]
  cases toks with
  | nil => rfl
  | cons t ts =>
    cases t with
    | start n as =>
      simp only [handleElem, hr, iqRouteA, stanzaRoute, forChildrenF_eq]
      rw [iqRoute_congr t1 t2 _ (hl .iq _), forChildren_congr t1 t2 .msg _ (hl .msg _),
        forChildren_congr t1 t2 .pres _ (hl .pres _)]
    | _ => rfl

/-! ### construction of the multiplexer value -/

/-- **a multiplexer without a stanza namespace routes the stanzas of every namespace** — the zero
value (`&ServeMux{}`, a `ServeMux` embedded by value) and `New("")` alike: an element named iq /
message / presence in *any* namespace, not taken by a top-level pattern, reaches the router of
its kind -/
theorem C14_zero_value_any_namespace (c : Ctor) (hc : c = .zero ∨ c = .value) (tbl : Table)
    (ns : String) (n : Name) (k : Kind) (hk : kindOfLocal n.loc = some k)
    (hno : lookup tbl .top "" n = none) :
    route tbl (muxNS c ns) n =
      (match k with | .iq => .iqRouter | .msg => .msgRouter | .pres => .presRouter | .top => .nop) := by
  have hm : muxNS c ns = "" := by rcases hc with h | h <;> subst h <;> rfl
  rw [hm, route_no_top _ _ _ hno]
  simp only [kindOfLocal] at hk
  by_cases h1 : (n.loc == "iq") = true
  · have : k = .iq := by simpa [h1] using hk.symm
    subst this
    simp [isStanzaFor, isStanzaLocal, h1]
  · by_cases h2 : (n.loc == "message") = true
    · have : k = .msg := by simpa [h1, h2] using hk.symm
      subst this
      simp [isStanzaFor, isStanzaLocal, h1, h2]
    · by_cases h3 : (n.loc == "presence") = true
      · have : k = .pres := by simpa [h1, h2, h3] using hk.symm
        subst this
        simp [isStanzaFor, isStanzaLocal, h1, h2, h3]
      · simp [h1, h2, h3] at hk

example : route [] (muxNS .zero "ignored") ⟨"jabber:component:accept", "iq"⟩ = .iqRouter := by decide

set_option maxRecDepth 200000 in
/-- **router table** (probe fact): the real multiplexer value made in every way the API allows
(`New` with options, options applied after `New`, the zero value, a `ServeMux` embedded by
value) × the namespace given to `New` × 20 element names reaches the stanza router the model
says, or none -/
theorem C14_probe_route : Generated.C14.routeTable = some routeTableModel := by decide

set_option maxRecDepth 200000 in
/-- the model's table is the specification: an element reaches a stanza router exactly when its
local name is iq / message / presence and the multiplexer holds no namespace (zero value,
`New("")`) or the element's -/
theorem C14_route_table_spec :
    ∀ r ∈ routeTableModel,
      (r.out != .nop) =
        ((r.name.loc == "iq" || r.name.loc == "message" || r.name.loc == "presence") &&
         (r.ctor == .zero || r.ctor == .value || r.ns == "" || r.name.space == r.ns)) := by decide

/-! ### own addresses that do not parse -/

/-- **address error**: if an own, non-empty `to` / `from` of the start element is rejected by the
address parser, the router returns before any lookup: no handler runs (`stanzaRouteP = none`),
and for an IQ nothing is answered either (`.err`, not `.reply`) — whatever the table holds -/
theorem C14_address_error (parse : ParseFn) (f : Framing) (tbl : Table) (k : Kind) (n : Name)
    (pre post : List Attr) (a : Attr) (body : List Tok) (cons : List Nat) (c : Nat)
    (ha : ownAddr a = true) (hp : parse a.value = none) :
    stanzaRouteP parse f tbl k (.start n (pre ++ a :: post) :: body) cons = none ∧
    iqRouteP parse tbl (.start n (pre ++ a :: post) :: body) c = .err := by
  constructor
  · simp [stanzaRouteP, startAttrs, stanzaHdrP_bad parse k pre post a ha hp]
  · simp [iqRouteP, startAttrs, stanzaHdrP_bad parse .iq pre post a ha hp]

example : ownAddr ⟨⟨"", "from"⟩, "@@"⟩ = true := by decide

/-- **addresses in canonical form change nothing**: when the parser accepts every own address
as it stands, the routers are those of the earlier theorems (`stanzaRoute`, `iqRouteA`) -/
theorem C14_addresses_parse (parse : ParseFn) (f : Framing) (tbl : Table) (k : Kind) (n : Name)
    (attrs : List Attr) (body : List Tok) (cons : List Nat) (c : Nat)
    (hall : ∀ a ∈ attrs, ownAddr a = true → parse a.value = some a.value) :
    stanzaRouteP parse f tbl k (.start n attrs :: body) cons
      = some (stanzaRoute f tbl k (.start n attrs :: body) cons, stanzaHdr k attrs) ∧
    iqRouteP parse tbl (.start n attrs :: body) c = iqRouteA tbl (.start n attrs :: body) c := by
  constructor
  · simp [stanzaRouteP, stanzaRoute, startAttrs, stanzaHdrP_ok parse k attrs hall]
  · simp only [iqRouteP, iqRouteA, startAttrs, stanzaHdrP_ok parse .iq attrs hall]
    cases iqRoute tbl (stanzaHdr .iq attrs).typ (.start n attrs :: body) c <;> rfl

/-- foreign attributes never reach the parser: a qualified `to` / `from` is not an own address -/
theorem C14_foreign_address_ignored (a : Attr) (h : a.name.space ≠ "") : ownAddr a = false := by
  simp [ownAddr, h]

set_option maxRecDepth 200000 in
/-- **address table** (probe fact): the real multiplexer holding the bare wildcard of the stanza's
type, sent a stanza of every kind × to × from over {absent, canonical, rewritten by `jid.Parse`,
three rejected forms, empty attribute}: it returns an error without invoking the handler, or
hands it a stanza value with the header, exactly as the attribute loop of the model run with
`jid.Parse`'s own verdicts on those addresses (`parseTable`, regenerated as well) -/
theorem C14_probe_addr :
    Generated.C14.addrTable = Generated.C14.parseTable.map addrTableModel := by decide

/-- **exactly the rejected own addresses end the router**: the attribute loop fails if and only if
some own, non-empty `to` / `from` of the start element is rejected by the parser — nothing else
(a foreign attribute, an empty address, a strange type or id) can make a stanza undeliverable -/
theorem C14_address_error_iff (parse : ParseFn) (k : Kind) (attrs : List Attr) :
    stanzaHdrP parse k attrs = none ↔ ∃ a ∈ attrs, ownAddr a = true ∧ parse a.value = none :=
  foldl_hdrStepP_none_iff parse k attrs _

/-! ### dispatches in flight on one multiplexer -/

/-- **overlapping dispatches are independent**: several dispatches in flight on one multiplexer
(sessions sharing it, a handler routing an inner stanza through it), their `bufReader.Token`
calls interleaved by ANY schedule, each replaying from and appending to its own buffer
(`Flight.own`: `forChildren` makes the buffer per call): the tokens dispatch `i` is handed are
those it is handed when it runs alone — so `C14_bufreader_replay` / `C14_full_stanza` hold for
each of them -/
theorem C14_overlap_independent (f : Framing) (i : Nat) (sched : List Nat) (fl : Flight)
    (h : fl.own) :
    ((Flight.run f sched fl).filter (·.1 == i)).map (·.2)
      = BufR.readSeq f (sched.count i) (fl.view i) :=
  Flight.run_proj f i sched fl h

/-- two dispatches, each with its own buffer holding its start element -/
def flOwn : Flight :=
  { heap := fun s => if s = 0 then [.start ⟨"jabber:client", "message"⟩ [⟨⟨"", "id"⟩, "outer"⟩]]
                     else [.start ⟨"jabber:client", "message"⟩ [⟨⟨"", "id"⟩, "other"⟩]],
    rds := fun i => ⟨i, 0, [.stop ⟨"jabber:client", "message"⟩]⟩ }

example : flOwn.own := fun _ => rfl

/-- the same two dispatches replaying from ONE buffer (a buffer kept in the multiplexer) -/
def flShared : Flight := { flOwn with rds := fun _ => ⟨0, 0, [.stop ⟨"jabber:client", "message"⟩]⟩ }

/-- **negation witness**: without `own` the statement is false — with a shared buffer the second
dispatch is handed the first one's start element -/
theorem C14_overlap_shared_fails :
    ¬ (((Flight.run .sep [0, 1] flShared).filter (·.1 == 1)).map (·.2)
        = BufR.readSeq .sep 1 ⟨flOwn.heap 1, 0, [.stop ⟨"jabber:client", "message"⟩]⟩) := by decide

/-! ### stanzas without child elements -/

/-- a stanza that is not empty but has no child *element* (white space or text only, what a
pretty-printing peer sends) reaches no handler at all — neither a payload pattern nor the type
wildcard: "empty stanzas" are exactly `[start, end]` (`C14_empty_to_wildcard`) -/
theorem C14_text_only_no_handler (tbl : Table) (k : Kind) (typ : String) (stanza : List Tok)
    (cons : List Nat) (hc : children stanza = []) (hl : stanza.length ≠ 2) :
    forChildren tbl k typ stanza cons = [] := by
  cases stanza with
  | nil => rfl
  | cons s body =>
    have hl' : ((s :: body).length == 2) = false := by simpa using hl
    simp only [forChildren, hc, dispatchChildren, hl']
    rfl

example : children [.start ⟨"jabber:client", "message"⟩ [], .chars "\n", .stop ⟨"jabber:client", "message"⟩] = [] := by decide


/-! ### the top-level table -/

/-- **most specific, top-level table**: `Handler` consults exact name, local name only, namespace
only — it has no bare-wildcard step — so among the registered top-level patterns matching the
element's name, the bare wildcard excepted (unless the name itself lacks a part, when the
wildcard IS one of the three shapes), the one returned has minimal specificity rank -/
theorem C14_top_most_specific (tbl : Table) (typ : String) (n : Name) (p : Pattern)
    (h : lookup tbl .top typ n = some p) :
    ∀ q ∈ tbl, q.kind = .top → q.typ = typ → matchesName q.name n = true →
      (q.name ≠ ⟨"", ""⟩ ∨ n.space = "" ∨ n.loc = "") → rank p.name ≤ rank q.name := by
  intro q hq hqk hqt hqm hw
  unfold lookup at h
  cases hf : firstHit (fun s => decide (⟨.top, typ, s⟩ ∈ tbl)) (shapes .top n) with
  | none => simp [hf] at h
  | some s =>
    simp [hf] at h
    subst h
    obtain ⟨pre, post, hl, hpre⟩ := firstHit_before hf
    have hqin : decide ((⟨.top, typ, q.name⟩ : Pattern) ∈ tbl) = true := by
      have : (⟨.top, typ, q.name⟩ : Pattern) = q := by cases q; simp_all
      simp [this, hq]
    have hnot : q.name ∉ pre := fun hc => by
      have := hpre _ hc
      simp [hqin] at this
    have hcases := matchesName_cases hqm
    rcases n with ⟨sp, lo⟩
    have hshape : shapes .top ⟨sp, lo⟩ = [⟨sp, lo⟩, ⟨"", lo⟩, ⟨sp, ""⟩] := rfl
    rw [hshape] at hl
    simp only at hcases hw
    have hpos : (pre = [] ∧ s = ⟨sp, lo⟩) ∨ (pre = [⟨sp, lo⟩] ∧ s = ⟨"", lo⟩) ∨
        (pre = [⟨sp, lo⟩, ⟨"", lo⟩] ∧ s = ⟨sp, ""⟩) := by
      match pre, hl with
      | [], hl => simp at hl; exact Or.inl ⟨rfl, hl.1.symm⟩
      | [a], hl => simp at hl; exact Or.inr (Or.inl ⟨by simp [hl.1], hl.2.1.symm⟩)
      | [a, b], hl => simp at hl; exact Or.inr (Or.inr ⟨by simp [hl.1, hl.2.1], hl.2.2.1.symm⟩)
      | a :: b :: c :: d, hl => simp at hl
    by_cases hs : sp = "" <;> by_cases hlo : lo = "" <;>
      rcases hpos with ⟨hp, rfl⟩ | ⟨hp, rfl⟩ | ⟨hp, rfl⟩ <;>
      rcases hcases with hc | hc | hc | hc <;>
      simp_all [rank] <;> (try omega) <;> (try (split <;> omega))

example : lookup [⟨.top, "", ⟨"urn:a", ""⟩⟩, ⟨.top, "", ⟨"", "x"⟩⟩] .top "" ⟨"urn:a", "x"⟩ = some ⟨.top, "", ⟨"", "x"⟩⟩ := by decide

/-! ### a reader that fails in the middle of a stanza -/

/-- **failing reader**: when the reader underneath fails (not `io.EOF`) after `cut` tokens of the
stanza, the handlers invoked are those of the children whose start tag arrived — the same
patterns, in the same order, as the first handlers of the complete dispatch — and each reads
the first `c` tokens of what arrived, from the stanza's start element; nothing beyond the
failure point is invented -/
theorem C14_failing_reader (tbl : Table) (k : Kind) (typ : String) (stanza : List Tok)
    (cons : List Nat) (cut : Nat) :
    forChildrenCut tbl k typ stanza cons cut
      = specCalls tbl k typ (stanza.take cut) (children (stanza.take cut)) cons ∧
    (forChildrenCut tbl k typ stanza cons cut).map (·.pat)
      <+: (specCalls tbl k typ stanza (children stanza) cons).map (·.pat) := by
  refine ⟨forChildrenCut_spec tbl k typ stanza cons cut, ?_⟩
  rw [forChildrenCut_spec, specCalls_pats, specCalls_pats]
  exact (children_take_prefix stanza cut).map _

example : (forChildrenCut [⟨.msg, "chat", ⟨"", ""⟩⟩] .msg "chat"
    [.start ⟨"jabber:client", "message"⟩ [], .start ⟨"urn:a", "x"⟩ [], .stop ⟨"urn:a", "x"⟩,
     .start ⟨"urn:a", "y"⟩ [], .stop ⟨"urn:a", "y"⟩, .stop ⟨"jabber:client", "message"⟩] [9, 9] 3).length = 1 := by decide

end XmppModel.Props.C14
