import XmppModel.Model.Correlate
import XmppModel.Lemmas.Correlate
import XmppModel.Lemmas.CorrAccount
import XmppModel.Model.Muc
import XmppModel.Lemmas.Muc
import XmppModel.Model.IbbReader
import XmppModel.Model.IbbClose
import XmppModel.Generated.C06
import XmppModel.Lemmas.CorrAttrs
import XmppModel.Model.CorrWrap
import XmppModel.Model.CorrExpect
import XmppModel.Model.CorrIbb
import XmppModel.Lemmas.CorrKey
/-!
# C06 — every correlated wait ends exactly once with its own reply or its context error

Property theorems over the LTS of `Model/Correlate.lean`.  Quantifiers: any number of
requesters (`Nat`-indexed, ids may collide), any peer behaviour (`read st` for every
stanza), any placement of cancellation, transmission failure and closing — every reachable
state of every schedule (`Reach`), proved by inductive invariants (`Lemmas/Correlate.lean`).
-/
namespace XmppModel.Props.C06
open XmppModel.Correlate

/-- the outcome a call has fixed (from the moment its `select` chose, or its transmission failed) -/
def outcome? : RPc → Option Outcome
  | .leaving o => some o
  | .done o _ => some o
  | _ => none

/-! ### one outcome per call -/

theorem C06_outcome_stable_step {cfg s a s'} {i : Nat} {o : Outcome}
    (hs : step cfg s a = some s') (h : outcome? (s.rpc i) = some o) : outcome? (s'.rpc i) = some o := by
  cases a <;> simp only [step] at hs <;> (try split at hs) <;> (try split at hs) <;> (try split at hs) <;>
    (try simp at hs) <;> (try subst hs) <;> simp only [upd] at * <;> grind [outcome?]

/-- a call records at most one outcome: once fixed it never changes, along any schedule -/
theorem C06_at_most_once {cfg} {i : Nat} {o : Outcome} :
    ∀ {as s s'}, run cfg s as = some s' → outcome? (s.rpc i) = some o → outcome? (s'.rpc i) = some o := by
  intro as
  induction as with
  | nil => intro s s' hr h; simp [run] at hr; subst hr; exact h
  | cons a as ih =>
    intro s s' hr h
    simp only [run] at hr
    split at hr
    · rename_i s1 hs1
      exact ih hr (C06_outcome_stable_step hs1 h)
    · simp at hr

example : outcome? ((RPc.done (.reply 3) false)) = some (.reply 3) := rfl

/-- the outcome `ctxErr` is only ever taken when the caller's context was cancelled -/
theorem C06_ctx_error_only_if_cancelled {cfg s s'} {i : Nat}
    (hs : step cfg s (.timeout i) = some s') : s.cancelled i = true ∧ s.rpc i = .waiting := by
  simp only [step] at hs
  split at hs
  · split at hs <;> simp_all
  · simp at hs

/-! ### own reply, single delivery -/

/-- a held response was made from a peer stanza of type result/error with the caller's id and
the caller's stanza kind (local name) — whatever namespace form the request was sent with — and
whose namespace is the request's, or any if the request carried none -/
theorem C06_own_reply {cfg s} (hr : Reach cfg s) {i k : Nat} (h : (s.rpc i).held = some k) :
    ∃ st, s.hist[k]? = some st ∧ st.resp = true ∧ st.id = cfg.ids i ∧ st.kind = cfg.kinds i ∧
      (cfg.spaces i = st.ns ∨ cfg.spaces i = .empty) := by
  have hB := (inv_reach hr).2
  obtain ⟨⟨hlt, hm⟩, _, _⟩ := hB.holdMatch i k h
  have hget : s.hist[k]? = some s.hist[k] := by simp [hlt]
  refine ⟨s.hist[k], hget, ?_⟩
  have := hm _ hget
  refine ⟨this.1, this.2.1, this.2.2.1, ?_⟩
  have hn := this.2.2.2
  simp only [nsMatch, Bool.or_eq_true, beq_iff_eq] at hn
  exact hn

/-- kind equality for every namespace form of the request, stated on the lookup itself: a
stanza of another kind never matches, not even when the namespaces are equal -/
theorem C06_lookup_kind {cfg s st j} (h : lookup cfg s st = some j) :
    cfg.kinds j = st.kind ∧ st.resp = true ∧ s.table st.id = some j ∧
    (cfg.spaces j = st.ns ∨ cfg.spaces j = .empty) := by
  have := lookup_some h
  refine ⟨this.2.2.1, this.1, this.2.1, ?_⟩
  have hn := this.2.2.2
  simp only [nsMatch, Bool.or_eq_true, beq_iff_eq] at hn
  exact hn

example : lookup { ids := fun i => i, kinds := fun _ => .iq, derived := true, spaces := fun _ => .stream }
    { init with table := fun _ => some 0 } ⟨.message, 0, true, .stream, false⟩ = none := by
  simp [lookup]
example : lookup { ids := fun i => i, kinds := fun _ => .iq, derived := true, spaces := fun _ => .stream }
    { init with table := fun _ => some 0 } ⟨.iq, 0, true, .stream, false⟩ = some 0 := by
  simp [lookup, nsMatch]
example : lookup { ids := fun i => i, kinds := fun _ => .iq, derived := true, spaces := fun _ => .other }
    { init with table := fun _ => some 0 } ⟨.iq, 0, true, .stream, false⟩ = none := by
  simp [lookup, nsMatch]

/-- only result/error stanzas consult the table: any other stanza (an incoming get/set IQ, a
chat message, an available presence) goes to the handler even if its id is that of a pending
request, and every waiter keeps waiting -/
theorem C06_only_responses_consult_table {cfg s st} (hidle : s.spc = .idle) (hn : st.resp = false) :
    ∃ s', step cfg s (.read st) = some s' ∧ s'.hlog = s.hist.length :: s.hlog ∧
      s'.spc = (if st.bad || (autoReply st && (s.broken || s.outClosed)) then .dead else .idle) ∧
      s'.rpc = s.rpc ∧ s'.table = s.table := by
  have hl : lookup cfg s st = none := by simp [lookup, hn]
  simp only [step, hidle, hl]
  split <;> simp_all

/-- a response reaches at most one caller … -/
theorem C06_single_delivery {cfg s} (hr : Reach cfg s) {i i' k : Nat}
    (h : (s.rpc i).held = some k) (h' : (s.rpc i').held = some k) : i = i' :=
  (inv_reach hr).2.uniq i i' k h h'

/-- … and a delivered response was neither given to the handler nor discarded -/
theorem C06_delivery_exclusive {cfg s} (hr : Reach cfg s) {i k : Nat}
    (h : (s.rpc i).held = some k) : k ∉ s.hlog ∧ k ∉ s.dropped :=
  ((inv_reach hr).2.holdMatch i k h).2

/-! ### responses nobody waits for go to the handler -/

/-- "nobody waits" = no entry of that id and stanza name at lookup time -/
theorem C06_lookup_none_iff {cfg s st} :
    lookup cfg s st = none ↔
      ¬ (st.resp = true ∧ ∃ j, s.table st.id = some j ∧ cfg.kinds j = st.kind ∧ nsMatch (cfg.spaces j) st.ns = true) := by
  unfold lookup
  split
  · split
    · split <;> simp_all
    · simp_all
  · simp_all

theorem C06_unmatched_to_handler {cfg s st} (hidle : s.spc = .idle) (hl : lookup cfg s st = none) :
    ∃ s', step cfg s (.read st) = some s' ∧ s'.hlog = s.hist.length :: s.hlog ∧
      s'.spc = (if st.bad || (autoReply st && (s.broken || s.outClosed)) then .dead else .idle)
      ∧ s'.rpc = s.rpc := by
  simp only [step, hidle, hl]
  split <;> simp_all

theorem C06_matched_offered {cfg s st j} (hidle : s.spc = .idle) (hl : lookup cfg s st = some j) :
    ∃ s', step cfg s (.read st) = some s' ∧ s'.hlog = s.hlog ∧ s'.spc = .offering j s.hist.length := by
  simp [step, hidle, hl]

/-- the cancel window (round E, after the repo fix): the serve loop gives up a hand-off only while
the context registered for the matched waiter is done — and then the response, which nobody waits
for any more, goes to the handler like every other unmatched response; nothing is discarded -/
theorem C06_cancel_window_to_handler {cfg s s'} (hs : step cfg s .abandon = some s') :
    ∃ j k, s.spc = .offering j k ∧ ctxDone cfg s j = true ∧ s'.hlog = k :: s.hlog ∧ s'.dropped = s.dropped ∧
      (s'.spc = .idle ∨ s'.spc = .dead) := by
  simp only [step] at hs
  split at hs
  · rename_i j k hj
    split at hs
    · simp at hs; subst hs
      refine ⟨j, k, hj, by assumption, rfl, rfl, ?_⟩
      simp only []; split <;> simp
    · simp at hs
  · simp at hs

/-- no response is ever discarded: in every reachable state the list of dropped responses is empty
(before the round E fix a response looked up in the window between the cancellation of its
caller and the caller's deregistration was) -/
theorem C06_nothing_dropped {cfg s} (hr : Reach cfg s) : s.dropped = [] := by
  have stepEq : ∀ {s a s'}, step cfg s a = some s' → s'.dropped = s.dropped := by
    intro s a s' hs
    cases a <;> simp only [step] at hs <;> (try split at hs) <;> (try split at hs) <;> (try split at hs) <;>
      (try simp at hs) <;> (try (obtain ⟨_, hs⟩ := hs)) <;> (try subst hs) <;> (try rfl) <;> simp_all
  induction hr with
  | init => rfl
  | step _ hs ih => rw [stepEq hs]; exact ih

/-! ### every stanza read is accounted for (round E, review A C06-1)

The clauses "a response reaches at most one caller", "never a caller with a different id" and
"responses nobody waits for go to the handler" as ONE invariant over all reachable states (any
number of requesters, any schedule) — not a statement about one branch of `step`. -/

/-- in every reachable state every stanza the serve loop has read is in exactly one of three
places: the handler got it (and no call holds it), exactly one call holds it (and the handler did
not get it), or the serve loop is offering it right now (and neither has it) -/
theorem C06_every_stanza_accounted {cfg s} (hr : Reach cfg s) (k : Nat) (hk : k < s.hist.length) :
    (k ∈ s.hlog ∧ ∀ i, (s.rpc i).held ≠ some k) ∨
    (∃ i, (s.rpc i).held = some k ∧ k ∉ s.hlog ∧ ∀ i', (s.rpc i').held = some k → i' = i) ∨
    (∃ j, s.spc = .offering j k ∧ k ∉ s.hlog ∧ ∀ i, (s.rpc i).held ≠ some k) := by
  have hB := (inv_reach hr).2
  rcases accounted_reach hr k hk with h1 | ⟨i, h2⟩ | ⟨j, h3⟩
  · exact Or.inl ⟨h1, fun i hi => (hB.holdMatch i k hi).2.1 h1⟩
  · exact Or.inr (Or.inl ⟨i, h2, (hB.holdMatch i k h2).2.1, fun i' hi' => hB.uniq i' i k hi' h2⟩)
  · obtain ⟨_, _, _, hnl, _, hnh⟩ := hB.offer j k h3
    exact Or.inr (Or.inr ⟨j, h3, hnl, hnh⟩)

/-- once the handler has a stanza it keeps it: whatever happens afterwards (late calls with that
id, cancellations, closes) the stanza is never handed to a caller -/
theorem C06_handled_stays_handled {cfg} {k : Nat} :
    ∀ {as s s'}, Reach cfg s → run cfg s as = some s' → k ∈ s.hlog → k ∈ s'.hlog ∧ ∀ i, (s'.rpc i).held ≠ some k := by
  intro as
  induction as with
  | nil =>
    intro s s' hr hrun h
    simp [run] at hrun; subst hrun
    exact ⟨h, fun i hi => ((inv_reach hr).2.holdMatch i k hi).2.1 h⟩
  | cons a as ih =>
    intro s s' hr hrun h
    simp only [run] at hrun
    split at hrun
    · rename_i s1 hs1
      exact ih (Reach.step hr hs1) hrun (hlog_mono hs1 h)
    · simp at hrun

/-- non-vacuity: one run with a stanza in each of the three places (0 handled: unknown id; 1 held
by requester 0; 2 being offered to requester 1) -/
example : ∃ s, run { ids := fun i => i, kinds := fun _ => .iq, derived := true } init
    [.read ⟨.iq, 7, true, .stream, false⟩, .call 0, .sendOk 0, .call 1, .sendOk 1,
     .read ⟨.iq, 0, true, .stream, false⟩, .recv 0, .dereg 0, .close 0, .read ⟨.iq, 1, true, .stream, false⟩] = some s ∧
    s.hlog = [0] ∧ (s.rpc 0).held = some 1 ∧ s.spc = .offering 1 2 := by
  simp [run, step, init, lookup, upd, nsMatch, RPc.held]

/-! ### the serve loop waits for the close, whatever happens to the caller's context (round F, seeded C06-22) -/

/-- in every reachable state: while a caller holds a response it has not closed, the serve loop is
waiting for exactly that close and reads no further stanza -/
theorem C06_serve_waits_while_response_open {cfg s} (hr : Reach cfg s) {i k : Nat}
    (h : (s.rpc i).heldOpen = some k) : s.spc = .waitClose i k ∧ ∀ st, step cfg s (.read st) = none := by
  have hw := (inv_reach hr).2.holdWait i k h
  exact ⟨hw, fun st => by simp [step, hw]⟩

/-- … and the end of the caller's context (cancellation, deadline) after the call has returned
changes nothing about that: the response stays the caller's, the serve loop keeps waiting; only
the close (or a read error inside the response) lets it go on -/
theorem C06_cancel_after_return_keeps_serve_waiting {cfg s} (hr : Reach cfg s) {i k : Nat}
    (h : (s.rpc i).heldOpen = some k) :
    ∃ s', step cfg s (.cancel i) = some s' ∧ (s'.rpc i).heldOpen = some k ∧ s'.spc = .waitClose i k ∧
      ∀ st, step cfg s' (.read st) = none := by
  refine ⟨{ s with cancelled := upd s.cancelled i true }, rfl, h, ?_⟩
  have hr' : Reach cfg { s with cancelled := upd s.cancelled i true } := Reach.step hr (a := .cancel i) rfl
  exact C06_serve_waits_while_response_open hr' (i := i) (k := k) h

example : ∃ s, run { ids := fun i => i, kinds := fun _ => .iq, derived := true } init
    [.call 0, .sendOk 0, .read ⟨.iq, 0, true, .stream, false⟩, .recv 0, .dereg 0, .cancel 0] = some s ∧
    (s.rpc 0).heldOpen = some 0 ∧ s.spc = .waitClose 0 0 := by
  simp [run, step, init, lookup, upd, nsMatch, RPc.heldOpen]

/-! ### progress -/

/-- a waiting requester whose context is cancelled, or to which its reply is on offer, can step -/
theorem C06_progress_requester {cfg s} {i : Nat} (hw : s.rpc i = .waiting) :
    (s.cancelled i = true → (step cfg s (.timeout i)).isSome) ∧
    (∀ k, s.spc = .offering i k → (step cfg s (.recv i)).isSome) := by
  constructor
  · intro hc; simp [step, hw, hc]
  · intro k hk; simp [step, hw, hk]

/-- `Serve` only ever returns (in this model: after a failed write of its own) on an output that
cannot take the write, and it leaves the output stream closed -/
theorem serve_dead_closed {cfg s} (hr : Reach cfg s) (h : s.spc = .dead) : s.outClosed = true := by
  induction hr with
  | init => simp [init] at h
  | step _ hs ih =>
    rename_i s0 s1 a _
    cases a <;> simp only [step] at hs <;> (try split at hs) <;> (try split at hs) <;> (try split at hs) <;>
      (try split at hs) <;> (try simp at hs) <;> (try subst hs) <;> (try simp only [upd] at *) <;> grind

/-- what the serve loop may be waiting for -/
def ServeProgress (cfg : Cfg) (s : St) : Prop :=
  match s.spc with
  | .idle => ∀ st, (step cfg s (.read st)).isSome                           -- (a) peer input
  | .waitClose j k =>                                                       -- (b) the caller's close
      (s.rpc j).heldOpen = some k ∧ ((step cfg s (.dereg j)).isSome ∨ (step cfg s (.close j)).isSome)
  | .offering j _ =>                                                        -- hand-off: somebody can move
      (step cfg s (.recv j)).isSome ∨ (step cfg s .abandon).isSome ∨
      (step cfg s (.sendOk j)).isSome ∨ (step cfg s (.sendFail j)).isSome ∨ (step cfg s (.dereg j)).isSome
  | .dead => s.outClosed = true                                             -- `Serve` returned: only after a write it had to make failed

/-- the serve loop never waits for anything but peer input or the close of a response it has
handed to a caller that still holds it open; while it offers a response, the matched caller or
the serve loop itself has an enabled step (repaired code: `derived = true`) -/
theorem C06_progress_serve {cfg s} (hd : cfg.derived = true) (hr : Reach cfg s) : ServeProgress cfg s := by
  have hB := (inv_reach hr).2
  unfold ServeProgress
  split
  · rename_i hidle
    intro st
    simp only [step, hidle]
    split <;> (try split) <;> simp
  · rename_i j k hw
    have ho := hB.waitHold j k hw
    refine ⟨ho, ?_⟩
    cases hj : s.rpc j <;> simp [hj, RPc.heldOpen] at ho
    · left; simp [step, hj]
    · rename_i o c
      cases o <;> cases c <;> simp [RPc.heldOpen] at ho
      right; subst ho; simp [step, hj, hw]
  · rename_i j k hoff
    have ho := (hB.offer j k hoff).2.2.1
    cases hj : s.rpc j with
    | fresh => exact absurd hj ho
    | sending => right; right; right; left; simp [step, hj]
    | waiting => left; simp [step, hj, hoff]
    | leaving o => right; right; right; right; simp [step, hj]
    | done o c => right; left; simp [step, hoff, ctxDone, hj, hd]
  · rename_i hdead
    exact serve_dead_closed hr hdead

/-- once the caller closes the response the serve loop continues with the next stanza (unless the
rest of that response cannot be read: then `Serve` returns the read error) -/
theorem C06_continue_after_close {cfg s s'} (hr : Reach cfg s) {i j k : Nat}
    (hw : s.spc = .waitClose j k) (hs : step cfg s (.close i) = some s') :
    i = j ∧ (s'.spc = .idle ∨ s'.spc = .dead) ∧ (s'.spc = .idle → ∀ st, (step cfg s' (.read st)).isSome) ∧
    (s'.spc = .dead → ∃ st, s.hist[k]? = some st ∧ st.bad = true) := by
  have hB := (inv_reach hr).2
  simp only [step] at hs
  split at hs
  · rename_i k' hk'
    have := hB.holdWait i k' (by simp [hk', RPc.heldOpen])
    rw [hw] at this
    injection this with hji hkk
    subst hji; subst hkk
    simp only [hw, if_true] at hs
    cases hh : s.hist[k]? with
    | none => simp [hh] at hs; subst hs; refine ⟨rfl, Or.inl rfl, ?_, by simp⟩
              intro _ st; simp only [step]; split <;> (try split) <;> simp
    | some st0 =>
      cases hb : st0.bad
      · simp [hh, hb] at hs; subst hs; refine ⟨rfl, Or.inl rfl, ?_, by simp⟩
        intro _ st; simp only [step]; split <;> (try split) <;> simp
      · simp [hh, hb] at hs; subst hs; exact ⟨rfl, Or.inr rfl, by simp, fun _ => ⟨st0, rfl, hb⟩⟩
  · simp at hs

/-! ### after a failed transmission: what still holds on a broken (or closed) output

A transmission that fails after the start element went out leaves that element unfinished; every
later write on the session fails (`errOutputBroken`), and `Serve` returns as soon as it has to
write itself.  All theorems above are about every reachable state, so they hold after such a
failure too; the statements below spell out what changes and what does not. -/

/-- the output breaks only through a transmission that fails on an output that was still open -/
theorem C06_broken_only_by_failed_transmission {cfg s a s'} (hs : step cfg s a = some s')
    (hb : s'.broken = true) (h0 : s.broken = false) : ∃ i, a = .sendFail i ∧ s.outClosed = false := by
  cases a <;> simp only [step] at hs <;> (try split at hs) <;> (try split at hs) <;> (try split at hs) <;>
    (try split at hs) <;> (try simp at hs) <;> (try subst hs) <;> (try simp only [upd] at *) <;> grind

/-- on a broken or closed output a new request cannot be transmitted: the call fails (and ends
with its transmission error like any other failed transmission) -/
theorem C06_broken_call_fails {cfg s} {i : Nat} (hs : s.rpc i = .sending)
    (hb : s.broken = true ∨ s.outClosed = true) :
    step cfg s (.sendOk i) = none ∧ ∃ s', step cfg s (.sendFail i) = some s' ∧ s'.rpc i = .leaving .sendErr := by
  rcases hb with hb | hb <;> simp [step, hs, hb, upd]

/-- the lookup, and with it the delivery of responses that are still coming in, does not depend
on the state of the output -/
theorem C06_lookup_ignores_output_state (cfg : Cfg) (s : St) (st : Stanza) (b c : Bool) :
    lookup cfg { s with broken := b, outClosed := c } st = lookup cfg s st := rfl

/-- every other waiter still ends exactly once and nothing blocks for ever: in every reachable
state (broken output or not) a waiting call can take its reply if that was looked up, can take
its context error once the context is done, and the serve loop — unless `Serve` has returned —
waits for nothing but peer input or the close of a response a caller still holds -/
theorem C06_after_failed_transmission {cfg s} (hd : cfg.derived = true) (hr : Reach cfg s) :
    (∀ i, s.rpc i = .waiting → s.cancelled i = true → (step cfg s (.timeout i)).isSome) ∧
    (∀ i k, s.rpc i = .waiting → s.spc = .offering i k → (step cfg s (.recv i)).isSome) ∧
    ServeProgress cfg s ∧ (s.spc = .dead → s.outClosed = true) :=
  ⟨fun i hw hc => (C06_progress_requester hw).1 hc, fun i k hw ho => (C06_progress_requester hw).2 k ho,
   C06_progress_serve hd hr, serve_dead_closed hr⟩

/-- `Serve` returns (in this model) only when it must write its own reply to an unhandled get/set
on an output that cannot take it, or when the rest of an element cannot be read (the element it
gave to the handler, dropped in the cancel window, or handed to a caller) -/
theorem C06_serve_ends_only_on_failed_own_write {cfg s a s'} (hs : step cfg s a = some s')
    (hd : s'.spc = .dead) (h0 : s.spc ≠ .dead) :
    (∃ st, a = .read st ∧ lookup cfg s st = none ∧
      (st.bad = true ∨ (autoReply st = true ∧ (s.broken = true ∨ s.outClosed = true)))) ∨
    (∃ k st, s.hist[k]? = some st ∧ st.bad = true ∧
      ((∃ i, (a = .close i ∨ a = .readErr i) ∧ s.spc = .waitClose i k) ∨ (∃ j, a = .abandon ∧ s.spc = .offering j k))) := by
  cases a <;> simp only [step] at hs <;> (try split at hs) <;> (try split at hs) <;> (try split at hs) <;>
    (try split at hs) <;> (try simp at hs) <;> (try subst hs) <;> (try simp only [upd] at *) <;> grind

example : ∃ s, run { ids := fun i => i, kinds := fun _ => .iq, derived := true } init
    [.call 0, .sendFail 0, .dereg 0, .call 1, .sendFail 1, .read ⟨.message, 7, false, .stream, false⟩,
     .read ⟨.iq, 7, false, .stream, false⟩] = some s ∧ s.spc = .dead ∧ s.hlog = [1, 0] ∧ s.broken = true := by
  simp [run, step, init, lookup, upd, autoReply]

/-! ### no channel misuse -/

/-- a response is closed at most once: after `close i` no schedule re-enables it -/
theorem C06_no_double_close {cfg} {i : Nat} {o : Outcome} :
    ∀ {as s s'}, run cfg s as = some s' → s.rpc i = .done o true → step cfg s' (.close i) = none := by
  have stable : ∀ {s a s'}, step cfg s a = some s' → s.rpc i = .done o true → s'.rpc i = .done o true := by
    intro s a s' hs h
    cases a <;> simp only [step] at hs <;> (try split at hs) <;> (try split at hs) <;> (try split at hs) <;>
      (try simp at hs) <;> (try subst hs) <;> simp only [upd] at * <;> grind
  intro as
  induction as with
  | nil => intro s s' hr h; simp [run] at hr; subst hr; simp [step, h]
  | cons a as ih =>
    intro s s' hr h
    simp only [run] at hr
    split at hr
    · rename_i s1 hs1; exact ih hr (stable hs1 h)
    · simp at hr

/-- the errCloser path: reading the response into its error closes it — once; afterwards neither
a further failed read nor the caller's `Close` closes the hand-off channel again, on any schedule -/
theorem C06_response_closed_at_most_once {cfg} {i : Nat} {o : Outcome} :
    ∀ {as s s'}, run cfg s as = some s' → s.rpc i = .done o true →
      step cfg s' (.close i) = none ∧ step cfg s' (.readErr i) = none := by
  have stable : ∀ {s a s'}, step cfg s a = some s' → s.rpc i = .done o true → s'.rpc i = .done o true := by
    intro s a s' hs h
    cases a <;> simp only [step] at hs <;> (try split at hs) <;> (try split at hs) <;> (try split at hs) <;>
      (try split at hs) <;> (try simp at hs) <;> (try subst hs) <;> simp only [upd] at * <;> grind
  intro as
  induction as with
  | nil => intro s s' hr h; simp [run] at hr; subst hr; simp [step, h]
  | cons a as ih =>
    intro s s' hr h
    simp only [run] at hr
    split at hr
    · rename_i s1 hs1; exact ih hr (stable hs1 h)
    · simp at hr

/-- both ways of closing a response (the caller's `Close`, a failed read) leave it closed -/
theorem C06_closing_marks_closed {cfg s s'} {i : Nat} (hs : step cfg s (.close i) = some s' ∨ step cfg s (.readErr i) = some s') :
    ∃ k, s.rpc i = .done (.reply k) false ∧ s'.rpc i = .done (.reply k) true := by
  rcases hs with hs | hs <;> simp only [step] at hs <;> (split at hs) <;> (try split at hs) <;> (try split at hs) <;>
    (try simp at hs) <;> (try subst hs) <;> simp_all [upd]

/-- the hand-off (the serve loop's send) only ever completes with a requester that is inside its
`select`, i.e. whose channel has not been closed (closing needs `done`) -/
theorem C06_handoff_to_waiting {cfg s s'} {i : Nat} (hs : step cfg s (.recv i) = some s') :
    s.rpc i = .waiting ∧ ∃ k, s.spc = .offering i k ∧ s'.spc = .waitClose i k ∧ (s'.rpc i).held = some k := by
  simp only [step] at hs
  split at hs
  · rename_i j k hw ho
    split at hs
    · rename_i hji; subst hji; simp at hs; subst hs
      exact ⟨hw, k, ho, rfl, by simp [RPc.held]⟩
    · simp at hs
  · simp at hs

/-! ### the defect of the pinned snapshot (negation witness)

Without the derived context (`derived = false`: `sendResp` registers the caller's context
itself) a response looked up just before the transmission fails leaves the serve loop in its
hand-off `select` with nobody to receive and no context that will ever be done. -/

def cfgSnapshot : Cfg := { ids := fun i => i, kinds := fun _ => .iq, derived := false }

theorem C06_progress_serve_fails_without_fix :
    ¬ (∀ s, Reach cfgSnapshot s → ServeProgress cfgSnapshot s) := by
  intro h
  have hr : ∃ s, run cfgSnapshot init [.call 0, .read ⟨.iq, 0, true, .stream, false⟩, .sendFail 0, .dereg 0] = some s := by
    simp [run, step, init, lookup, upd, cfgSnapshot, nsMatch]
  obtain ⟨s, hs⟩ := hr
  have := h s (reach_run Reach.init hs)
  simp [run, step, init, lookup, upd, cfgSnapshot, nsMatch] at hs
  subst hs
  simp [ServeProgress, step, ctxDone, upd, cfgSnapshot] at this

/-- the same schedule is harmless in the repaired code -/
example : ∃ s, run { cfgSnapshot with derived := true } init
    [.call 0, .read ⟨.iq, 0, true, .stream, false⟩, .sendFail 0, .dereg 0, .abandon] = some s ∧ s.spc = .idle := by
  simp [run, step, init, lookup, upd, cfgSnapshot, ctxDone, nsMatch]

/-! ### receipts helper -/
open Receipts

/-- the handler's signal always finds room in the waiter's channel: it never blocks the serve
loop (and, as nothing closes the channel any more, cannot panic) — every schedule -/
theorem C06_receipts_signal_never_blocks {ids s} (hr : RReach ids s) : s.overflow = false :=
  (invR_reach hr).noOverflow

/-- the handler is never stuck between its delete and its send -/
theorem C06_receipts_handler_progress {ids s} {j : Nat} (h : s.hpc = some j) :
    (rstep ids s .deliver).isSome := by
  simp [rstep, h]

/-- a receipt nobody waits for is reported through `Unhandled`, one that somebody waits for is
removed from the table and signalled to exactly that waiter -/
theorem C06_receipts_lookup {ids s id} (hh : s.hpc = none) :
    (s.table id = none → ∃ s', rstep ids s (.receipt id) = some s' ∧ s'.unhandled = id :: s.unhandled ∧ s'.hpc = none) ∧
    (∀ j, s.table id = some j → ∃ s', rstep ids s (.receipt id) = some s' ∧ s'.hpc = some j ∧ s'.table id = none
        ∧ s'.unhandled = s.unhandled) := by
  constructor
  · intro h; simp [rstep, hh, h]
  · intro j h; simp [rstep, hh, h]

/-- the signalled waiter is one that registered that id -/
theorem C06_receipts_own {ids s} (hr : RReach ids s) {id j : Nat} (h : s.table id = some j) : ids j = id :=
  ((invR_reach hr).table id j h).1

/-- a waiting sender whose context is cancelled, or whose receipt has been signalled, can step -/
theorem C06_receipts_progress_waiter {ids s} {i : Nat} (hw : s.wpc i = .waiting) :
    (s.cancelled i = true → (rstep ids s (.timeout i)).isSome) ∧
    (0 < s.buf i → (rstep ids s (.take i)).isSome) := by
  constructor
  · intro h; simp [rstep, hw, h]
  · intro h; simp [rstep, hw, h]

/-- the handler never waits for the sender's transmission: whatever the senders are doing — also
while one of them is in the middle of writing its message (`sending`) — a receipt can be looked up
as soon as the handler is free -/
theorem C06_receipts_handler_not_blocked_by_sender {ids s} (id : Nat) (hh : s.hpc = none) :
    (rstep ids s (.receipt id)).isSome := by
  simp only [rstep, hh]; split <;> simp

/-- the model's answer for one row of the probe `Generated.C06.receiptsWhileSending`: the sender has
registered and is inside its transmission (`sending`); a receipt (row 0: for its id, row 1: for an
unknown id) and a second unknown receipt arrive; then the transmission ends and the sender takes
its receipt (row 0) or its context ends (row 1).  Both send APIs are one model (`SendMessage` is
`SendMessageElement` behind a decoded start element). -/
def rcptProbeRow (api which : Nat) : Nat × Nat × Bool × Bool :=
  let ids : Nat → Nat := fun _ => 0
  let first : List RAct := if which = 0 then [.receipt 0, .deliver] else [.receipt 5]
  let s1 := rrun ids rinit ([.call 0] ++ first ++ [.receipt 9])
  let handlerDone := match s1 with
    | some s => s.hpc.isNone && s.unhandled.contains 9 && decide (s.wpc 0 = .sending)
    | none => false
  let rest : List RAct := if which = 0 then [.sendOk 0, .take 0] else [.sendOk 0, .cancel 0, .timeout 0]
  let got := match s1.bind (fun s => rrun ids s rest) with
    | some s => decide (s.wpc 0 = .done true)
    | none => false
  (api, which, handlerDone, got)

/-- tie by a PROBE of the linked code (no source text; round E, replaces the go/ast fact
`receiptsSendsWhileLocked`): with the sender parked inside its transmission the real handler
finishes a receipt for the sender's id and one for an unknown id (both send APIs), and the sender
then returns nil exactly when the receipt was its own — the whole table is what the model says.
Holding the handler's mutex across the transmission, or registering only after it, changes a row. -/
theorem C06_receipts_probe_agrees_with_model :
    Generated.C06.receiptsWhileSending =
      some [rcptProbeRow 0 0, rcptProbeRow 0 1, rcptProbeRow 1 0, rcptProbeRow 1 1] := by decide

example : rcptProbeRow 1 0 = (1, 0, true, true) := by decide

/-- one outcome per call -/
theorem C06_receipts_outcome_stable {ids s a s'} {i : Nat} {ok : Bool}
    (hs : rstep ids s a = some s') (h : s.wpc i = .done ok) : s'.wpc i = .done ok := by
  cases a <;> simp only [rstep] at hs <;> (try split at hs) <;> (try split at hs) <;>
    (try simp at hs) <;> (try subst hs) <;> simp only [upd] at * <;> grind

/-! ### the MUC and in-band bytestream helpers (instances over the LTSs of C18 / C15)

`Join`, `Leave`, `Read` and `Close` are the extension calls that block on a correlated event.
The statements below are the C06 clauses (one outcome per call, the call can always end, the
serve loop is not left waiting) on those models; the models are tied to the code by the C18 / C15
histories, which the C06 runner replays as well. -/
section Helpers
open XmppModel.Muc in
/-- MUC join: the result of a finished `Join` call only changes when the next call starts -/
theorem C06_muc_join_one_outcome {s a s'} (hs : Muc.step s a = some s') {c : Nat} {o : Muc.JOut}
    (h : s.lastJoin c = some o) (hidle : s.jpc c = .idle) (hn : ∀ x, a ≠ .joinStart c x) :
    s'.lastJoin c = some o := by
  cases a <;> simp only [Muc.step] at hs <;> (try split at hs) <;> (try split at hs) <;> (try split at hs) <;>
    (try simp at hs) <;> (try subst hs) <;> (try simp only [Muc.upd] at *) <;> grind

open XmppModel.Muc in
/-- MUC join: a pending call can always end — with the error reply, with its context, and with
the self-presence as soon as that arrives -/
theorem C06_muc_join_progress {s} {c : Nat} (hp : s.jpc c = .pending) :
    (Muc.step s (.joinError c)).isSome ∧ (Muc.step s (.joinCancel c)).isSome ∧
    (s.managed (s.req c) = some c → ∃ s', Muc.step s (.avail (s.req c)) = some s' ∧ s'.jpc c = .idle ∧
      s'.lastJoin c = some .ok) := by
  refine ⟨by simp [Muc.step, hp], by simp [Muc.step, hp], ?_⟩
  intro hm; simp [Muc.step, hm, hp, Muc.upd]

open XmppModel.Muc in
/-- MUC join: the hand-off never leaves the presence handler (the serve loop) waiting: a presence
is one step whatever the state of the joiner (it either completes the join or is an ordinary
occupant presence) -/
theorem C06_muc_presence_never_blocks (s : Muc.St) (a : Nat) :
    (Muc.step s (.avail a)).isSome ∧ (Muc.step s (.unavail a)).isSome := by
  constructor
  · simp only [Muc.step]; split <;> (try split) <;> simp
  · simp only [Muc.step]; split <;> (try split) <;> simp

open XmppModel.Muc in
/-- MUC leave: a waiting call can always end, and it ends with success exactly by consuming the
signal of the unavailable presence, which is never lost (`C18_token_kept`) -/
theorem C06_muc_leave_progress {s} {c : Nat} (hw : s.lpc c = .waiting) :
    (Muc.step s (.leaveError c)).isSome ∧ (Muc.step s (.leaveCancel c)).isSome ∧
    (s.depart c = true → (Muc.step s (.leaveDepart c)).isSome) := by
  refine ⟨by simp [Muc.step, hw], by simp [Muc.step, hw], ?_⟩
  intro h; simp [Muc.step, hw, h]

open XmppModel.IbbReader in
/-- IBB read: the reader's invariant (a waiting reader with data buffered or a closed stream has a
signal pending), hence a blocked `Read` can always return when there is something to return -/
theorem C06_ibb_read_progress {s} (hr : IbbReader.Reach true s) (hw : s.rpc = .waiting)
    (hd : s.buf > 0 ∨ s.closed = true) : (IbbReader.step true s .wake).isSome := by
  have inv : ∀ {s}, IbbReader.Reach true s →
      ((s.rpc = .checked ∨ s.rpc = .waiting) → (s.buf > 0 ∨ s.closed = true) → s.tok = true) := by
    intro s hr
    induction hr with
    | init => intro h; simp [IbbReader.init] at h
    | step _ hs ih =>
      rename_i s0 s1 a _
      cases a <;> simp only [IbbReader.step] at hs
      case packet n => simp at hs; subst hs; simp
      case close => simp at hs; subst hs; simp
      all_goals
        ((try split at hs) <;> (try split at hs) <;> (try simp at hs) <;> (try subst hs) <;>
          (try (simp only [IbbReader.test] at *; (repeat' split) <;> simp_all <;> omega)))
  have ht := inv hr (Or.inr hw) hd
  simp [IbbReader.step, hw, ht]

open XmppModel.IbbClose in
/-- IBB close: over the control points regenerated from `ibb/conn.go`, `Close` and the
peer-initiated close take the receiving side down on every exit path, so no `Read` stays blocked
behind a `Close` that failed half way -/
theorem C06_ibb_close_ends_read :
    (Generated.C06.closeProgram.bind parseProgram).map alwaysClosesRead = some true ∧
    (Generated.C06.closeNoNotifyProgram.bind parseProgram).map alwaysClosesRead = some true := by
  decide

end Helpers

/-! ### Round C: which attributes are the stanza's id and type (`getIDTyp`) -/
namespace Attrs
open XmppModel.CorrAttrs

/-- only unqualified attributes count: removing every attribute that lives in a namespace (or is
a namespace declaration) changes nothing -/
theorem C06_idtyp_ignores_qualified (as : List Attr) :
    getIDTyp as = getIDTyp (as.filter fun a => a.space = .none) := scan_filter as none none

/-- the stanza's own id and type are found whatever qualified attributes stand in front of them
and whatever follows -/
theorem C06_idtyp_own_attributes (pre post : List Attr) (id ty : Nat) (h : ∀ a ∈ pre, a.space ≠ .none) :
    getIDTyp (pre ++ [⟨.none, .id, id⟩, ⟨.none, .type, ty⟩] ++ post) = (some id, some ty) := by
  unfold getIDTyp
  rw [List.append_assoc, scan_qualified_prefix _ _ _ _ h]
  simp [scan]

/-- a stanza without unqualified id / type has none, whatever `x:id`, `xmlns:type` … it carries -/
theorem C06_idtyp_only_qualified (as : List Attr) (h : ∀ a ∈ as, a.space ≠ .none) :
    getIDTyp as = (none, none) := by
  have := scan_qualified_prefix as [] none none h
  simpa [getIDTyp, scan] using this

/-- a response to somebody else is never correlated with a pending request because of a foreign
attribute that carries the pending id: the lookup sees the stanza's own id only -/
theorem C06_decoy_never_correlates (cfg : Cfg) (s : St) (kind : Kind) (ns : Ns) (bad : Bool)
    (pre post : List Attr) (id ty : Nat) (h : ∀ a ∈ pre, a.space ≠ .none) (hn : s.table id = none) :
    ∀ i, (getIDTyp (pre ++ [⟨.none, .id, id⟩, ⟨.none, .type, ty⟩] ++ post)).1 = some i →
      lookup cfg s ⟨kind, i, isResponse (getIDTyp (pre ++ [⟨.none, .id, id⟩, ⟨.none, .type, ty⟩] ++ post)).2, ns, bad⟩ = none := by
  intro i hi
  rw [C06_idtyp_own_attributes pre post id ty h] at hi ⊢
  simp at hi; subst hi
  simp [lookup, hn]

/-- a get / set that carries a foreign `type="result"` stays a request: it never consults the table -/
theorem C06_decoy_type_is_no_response (cfg : Cfg) (s : St) (kind : Kind) (ns : Ns) (bad : Bool)
    (pre post : List Attr) (id ty : Nat) (h : ∀ a ∈ pre, a.space ≠ .none) (ht : 2 ≤ ty) :
    lookup cfg s ⟨kind, id, isResponse (getIDTyp (pre ++ [⟨.none, .id, id⟩, ⟨.none, .type, ty⟩] ++ post)).2, ns, bad⟩ = none := by
  rw [C06_idtyp_own_attributes pre post id ty h]
  have : isResponse (some ty) = false := by
    simp [isResponse]; omega
  simp [lookup, this]

-- non-vacuity: `<iq x:id="q0" xmlns:type="result" id="q7" type="get" x:id="q0">`
example : getIDTyp [⟨.foreign, .id, 0⟩, ⟨.xmlns, .type, 0⟩, ⟨.none, .id, 7⟩, ⟨.none, .type, 2⟩, ⟨.foreign, .id, 0⟩]
    = (some 7, some 2) := by decide

end Attrs

/-! ### Round C: the IQ helpers that own the response they wait for -/
namespace Wrap
open XmppModel.CorrWrap

/-- whatever the reply looks like, exactly one party closes the response: the helper itself, or
the caller to whom it was handed inside an iterator — never nobody (the serve loop would wait
for the close for ever), never both (closing twice panics the hand-off channel) -/
theorem C06_helper_response_closed_once (a : Api) (sh : Shape) :
    (call a sh).helperCloses + (if (call a sh).handed then 1 else 0) = 1 := by
  cases a <;> simp only [call, unmarshalIQ, iterIQ, ibbOpen] <;> (repeat' split) <;> simp_all

/-- a call that returns an error hands nothing to the caller (so the helper has closed the
response), and only the iterator helpers ever hand something on -/
theorem C06_helper_error_means_closed (a : Api) (sh : Shape) (h : (call a sh).err = true) :
    (call a sh).handed = false ∧ (call a sh).helperCloses = 1 := by
  cases a <;> simp only [call, unmarshalIQ, iterIQ, ibbOpen] at h ⊢ <;> (repeat' split) <;> simp_all

/-- the iterator helpers hand the response on exactly when they succeed; the others never do -/
theorem C06_helper_handed_iff (a : Api) (sh : Shape) :
    (call a sh).handed = ((a = .iter ∨ a = .iterElement) && !(call a sh).err) := by
  cases a <;> simp only [call, unmarshalIQ, iterIQ, ibbOpen] <;> (repeat' split) <;> simp_all

/-- a reply whose addresses are not JIDs is an error for every helper -/
theorem C06_helper_bad_address_is_error (a : Api) (sh : Shape) (h : sh.from_ = .invalid ∨ sh.to = .invalid) :
    (call a sh).err = true := by
  have hf : newIQFails sh = true := by
    rcases h with h | h <;> simp [newIQFails, h]
  cases a <;> simp [call, unmarshalIQ, iterIQ, ibbOpen, hf]

-- non-vacuity: the path on which only the deferred closer stands between a malformed reply and a stalled serve loop
example : call .iter ⟨.result, .invalid, .absent, .one⟩ = ⟨true, false, 1⟩ := by decide
example : call .iterElement ⟨.result, .valid, .valid, .nested⟩ = ⟨false, true, 0⟩ := by decide
-- round E: `ibb.open` never hands its response on and closes it on the refusing path too
example : call .ibbOpen ⟨.error, .valid, .absent, .bad⟩ = ⟨true, false, 1⟩ := by decide

end Wrap

/-! ### Round C: the listener's table of expected streams (`Expect`) -/
namespace Expect
open XmppModel.CorrExpect

theorem slot_cons_same (t : List (Nat × Nat)) (k i : Nat) : slot ((k, i) :: t) k = some i := by
  simp [slot, List.find?]

/-- own reply: an `Expect` call only ever gets the stream it asked for — the one whose slot it holds -/
theorem C06_expect_own_stream (s : CorrExpect.St) (k i k' : Nat) (h : Ev.conn i k' ∈ (CorrExpect.step s (.openReq k)).2) :
    k' = k ∧ slot s.table k = some i := by
  simp only [CorrExpect.step] at h
  split at h
  · simp at h
  · split at h
    · simp at h
    · split at h
      · rename_i j hj
        simp at h
        obtain ⟨rfl, rfl⟩ := h
        exact ⟨rfl, hj⟩
      · split at h <;> simp at h

/-- a later call for the same stream takes over: the earlier call returns an error, and the
stream that is opened afterwards goes to the later call — the earlier call's clean-up does not
take the slot away from its successor -/
theorem C06_expect_successor_gets_stream (s : CorrExpect.St) (i k : Nat) (hc : s.closed = false) (hp : s.pending = none) :
    let s1 := (CorrExpect.step s (.expect i k)).1
    (CorrExpect.step s1 (.openReq k)).2 = [.conn i k] := by
  simp only [CorrExpect.step, hc]
  cases hs : slot s.table k <;> simp [CorrExpect.step, hc, hp, slot_cons_same]

/-- the end of a call's context removes its own slot only: a call that was replaced (and so holds
no slot any more) leaves the table as it is -/
theorem C06_expect_cancel_removes_only_own (s : CorrExpect.St) (i : Nat) (e : Nat × Nat)
    (he : e ∈ s.table) (hne : e.2 ≠ i) : e ∈ (CorrExpect.step s (.cancel i)).1.table := by
  simp only [CorrExpect.step]
  split
  · simp only [forget, List.mem_filter]
    refine ⟨he, ?_⟩
    simp [hne]
  · exact he

/-- an open request for a stream with a waiting `Expect` never goes to `Accept` -/
theorem C06_expect_precedes_accept (s : CorrExpect.St) (k i : Nat) (hc : s.closed = false) (hp : s.pending = none)
    (h : slot s.table k = some i) : (CorrExpect.step s (.openReq k)).2 = [.conn i k] := by
  simp [CorrExpect.step, hc, hp, h]

/-- closing the listener ends every waiting call and leaves nothing in the hand-off -/
theorem C06_expect_close_releases_all (s : CorrExpect.St) :
    (CorrExpect.step s .close).1.pending = none ∧ (CorrExpect.step s .close).1.table = [] ∧
    (CorrExpect.step s .close).2.length = s.table.length + s.acceptors := by
  simp [CorrExpect.step]

-- non-vacuity: the replaced call's return, then the request: the second call gets the stream
example : CorrExpect.run {} [.expect 0 0, .expect 1 0, .openReq 0] = [[], [.err 0], [.conn 1 0]] := by decide
example : CorrExpect.run {} [.expect 0 0, .expect 1 1, .cancel 0, .openReq 0, .accept, .openReq 1]
    = [[], [], [.err 0], [], [.accConn 0], [.conn 1 1]] := by decide

end Expect

/-! ## The waits of one in-band bytestream (`Model/CorrIbb.lean`) -/
section Ibb
open XmppModel.CorrIbb

/-- no `Read` call waits while there is something for it: whenever calls wait, the signal has been
taken, the buffer is empty and the stream is open -/
def Good (s : CorrIbb.St) : Prop := s.readers > 0 → s.token = false ∧ s.buf = 0 ∧ s.readClosed = false

/-- packets are no larger than the buffers the application reads with -/
def OpOk (c : CorrIbb.Cfg) : CorrIbb.Op → Prop
  | .data _ n _ => n ≤ c.cap
  | _ => True

theorem settle_closed (c : CorrIbb.Cfg) : ∀ (f : Nat) (s : CorrIbb.St), s.readClosed = true → s.token = true → s.readers ≤ f →
    (settle c f s).1.readers = 0
  | 0, s, _, _, h => by simp only [settle]; omega
  | f + 1, s, hc, ht, h => by
    by_cases hr : s.readers > 0
    · simp only [settle, ht, hr, hc, decide_true, Bool.and_self, if_true]
      exact settle_closed c f _ (by first | rfl | exact hc) (by first | rfl | exact ht) (by simp only; omega)
    · simp only [settle, hr, decide_false, Bool.and_false]
      simp only [Bool.false_eq_true, if_false]; omega

theorem settle_open (c : CorrIbb.Cfg) (f : Nat) (s : CorrIbb.St) (hc : s.readClosed = false) (hb : s.readers > 0 → s.buf ≤ c.cap)
    (h : s.token = false → s.readers > 0 → s.buf = 0) (hf : s.readers > 0 → f > 0) : Good (settle c f s).1 := by
  cases f with
  | zero =>
    intro hr
    simp only [settle] at hr
    exact absurd (hf hr) (by omega)
  | succ f =>
    by_cases ht : s.token = true <;> by_cases hr : s.readers > 0
    · by_cases hbuf : s.buf > 0
      · simp only [settle, ht, hr, hc, hbuf, decide_true, Bool.and_self, if_true, Bool.false_eq_true, if_false]
        intro _
        refine ⟨rfl, ?_, by first | rfl | exact hc⟩
        have := hb hr
        simp only; omega
      · simp only [settle, ht, hr, hc, hbuf, decide_true, Bool.and_self, if_true, Bool.false_eq_true, if_false]
        intro _
        refine ⟨rfl, ?_, by first | rfl | exact hc⟩
        simp only; omega
    · simp only [settle, hr, decide_false, Bool.and_false, Bool.false_eq_true, if_false]
      intro h'; exact absurd h' hr
    · simp only [settle, ht, Bool.false_and, Bool.false_eq_true, if_false]
      intro _
      have : s.token = false := by cases hT : s.token <;> simp_all
      exact ⟨this, h this hr, hc⟩
    · simp only [settle, ht, Bool.false_and, Bool.false_eq_true, if_false]
      intro h'; exact absurd h' hr

theorem closeRead_good (c : CorrIbb.Cfg) (s : CorrIbb.St) : Good (closeRead c s).1 := by
  intro hr
  have : (closeRead c s).1.readers = 0 := by
    simp only [closeRead, settled, wake]
    exact settle_closed c _ _ rfl rfl (Nat.le_refl _)
  omega

theorem closeProceed_good (c : CorrIbb.Cfg) (s : CorrIbb.St) (h : Good s) : Good (closeProceed c s).1 := by
  simp only [closeProceed]
  split
  · exact closeRead_good c _
  · exact h

/-- **every blocked-reader scenario, both carriers**: if the wake-up does not depend on the
carrier, then after every operation — packets in iqs and in messages, in and out of order, the
peer's close, local writes and their replies, a local `Close` and its reply — no `Read` call is
left waiting while the buffer holds data or the stream has ended -/
theorem C06_ibb_no_read_left_waiting (c : CorrIbb.Cfg) (hw : c.wakeOnlyAcked = false) (s : CorrIbb.St) (o : CorrIbb.Op)
    (hok : OpOk c o) (h : Good s) : Good (CorrIbb.step c s o).1 := by
  cases o with
  | read =>
    simp only [CorrIbb.step]
    split
    · rename_i hcond
      simp only [Bool.and_eq_true, beq_iff_eq, Bool.not_eq_true'] at hcond
      simp only [settled]
      apply settle_open
      · exact hcond.2
      · intro _; simp only [hcond.1]; omega
      · intro _ _; exact hcond.1
      · intro hq; first | exact hq | omega
    · intro hr
      have := h hr
      rename_i hcond
      simp only [Bool.and_eq_true, beq_iff_eq, Bool.not_eq_true', not_and, Bool.not_eq_false] at hcond
      exact absurd (hcond this.2.1) (by simp [this.2.2])
  | data viaIq n inorder =>
    simp only [OpOk] at hok
    simp only [CorrIbb.step, hw, Bool.false_and, Bool.false_eq_true, if_false]
    split
    · exact h
    · split
      · exact h
      · split
        · exact h
        · rename_i _ hx _
          simp only [Bool.or_eq_true, Bool.not_eq_true', not_or, Bool.not_eq_false, Bool.not_eq_true] at hx
          simp only [settled, wake]
          apply settle_open
          · exact hx.2
          · intro hr
            simp only at hr ⊢
            simp only [(h hr).2.1]; omega
          · intro ht; simp at ht
          · intro hr; simpa using hr
  | peerClose =>
    simp only [CorrIbb.step]
    split
    · exact h
    · split
      · exact h
      · split
        · exact h
        · split
          · exact h
          · exact closeRead_good c _
  | write =>
    simp only [CorrIbb.step]
    split
    · exact h
    · split <;> exact h
  | ack ok =>
    simp only [CorrIbb.step]
    split
    · exact h
    · split
      · exact closeProceed_good c _ h
      · exact h
  | close =>
    simp only [CorrIbb.step]
    split
    · exact h
    · split
      · exact h
      · exact closeProceed_good c _ h
  | closeReply ok =>
    simp only [CorrIbb.step]
    split
    · exact h
    · exact closeRead_good c _

/-- … lifted to every history -/
theorem C06_ibb_no_read_left_waiting_reach (c : CorrIbb.Cfg) (hw : c.wakeOnlyAcked = false) (ops : List CorrIbb.Op) :
    ∀ (s0 : CorrIbb.St), (∀ o ∈ ops, OpOk c o) → Good s0 → Good (CorrIbb.final c s0 ops) := by
  induction ops with
  | nil => intro s0 _ h; exact h
  | cons o os ih =>
    intro s0 hall h
    simp only [CorrIbb.final]
    exact ih _ (fun o' ho' => hall o' (List.mem_cons_of_mem _ ho'))
      (C06_ibb_no_read_left_waiting c hw s0 o (hall o List.mem_cons_self) h)

/-- a `Read` that already waits gets the packet, whichever stanza kind carries it -/
theorem C06_ibb_waiting_read_gets_packet (c : CorrIbb.Cfg) (hw : c.wakeOnlyAcked = false) (s : CorrIbb.St) (viaIq : Bool)
    (n : Nat) (hn : 0 < n) (hcap : n ≤ c.cap) (hg : Good s) (hr : s.readers > 0)
    (hs : s.serveBlocked = false) (ht : s.inTable = true) :
    Ev.readRet n ∈ (CorrIbb.step c s (.data viaIq n true)).2 := by
  obtain ⟨ht', hb, hc⟩ := hg hr
  cases hk : s.readers with
  | zero => omega
  | succ k =>
    cases viaIq <;>
      simp [CorrIbb.step, hs, ht, hc, hw, settled, wake, hk, settle, hb, hn, Nat.min_eq_left hcap]

/-- the stream ends up in the same state whether a packet came in an iq or in a message -/
theorem C06_ibb_wake_whatever_the_carrier (c : CorrIbb.Cfg) (hw : c.wakeOnlyAcked = false) (s : CorrIbb.St) (n : Nat) (io : Bool) :
    (CorrIbb.step c s (.data true n io)).1 = (CorrIbb.step c s (.data false n io)).1 := by
  simp only [CorrIbb.step, hw, Bool.false_and, Bool.false_eq_true, if_false]
  repeat' split
  all_goals rfl

/-- what the loop of `Read` leaves alone -/
theorem settle_frame (c : CorrIbb.Cfg) : ∀ (f : Nat) (s : CorrIbb.St),
    (settle c f s).1.serveBlocked = s.serveBlocked ∧ (settle c f s).1.wpend = s.wpend ∧ (settle c f s).1.k = s.k
  | 0, s => by simp [settle]
  | f + 1, s => by
    simp only [settle]
    split
    · split
      · have := settle_frame c f { s with readers := s.readers - 1, buf := s.buf - min s.buf c.cap, rRet := s.rRet + 1 }
        simpa using this
      · split <;> simp
    · simp

/-- **peer stanzas while a local write waits for its acknowledgement**: the close handler does not
wait for the write lock, so the peer's close request is answered although a `Flush` holds the
lock, the serve loop goes on, and the acknowledgement that follows still ends the `Flush` -/
theorem C06_ibb_peer_close_answered_while_write_waits (c : CorrIbb.Cfg) (hl : c.handlerLocks = false) (s : CorrIbb.St)
    (hs : s.serveBlocked = false) (ht : s.inTable = true) (hw : s.wpend = true) (ok : Bool) :
    let s1 := (CorrIbb.step c s .peerClose).1
    Ev.closeResult ∈ (CorrIbb.step c s .peerClose).2 ∧ s1.serveBlocked = false ∧
      Ev.writeRet ok ∈ (CorrIbb.step c s1 (.ack ok)).2 := by
  by_cases hc : s.closed = true
  · simp [CorrIbb.step, hs, ht, hc, hw]
    split <;> simp
  · have hc' : s.closed = false := by cases h : s.closed <;> simp_all
    have fr := settle_frame c s.readers (wake { s with closed := true, inTable := false, readClosed := true })
    simp only [wake, hs, hw] at fr
    simp only [CorrIbb.step, hs, ht, hc', hl, hw, closeRead, settled, wake, Bool.false_eq_true, if_false, Bool.not_true,
      Bool.false_and, List.mem_append, List.mem_singleton, or_true, true_and]
    refine ⟨fr.1, ?_⟩
    simp only [fr.1, fr.2.1, Bool.false_or, Bool.not_true, Bool.false_eq_true, if_false]
    split <;> simp

/-- negation witness for the other choice (`if e == nil || !ok { return nil }` in front of the
wake-up): on a message-carried stream the waiting `Read` is left behind with the data in the buffer -/
theorem C06_ibb_message_wake_is_needed :
    (CorrIbb.final { wakeOnlyAcked := true } { acked := false } [.read, .data false 3 true]).readers = 1 ∧
    (CorrIbb.final { wakeOnlyAcked := true } { acked := false } [.read, .data false 3 true]).buf = 3 := by decide

/-- negation witness for the other choice (the close handler's flush takes the write lock): the
peer's close request overtakes the acknowledgement — serve loop and `Flush` wait for each other -/
theorem C06_ibb_locking_close_handler_deadlocks :
    (CorrIbb.final { handlerLocks := true } {} [.write, .peerClose, .ack true]).serveBlocked = true ∧
    (CorrIbb.final { handlerLocks := true } {} [.write, .peerClose, .ack true]).wpend = true ∧
    (CorrIbb.final { handlerLocks := true } {} [.write, .peerClose, .ack true]).wRet = 0 := by decide

-- non-vacuity: the same histories on the code's choices
example : CorrIbb.run {} { acked := false } [.read, .data false 3 true] = [[], [.readRet 3]] := by decide
example : CorrIbb.run {} {} [.read, .read, .data true 2 true, .peerClose] = [[], [], [.ackData, .readRet 2], [.readRet 0, .closeResult]] := by decide
example : CorrIbb.run {} {} [.write, .peerClose, .ack true] = [[.sentData], [.closeResult], [.writeRet true]] := by decide
example : CorrIbb.run {} {} [.write, .close, .peerClose, .ack true, .closeReply true]
    = [[.sentData], [], [.closeResult], [.writeRet true, .sentClose], [.closeRet true]] := by decide
example : (CorrIbb.final {} {} ([.read, .write, .close] ++ epilogue)).quiet = true := by decide
example : Good ({} : CorrIbb.St) := by intro h; simp at h

end Ibb

/-! ### round E: the key a call waits under is the id on the wire; addresses take no part

`Model/CorrKey.lean`: head of `SendIQ` / `SendMessage` / `SendPresence` (find or add the id
attribute, generate a value into it), the id part of `stanzaEncoder.EncodeToken` (drop empty
id attributes, add one if none is left), the peer reading the id off the wire, the look-up by
`(id, name)`.  "returns … with the response stanza of the same kind and id" presupposes that the
id the peer can answer with IS the key of the pending entry. -/
section Key
open XmppModel.CorrKey XmppModel.CorrAttrs

/-- for EVERY attribute list of the request's start element (qualified look-alikes, empty values,
several id attributes, any position of the type attribute): the id the peer reads on the wire is
the key the call registered -/
theorem C06_key_wire_id_is_registered_id (f₁ f₂ : Nat) (hf : f₁ ≠ 0) (attrs : List Attr) :
    wireId (send {} f₁ f₂ attrs).2 = some (send {} f₁ f₂ attrs).1 :=
  wire_id_registered f₁ f₂ hf attrs

example : send {} 7 8 [⟨.foreign, .id, 2⟩, ⟨.none, .id, 0⟩, ⟨.none, .type, 1⟩] =
    (7, [⟨.foreign, .id, 2⟩, ⟨.none, .id, 7⟩, ⟨.none, .type, 1⟩]) := by decide

/-- round F (the encoder as repaired by "the stanza encoder takes any attribute with the local name
id … for the stanza attribute, whatever its namespace"): an attribute that merely shares the local
name — `x:id`, `xmlns:id`, empty or not — reaches the wire untouched, and never counts as the
stanza's id (a request whose only id-named attribute is qualified still gets a generated id) -/
theorem C06_key_encoder_passes_qualified (f₂ : Nat) (attrs : List Attr) (a : Attr)
    (ha : a ∈ attrs) (hq : a.space ≠ .none) : a ∈ encode f₂ attrs := by
  have hk : a ∈ attrs.filter (fun a => !(a.space = .none && a.loc = .id && a.val = 0)) := by
    simp [List.mem_filter, ha, hq]
  unfold encode
  simp only []
  split
  · exact hk
  · exact List.mem_append_left _ hk

example : encode 8 [⟨.foreign, .id, 0⟩, ⟨.none, .id, 0⟩] = [⟨.foreign, .id, 0⟩, ⟨.none, .id, 8⟩] := by decide

/-- a call never waits under the empty id -/
theorem C06_key_registered_id_nonempty (cfg : CorrKey.Cfg) (f₁ : Nat) (hf : f₁ ≠ 0) (attrs : List Attr) :
    (prepare cfg f₁ attrs).1 ≠ 0 := by
  unfold prepare
  cases idOf attrs with
  | none => simpa using hf
  | some p =>
    obtain ⟨idx, v⟩ := p
    by_cases hv : v = 0 <;> simp [hv, hf]

/-- an id the caller chose is the key (and, by the first theorem, what the peer reads) -/
theorem C06_key_given_id_is_key (cfg : CorrKey.Cfg) (f₁ f₂ idx v : Nat) (attrs : List Attr)
    (h : idOf attrs = some (idx, v)) (hv : v ≠ 0) : (send cfg f₁ f₂ attrs).1 = v := by
  simp [send, prepare, h, hv]

example : idOf [⟨.none, .type, 1⟩, ⟨.none, .id, 1⟩] = some (1, 1) := by decide

/-- the look-up reads neither the request's to nor the reply's from -/
theorem C06_key_lookup_ignores_addresses (e : Entry) (r : Reply) (to' : To) (frm' : From) :
    matchEntry {} e r = matchEntry {} { e with to := to' } { r with frm := frm' } := by
  simp [matchEntry]

/-- every round trip ends with the reply: whatever the start element's attributes, wherever the
request went, however the peer spells its address (or whoever answers) -/
theorem C06_key_round_trip_ends_with_reply (f₁ f₂ : Nat) (hf : f₁ ≠ 0) (attrs : List Attr) (to : To) (frm : From) :
    roundTrip {} f₁ f₂ attrs to frm = .reply := by
  unfold roundTrip
  simp only [C06_key_wire_id_is_registered_id f₁ f₂ hf attrs]
  simp [matchEntry]

/-- negation witness: generate an id without writing it into the empty id attribute that was
found, and the reply to what the encoder sends instead is lost -/
theorem C06_key_unstored_id_loses_reply :
    roundTrip { storeFresh := false } 7 8 [⟨.none, .id, 0⟩] .absent .absent = .lost := by decide

/-- negation witness: compare the reply's from with the request's to as strings, and the reply of
the very addressee, spelled differently, is lost -/
theorem C06_key_checked_from_loses_reply :
    roundTrip { fromChecked := true } 7 8 [] .full .equiv = .lost ∧
    roundTrip { fromChecked := true } 7 8 [⟨.none, .id, 1⟩] .idn .ace = .lost := by decide

/-- the delivery-receipt helper: the key of its table of pending receipts is the id the peer
reads on the wire and acknowledges, for every attribute list of the message's start element -/
theorem C06_key_receipts_wire_id_is_key (f₁ f₂ : Nat) (hf : f₁ ≠ 0) (attrs : List Attr) :
    wireId (rcptSend f₁ f₂ attrs).2 = some (rcptSend f₁ f₂ attrs).1 ∧ (rcptSend f₁ f₂ attrs).1 ≠ 0 := by
  simp only [rcptSend]
  by_cases hv : lastId attrs 0 = 0
  · simp [hv, encode, wireId, idOf, scanI, hf]
  · simp [hv, encode, wireId, idOf, scanI]

example : rcptSend 7 8 [⟨.foreign, .id, 2⟩, ⟨.none, .id, 0⟩] = (7, [⟨.none, .type, 1⟩, ⟨.none, .other, 1⟩, ⟨.none, .id, 7⟩]) := by decide

/-- the complete small domain the differential runs cover (what the driver answers for it) -/
example : (lists 2).all (fun as => allTo.all fun t => allFrom.all fun f => roundTrip {} 7 8 as t f = .reply) = true := by
  decide

end Key

end XmppModel.Props.C06
