import XmppModel.Model.Correlate
namespace XmppModel.Props.C06
open XmppModel.Correlate

theorem C06_placeholder : (init).spc = .idle := rfl

end XmppModel.Props.C06
