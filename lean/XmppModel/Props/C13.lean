import XmppModel.Model.Header
import XmppModel.Model.Stanza
import XmppModel.Model.Encoder
import XmppModel.Lemmas.Stanza
import XmppModel.Lemmas.Encoder
import XmppModel.Generated.C13
/-!
# C13 — core stanzas and errors encode consistently and round-trip

Property theorems only.  Quantifiers: every field content (ids, addresses as canonical strings,
language tags, types, conditions, texts, payloads).  The agreement of the reflection marshaller
with the token path is not a theorem here (reflection is not modelled): it is an equation
checked on the implementation for every generated value.
-/
namespace XmppModel.Props.C13
open XmppModel XmppModel.Xml XmppModel.Stanza

/-! ### Tie to the source: the constant tables -/

/-- two lists hold the same strings -/
def sameSet (a b : List String) : Bool := a.all (b.contains ·) && b.all (a.contains ·)

/-- the defined message types — EVERY package-level constant of type `stanza.MessageType`, in
whichever file and form it is declared (go/types scope of the package, not a file/syntax match) —
are the ones `msgType` accepts -/
theorem C13_gen_message_types :
    ∃ l, Generated.C13.messageTypes = some l ∧ sameSet l messageTypes = true := ⟨_, rfl, by decide⟩

/-- the other type tables and the namespaces the model uses -/
theorem C13_gen_tables :
    (∃ l, Generated.C13.iqTypes = some l ∧ sameSet l ["get", "set", "result", "error"] = true) ∧
    (∃ l, Generated.C13.presenceTypes = some l ∧ sameSet l ["", "error", "probe", "subscribe", "subscribed",
      "unavailable", "unsubscribe", "unsubscribed"] = true) ∧
    (∃ l, Generated.C13.errorTypes = some l ∧ sameSet l ["cancel", "auth", "continue", "modify", "wait"] = true) ∧
    Generated.C13.nsStanzaErr = some nsErr ∧ Generated.C13.nsStream = some nsStream ∧
    Generated.C13.nsStreamErr = some nsStreamErr :=
  ⟨⟨_, rfl, by decide⟩, ⟨_, rfl, by decide⟩, ⟨_, rfl, by decide⟩, by decide, by decide, by decide⟩

/-- no defined stanza or stream error condition is called `text` (hypothesis of the two
round-trip theorems) -/
theorem C13_gen_no_text_condition :
    ∃ a b, Generated.C13.stanzaConditions = some a ∧ Generated.C13.streamConditions = some b ∧
      "text" ∉ a ∧ "text" ∉ b ∧ "" ∉ a ∧ "" ∉ b ∧ a.length ≥ 20 ∧ b.length ≥ 20 := by
  refine ⟨_, _, rfl, rfl, by decide, by decide, by decide, by decide, by decide, by decide⟩

/-- the predefined stream errors (every package-level variable of type `stream.Error`) set their
condition and nothing else — no default text or content that the codec model would have to carry —
and each is written in a form the extractor can evaluate -/
theorem C13_gen_stream_conditions_plain : Generated.C13.streamConditionsOther = some [] := by decide

/-! ### Start-element conversion is the inverse of start-element parsing -/

/-- parsing the start element built from a value gives the value back (with the local name fixed
to the stanza kind), for every value whose addresses are canonical and — for messages — whose
type is a defined constant -/
theorem C13_start_inverse (parse : String → Option String) (k : Kind) (x : Stz)
    (hto : x.to ≠ "" → parse x.to = some x.to) (hfrom : x.from_ ≠ "" → parse x.from_ = some x.from_)
    (hty : k = .message → x.typ ∈ messageTypes) :
    newStz parse k (startName k x) (startAttrs k x) = some { x with name := startName k x } := by
  have hmsg : k = .message → msgType x.typ = x.typ := fun hk => by simp [msgType, hty hk]
  obtain ⟨nm, id, to, fr, lang, typ⟩ := x
  simp only at hto hfrom hty hmsg
  unfold newStz startAttrs
  cases k
  case message =>
    have hm := hmsg rfl
    by_cases h2 : to = "" <;> by_cases h3 : fr = "" <;> by_cases h4 : id = "" <;> by_cases h5 : lang = "" <;>
      simp [h2, h3, h4, h5, newLoop, newStep, attr0, langAttr, nsXML, startName, hm, hto, hfrom]
  case iq =>
    by_cases h2 : to = "" <;> by_cases h3 : fr = "" <;> by_cases h4 : id = "" <;> by_cases h5 : lang = "" <;>
      simp [h2, h3, h4, h5, newLoop, newStep, attr0, langAttr, nsXML, startName, hto, hfrom]
  case presence =>
    by_cases h1 : typ = "" <;> by_cases h2 : to = "" <;> by_cases h3 : fr = "" <;> by_cases h4 : id = "" <;>
      by_cases h5 : lang = "" <;>
      simp [h1, h2, h3, h4, h5, newLoop, newStep, attr0, langAttr, nsXML, startName, hto, hfrom]

example : newStz (fun s => some s) .message ⟨"jabber:client", "message"⟩
    (startAttrs .message ⟨⟨"jabber:client", "x"⟩, "i1", "a@b", "", "en", "chat"⟩)
    = some ⟨⟨"jabber:client", "message"⟩, "i1", "a@b", "", "en", "chat"⟩ := by decide

/-- whatever `NewIQ|NewMessage|NewPresence` returns satisfies the hypotheses of
`C13_start_inverse`, provided address parsing is idempotent (C11) -/
theorem newLoop_canonical (parse : String → Option String) (hidem : ∀ s j, parse s = some j → parse j = some j)
    (k : Kind) (n : Name) (as : List Attr) :
    ∀ v w, newLoop parse k n v as = some w →
      ((v.to ≠ "" → parse v.to = some v.to) ∧ (v.from_ ≠ "" → parse v.from_ = some v.from_) ∧
        (k = .message → v.typ ∈ messageTypes)) →
      ((w.to ≠ "" → parse w.to = some w.to) ∧ (w.from_ ≠ "" → parse w.from_ = some w.from_) ∧
        (k = .message → w.typ ∈ messageTypes)) := by
  induction as with
  | nil => intro v w h hv; simp only [newLoop, Option.some.injEq] at h; subst h; exact hv
  | cons a as ih =>
    intro v w h hv
    simp only [newLoop] at h
    cases hs : newStep parse k n v a with
    | none => rw [hs] at h; cases h
    | some v' =>
      rw [hs] at h
      refine ih v' w h ?_
      unfold newStep at hs
      split at hs
      · simp only [Option.some.injEq] at hs; subst hs; exact hv
      · split at hs
        · simp only [Option.some.injEq] at hs; subst hs; exact hv
        · split at hs
          · simp only [Option.some.injEq] at hs; subst hs; exact hv
          · split at hs
            · split at hs
              · simp only [Option.some.injEq] at hs; subst hs; exact hv
              · cases hp : parse a.value with
                | none => rw [hp] at hs; cases hs
                | some j =>
                  rw [hp] at hs; simp only [Option.map_some, Option.some.injEq] at hs; subst hs
                  exact ⟨fun _ => hidem _ _ hp, hv.2.1, hv.2.2⟩
            · split at hs
              · split at hs
                · simp only [Option.some.injEq] at hs; subst hs; exact hv
                · cases hp : parse a.value with
                  | none => rw [hp] at hs; cases hs
                  | some j =>
                    rw [hp] at hs; simp only [Option.map_some, Option.some.injEq] at hs; subst hs
                    exact ⟨hv.1, fun _ => hidem _ _ hp, hv.2.2⟩
              · split at hs
                · simp only [Option.some.injEq] at hs; subst hs
                  refine ⟨hv.1, hv.2.1, fun hk => ?_⟩
                  simp only [hk, if_true, msgType]
                  split
                  · assumption
                  · decide
                · simp only [Option.some.injEq] at hs; subst hs; exact hv

/-- `StartElement(NewX(s))` re-parses to the same value -/
theorem C13_new_start_reparse (parse : String → Option String)
    (hidem : ∀ s j, parse s = some j → parse j = some j)
    (k : Kind) (n : Name) (as : List Attr) (v : Stz) (h : newStz parse k n as = some v) :
    newStz parse k (startName k v) (startAttrs k v) = some { v with name := startName k v } := by
  unfold newStz at h
  have inv := newLoop_canonical parse hidem k n as _ v h
    ⟨fun h => absurd rfl h, fun h => absurd rfl h, fun hk => by simp [hk, messageTypes]⟩
  exact C13_start_inverse parse k v inv.1 inv.2.1 inv.2.2

/-! ### The struct-tag path agrees with the token path (start elements) -/

/-- the iq types read from the source are the model's -/
theorem C13_gen_iq_types : ∃ l, Generated.C13.iqTypes = some l ∧ sameSet l iqTypes = true := ⟨_, rfl, by decide⟩

/-- the struct definitions the model of the struct-tag path (`marshalAttrs`, `reflectNew`) is
written for: field order, field types and `xml` tags of the three stanza types -/
theorem C13_gen_struct_tags : Generated.C13.stanzaTags = some [
    ("IQ", [("Name", "iq"), ("string", "id,attr"), ("JID", "to,attr,omitempty"),
      ("JID", "from,attr,omitempty"),
      ("string", "http://www.w3.org/XML/1998/namespace lang,attr,omitempty"), ("IQType", "type,attr")]),
    ("Message", [("Name", "message"), ("string", "id,attr,omitempty"),
      ("JID", "to,attr,omitempty"), ("JID", "from,attr,omitempty"),
      ("string", "http://www.w3.org/XML/1998/namespace lang,attr,omitempty"),
      ("MessageType", "type,attr,omitempty")]),
    ("Presence", [("Name", "presence"), ("string", "id,attr"), ("JID", "to,attr"),
      ("JID", "from,attr"),
      ("string", "http://www.w3.org/XML/1998/namespace lang,attr,omitempty"),
      ("PresenceType", "type,attr,omitempty")])] := by decide

/-- decoding (by reflection) what the standard marshaller prints for a value gives the value
back, in no namespace: for canonical addresses and a defined type -/
theorem C13_marshal_decodes (parse : String → Option String) (k : Kind) (x : Stz)
    (hto : x.to ≠ "" → parse x.to = some x.to) (hfrom : x.from_ ≠ "" → parse x.from_ = some x.from_)
    (hiq : k = .iq → x.typ ∈ iqTypes) (hmsg : k = .message → x.typ ∈ messageTypes) :
    reflectNew parse k (marshalName k) (marshalAttrs k x) = some { x with name := marshalName k } := by
  obtain ⟨nm, id, to, fr, lang, typ⟩ := x
  simp only at hto hfrom hiq hmsg
  unfold reflectNew marshalAttrs
  cases k
  case iq =>
    have hne : typ ≠ "" := by
      intro h; have := hiq rfl; rw [h] at this; simp [iqTypes] at this
    by_cases h2 : to = "" <;> by_cases h3 : fr = "" <;> by_cases h5 : lang = "" <;>
      simp [h2, h3, h5, reflectLoop, reflectStep, attr0, langAttr, nsXML, marshalName, Kind.loc, iqTypeText, hne, hto, hfrom]
  case message =>
    have hm : msgType typ = typ := by simp [msgType, hmsg rfl]
    have hne : typ ≠ "" := by
      intro h; have := hmsg rfl; rw [h] at this; simp [messageTypes] at this
    by_cases h1 : id = "" <;> by_cases h2 : to = "" <;> by_cases h3 : fr = "" <;> by_cases h5 : lang = "" <;>
      simp [h1, h2, h3, h5, reflectLoop, reflectStep, attr0, langAttr, nsXML, marshalName, Kind.loc, hm, hne, hto, hfrom]
  case presence =>
    by_cases h0 : typ = "" <;> by_cases h2 : to = "" <;> by_cases h3 : fr = "" <;> by_cases h5 : lang = "" <;>
      simp [h0, h2, h3, h5, reflectLoop, reflectStep, attr0, langAttr, nsXML, marshalName, Kind.loc, hto, hfrom]

/-- decoding (by reflection) the start element of the token path gives the value back, with the
namespace of its `XMLName` -/
theorem C13_token_path_decodes (parse : String → Option String) (k : Kind) (x : Stz)
    (hto : x.to ≠ "" → parse x.to = some x.to) (hfrom : x.from_ ≠ "" → parse x.from_ = some x.from_)
    (hiq : k = .iq → x.typ ∈ iqTypes) (hmsg : k = .message → x.typ ∈ messageTypes) :
    reflectNew parse k (startName k x) (startAttrs k x) = some { x with name := startName k x } := by
  obtain ⟨nm, id, to, fr, lang, typ⟩ := x
  simp only at hto hfrom hiq hmsg
  unfold reflectNew startAttrs
  cases k
  case iq =>
    by_cases h2 : to = "" <;> by_cases h3 : fr = "" <;> by_cases h4 : id = "" <;> by_cases h5 : lang = "" <;>
      simp [h2, h3, h4, h5, reflectLoop, reflectStep, attr0, langAttr, nsXML, startName, Kind.loc, hto, hfrom]
  case message =>
    have hm : msgType typ = typ := by simp [msgType, hmsg rfl]
    by_cases h2 : to = "" <;> by_cases h3 : fr = "" <;> by_cases h4 : id = "" <;> by_cases h5 : lang = "" <;>
      simp [h2, h3, h4, h5, reflectLoop, reflectStep, attr0, langAttr, nsXML, startName, Kind.loc, hm, hto, hfrom]
  case presence =>
    by_cases h1 : typ = "" <;> by_cases h2 : to = "" <;> by_cases h3 : fr = "" <;> by_cases h4 : id = "" <;>
      by_cases h5 : lang = "" <;>
      simp [h1, h2, h3, h4, h5, reflectLoop, reflectStep, attr0, langAttr, nsXML, startName, Kind.loc, hto, hfrom]

/-- **paths agree**: the standard marshaller and `StartElement()`/`Wrap` decode to the same id,
addresses, language and type; the only field that can differ is the namespace of `XMLName` … -/
theorem C13_paths_agree (parse : String → Option String) (k : Kind) (x : Stz)
    (hto : x.to ≠ "" → parse x.to = some x.to) (hfrom : x.from_ ≠ "" → parse x.from_ = some x.from_)
    (hiq : k = .iq → x.typ ∈ iqTypes) (hmsg : k = .message → x.typ ∈ messageTypes) :
    (reflectNew parse k (marshalName k) (marshalAttrs k x)).map (fun v => { v with name := ⟨"", v.name.loc⟩ }) =
    (reflectNew parse k (startName k x) (startAttrs k x)).map (fun v => { v with name := ⟨"", v.name.loc⟩ }) := by
  rw [C13_marshal_decodes parse k x hto hfrom hiq hmsg, C13_token_path_decodes parse k x hto hfrom hiq hmsg]
  simp [marshalName, startName]

/-- … and it does differ as soon as the value has one (the known finding `paths-agree`): the
marshaller prints the element in no namespace, the token path keeps `XMLName.Space` -/
theorem C13_paths_agree_fails_namespace (parse : String → Option String) (k : Kind) (x : Stz)
    (hto : x.to ≠ "" → parse x.to = some x.to) (hfrom : x.from_ ≠ "" → parse x.from_ = some x.from_)
    (hiq : k = .iq → x.typ ∈ iqTypes) (hmsg : k = .message → x.typ ∈ messageTypes) (hns : x.name.space ≠ "") :
    reflectNew parse k (marshalName k) (marshalAttrs k x) ≠ reflectNew parse k (startName k x) (startAttrs k x) := by
  rw [C13_marshal_decodes parse k x hto hfrom hiq hmsg, C13_token_path_decodes parse k x hto hfrom hiq hmsg]
  intro h
  have := congrArg (fun o => o.map (·.name.space)) h
  simp [marshalName, startName] at this
  exact hns this

example : reflectNew (fun s => some s) .iq (marshalName .iq)
    (marshalAttrs .iq ⟨⟨"jabber:server", "iq"⟩, "i", "", "a@b", "", "get"⟩) =
    some ⟨⟨"", "iq"⟩, "i", "", "a@b", "", "get"⟩ := by decide

/-- **Outside the defined constants the two paths disagree for IQs — and only for IQs** (review B,
C13-2).  The premise "type field is one of the defined constants" is needed: for `IQ{Type: ""}`
the standard marshaller prints `type="get"` (`IQType.MarshalText`) while `StartElement()` prints
`type=""`, and both are read back verbatim, so the two encodings decode to different values.  For
messages BOTH paths turn an undefined type into `normal` (they agree, on a value that is not the
original), for presence NEITHER path touches the type (they agree on the original). -/
theorem C13_paths_agree_fails_empty_iq_type :
    (reflectNew some .iq (marshalName .iq) (marshalAttrs .iq ⟨⟨"", "iq"⟩, "i", "", "", "", ""⟩)
        = some ⟨⟨"", "iq"⟩, "i", "", "", "", "get"⟩ ∧
      reflectNew some .iq (startName .iq ⟨⟨"", "iq"⟩, "i", "", "", "", ""⟩) (startAttrs .iq ⟨⟨"", "iq"⟩, "i", "", "", "", ""⟩)
        = some ⟨⟨"", "iq"⟩, "i", "", "", "", ""⟩) ∧
    (∀ t, t ∉ messageTypes → t ≠ "" →
      reflectNew some .message (marshalName .message) (marshalAttrs .message ⟨⟨"", "message"⟩, "i", "", "", "", t⟩)
        = some ⟨⟨"", "message"⟩, "i", "", "", "", "normal"⟩ ∧
      reflectNew some .message (startName .message ⟨⟨"", "message"⟩, "i", "", "", "", t⟩)
          (startAttrs .message ⟨⟨"", "message"⟩, "i", "", "", "", t⟩)
        = some ⟨⟨"", "message"⟩, "i", "", "", "", "normal"⟩) ∧
    (∀ t, reflectNew some .presence (marshalName .presence) (marshalAttrs .presence ⟨⟨"", "presence"⟩, "i", "", "", "", t⟩)
        = reflectNew some .presence (startName .presence ⟨⟨"", "presence"⟩, "i", "", "", "", t⟩)
          (startAttrs .presence ⟨⟨"", "presence"⟩, "i", "", "", "", t⟩)) := by
  refine ⟨⟨by decide, by decide⟩, ?_, ?_⟩
  · intro t ht hne
    have hm : msgType t = "normal" := by simp [msgType, ht]
    have hn : msgType "normal" = "normal" := by decide
    constructor <;>
      simp [reflectNew, reflectLoop, reflectStep, marshalAttrs, startAttrs, startName, marshalName, attr0, langAttr,
        nsXML, Kind.loc, hm, hn, hne]
  · intro t
    by_cases h : t = "" <;>
      simp [reflectNew, reflectLoop, reflectStep, marshalAttrs, startAttrs, startName, marshalName, attr0, langAttr,
        nsXML, Kind.loc, h]

/-! ### Texts with characters XML cannot carry (round F, review B C13-1c) -/

/-- what the wire does to a text field (`xml.EscapeText` writes U+FFFD for a code point that is not
an XML character; tied to the real encoder + decoder by the `fix` lines): the result consists of XML
characters only, the substitution is idempotent — so a text that went through once round-trips
exactly from then on — and it is the identity exactly on texts of XML characters, which is why the
round-trip theorems (stated for all strings of the token model) describe the real codec under
assumption[0] only. -/
theorem C13_nonxml_substitution (t : List Char) :
    (∀ c ∈ t.map Header.fixChar, Header.xmlChar c = true) ∧
    (t.map Header.fixChar).map Header.fixChar = t.map Header.fixChar ∧
    ((∀ c ∈ t, Header.xmlChar c = true) ↔ t.map Header.fixChar = t) := by
  have hx : ∀ c, Header.xmlChar (Header.fixChar c) = true := by
    intro c
    unfold Header.fixChar
    split
    · assumption
    · decide
  have hid : ∀ c, Header.xmlChar c = true → Header.fixChar c = c := by
    intro c h; simp [Header.fixChar, h]
  refine ⟨?_, ?_, ?_, ?_⟩
  · intro c hc
    obtain ⟨d, _, rfl⟩ := List.mem_map.mp hc
    exact hx d
  · rw [List.map_map]
    apply List.map_congr_left
    intro c _
    exact hid _ (hx c)
  · intro h
    induction t with
    | nil => rfl
    | cons a t ih =>
      simp only [List.map_cons]
      rw [hid a (h a (List.mem_cons_self ..)), ih (fun c hc => h c (List.mem_cons_of_mem _ hc))]
  · intro h c hc
    have : Header.fixChar c = c := by
      induction t with
      | nil => cases hc
      | cons a t ih =>
        simp only [List.map_cons, List.cons.injEq] at h
        rcases List.mem_cons.mp hc with rfl | hc
        · exact h.1
        · exact ih h.2 hc
    rw [← this]; exact hx c

example : "a\x01b\uFFFE".toList.map Header.fixChar = "a\uFFFDb\uFFFD".toList := by decide

/-! ### Wrapping helpers -/

/-- `Wrap` produces a stanza of the right kind around the unchanged payload … -/
theorem C13_wrap_payload (k : Kind) (x : Stz) (p : List Tok) :
    wrap k x p = startElement k x :: p ++ [.stop (startName k x)] ∧ (startName k x).loc = k.loc ∧
    (startName k x).space = x.name.space := ⟨rfl, rfl, rfl⟩

/-- … which a reader gets back exactly (`xmlstream.Inner` after the start token), for every
balanced payload; and the wrapped stanza is balanced -/
theorem C13_wrap_inner (k : Kind) (x : Stz) (p rest : List Tok) (hb : balanced p = true) :
    Encoder.inner 0 ((wrap k x p).tail ++ rest) = p ∧ balanced (wrap k x p) = true := by
  have hb' : depthAfter 0 p = some 0 := by simpa [balanced] using hb
  constructor
  · have := Encoder.inner_balanced p (.stop (startName k x) :: rest) 0 0 hb'
    simp [wrap, this, Encoder.inner]
  · simp only [balanced, wrap, startElement, List.cons_append, depthAfter]
    rw [depthAfter_append]
    have h1 : depthAfter 1 p = some 1 := by
      have := Encoder.depthAfter_shift p 0 0 1 hb'
      simpa using this
    simp [h1, depthAfter]

/-- replies and errors swap the addresses, set the type and keep id and language: parsing the
start element of `Result`/`Error` gives exactly that value -/
theorem C13_result_error_swap (parse : String → Option String) (k : Kind) (x : Stz) (typ : String)
    (hto : x.to ≠ "" → parse x.to = some x.to) (hfrom : x.from_ ≠ "" → parse x.from_ = some x.from_)
    (hty : k = .message → typ ∈ messageTypes) :
    newStz parse k (startName k (swap x typ)) (startAttrs k (swap x typ)) =
      some ⟨startName k x, x.id, x.from_, x.to, x.lang, typ⟩ := by
  have := C13_start_inverse parse k (swap x typ) hfrom hto hty
  simpa [swap, startName] using this

/-- `IQ.Result` and the three `Error` helpers are `Wrap` of the swapped value around the payload
/ the error's tokens -/
theorem C13_result_is_wrap (x : Stz) (p : List Tok) (k : Kind) (e : SErr) :
    result x p = wrap .iq (swap x "result") p ∧ errorReply k x e = wrap k (swap x "error") (errTokens e []) :=
  ⟨rfl, rfl⟩

/-! ### Stanza errors -/

/-- the error element is balanced for all field contents (and any balanced payload) -/
theorem C13_stanza_error_balanced (e : SErr) (p : List Tok) (hb : balanced p = true) :
    balanced (errTokens e p) = true := by
  have hb' : depthAfter 0 p = some 0 := by simpa [balanced] using hb
  have h1 : depthAfter 1 p = some 1 := by
    have := Encoder.depthAfter_shift p 0 0 1 hb'
    simpa using this
  simp only [balanced, errTokens, errContent, List.cons_append, depthAfter]
  rw [depthAfter_append, depthAfter_append, depthAfter_append]
  simp [depthAfter, depthAfter_texts, h1]

/-- **round trip**: decoding the tokens of an error gives the canonical form of the error: empty
texts dropped, an empty condition replaced by undefined-condition, languages in sorted order -/
theorem C13_stanza_error_roundtrip (parse : String → Option String) (e : SErr)
    (hby : e.by_ ≠ "" → parse e.by_ = some e.by_) (hc : condOf e ≠ "text") :
    decodeErr parse (errTokens e []) =
      some ⟨e.by_, e.typ, condOf e, (sortTexts e.texts).filter (·.2 ≠ "")⟩ := by
  have hchildren : childrenOf (errContent e []) =
      ⟨⟨nsErr, condOf e⟩, [], ""⟩ :: ((sortTexts e.texts).filter (·.2 ≠ "")).map (textChild nsErr) := by
    unfold childrenOf errContent
    rw [List.append_nil, List.foldl_append, fold_empty, fold_texts]
    simp
  have hne : (⟨nsErr, condOf e⟩ : Name) ≠ textName := by
    intro h; injection h with _ h2; exact hc h2
  have hne1 : decide ((⟨nsErr, condOf e⟩ : Name) ≠ textName) = true := by simpa using hne
  have hne2 : decide ((⟨nsErr, condOf e⟩ : Name) = textName) = false := by simpa using hne
  unfold decodeErr errTokens
  rw [contentOf_wrap]
  simp only [hchildren, List.filter_cons, hne1, hne2, if_true, Bool.false_eq_true, if_false,
    filter_ne_text, filter_eq_text, map_lang_text, List.find?_cons]
  have hfil : ∀ l : List (String × String), (l.filter (·.2 ≠ "")).filter (·.2 ≠ "") = l.filter (·.2 ≠ "") := by
    intro l; simp [List.filter_filter]
  rw [hfil]
  by_cases ht : e.typ = "" <;> by_cases hb : e.by_ = "" <;>
    simp [errAttrs, ht, hb, lastAttr, attr0, hby]

/-- **exactly the empty texts are dropped**: a text survives the round trip iff it is not the
empty string — white space only texts (blanks, line breaks, no-break space) are kept, in every
language -/
theorem C13_only_empty_text_dropped (parse : String → Option String) (e : SErr)
    (hby : e.by_ ≠ "" → parse e.by_ = some e.by_) (hc : condOf e ≠ "text") (p : String × String) :
    (∃ d, decodeErr parse (errTokens e []) = some d ∧ (p ∈ d.texts ↔ (p ∈ e.texts ∧ p.2 ≠ ""))) := by
  refine ⟨_, C13_stanza_error_roundtrip parse e hby hc, ?_⟩
  simp [List.mem_filter, mem_sortTexts]

example : (" ", "\n\t") ∈ ((sortTexts [("", " "), (" ", "\n\t"), ("en", "")]).filter (·.2 ≠ "")) := by decide

/-- names of decoded payload children are the payload's element names: none is in `ns` -/
theorem children_foreign {cs : List Child} {es : List Elem} (hn : cs.map (·.name) = es.map (·.name))
    (ns : String) (hns : ∀ x ∈ es, x.name.space ≠ ns) : ∀ c ∈ cs, c.name.space ≠ ns := by
  intro c hc
  have : c.name ∈ es.map (·.name) := by rw [← hn]; exact List.mem_map.mpr ⟨c, hc, rfl⟩
  obtain ⟨x, hx, hxe⟩ := List.mem_map.mp this
  rw [← hxe]; exact hns x hx

/-- names of decoded payload children are the payload's element names: none is `n` -/
theorem children_not_named {cs : List Child} {es : List Elem} (hn : cs.map (·.name) = es.map (·.name))
    (n : Name) (hne : ∀ x ∈ es, x.name ≠ n) : ∀ c ∈ cs, c.name ≠ n := by
  intro c hc
  have : c.name ∈ es.map (·.name) := by rw [← hn]; exact List.mem_map.mpr ⟨c, hc, rfl⟩
  obtain ⟨x, hx, hxe⟩ := List.mem_map.mp this
  rw [← hxe]; exact hne x hx

/-- **round trip with an application payload**: any sequence of complete elements after the
condition and the texts — in ANY namespace, the stanza-errors namespace included, as long as
none of them is a `<text/>` of that namespace — leaves the decoded error unchanged: the
condition is the FIRST child in the stanza-errors namespace, later ones do not replace it -/
theorem C13_stanza_error_roundtrip_payload (parse : String → Option String) (e : SErr) (es : List Elem)
    (hes : ∀ x ∈ es, x.ok) (hnt : ∀ x ∈ es, x.name ≠ textName)
    (hby : e.by_ ≠ "" → parse e.by_ = some e.by_) (hc : condOf e ≠ "text") :
    decodeErr parse (errTokens e (es.flatMap Elem.toks)) =
      some ⟨e.by_, e.typ, condOf e, (sortTexts e.texts).filter (·.2 ≠ "")⟩ := by
  obtain ⟨cs, hn, hf⟩ := fold_elems es hes
    ([⟨⟨nsErr, condOf e⟩, [], ""⟩] ++ ((sortTexts e.texts).filter (·.2 ≠ "")).map (textChild nsErr))
  have hnot := children_not_named hn textName hnt
  have hchildren : childrenOf (errContent e (es.flatMap Elem.toks)) =
      ⟨⟨nsErr, condOf e⟩, [], ""⟩ :: (((sortTexts e.texts).filter (·.2 ≠ "")).map (textChild nsErr) ++ cs) := by
    unfold childrenOf errContent
    rw [List.foldl_append, List.foldl_append, fold_empty, fold_texts]
    simp only [List.nil_append]
    rw [hf]
    simp
  have hne : (⟨nsErr, condOf e⟩ : Name) ≠ textName := by
    intro h; injection h with _ h2; exact hc h2
  have hne1 : decide ((⟨nsErr, condOf e⟩ : Name) ≠ textName) = true := by simpa using hne
  have hne2 : decide ((⟨nsErr, condOf e⟩ : Name) = textName) = false := by simpa using hne
  have hcs : cs.filter (fun c => decide (c.name = textName)) = [] := by
    apply List.filter_eq_nil_iff.mpr
    intro c hc'
    simpa using hnot c hc'
  unfold decodeErr errTokens
  rw [contentOf_wrap]
  simp only [hchildren, List.filter_cons, List.filter_append, hne1, hne2, if_true, Bool.false_eq_true, if_false,
    filter_eq_text, hcs, List.append_nil, map_lang_text, List.find?_cons]
  have hfil : ∀ l : List (String × String), (l.filter (·.2 ≠ "")).filter (·.2 ≠ "") = l.filter (·.2 ≠ "") := by
    intro l; simp [List.filter_filter]
  rw [hfil]
  by_cases ht : e.typ = "" <;> by_cases hb : e.by_ = "" <;>
    simp [errAttrs, ht, hb, lastAttr, attr0, hby]

example : (⟨⟨nsErr, "gone"⟩, [], [.chars "xmpp:other@example.net"], ⟨nsErr, "gone"⟩⟩ : Elem).name ≠ textName := by
  decide

/-! ### error replies through bytes, in every content namespace (round C) -/

/-- the stanza built by the `Error` helpers is balanced, so the printer accepts it -/
theorem C13_error_reply_balanced (k : Kind) (x : Stz) (e : SErr) : balanced (errorReply k x e) = true :=
  (C13_wrap_inner k (swap x "error") (errTokens e []) [] (C13_stanza_error_balanced e [] rfl)).2

/-- **the error of a reply is found and decoded in every content namespace**: for every stanza
kind, every value of `XMLName.Space` (none, client, server, component, anything else) and every
error, `UnmarshalError` on the reply built by `IQ.Error`/`Message.Error`/`Presence.Error` — taken
as tokens, and after printing and re-parsing, where `<error/>` has inherited the stanza's
namespace — returns the canonical form of the error -/
theorem C13_error_reply_unmarshal (parse : String → Option String) (k : Kind) (x : Stz) (e : SErr)
    (hby : e.by_ ≠ "" → parse e.by_ = some e.by_) (hc : condOf e ≠ "text") :
    unmarshalError parse (errorReply k x e).tail =
      .ok ⟨e.by_, e.typ, condOf e, (sortTexts e.texts).filter (·.2 ≠ "")⟩ ∧
    ∃ w, wire (errorReply k x e) = some w ∧
      unmarshalError parse w.tail = .ok ⟨e.by_, e.typ, condOf e, (sortTexts e.texts).filter (·.2 ≠ "")⟩ ∧
      w.head? = some (.start ⟨x.name.space, k.loc⟩ (startAttrs k (swap x "error"))) := by
  have hrt := C13_stanza_error_roundtrip parse e hby hc
  have key : ∀ n : Name, isErrorName n = true →
      unmarshalError parse ((wrap k (swap x "error") (.start n (errAttrs e) :: errContent e [] ++ [.stop n])).tail) =
        .ok ⟨e.by_, e.typ, condOf e, (sortTexts e.texts).filter (·.2 ≠ "")⟩ := by
    intro n hn
    have hf := findError_first isErrorName n n (errAttrs e) (errContent e [])
      [.stop (startName k (swap x "error"))] hn (depthAfter_errContent e)
    have hd : decodeErr parse (.start n (errAttrs e) :: errContent e [] ++ [.stop n]) = decodeErr parse (errTokens e []) :=
      decodeErr_names parse n n _ _ _ _
    simp only [List.cons_append] at hf hd
    simp only [unmarshalError, unmarshalErrorP, wrap, List.tail_cons, List.cons_append, List.append_assoc,
      List.nil_append, hf, hd, hrt]
  refine ⟨?_, wireGo [] (errorReply k x e), ?_, ?_, ?_⟩
  · exact key ⟨"", "error"⟩ rfl
  · simp [wire, C13_error_reply_balanced]
  · rw [wireGo_errorReply]; exact key ⟨x.name.space, "error"⟩ rfl
  · rw [wireGo_errorReply]; simp [wrap, startElement, startName, swap]

/-- non-vacuity, on a component stream: the reply read back has `<error/>` in
`jabber:component:accept` and its error is decoded -/
example : (wire (errorReply .iq ⟨⟨"jabber:component:accept", "iq"⟩, "a1", "c.example.com", "j@example.com/b", "", "get"⟩
      ⟨"", "cancel", "item-not-found", [("", "no such item")]⟩)).map (fun w => unmarshalError (fun s => some s) w.tail) =
    some (.ok ⟨"", "cancel", "item-not-found", [("", "no such item")]⟩) := by decide

/-- an `UnmarshalError` that only accepts `<error/>` in no, the client or the server namespace
loses the error of every reply on a component stream (what a plausible "tightening" does) -/
theorem C13_error_reply_ns_filter_fails :
    (wire (errorReply .iq ⟨⟨"jabber:component:accept", "iq"⟩, "a1", "", "", "", "get"⟩
      ⟨"", "cancel", "item-not-found", []⟩)).map (fun w =>
        unmarshalErrorP (fun n => n.loc == "error" && (n.space == "" || n.space == "jabber:client" || n.space == "jabber:server"))
          (fun s => some s) w.tail) = some .missing := by decide

/-- **the payload echoed in front of the error is skipped**: any sequence of complete elements
that are not called `error` (and white space between the children, see the probe) in front of the
rest of the stanza changes nothing in what `UnmarshalError` returns -/
theorem C13_unmarshal_error_skips_payload (parse : String → Option String) (es : List Elem)
    (hes : ∀ x ∈ es, x.ok) (hn : ∀ x ∈ es, x.name.loc ≠ "error") (rest : List Tok) :
    unmarshalError parse (es.flatMap Elem.toks ++ rest) = unmarshalError parse rest := by
  have := findErrorP_elems isErrorName es hes (fun x hx => by simpa [isErrorName] using hn x hx) rest
  simp only [unmarshalError, unmarshalErrorP, this]

example : unmarshalError (fun s => some s)
    ((⟨⟨"urn:app", "query"⟩, [], [.chars "q"], ⟨"urn:app", "query"⟩⟩ : Elem).toks ++
      (errorReply .iq ⟨⟨"", "iq"⟩, "1", "", "", "", "get"⟩ ⟨"", "cancel", "conflict", []⟩).tail) =
    .ok ⟨"", "cancel", "conflict", []⟩ := by decide

/-! ### probe facts: the real codecs evaluated on a finite domain (round C) -/

/-- the model's `UnmarshalError` on the probe stanza: white space, one element called `n` with
`type='cancel'` holding `<conflict/>`, the end of the stanza -/
def probeUnmarshal (n : Name) : String :=
  match unmarshalError (fun s => some s)
      [.chars "\n", .start n [attr0 "type" "cancel"], .start ⟨nsErr, "conflict"⟩ [], .stop ⟨nsErr, "conflict"⟩, .stop n,
        .stop ⟨n.space, "iq"⟩] with
  | .ok e => if e.cond = "conflict" ∧ e.typ = "cancel" then "ok" else "bad"
  | .missing => "missing"
  | .bad => "bad"

/-- regenerated by running the real `stanza.UnmarshalError`: an `<error/>` child is found and
decoded in EVERY namespace it can have inherited from the stream (none, client, server, the two
component namespaces, a foreign one), an element of another name never is — and the model's
`unmarshalError` agrees with the whole table -/
theorem C13_gen_error_ns_probe :
    Generated.C13.errorNsProbe = some (["", "jabber:client", "jabber:server", "jabber:component:accept",
      "jabber:component:connect", "urn:other"].map fun sp =>
        (sp, probeUnmarshal ⟨sp, "error"⟩, probeUnmarshal ⟨sp, "failure"⟩)) := by decide

/-- … and that table says: found everywhere -/
theorem C13_error_ns_probe_all_found :
    ∀ sp ∈ ["", "jabber:client", "jabber:server", "jabber:component:accept", "jabber:component:connect", "urn:other"],
      probeUnmarshal ⟨sp, "error"⟩ = "ok" ∧ probeUnmarshal ⟨sp, "failure"⟩ = "missing" := by decide

/-- regenerated by running the real decoders: a text of n bytes comes back with n bytes from
`stanza.Error` and from `stream.Error`, for n = 0 and next to 2^8, 2^10, 2^12, 2^16 and at 2^20:
no cap, no truncation (the model keeps every text whole: `C13_stanza_error_roundtrip`,
`C13_stream_error_roundtrip` hold for all strings) -/
theorem C13_gen_text_size_probe :
    Generated.C13.textSizeProbe = some (([0, 1, 255, 256, 257, 1023, 1024, 1025, 4095, 4096, 4097, 65535, 65536,
      65537, 1048576] : List Nat).map fun (n : Nat) => (n, (n : Int), (n : Int))) := by decide

/-! ### probe facts of round D: attribute addresses, children named like the decoders' own -/

/-- what the reflection decoder stores for `to='raw'` when `jid.Parse raw` is `p` -/
def probeAttrTo (raw : String) (p : Option String) : Option String :=
  (reflectStep (fun _ => p) .iq ⟨⟨"", "iq"⟩, "", "", "", "", ""⟩ (attr0 "to" raw)).map (·.to)

/-- … and the stanza-error decoder for `by='raw'` -/
def probeAttrBy (raw : String) (p : Option String) : Option String :=
  (decodeErr (fun _ => p) [.start ⟨"", "error"⟩ [attr0 "by" raw], .stop ⟨"", "error"⟩]).map (·.by_)

/-- regenerated by running the real `(*jid.JID).UnmarshalXMLAttr` next to the real `jid.Parse` on the
address pools and on an address padded with every kind of white space (before, after, both,
alone): the attribute decoder is `jid.Parse` on the very value, except that the empty value is
the zero address — nothing is trimmed, folded or defaulted.  That is what the model's reflection
decoder (`reflectStep`) and error decoder (`decodeErr`) do with the address attributes. -/
theorem C13_gen_jid_attr_probe :
    ∃ t, Generated.C13.jidAttrProbe = some t ∧ t.length ≥ 60 ∧
      t.all (fun r => r.2.1 == (if r.1 = "" then some "" else r.2.2)
        && r.2.1 == probeAttrTo r.1 r.2.2 && r.2.1 == probeAttrBy r.1 r.2.2) = true :=
  ⟨_, rfl, by decide, by decide⟩

/-- the probe is not vacuous: it holds addresses with white space at the edges of the resourcepart
that are accepted *with* that white space, and padded values that are refused -/
theorem C13_jid_attr_probe_edges :
    ∃ t, Generated.C13.jidAttrProbe = some t ∧
      ("romeo@example.net/orchard ", some "romeo@example.net/orchard ", some "romeo@example.net/orchard ") ∈ t ∧
      ("a@example.net/r ", some "a@example.net/r ", some "a@example.net/r ") ∈ t ∧
      (" ", none, none) ∈ t ∧ (" a@example.net/r", none, none) ∈ t :=
  ⟨_, rfl, by decide, by decide, by decide, by decide⟩

def renderTexts (ts : List (String × String)) : String := ",".intercalate (ts.map fun p => p.1 ++ "=" ++ p.2)

/-- one more child `<local xmlns=space xml:lang='en'>x</local>` between the condition and the text -/
def probeChild (space loc : String) : List Tok :=
  [.start ⟨space, loc⟩ [langAttr "en"], .chars "x", .stop ⟨space, loc⟩]

def probeStreamChild (space loc : String) : String :=
  match decodeStreamErr (.start ⟨nsStream, "error"⟩ [] ::
      [.start ⟨nsStreamErr, "system-shutdown"⟩ [], .stop ⟨nsStreamErr, "system-shutdown"⟩] ++ probeChild space loc
        ++ textElem nsStreamErr ("de", "t") ++ [.stop ⟨nsStream, "error"⟩]) with
  | some e => e.err ++ "|" ++ e.content ++ "|" ++ renderTexts e.texts
  | none => "err"

def probeStanzaChild (space loc : String) : String :=
  match decodeErr (fun s => some s) (.start ⟨"", "error"⟩ [attr0 "type" "cancel"] ::
      [.start ⟨nsErr, "gone"⟩ [], .stop ⟨nsErr, "gone"⟩] ++ probeChild space loc
        ++ textElem nsErr ("de", "t") ++ [.stop ⟨"", "error"⟩]) with
  | some e => e.by_ ++ "|" ++ e.typ ++ "|" ++ e.cond ++ "|" ++ renderTexts (sortTexts e.texts)
  | none => "err"

def probeGrid : List (String × String) :=
  ["", nsStreamErr, nsErr, "urn:example:cluster", nsStream, "jabber:client"].flatMap fun sp =>
    ["text", "see-other-host", "conflict", "error", "x"].map fun lo => (sp, lo)

/-- regenerated by running the real `stream.Error` decoder on an error with one more child, for every
(namespace, local name) of a grid that crosses the names the decoder looks for with its own and
foreign namespaces: the model's `decodeStreamErr` returns the same value on the whole grid -/
theorem C13_gen_stream_error_child_probe :
    Generated.C13.streamErrChildProbe = some (probeGrid.map fun p => (p.1, p.2, probeStreamChild p.1 p.2)) := by
  decide

/-- … and the real `stanza.Error` decoder agrees with `decodeErr` on the same grid -/
theorem C13_gen_stanza_error_child_probe :
    Generated.C13.stanzaErrChildProbe = some (probeGrid.map fun p => (p.1, p.2, probeStanzaChild p.1 p.2)) := by
  decide

/-- what the grid says: a child is a descriptive text only as `text` in the error's OWN namespace;
in every other namespace a child of any name (also `text`, `see-other-host`, a condition name)
changes nothing -/
theorem C13_error_child_only_own_namespace :
    (∀ p ∈ probeGrid, p.1 ≠ nsStreamErr → probeStreamChild p.1 p.2 = "system-shutdown||de=t") ∧
    (∀ p ∈ probeGrid, p.1 ≠ nsErr → probeStanzaChild p.1 p.2 = "|cancel|gone|de=t") ∧
    probeStreamChild nsStreamErr "text" = "system-shutdown||en=x,de=t" ∧
    probeStanzaChild nsErr "text" = "|cancel|gone|de=t,en=x" := by decide

/-! ### Stream errors -/

/-- balanced for all field contents and any balanced application payload -/
theorem C13_stream_error_balanced (e : StErr) (p : List Tok) (hb : balanced p = true) :
    balanced (streamErrTokens e p) = true := by
  have hb' : depthAfter 0 p = some 0 := by simpa [balanced] using hb
  have h1 : depthAfter 1 p = some 1 := by
    have := Encoder.depthAfter_shift p 0 0 1 hb'
    simpa using this
  simp only [balanced, streamErrTokens, streamErrContent, List.cons_append, depthAfter]
  rw [depthAfter_append, depthAfter_append, depthAfter_append]
  simp [depthAfter, depthAfter_texts, h1]

/-- **round trip**: condition and all texts (in order, with their languages) come back; the
content of the condition element is kept for see-other-host (the only condition that has one) -/
theorem C13_stream_error_roundtrip (e : StErr) (hc : e.err ≠ "text") :
    decodeStreamErr (streamErrTokens e []) =
      some ⟨e.err, e.texts, if e.err = "see-other-host" then e.content else ""⟩ := by
  have hchildren : childrenOf (streamErrContent e []) =
      ⟨⟨nsStreamErr, e.err⟩, [], e.content⟩ :: e.texts.map (textChild nsStreamErr) := by
    unfold childrenOf streamErrContent
    rw [List.append_nil, List.foldl_append, fold_simple, fold_texts]
    simp
  have htexts : ∀ (l : List (String × String)) (s : StErr),
      (l.map (textChild nsStreamErr)).foldl stStep s = { s with texts := s.texts ++ l } := by
    intro l
    induction l with
    | nil => intro s; simp
    | cons p ps ih =>
      intro s
      simp only [List.map_cons, List.foldl_cons]
      have : stStep s (textChild nsStreamErr p) = { s with texts := s.texts ++ [p] } := by
        have hl := langOf_textChild nsStreamErr p
        simp [stStep, textChild, nsStreamErr] at hl ⊢
        simp [hl]
      rw [this, ih]
      simp
  unfold decodeStreamErr streamErrTokens
  rw [contentOf_wrap]
  simp only [Option.map_some, hchildren, List.foldl_cons]
  by_cases hs : e.err = "see-other-host"
  · have : stStep ⟨"", [], ""⟩ ⟨⟨nsStreamErr, e.err⟩, [], e.content⟩ = ⟨e.err, [], e.content⟩ := by
      simp [stStep, hs]
    rw [this, htexts]; simp [hs]
  · have : stStep ⟨"", [], ""⟩ ⟨⟨nsStreamErr, e.err⟩, [], e.content⟩ = ⟨e.err, [], ""⟩ := by
      simp [stStep, hs, hc]
    rw [this, htexts]; simp [hs]

/-- **round trip with an application error** (`ApplicationError`): elements outside the
stream-error namespace are skipped by the decoder (repaired `UnmarshalXML`) and everything else
comes back -/
theorem C13_stream_error_roundtrip_payload (e : StErr) (es : List Elem)
    (hes : ∀ x ∈ es, x.ok) (hns : ∀ x ∈ es, x.name.space ≠ nsStreamErr) (hc : e.err ≠ "text") :
    decodeStreamErr (streamErrTokens e (es.flatMap Elem.toks)) =
      some ⟨e.err, e.texts, if e.err = "see-other-host" then e.content else ""⟩ := by
  obtain ⟨cs, hn, hf⟩ := fold_elems es hes [⟨⟨nsStreamErr, e.err⟩, [], e.content⟩]
  have hforeign := children_foreign hn nsStreamErr hns
  have hchildren : childrenOf (streamErrContent e (es.flatMap Elem.toks)) =
      ⟨⟨nsStreamErr, e.err⟩, [], e.content⟩ :: (cs ++ e.texts.map (textChild nsStreamErr)) := by
    unfold childrenOf streamErrContent
    rw [List.foldl_append, List.foldl_append, fold_simple]
    simp only [List.nil_append]
    rw [hf, fold_texts]
    simp
  have hskip : ∀ (l : List Child), (∀ c ∈ l, c.name.space ≠ nsStreamErr) → ∀ s : StErr, l.foldl stStep s = s := by
    intro l
    induction l with
    | nil => intro _ s; rfl
    | cons c cs ih =>
      intro h s
      have hc' := h c (by simp)
      have : stStep s c = s := by simp [stStep, hc']
      simp only [List.foldl_cons, this]
      exact ih (fun x hx => h x (by simp [hx])) s
  have htexts : ∀ (l : List (String × String)) (s : StErr),
      (l.map (textChild nsStreamErr)).foldl stStep s = { s with texts := s.texts ++ l } := by
    intro l
    induction l with
    | nil => intro s; simp
    | cons p ps ih =>
      intro s
      simp only [List.map_cons, List.foldl_cons]
      have : stStep s (textChild nsStreamErr p) = { s with texts := s.texts ++ [p] } := by
        have hl := langOf_textChild nsStreamErr p
        simp [stStep, textChild, nsStreamErr] at hl ⊢
        simp [hl]
      rw [this, ih]
      simp
  unfold decodeStreamErr streamErrTokens
  rw [contentOf_wrap]
  simp only [Option.map_some, hchildren, List.foldl_cons, List.foldl_append]
  by_cases hs : e.err = "see-other-host"
  · have : stStep ⟨"", [], ""⟩ ⟨⟨nsStreamErr, e.err⟩, [], e.content⟩ = ⟨e.err, [], e.content⟩ := by
      simp [stStep, hs]
    rw [this, hskip cs hforeign, htexts]; simp [hs]
  · have : stStep ⟨"", [], ""⟩ ⟨⟨nsStreamErr, e.err⟩, [], e.content⟩ = ⟨e.err, [], ""⟩ := by
      simp [stStep, hs, hc]
    rw [this, hskip cs hforeign, htexts]; simp [hs]

/-- non-vacuity: a nested application element (with an inner element called `text` in another
namespace) is a payload the two theorems apply to -/
example : (⟨⟨"urn:app", "outer"⟩, [], [.start ⟨"urn:app2", "text"⟩ [], .chars "n", .stop ⟨"urn:app2", "text"⟩], ⟨"urn:app", "outer"⟩⟩ : Elem).ok := by
  simp [Elem.ok]; decide


/-! ### several token readers alive at the same time (round 5) -/

/-- regenerated: `internal/marshal` (the conversion behind every reader made from a struct value)
has no package-level variable: no pool, cache or scratch buffer outlives a conversion -/
theorem C13_gen_marshal_stateless : Generated.C13.marshalGlobals = some [] := by decide

open Readers in
theorem Readers.makeAll_fresh : ∀ (vs : List (List Tok)) (s : St),
    (makeAll false s vs).bufs = s.bufs ++ vs := by
  intro vs
  induction vs with
  | nil => intro s; simp [makeAll]
  | cons v vs ih => intro s; simp [makeAll, ih, make]

open Readers in
theorem Readers.drainAll_fresh : ∀ (order : List Nat) (s : St), order.Nodup →
    drainAll false s order = order.map fun i => s.bufs.getD i [] := by
  intro order
  induction order with
  | nil => intro s _; rfl
  | cons i is ih =>
    intro s hn
    have hi : i ∉ is := (List.nodup_cons.mp hn).1
    simp only [drainAll, drain, bufOf, List.map_cons, Bool.false_eq_true, if_false]
    rw [ih _ (List.nodup_cons.mp hn).2]
    congr 1
    apply List.map_congr_left
    intro j hj
    have hne : i ≠ j := fun h => hi (h ▸ hj)
    simp [List.getD_eq_getElem?_getD, List.getElem?_set_ne hne]

open Readers in
/-- **readers are independent**: any number of values converted before any reader is read, the
readers drained in any order (each once): every reader yields the tokens of its own value -/
theorem C13_readers_independent (vs : List (List Tok)) (order : List Nat) (hn : order.Nodup) :
    drainAll false (makeAll false init vs) order = order.map fun i => vs.getD i [] := by
  rw [Readers.drainAll_fresh order _ hn, Readers.makeAll_fresh]
  simp [init]

open Readers in
/-- with a recycled scratch buffer the statement fails for two values already: the first reader
yields the second value's tokens and the second nothing -/
theorem C13_readers_shared_buffer_fails :
    drainAll true (makeAll true init [[.chars "a"], [.chars "b"]]) [0, 1] = [[.chars "b"], []] := by
  decide

end XmppModel.Props.C13
