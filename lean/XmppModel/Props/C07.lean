import XmppModel.Model.Serve
/-!
# C07 — every incoming get/set IQ is answered exactly once; replies are never answered

Property theorems only (helpers are in `Lemmas/Serve.lean`).
-/
namespace XmppModel.Props.C07
open XmppModel XmppModel.Xml XmppModel.Serve

/-- the automatic reply is a reply to the request in the sense of the detector: a top-level iq
with the request's id and type error -/
theorem C07_default_is_reply (id : String) (to : Option String) :
    replies id (defaultReply id to) = [defaultReply id to] := by
  cases to <;> by_cases h : id = "" <;>
    simp [replies, splitTop, splitTopAux, defaultReply, isReplyElem, isReplyStart, isIqEmptySpace,
      getId, getTyp, getIdTypAux, attr, isReplyTyp, h]

end XmppModel.Props.C07
