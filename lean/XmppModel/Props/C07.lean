import XmppModel.Model.Serve
import XmppModel.Lemmas.Serve
import XmppModel.Lemmas.ServeView
import XmppModel.Generated.C07
/-!
# C07 — every incoming get/set IQ is answered exactly once; replies are never answered

Property theorems only (helpers are in `Lemmas/Serve.lean`).  Quantifiers: every incoming start
tag (name, attributes), every handler program; "whole elements" means the tokens the handler
writes never close more than they opened and end at nesting level 0
(`depthAfter 0 ws = some 0`).  `topReplies id ts` are the start tags at nesting level 0 of `ts`
that are an iq (client, server or no namespace) with id `id` and type result or error.
-/
namespace XmppModel.Props.C07
open XmppModel XmppModel.Xml XmppModel.Serve

/-- the start tag of the automatic reply -/
def defaultStart (id : String) (to : Option String) : Tok :=
  .start ⟨"", "iq"⟩
    ([attr "type" "error"] ++ (match to with | some c => [attr "to" c] | none => [])
      ++ (if id != "" then [attr "id" id] else []))

/-- the reply detector is exact: after a handler wrote whole elements `ws`, the flag is set iff
one of the *top-level* elements of `ws` is a reply to the request -/
theorem C07_detector_exact (id : String) (ws : List Tok) (h : depthAfter 0 ws = some 0) :
    (WS.init.encAll id ws).wrote = !(topReplies id ws).isEmpty := by
  have := (encAll_spec id ws 0 0 WS.init rfl h).1
  rw [this, any_eq_not_filter_isEmpty]
  simp [WS.init, topReplies]

/-- what counts: only an iq (client, server or no namespace) whose unqualified id equals the
request's and whose type is result or error -/
theorem C07_reply_shape (id : String) (n : Name) (as : List Attr)
    (h : isReplyTok id (.start n as) = true) :
    isIqEmptySpace n = true ∧ getId as = id ∧ (getTyp as = "result" ∨ getTyp as = "error") := by
  simp only [isReplyTok, isReplyStart, Bool.and_eq_true, beq_iff_eq, isReplyTyp, Bool.or_eq_true] at h
  exact ⟨h.1.1, h.1.2, h.2⟩

/-- an element written with another id does not count -/
theorem C07_other_id_not_counted (id : String) (n : Name) (as : List Attr) (h : getId as ≠ id) :
    isReplyTok id (.start n as) = false := by
  cases hr : isReplyTok id (.start n as) with
  | false => rfl
  | true => exact absurd (C07_reply_shape id n as hr).2.1 h

/-- an element written with type get or set (or any type other than result / error, or no
type) does not count -/
theorem C07_getset_not_counted (id : String) (n : Name) (as : List Attr)
    (h : getTyp as ≠ "result" ∧ getTyp as ≠ "error") : isReplyTok id (.start n as) = false := by
  cases hr : isReplyTok id (.start n as) with
  | false => rfl
  | true =>
    rcases (C07_reply_shape id n as hr).2.2 with h' | h'
    · exact absurd h' h.1
    · exact absurd h' h.2

/-- iq-named children do not count: of an element `<m> inner </m>` only the outer start tag is
at top level, whatever `inner` contains -/
theorem C07_nested_not_counted (id : String) (m : Name) (bs : List Attr) (inner : List Tok) (e : Name)
    (h : depthAfter 0 inner = some 0) :
    topReplies id (.start m bs :: inner ++ [.stop e]) = (if isReplyStart id m bs then [.start m bs] else []) := by
  have hin : ∀ (ts : List Tok) (d d' : Nat), depthAfter d ts = some d' → topStarts (d + 1) ts = [] := by
    intro ts
    induction ts with
    | nil => intro d d' _; rfl
    | cons t ts ih =>
      intro d d' hd
      cases t with
      | start n as => simp only [depthAfter] at hd; simp [topStarts, ih (d + 1) d' hd]
      | stop n =>
        cases d with
        | zero => simp [depthAfter] at hd
        | succ d => simp only [depthAfter] at hd; simpa [topStarts] using ih d d' hd
      | chars s => simp only [depthAfter] at hd; simpa [topStarts] using ih d d' hd
      | comment s => simp only [depthAfter] at hd; simpa [topStarts] using ih d d' hd
      | procInst x y => simp only [depthAfter] at hd; simpa [topStarts] using ih d d' hd
      | directive s => simp only [depthAfter] at hd; simpa [topStarts] using ih d d' hd
  have h1 : depthAfter 1 inner = some 1 := by
    have : ∀ (ts : List Tok) (d d' k : Nat), depthAfter d ts = some d' → depthAfter (d + k) ts = some (d' + k) := by
      intro ts
      induction ts with
      | nil => intro d d' k hd; simp [depthAfter] at hd ⊢; omega
      | cons t ts ih =>
        intro d d' k hd
        cases t with
        | start n as =>
          simp only [depthAfter] at hd ⊢
          have := ih (d + 1) d' k hd
          rw [show d + k + 1 = d + 1 + k by omega]; exact this
        | stop n =>
          cases d with
          | zero => simp [depthAfter] at hd
          | succ d =>
            simp only [depthAfter] at hd
            rw [show d + 1 + k = (d + k) + 1 by omega]
            simp only [depthAfter]
            exact ih d d' k hd
        | chars s => simp only [depthAfter] at hd ⊢; exact ih d d' k hd
        | comment s => simp only [depthAfter] at hd ⊢; exact ih d d' k hd
        | procInst x y => simp only [depthAfter] at hd ⊢; exact ih d d' k hd
        | directive s => simp only [depthAfter] at hd ⊢; exact ih d d' k hd
    simpa using this inner 0 0 1 h
  unfold topReplies
  simp only [topStarts, List.cons_append]
  rw [topStarts_append inner [.stop e] 1 1 h1, hin inner 0 0 h]
  by_cases hr : isReplyStart id m bs = true
  · simp [topStarts, isReplyTok, hr]
  · simp [topStarts, isReplyTok, hr]

/-- the automatic reply is itself a reply to the request: a top-level iq of type error with
the request's id -/
theorem C07_default_is_reply (id : String) (to : Option String) :
    topReplies id (defaultReply id to) = [defaultStart id to] := by
  cases to <;> by_cases h : id = "" <;>
    simp [topReplies, topStarts, defaultReply, defaultStart, isReplyTok, isReplyStart, isIqEmptySpace,
      getId, getTyp, getIdTypAux, attr, isReplyTyp, h]

/-- **answered exactly once**: for an incoming iq (client or server namespace) of type get or
set whose sender address is absent or parses, and every handler that writes whole elements
`ws` and returns nil: the replies on the wire are the handler's own replies if it wrote any,
otherwise exactly one automatic error with the request's id — never both -/
theorem C07_answered_once (cfg : Cfg) (n : Name) (as : List Attr) (ws : List Tok)
    (hiq : isIq n = true) (hty : isRequestTyp (getTyp as) = true)
    (hws : depthAfter 0 ws = some 0) (to : Option String) (hto : replyTo cfg as = some to) :
    ∃ d, autoReply cfg n as (WS.init.encAll (getId as) ws).wrote = some d ∧
      topReplies (getId as) (ws ++ d) =
        (if topReplies (getId as) ws = [] then [defaultStart (getId as) to] else topReplies (getId as) ws) := by
  have hdet := C07_detector_exact (getId as) ws hws
  have happ : ∀ d, topReplies (getId as) (ws ++ d) = topReplies (getId as) ws ++ topReplies (getId as) d := by
    intro d; simp [topReplies, topStarts_append ws d 0 0 hws]
  by_cases hnil : topReplies (getId as) ws = []
  · refine ⟨defaultReply (getId as) to, ?_, ?_⟩
    · simp [autoReply, hiq, hty, hdet, hnil, hto]
    · rw [happ, C07_default_is_reply]; simp [hnil]
  · refine ⟨[], ?_, ?_⟩
    · have : (topReplies (getId as) ws).isEmpty = false := by
        cases h : topReplies (getId as) ws with
        | nil => exact absurd h hnil
        | cons a l => rfl
      simp [autoReply, hdet, this]
    · simp [hnil]

/-- **never both**: if the handler wrote a reply the session adds nothing -/
theorem C07_no_double (cfg : Cfg) (n : Name) (as : List Attr) (ws : List Tok)
    (hws : depthAfter 0 ws = some 0) (h : topReplies (getId as) ws ≠ []) :
    autoReply cfg n as (WS.init.encAll (getId as) ws).wrote = some [] := by
  have hdet := C07_detector_exact (getId as) ws hws
  have : (topReplies (getId as) ws).isEmpty = false := by
    cases h' : topReplies (getId as) ws with
    | nil => exact absurd h' h
    | cons a l => rfl
  simp [autoReply, hdet, this]

/-- **addressed**: the automatic reply goes to the request's sender (canonical form of its
unqualified from attribute) and carries no address when the request named none -/
theorem C07_addressed (cfg : Cfg) (n : Name) (as : List Attr) (d : List Tok)
    (h : autoReply cfg n as false = some d) (hne : d ≠ []) :
    ∃ to, replyTo cfg as = some to ∧ d = defaultReply (getId as) to ∧
      (to = none ↔ (firstFrom as = "" ∨ cfg.jidCanon (firstFrom as) = some "")) := by
  unfold autoReply at h
  by_cases hc : (isIq n && isRequestTyp (getTyp as) && !false) = true
  · rw [if_pos hc] at h
    cases hr : replyTo cfg as with
    | none => simp [hr] at h
    | some to =>
      simp [hr] at h
      refine ⟨to, rfl, h.symm, ?_⟩
      unfold replyTo at hr
      by_cases hf : (firstFrom as == "") = true
      · simp [hf] at hr
        simp only [beq_iff_eq] at hf
        simp [← hr, hf]
      · simp [hf] at hr
        simp only [beq_iff_eq] at hf
        cases hj : cfg.jidCanon (firstFrom as) with
        | none => simp [hj] at hr
        | some c =>
          simp [hj] at hr
          by_cases hce : c = ""
          · simp [hce] at hr; simp [← hr, hf, hce]
          · simp [hce] at hr; simp [← hr, hf, hce]
  · rw [if_neg hc] at h
    simp at h
    exact absurd h hne

/-- a sender address that does not parse: no reply can be addressed, the session ends with an
error instead (`handleElem` returns `stop … badJid`) -/
theorem C07_unparseable_from (cfg : Cfg) (n : Name) (as : List Attr)
    (hiq : isIq n = true) (hty : isRequestTyp (getTyp as) = true) (h : replyTo cfg as = none) :
    autoReply cfg n as false = none := by
  simp [autoReply, hiq, hty, h]

/-- **replies are never answered**: result and error IQs, IQs of any other type, messages,
presences and non-stanzas never cause an added element, whatever the handler wrote -/
theorem C07_no_auto_reply (cfg : Cfg) (n : Name) (as : List Attr) (wrote : Bool)
    (h : isIq n = false ∨ isRequestTyp (getTyp as) = false) :
    autoReply cfg n as wrote = some [] := by
  rcases h with h | h <;> simp [autoReply, h]

/-- the model's `handleInputStream` writes exactly the handler's tokens followed by what
`autoReply` says, with the detector run over the handler's writes -/
theorem C07_written (cfg : Cfg) (n : Name) (as : List Attr) (rs1 : RS) (prog : Prog)
    (inv : Option Inv) (written : List Tok) (rs' : RS)
    (h : handleElem cfg n as rs1 prog = .next inv written rs') :
    ∃ d, autoReply cfg n (blankFrom cfg n as)
        (WS.init.encAll (getId (blankFrom cfg n as)) (writesOf prog.ops)).wrote = some d ∧
      written = writesOf prog.ops ++ d := by
  unfold handleElem at h
  simp only [runOps_ws] at h
  cases hret : prog.ret <;> simp only [hret] at h
  · cases ha : autoReply cfg n (blankFrom cfg n as)
        (WS.init.encAll (getId (blankFrom cfg n as)) (writesOf prog.ops)).wrote with
    | none => simp [ha] at h
    | some d =>
      simp only [ha] at h
      split at h
      · injection h with h1 h2 h3
        refine ⟨d, rfl, ?_⟩
        rw [← h2, encAll_out]
        simp [WS.init]
      · cases h
  · cases h
  · cases h
  · split at h <;> cases h
  all_goals cases h

/-! ### several requests in one session -/

theorem depthAfter_append : ∀ (a b : List Tok) (d d' : Nat), depthAfter d a = some d' →
    depthAfter d (a ++ b) = depthAfter d' b := by
  intro a
  induction a with
  | nil => intro b d d' h; simp [depthAfter] at h; subst h; rfl
  | cons t ts ih =>
    intro b d d' h
    cases t with
    | start n as => simp only [depthAfter, List.cons_append] at h ⊢; exact ih b _ _ h
    | stop n =>
      cases d with
      | zero => simp [depthAfter] at h
      | succ d => simp only [depthAfter, List.cons_append] at h ⊢; exact ih b _ _ h
    | chars s => simp only [depthAfter, List.cons_append] at h ⊢; exact ih b _ _ h
    | comment s => simp only [depthAfter, List.cons_append] at h ⊢; exact ih b _ _ h
    | procInst x y => simp only [depthAfter, List.cons_append] at h ⊢; exact ih b _ _ h
    | directive s => simp only [depthAfter, List.cons_append] at h ⊢; exact ih b _ _ h

/-- what the session adds is nothing or the (whole, balanced) automatic reply -/
theorem autoReply_balanced (cfg : Cfg) (n : Name) (as : List Attr) (wrote : Bool) (d : List Tok)
    (h : autoReply cfg n as wrote = some d) : depthAfter 0 d = some 0 := by
  unfold autoReply at h
  split at h
  · cases hr : replyTo cfg as with
    | none => simp [hr] at h
    | some to => simp [hr] at h; subst h; cases to <;> simp [defaultReply, depthAfter]
  · simp at h; subst h; rfl

/-- the replies to `id` in a concatenation of balanced segments are the replies of the
segments, in order -/
theorem topReplies_flatten (id : String) : ∀ (segs : List (List Tok)),
    (∀ s ∈ segs, depthAfter 0 s = some 0) →
    topReplies id segs.flatten = segs.flatMap (topReplies id) := by
  intro segs
  induction segs with
  | nil => intro _; rfl
  | cons s segs ih =>
    intro h
    have hs := h s (by simp)
    have := ih (fun x hx => h x (by simp [hx]))
    simp only [List.flatten_cons, List.flatMap_cons]
    rw [← this]
    simp [topReplies, topStarts_append s segs.flatten 0 0 hs]

/-- **answered exactly once per request across a session**: several well-formed elements in
one session (requests, replies, other stanzas, in any order) followed by the closing tag, all
handlers writing whole elements and returning nil.  For any one of them that is a get/set iq
`c` with (normalised) id `rid`: if no *other* invocation's output contains a top-level reply
with that id, then the replies to `rid` on the wire of the whole session are exactly the
replies of `c`'s own handler, or — if it wrote none — exactly one automatic error -/
theorem C07_session_answered_once (cfg : Cfg) (pre post : List Case) (c : Case) (junk : List Tok)
    (hok : ∀ x ∈ pre ++ c :: post, x.Ok cfg)
    (hbal : ∀ x ∈ pre ++ c :: post, depthAfter 0 (writesOf x.prog.ops) = some 0)
    (hiq : isIq c.n = true) (hty : isRequestTyp (getTyp (blankFrom cfg c.n c.as)) = true)
    (to : Option String) (hto : replyTo cfg (blankFrom cfg c.n c.as) = some to)
    (hothers : ∀ x ∈ pre ++ post, topReplies (getId (blankFrom cfg c.n c.as)) x.written = []) :
    topReplies (getId (blankFrom cfg c.n c.as))
        (serve cfg ((pre ++ c :: post).flatMap Case.toks ++ .stop ⟨nsStream, "stream"⟩ :: junk)
          ((pre ++ c :: post).map (·.prog))).written
      = (if topReplies (getId (blankFrom cfg c.n c.as)) (writesOf c.prog.ops) = []
          then [defaultStart (getId (blankFrom cfg c.n c.as)) to]
          else topReplies (getId (blankFrom cfg c.n c.as)) (writesOf c.prog.ops)) := by
  -- the session's output is the concatenation of the per-element outputs (C08)
  have hserve : (serve cfg ((pre ++ c :: post).flatMap Case.toks ++ .stop ⟨nsStream, "stream"⟩ :: junk)
      ((pre ++ c :: post).map (·.prog))).written = ((pre ++ c :: post).map Case.written).flatten := by
    have hlen : (pre ++ c :: post).length ≤ ((pre ++ c :: post).flatMap Case.toks).length := by
      generalize pre ++ c :: post = cs
      induction cs with
      | nil => simp
      | cons x cs ih =>
        rw [List.flatMap_cons, List.length_append]
        simp only [Case.toks, List.length_cons]; omega
    unfold serve
    obtain ⟨f, hf⟩ : ∃ f, ((pre ++ c :: post).flatMap Case.toks ++ Tok.stop ⟨nsStream, "stream"⟩ :: junk).length + 1
        = (f + 1) + (pre ++ c :: post).length :=
      ⟨((pre ++ c :: post).flatMap Case.toks).length - (pre ++ c :: post).length + junk.length + 1, by
        rw [List.length_append, List.length_cons]; omega⟩
    rw [hf]
    simp only [RS.init]
    rw [serveF_cases cfg (pre ++ c :: post) (f + 1) 0 _ hok]
    simp [serveF, handleInputStream, RS.next, verdict, nsStream, List.flatMap_def]
  have hseg : ∀ s ∈ (pre ++ c :: post).map Case.written, depthAfter 0 s = some 0 := by
    intro s hs
    obtain ⟨x, hx, rfl⟩ := List.mem_map.mp hs
    have h1 := hbal x hx
    have h2 := autoReply_balanced _ _ _ _ _ (hok x hx).add
    simp only [Case.written]
    rw [depthAfter_append _ _ 0 0 h1]; exact h2
  rw [hserve, topReplies_flatten _ _ hseg]
  -- only `c`'s own segment contributes
  have hz : ∀ l : List Case, (∀ x ∈ l, topReplies (getId (blankFrom cfg c.n c.as)) x.written = []) →
      (l.map Case.written).flatMap (topReplies (getId (blankFrom cfg c.n c.as))) = [] := by
    intro l hl
    induction l with
    | nil => rfl
    | cons x l ih =>
      simp only [List.map_cons, List.flatMap_cons]
      rw [hl x (by simp), ih (fun y hy => hl y (by simp [hy]))]; rfl
  simp only [List.map_append, List.map_cons, List.flatMap_append, List.flatMap_cons]
  rw [hz pre (fun x hx => hothers x (by simp [hx])), hz post (fun x hx => hothers x (by simp [hx]))]
  simp only [List.nil_append, List.append_nil]
  -- and for `c` itself this is `C07_answered_once`
  obtain ⟨d, hd, hrep⟩ := C07_answered_once cfg c.n (blankFrom cfg c.n c.as) (writesOf c.prog.ops) hiq hty
    (hbal c (by simp)) to hto
  have hadd := (hok c (by simp)).add
  rw [hd] at hadd
  injection hadd with hadd
  simp only [Case.written, ← hadd]
  exact hrep

/-! ### every write path of the handler's encoder runs the detector -/

/-- the methods a handler can write with and the kinds of value it can hand them (numbering of
the probe table): `EncodeToken`; `Encode` with an `xmlstream.Marshaler`, an `xmlstream.WriterTo`,
an `xml.TokenReader`, a plain struct; `EncodeElement` with a Marshaler, a WriterTo -/
def writeMethods : List Nat := [0, 1, 2, 3, 4, 5, 6]

set_option maxRecDepth 20000 in
/-- **tie to the source (regenerated on every run by probing real sessions, no source pattern
involved)**: for every probed shape — the complete domain nesting level 0–2 × name class × id
class × type class through `EncodeToken`, and the part of it that shows whether the detector ran
and at which level through every other method — the real session took what the handler wrote
for the reply exactly when the model's detector sets its flag; every method occurs in the table
with a shape that was recognised and one that was not (a write path around the detector, a
detector that ignores the level, the id, the type or the namespace all change the table) -/
theorem C07_gen_write_paths :
    ∃ t, Generated.C07.detectorProbe = some t ∧ t.length = 454 ∧
      (∀ e ∈ t, probeVerdict e.2.1 e.2.2.1 e.2.2.2.1 e.2.2.2.2.1 = e.2.2.2.2.2) ∧
      (∀ m ∈ writeMethods, (t.any fun e => e.1 == m && e.2.2.2.2.2) ∧ (t.any fun e => e.1 == m && !e.2.2.2.2.2)) := by
  refine ⟨_, rfl, by decide, by decide, by decide⟩

/-- the detector's verdict depends only on the tokens that the handler's writes put on the
stream, in order — not on how they were grouped into calls, nor (given `C07_gen_write_paths`)
on which of the three methods produced them: any two programs with the same token stream and
the same reads set the flag identically and write the same tokens -/
theorem C07_detector_depends_on_tokens_only (id : String) (ops1 ops2 : List Op) (e : ES) (w : WS)
    (h : writesOf ops1 = writesOf ops2) :
    (runOps id ops1 e w []).2.2 = (runOps id ops2 e w []).2.2 := by
  rw [runOps_ws, runOps_ws, h]

/-! ### pending local requests and handlers that return an error -/

theorem isRequest_not_reply (t : String) (h : isRequestTyp t = true) : isReplyTyp t = false := by
  simp only [isRequestTyp, Bool.or_eq_true, beq_iff_eq] at h
  rcases h with h | h <;> simp [isReplyTyp, h]

/-- **whatever is pending**: an incoming element whose type is not result / error — in
particular every get and set — never consults the table of pending local requests: for every
table (any ids, equal to the element's id or not) the step is the one of
`handleInputStream`, the table is unchanged and no waiter receives anything.  All the
theorems above therefore hold with any number of local requests outstanding. -/
theorem C07_requests_ignore_pending (cfg : Cfg) (pend : List Pend) (rs : RS) (prog : Prog)
    (n : Name) (as : List Attr) (rs1 : RS)
    (hnext : ({ rs with dOut := 0, sticky := none } : RS).next = (.tok (.start n as), rs1))
    (hty : isReplyTyp (getTyp (blankFrom cfg n as)) = false) :
    handleInputStreamP cfg pend rs prog = (handleInputStream cfg rs prog, pend, none) := by
  simp [handleInputStreamP, deliveredTo, hnext, hty]

/-- with nothing pending the table plays no role at all (the `serve` of the other theorems) -/
theorem C07_no_pending (cfg : Cfg) (rs : RS) (prog : Prog) :
    handleInputStreamP cfg [] rs prog = (handleInputStream cfg rs prog, [], none) := by
  unfold handleInputStreamP deliveredTo
  generalize ({ rs with dOut := 0, sticky := none } : RS).next = r
  obtain ⟨rd, rs1⟩ := r
  cases rd with
  | tok t =>
    cases t <;> simp [pendMatch]
  | err e => simp
  | eof => simp

/-- a response handed to a waiting local request is not given to the handler and nothing is
written for it: **replies are never answered**, also on this path -/
theorem C07_delivered_silent (cfg : Cfg) (pend : List Pend) (rs : RS) (prog : Prog)
    (p : Pend) (rs1 : RS) (h : deliveredTo cfg pend rs = some (p, rs1)) :
    (handleInputStreamP cfg pend rs prog).1.inv = none ∧
    (∃ w, (match (handleInputStreamP cfg pend rs prog).1 with
            | .next _ w _ => w | .stop _ w _ => w) = w ∧ w = []) := by
  unfold handleInputStreamP
  rw [h]
  simp only
  split <;> simp [Step.inv]

/-- **a handler that returns an error value** (a plain error, `io.EOF`, a `stanza.Error`, a
stream error), after writing anything: the session adds nothing — no automatic reply, not for
requests and not for replies — keeps what the handler wrote, and ends with that error (a
stream error is returned as such, everything else as the handler's error) -/
theorem C07_handler_error (cfg : Cfg) (n : Name) (as : List Attr) (rs1 : RS) (prog : Prog)
    (h : prog.ret ≠ .ok ∧ prog.ret ≠ .readErr) :
    ∃ inv e, handleElem cfg n as rs1 prog = .stop (some inv) (writesOf prog.ops) (.error e) ∧
      ((prog.ret = .streamErr ∨ prog.ret = .wrapStream) → e = .streamError "policy-violation") ∧
      (prog.ret = .addrErr → e = .badJid) ∧
      ((prog.ret ≠ .streamErr ∧ prog.ret ≠ .wrapStream ∧ prog.ret ≠ .addrErr) → e = .handler) := by
  unfold handleElem
  simp only [runOps_ws]
  cases hr : prog.ret <;> simp_all [encAll_out, WS.init]

/-- whatever a handler returns — nil, `io.EOF` itself, an error that wraps or joins `io.EOF`
or `io.ErrUnexpectedEOF`, a (wrapped) stanza or stream error — and whatever it read or wrote,
the step never ends the session *cleanly* -/
theorem C07_handler_never_ends_cleanly (cfg : Cfg) (n : Name) (as : List Attr) (rs1 : RS) (prog : Prog)
    (inv : Option Inv) (w : List Tok) : handleElem cfg n as rs1 prog ≠ .stop inv w .clean :=
  handleElem_never_clean cfg n as rs1 prog inv w

/-- the peer's closing tag `</stream:stream>` or, on a session that uses the WebSocket
subprotocol, its `<close/>` framing element (as `wsInput true` represents it) -/
def PeerClose (t : Tok) : Prop :=
  t = .stop ⟨nsStream, "stream"⟩ ∨ ∃ as, t = .start ⟨nsStream, wsCloseMark⟩ as

theorem verdict_eof {d d' : Nat} {t : Tok} {rest : List Tok}
    (h : verdict d t rest = (d', Rd.eof)) : PeerClose t := by
  cases t with
  | chars s =>
    simp only [verdict, Prod.mk.injEq] at h
    obtain ⟨_, h⟩ := h
    split at h <;> cases h
  | start n as =>
    simp only [verdict, Prod.mk.injEq] at h
    obtain ⟨_, h⟩ := h
    by_cases h1 : (n.space != nsStream) = true
    · rw [if_pos h1] at h; cases h
    · rw [if_neg h1] at h
      by_cases h2 : (n.loc == "error") = true
      · rw [if_pos h2] at h
        repeat' split at h
        all_goals cases h
      · rw [if_neg h2] at h
        by_cases h3 : (n.loc == "stream") = true
        · rw [if_pos h3] at h; cases h
        · rw [if_neg h3] at h
          by_cases h4 : (n.loc == wsCloseMark) = true
          · refine Or.inr ⟨as, ?_⟩
            simp only [bne_iff_ne, ne_eq, Decidable.not_not] at h1
            simp only [beq_iff_eq] at h4
            cases n; simp_all
          · rw [if_neg h4] at h; cases h
  | stop n =>
    simp only [verdict, Prod.mk.injEq] at h
    obtain ⟨_, h⟩ := h
    by_cases h1 : (n.space != nsStream) = true
    · rw [if_pos h1] at h; cases h
    · rw [if_neg h1] at h
      by_cases h2 : (n.loc == "stream") = true
      · simp only [bne_iff_ne, ne_eq, Decidable.not_not] at h1
        simp only [beq_iff_eq] at h2
        left; cases n; simp_all
      · rw [if_neg h2] at h; cases h
  | comment s => simp [verdict] at h
  | procInst a b => simp [verdict] at h
  | directive s => simp [verdict] at h

theorem next_eof_is_close (s : RS) (hs : s.sticky = none) {s' : RS} (h : s.next = (.eof, s')) :
    ∃ t rest, s.inp = t :: rest ∧ PeerClose t := by
  unfold RS.next at h
  simp only [hs] at h
  cases hi : s.inp with
  | nil => simp [hi] at h
  | cons a rest =>
    simp only [hi] at h
    generalize hv : verdict s.dIn a rest = v at h
    obtain ⟨dIn', r1⟩ := v
    cases r1 with
    | tok t1 =>
      simp only at h
      generalize hv2 : verdict s.dOut t1 rest = v2 at h
      obtain ⟨dOut', r2⟩ := v2
      cases r2 with
      | tok t2 => simp at h
      | err e => simp at h
      | eof =>
        have h1 := verdict_tok hv
        have h2 := verdict_eof hv2
        exact ⟨a, rest, rfl, by rw [← h1.1]; exact h2⟩
    | err e => simp at h
    | eof => exact ⟨a, rest, rfl, verdict_eof hv⟩

/-- **Serve returns nil only on the peer's closing tag**: a step ends the session without
error only when the very next token of the input is `</stream:stream>` (or, on a WebSocket
session, the `<close/>` framing element); no handler has run in
that step and nothing was written — never because of a handler's return value -/
theorem C07_nil_only_on_peer_close (cfg : Cfg) (rs : RS) (prog : Prog) (inv : Option Inv) (w : List Tok)
    (h : handleInputStream cfg rs prog = .stop inv w .clean) :
    inv = none ∧ w = [] ∧ ∃ t rest, rs.inp = t :: rest ∧ PeerClose t := by
  unfold handleInputStream at h
  generalize hn : ({ rs with dOut := 0, sticky := none } : RS).next = r at h
  obtain ⟨rd, rs1⟩ := r
  cases rd with
  | err e => simp at h
  | tok t =>
    cases t with
    | start n as => exact absurd h (C07_handler_never_ends_cleanly cfg n as rs1 prog inv w)
    | chars s => simp at h
    | stop n => simp at h
    | comment s => simp at h
    | procInst a b => simp at h
    | directive s => simp at h
  | eof =>
    simp at h
    refine ⟨h.1.symm, h.2, ?_⟩
    exact next_eof_is_close ({ rs with dOut := 0, sticky := none } : RS) rfl hn

/-! ### with the multiplexer in front -/

/-- **mux, nothing registered**: for a get/set iq with a payload element and addresses that
parse, the multiplexer's handler writes exactly one element, the fallback error; it is a
top-level reply with the request's id, so the session's detector sees it and the session adds
nothing: the request is answered exactly once -/
theorem C07_mux_fallback_once (cfg : Cfg) (n : Name) (as : List Attr) (body : List Tok) (p : Prog)
    (hiq : isIq n = true) (hst : isStanza n cfg.ns = true) (hty : isRequestTyp (getTyp as) = true)
    (frm to : Option String) (hf : addrOf cfg as "from" = some frm) (ht : addrOf cfg as "to" = some to)
    (pn : Name) (hp : firstPayload body = .elem pn) :
    muxEffective false cfg n as body p
        = { ops := [.write (fallbackReply n (getId as) frm to)], ret := .ok } ∧
      (topReplies (getId as) (fallbackReply n (getId as) frm to)).length = 1 ∧
      autoReply cfg n as (WS.init.encAll (getId as) (fallbackReply n (getId as) frm to)).wrote = some [] := by
  have hloc : n.loc = "iq" := by
    simp only [isIq, Bool.and_eq_true, beq_iff_eq] at hiq; exact hiq.1
  have hsp : n.space = nsClient ∨ n.space = nsServer := by
    simp only [isIq, Bool.and_eq_true, Bool.or_eq_true, beq_iff_eq] at hiq; exact hiq.2
  have hnr : isReplyTyp (getTyp as) = false := by
    simp only [isRequestTyp, Bool.or_eq_true, beq_iff_eq] at hty
    rcases hty with h | h <;> simp [isReplyTyp, h]
  have hbal : depthAfter 0 (fallbackReply n (getId as) frm to) = some 0 := by
    simp [fallbackReply, depthAfter]
  have hrep' : ∀ id : String, (topReplies id (fallbackReply n id frm to)).length = 1 := by
    intro id
    rcases hsp with h | h <;> cases frm <;> cases to <;> by_cases hid : id = "" <;>
      simp [topReplies, topStarts, fallbackReply, isReplyTok, isReplyStart, isIqEmptySpace, getId, getTyp,
        getIdTypAux, attr, isReplyTyp, h, hid, nsClient, nsServer]
  have hrep := hrep' (getId as)
  refine ⟨?_, hrep, ?_⟩
  · simp [muxEffective, hst, hloc, hf, ht, hnr, hp]
  · have hdet := C07_detector_exact (getId as) _ hbal
    have : (topReplies (getId as) (fallbackReply n (getId as) frm to)).isEmpty = false := by
      cases h : topReplies (getId as) (fallbackReply n (getId as) frm to) with
      | nil => simp [h] at hrep
      | cons a l => rfl
    simp [autoReply, hdet, this]

/-! ### attribute order, attribute values: what the peer chose is what counts -/

theorem writesOf_replicate_read : ∀ k : Nat, writesOf (List.replicate k Op.read) = []
  | 0 => rfl
  | k + 1 => by simp [List.replicate, writesOf, writesOf_replicate_read k]

/-- **a stanza whose to or from address does not parse**, behind the multiplexer: whatever its
type — get, set, result, error, none, anything — wherever the bad attribute stands among the
others (the statement is for every attribute list), whatever is registered: the router writes
nothing and returns the parse error; the session adds nothing and ends with that error.  In
particular a result or error IQ with a malformed address is **never answered** -/
theorem C07_mux_bad_address (reg : Bool) (cfg : Cfg) (n : Name) (as : List Attr) (body : List Tok) (p : Prog)
    (rs1 : RS) (hst : isStanza n cfg.ns = true)
    (hbad : addrOf cfg as "from" = none ∨ addrOf cfg as "to" = none) :
    muxEffective reg cfg n as body p = { ops := [], ret := .addrErr } ∧
    muxAnswering cfg n as body = { ops := [], ret := .addrErr } ∧
    ∃ inv, handleElem cfg n as rs1 (muxEffective reg cfg n as body p) = .stop (some inv) [] (.error .badJid) := by
  have h1 : muxEffective reg cfg n as body p = { ops := [], ret := .addrErr } := by
    unfold muxEffective
    simp only [hst, Bool.not_true, Bool.false_eq_true, if_false]
    rcases hbad with h | h
    · simp [h]
    · rw [h]; cases addrOf cfg as "from" <;> rfl
  have h2 : muxAnswering cfg n as body = { ops := [], ret := .addrErr } := by
    unfold muxAnswering
    simp only [hst, Bool.not_true, Bool.false_eq_true, if_false]
    rcases hbad with h | h
    · simp [h]
    · rw [h]; cases addrOf cfg as "from" <;> rfl
  refine ⟨h1, h2, ?_⟩
  obtain ⟨inv, e, he, _, hb, _⟩ := C07_handler_error cfg n as rs1 { ops := [], ret := .addrErr } (by simp)
  rw [h1]
  exact ⟨inv, by rw [he, hb rfl]; rfl⟩

/-- **replies are never answered by the multiplexer**: for an IQ of type result or error the
effective handler (nothing registered, or a handler for get / set that answers from the parsed
IQ) writes nothing — for every attribute list (any order, any values), every outcome of parsing
the addresses, every payload -/
theorem C07_mux_reply_never_answered (cfg : Cfg) (n : Name) (as : List Attr) (body : List Tok) (p : Prog)
    (hty : isReplyTyp (getTyp as) = true) :
    writesOf (muxEffective false cfg n as body p).ops = [] ∧
    writesOf (muxAnswering cfg n as body).ops = [] := by
  have hnr : isRequestTyp (getTyp as) = false := by
    simp only [isReplyTyp, Bool.or_eq_true, beq_iff_eq] at hty
    rcases hty with h | h <;> simp [isRequestTyp, h]
  constructor
  · unfold muxEffective
    simp only [Bool.false_and, Bool.false_eq_true, if_false, hty, if_true]
    repeat' split
    all_goals simp [Prog.nop, writesOf, writesOf_replicate_read]
  · unfold muxAnswering
    simp only [hnr, Bool.false_eq_true, if_false, hty, if_true]
    repeat' split
    all_goals simp [Prog.nop, writesOf, writesOf_replicate_read]

theorem resultReply_detected (rid id' : String) (n : Name) (frm to : Option String)
    (hsp : n.space = nsClient ∨ n.space = nsServer) :
    (WS.init.encAll rid (resultReply n id' frm to)).wrote = decide (id' = rid) := by
  rcases hsp with h | h <;> cases frm <;> cases to <;> by_cases hid : id' = "" <;>
    simp [WS.encAll, WS.enc, WS.init, resultReply, isReplyStart, isIqEmptySpace, getId, getTyp,
      getIdTypAux, attr, isReplyTyp, h, hid, nsClient, nsServer] <;>
    first
      | (by_cases hh : id' = rid <;> simp [hh]; done)
      | (by_cases hh : rid = "" <;> simp [hh] <;> exact fun h2 => hh h2.symm)

/-- **ids are opaque**: the reply a handler builds from the parsed IQ is recognised as the reply
exactly when it carries the id of the request unchanged.  With the id as it was sent the
detector's flag is set and the session adds nothing; with any other id (trimmed, padded,
normalised in any way) the flag stays clear and the session adds its own error — the requester
would get two elements, one of them under an id it never used -/
theorem C07_reply_id_opaque (cfg : Cfg) (n : Name) (as : List Attr) (frm to : Option String)
    (hiq : isIq n = true) (hty : isRequestTyp (getTyp as) = true) :
    (WS.init.encAll (getId as) (resultReply n (getId as) frm to)).wrote = true ∧
    autoReply cfg n as (WS.init.encAll (getId as) (resultReply n (getId as) frm to)).wrote = some [] ∧
    ∀ id' : String, id' ≠ getId as →
      (WS.init.encAll (getId as) (resultReply n id' frm to)).wrote = false ∧
      autoReply cfg n as (WS.init.encAll (getId as) (resultReply n id' frm to)).wrote
        = (replyTo cfg as).map (defaultReply (getId as)) := by
  have hsp : n.space = nsClient ∨ n.space = nsServer := by
    simp only [isIq, Bool.and_eq_true, Bool.or_eq_true, beq_iff_eq] at hiq; exact hiq.2
  have key : ∀ id' : String, (WS.init.encAll (getId as) (resultReply n id' frm to)).wrote
      = decide (id' = getId as) := fun id' => resultReply_detected (getId as) id' n frm to hsp
  refine ⟨by rw [key]; simp, by rw [key]; simp [autoReply], ?_⟩
  intro id' hne
  refine ⟨by rw [key]; simp [hne], ?_⟩
  rw [key]; simp [autoReply, hne, hiq, hty]

set_option maxRecDepth 16000 in
/-- **the two readers of a start element agree**: on every probed start element — every order
of the unqualified type / id / from / to attributes, ids and types that are padded with white
space, contain it or are empty, with same-named attributes of another namespace in between —
the id and the type the real `stanza.NewIQ` hands to the multiplexer and to handlers
(regenerated on every run) are exactly what the session's own `getIDTyp` reads: nothing is
trimmed or normalised, so a reply built from the parsed IQ carries the id the detector looks
for (`C07_reply_id_opaque`) -/
theorem C07_gen_newiq_reads :
    ∃ t, Generated.C07.newIQReads = some t ∧ 300 ≤ t.length ∧
      ∀ e ∈ t, getId (e.1.map fun a => ⟨⟨a.1.1, a.1.2⟩, a.2⟩) = e.2.1 ∧
               getTyp (e.1.map fun a => ⟨⟨a.1.1, a.1.2⟩, a.2⟩) = e.2.2 := by
  refine ⟨_, rfl, by decide, by decide⟩

/-! ### non-vacuity: concrete instances of the hypotheses -/

example : isReplyTyp (getTyp [attr "to" "@example.net", attr "id" "r1", attr "type" "result"]) = true ∧
    addrOf { ns := nsClient, localBare := "me@example.com", jidCanon := fun _ => none }
      [attr "to" "@example.net", attr "id" "r1", attr "type" "result"] "to" = none ∧
    getId [attr "type" "get", attr "id" " 42 "] = " 42 " := by decide


/-- a get request, a handler that writes a message, then a result with another id nested in a
wrapper: nothing counts, the automatic error is added and is the only reply -/
example :
    let cfg : Cfg := { ns := nsClient, localBare := "me@example.com", jidCanon := fun v => some v }
    let as := [attr "type" "get", attr "id" "q1", attr "from" "a@example.org/r"]
    let ws := [Tok.start ⟨"", "message"⟩ [attr "id" "m"], .start ⟨"", "iq"⟩ [attr "id" "q1", attr "type" "result"],
      .stop ⟨"", "iq"⟩, .stop ⟨"", "message"⟩]
    isIq ⟨nsClient, "iq"⟩ = true ∧ isRequestTyp (getTyp as) = true ∧ depthAfter 0 ws = some 0 ∧
      replyTo cfg as = some (some "a@example.org/r") ∧ topReplies "q1" ws = [] := by
  decide

example : topReplies "q1" [Tok.start ⟨"", "iq"⟩ [attr "id" "q1", attr "type" "result"], .stop ⟨"", "iq"⟩]
    = [Tok.start ⟨"", "iq"⟩ [attr "id" "q1", attr "type" "result"]] := by decide

/-! ### handlers that edit the start element they are handed -/

/-- **what the handler does to its copy of the request is irrelevant**: a handler is handed a
pointer to the start element and may rewrite its type, name, id or attributes in place; whether
a reply is owed, which id it carries and whom it is addressed to are decided by what the peer
sent: the step is the same for every edit (the differential run executes the edits on the real
session) -/
theorem C07_start_edit_irrelevant (cfg : Cfg) (rs : RS) (prog : Prog) (k : Nat) :
    handleInputStream cfg rs { prog with edit := k } = handleInputStream cfg rs prog := by
  unfold handleInputStream
  split <;> rfl

theorem C07_serveF_edit_irrelevant (cfg : Cfg) (f : Prog → Nat) : ∀ (fuel : Nat) (rs : RS) (progs : List Prog),
    serveF cfg fuel rs (progs.map fun p => { p with edit := f p }) = serveF cfg fuel rs progs := by
  intro fuel
  induction fuel with
  | zero => intro rs progs; rfl
  | succ fuel ih =>
    intro rs progs
    have hh : handleInputStream cfg rs ((progs.map fun p => { p with edit := f p }).headD Prog.nop)
        = handleInputStream cfg rs (progs.headD Prog.nop) := by
      cases progs with
      | nil => rfl
      | cons p ps => exact C07_start_edit_irrelevant cfg rs p (f p)
    unfold serveF
    rw [hh]
    split
    · rfl
    · rename_i inv w rs' _
      have : (progs.map fun p => { p with edit := f p }).tail = progs.tail.map fun p => { p with edit := f p } := by
        cases progs <;> rfl
      cases hi : inv.isSome
      · simp only [Bool.false_eq_true, if_false, ih]
      · simp only [if_true, this, ih]

/-- the same for a whole session: whatever edits the handlers of a session make, invocations,
written elements and the value `Serve` returns are those of the session without edits -/
theorem C07_session_edit_irrelevant (cfg : Cfg) (inp : List Tok) (progs : List Prog) (f : Prog → Nat) :
    serve cfg inp (progs.map fun p => { p with edit := f p }) = serve cfg inp progs :=
  C07_serveF_edit_irrelevant cfg f _ _ _

/-! ### a connection that refuses writes -/

/-- **a lost reply terminates the stream**: when the flush of what an invocation wrote (the
handler's own reply or the automatic error) is refused by the connection, the session ends right
there with the write error: nothing reaches the peer from that step, and no later element is
handled -/
theorem C07_lost_reply_terminates (cfg : Cfg) (fuel : Nat) (rs rs' : RS) (progs : List Prog)
    (inv : Option Inv) (w : List Tok)
    (hstep : handleInputStream cfg rs (progs.headD Prog.nop) = .next inv w rs') (hw : w ≠ []) :
    serveFW cfg (fuel + 1) 0 rs progs = { invs := inv.toList, written := [], result := .error .writeFault } := by
  unfold serveFW
  rw [hstep]
  have : w.isEmpty = false := by cases w <;> simp_all
  simp [this]

/-- once the connection accepts no more writes `Serve` never returns nil, however the input
goes on (even the closing tag cannot be sent) -/
theorem C07_write_fault_never_clean (cfg : Cfg) : ∀ (fuel : Nat) (rs : RS) (progs : List Prog),
    (serveFW cfg fuel 0 rs progs).result ≠ .clean := by
  intro fuel
  induction fuel with
  | zero => intro rs progs; simp [serveFW]
  | succ fuel ih =>
    intro rs progs
    unfold serveFW
    split
    · rename_i inv w res _
      cases hw : w.isEmpty <;> simp [hw]
    · rename_i inv w rs' _
      cases hw : w.isEmpty
      · simp [hw]
      · simp only [hw, if_true]
        exact ih _ _

/-- a connection that accepts more writes than the session can make serves exactly like one
that never fails -/
theorem C07_no_fault_same (cfg : Cfg) : ∀ (fuel left : Nat) (rs : RS) (progs : List Prog),
    fuel + 1 < left → serveFW cfg fuel left rs progs = serveF cfg fuel rs progs := by
  intro fuel
  induction fuel with
  | zero => intro left rs progs _; rfl
  | succ fuel ih =>
    intro left rs progs h
    unfold serveFW serveF
    split
    · rename_i inv w res _
      have h0 : (left == 0) = false := by simp; omega
      cases hw : w.isEmpty
      · have : (left - 1 == 0) = false := by simp; omega
        simp [hw, h0, this]
      · simp [hw, h0]
    · rename_i inv w rs' _
      have h0 : (left == 0) = false := by simp; omega
      cases hw : w.isEmpty
      · simp only [hw, h0, Bool.false_eq_true, if_false]
        rw [ih (left - 1) _ _ (by omega)]
      · simp only [hw, if_true]
        rw [ih left _ _ (by omega)]
        have : w = [] := by cases w <;> simp_all
        simp [this]

example : (serveW { ns := nsClient, localBare := "me@example.com", jidCanon := fun s => some s } 0
    [.start ⟨nsClient, "iq"⟩ [attr "type" "get", attr "id" "a1"], .stop ⟨nsClient, "iq"⟩,
     .start ⟨nsClient, "message"⟩ [], .stop ⟨nsClient, "message"⟩, .stop ⟨nsStream, "stream"⟩] []).result
    = .error .writeFault ∧
  (serveW { ns := nsClient, localBare := "me@example.com", jidCanon := fun s => some s } 0
    [.start ⟨nsClient, "iq"⟩ [attr "type" "get", attr "id" "a1"], .stop ⟨nsClient, "iq"⟩,
     .start ⟨nsClient, "message"⟩ [], .stop ⟨nsClient, "message"⟩, .stop ⟨nsStream, "stream"⟩] []).invs.length = 1 := by
  decide

/-! ### Round E -/

/-- **`Serve(nil)`**: the session's own handler reads nothing, writes nothing and returns nil, so
a get/set IQ whose sender is absent or parses is answered by exactly one automatic error,
addressed to the sender — the step writes `defaultReply id to` and nothing else; anything that is
not such a request gets nothing -/
theorem C07_nil_handler (cfg : Cfg) (n : Name) (as : List Attr) (rs1 : RS)
    (inv : Option Inv) (written : List Tok) (rs' : RS)
    (h : handleElem cfg n as rs1 nilHandlerProg = .next inv written rs') :
    (isIq n = true → isRequestTyp (getTyp (blankFrom cfg n as)) = true →
      ∃ to, replyTo cfg (blankFrom cfg n as) = some to ∧
        written = defaultReply (getId (blankFrom cfg n as)) to) ∧
    (¬ (isIq n = true ∧ isRequestTyp (getTyp (blankFrom cfg n as)) = true) → written = []) := by
  obtain ⟨d, hd, hw⟩ := C07_written cfg n as rs1 nilHandlerProg inv written rs' h
  have hops : writesOf nilHandlerProg.ops = [] := rfl
  rw [hops] at hd hw
  have hwr : (WS.init.encAll (getId (blankFrom cfg n as)) []).wrote = false := rfl
  rw [hwr] at hd
  simp only [List.nil_append] at hw
  constructor
  · intro hiq hty
    simp only [autoReply, hiq, hty, Bool.and_self, Bool.not_false, if_true] at hd
    cases hr : replyTo cfg (blankFrom cfg n as) with
    | none => simp [hr] at hd
    | some to =>
      simp only [hr, Option.map_some, Option.some.injEq] at hd
      exact ⟨to, rfl, by rw [hw, ← hd]⟩
  · intro hno
    have : (isIq n && isRequestTyp (getTyp (blankFrom cfg n as)) && !false) = false := by
      cases h1 : isIq n <;> cases h2 : isRequestTyp (getTyp (blankFrom cfg n as)) <;> simp_all
    simp only [autoReply, this, Bool.false_eq_true, if_false, Option.some.injEq] at hd
    rw [hw, ← hd]

/-- **a multiplexer with handlers for some requests only**: a request the registrations do not
cover (another payload, another type) is handled exactly as by a multiplexer with nothing
registered — the fallback answers it exactly once (`C07_mux_fallback_once`), a result / error is
never answered (`C07_mux_reply_never_answered`) -/
theorem C07_mux_partial_registration (r : MuxReg) (cfg : Cfg) (n : Name) (as : List Attr) (body : List Tok) (p : Prog)
    (h : r.has (getTyp as) (firstPayload body) = false) :
    muxEffectiveG r cfg n as body p = muxEffective false cfg n as body p := by
  simp [muxEffectiveG, h]

/-- … and a request they do cover runs the registered handler's program -/
theorem C07_mux_registered (r : MuxReg) (cfg : Cfg) (n : Name) (as : List Attr) (body : List Tok) (p : Prog)
    (h : r.has (getTyp as) (firstPayload body) = true) :
    muxEffectiveG r cfg n as body p = muxEffective true cfg n as body p := by
  simp [muxEffectiveG, h]

example : (MuxReg.mk ["get", "set"] (some ⟨"urn:q", "q"⟩)).has "get" (.elem ⟨"urn:xmpp:ping", "ping"⟩) = false ∧
    (MuxReg.mk ["get", "set"] (some ⟨"urn:q", "q"⟩)).has "set" (.elem ⟨"urn:q", "q"⟩) = true ∧
    (MuxReg.mk ["get"] none).has "set" (.elem ⟨"urn:q", "q"⟩) = false ∧
    (MuxReg.mk ["get"] none).has "get" .none = true := by decide

/-- **a request that cannot be answered terminates the stream**: when the output cannot take a
reply any more — the local side closed it, or an earlier transmission was abandoned inside an
element — a get/set IQ whose handler returns nil ends the session with an error in that very
step, *whatever the handler tried to write* (a reply that is refused is not a reply): nothing
after the request is served and `Serve` does not return nil -/
theorem C07_unanswerable_request_terminates (cfg : Cfg) (st : OutSt) (n : Name) (as : List Attr) (rs1 : RS)
    (prog : Prog) (hst : st ≠ .opn) (hiq : isIq n = true)
    (hty : isRequestTyp (getTyp (blankFrom cfg n as)) = true) (hret : prog.ret = .ok) :
    ∃ inv e, handleElemC cfg st n as rs1 prog = .stop inv [] (.error e) := by
  unfold handleElemC
  simp only
  have h1 : ((if prog.close = true then OutSt.closed else st) == OutSt.opn) = false := by
    by_cases hc : prog.close = true
    · simp [hc]
    · cases st <;> simp_all
  rw [if_neg (by simp [h1])]
  simp only [hret, hiq, hty, Bool.and_self, Bool.true_and]
  repeat' split
  all_goals first | exact ⟨_, _, rfl⟩ | simp_all

/-- **a handler that leaves an element open terminates the stream** (review A, finding 3): with
the output open, a handler that returns nil after writes that leave an element open — or contain
an end tag nothing was open for — ends the session with the output-broken error in that step;
no automatic reply is nested into the unfinished element and nothing after it is served -/
theorem C07_handler_left_element_open_terminates (cfg : Cfg) (n : Name) (as : List Attr) (rs1 : RS)
    (prog : Prog) (hc : prog.close = false) (hret : prog.ret = .ok)
    (hb : leavesBroken (writesOf prog.ops) = true) :
    ∃ inv, handleElemC cfg .opn n as rs1 prog
      = .stop inv (encWire 0 (writesOf prog.ops)).2.2 (.error .outputBroken) := by
  unfold handleElemC
  simp [hc, hret, hb]

example : leavesBroken [Tok.start ⟨"", "message"⟩ []] = true ∧
    leavesBroken [Tok.stop ⟨"", "x"⟩] = true ∧
    leavesBroken [Tok.start ⟨"", "iq"⟩ [attr "type" "result"], .stop ⟨"", "iq"⟩] = false := by decide

/-- one step answers request `id` (exactly one top-level reply among what it wrote) or ends the
session with an error -/
def answeredOrTerminated (id : String) : Step → Bool
  | .next _ w _ => (topReplies id w).length == 1
  | .stop _ _ r => r != .clean

/-- the full-strength statement "for every handler that returns nil the request is answered or
the stream terminated" does **not** hold for the plain machine `handleElem` (output open, no
check of what the handler left behind): it nests the automatic reply into the unfinished element
and goes on — which is why `handleElemC` (and, since round E, session.go) ends the session there -/
theorem C07_plain_machine_nests_reply_fails :
    ¬ ∀ (prog : Prog), prog.ret = .ok →
      answeredOrTerminated "b1" (handleElem { ns := nsClient, localBare := "me@example.com", jidCanon := fun s => some s }
          ⟨nsClient, "iq"⟩ [attr "type" "get", attr "id" "b1"]
          (RS.init [.stop ⟨nsClient, "iq"⟩, .stop ⟨nsStream, "stream"⟩]) prog) = true := by
  intro h
  have := h { ops := [.write [.start ⟨"", "message"⟩ []]], ret := .ok } rfl
  revert this
  decide

/-! ### Round G: write faults with the multiplexer as the session's handler -/

/-- **behind the multiplexer too, a connection that takes no more writes never lets `Serve` return
nil**: whatever is registered, for every input and every program of the registered handler (the
write-fault theorems quantify over all handler programs, and the multiplexer is one: `muxProgs`) -/
theorem C07_mux_write_fault_never_clean (reg : Bool) (cfg : Cfg) (inp : List Tok) (progs : List Prog) :
    (serveWM reg cfg 0 inp progs).result ≠ .clean :=
  C07_write_fault_never_clean cfg _ _ _

/-- **the fallback reply that is refused terminates the stream**: nothing registered, the first
element a get/set IQ with a payload element and addresses that parse, the connection refuses the
next write: the session ends in that step with the write error, nothing of the fallback's error
reaches the peer, and no later element is handled -/
theorem C07_mux_lost_fallback_terminates (cfg : Cfg) (fuel : Nat) (rs rs' : RS) (progs : List Prog)
    (inv : Option Inv) (w : List Tok)
    (hstep : handleInputStream cfg rs (progs.headD Prog.nop) = .next inv w rs') (hw : w ≠ []) :
    (serveFW cfg (fuel + 1) 0 rs progs).invs = inv.toList ∧
    (serveFW cfg (fuel + 1) 0 rs progs).written = [] ∧
    (serveFW cfg (fuel + 1) 0 rs progs).result = .error .writeFault := by
  rw [C07_lost_reply_terminates cfg fuel rs rs' progs inv w hstep hw]
  exact ⟨rfl, rfl, rfl⟩

/-- a connection with more room than the session needs: the multiplexer-fronted write-fault machine
is the plain serve loop on the multiplexer's effective programs -/
theorem C07_mux_no_fault_same (reg : Bool) (cfg : Cfg) (left : Nat) (inp : List Tok) (progs : List Prog)
    (h : inp.length + 2 < left) :
    serveWM reg cfg left inp progs = serve cfg inp (muxProgs reg cfg (splitTop inp) progs) := by
  unfold serveWM serveW serve
  exact C07_no_fault_same cfg _ _ _ _ (by omega)

example : (serveWM false { ns := nsClient, localBare := "me@example.com", jidCanon := fun s => some s } 0
    [.start ⟨nsClient, "iq"⟩ [attr "type" "get", attr "id" "a1"], .start ⟨"urn:q", "q"⟩ [], .stop ⟨"urn:q", "q"⟩,
     .stop ⟨nsClient, "iq"⟩, .start ⟨nsClient, "message"⟩ [], .stop ⟨nsClient, "message"⟩, .stop ⟨nsStream, "stream"⟩] []).result
    = .error .writeFault ∧
  (serveWM false { ns := nsClient, localBare := "me@example.com", jidCanon := fun s => some s } 5
    [.start ⟨nsClient, "iq"⟩ [attr "type" "get", attr "id" "a1"], .start ⟨"urn:q", "q"⟩ [], .stop ⟨"urn:q", "q"⟩,
     .stop ⟨nsClient, "iq"⟩, .stop ⟨nsStream, "stream"⟩] []).result = .clean := by
  decide

end XmppModel.Props.C07
