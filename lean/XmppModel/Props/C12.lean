import XmppModel.Model.Header
import XmppModel.Model.StreamNeg
import XmppModel.Model.Bind
import XmppModel.Model.HeaderSend
import XmppModel.Model.NegValue
import XmppModel.Model.Jid
import XmppModel.Lemmas.Header
import XmppModel.Generated.C12
/-!
# C12 — negotiation carries addresses and identifiers faithfully and checks them

Property theorems only (helpers in `Lemmas/Header.lean`).
-/
namespace XmppModel.Props.C12
open XmppModel XmppModel.Xml

/-! ## tie to the source: regenerated facts -/
section facts
open XmppModel.Header XmppModel.StreamNeg

/-- the arguments of one probe: the probe character twice inside the value of one field (for
addresses: inside the resourcepart), everything else plain -/
def probeArgs (ws : Bool) (field : String) (cp : Nat) : HdrArgs :=
  let v : Str := ['x', Char.ofNat cp, 'y', Char.ofNat cp]
  let addr : Str := "user@example.net/".toList ++ v
  { ws := ws, s2s := false, id := [],
    to := if field = "to" then addr else "example.net".toList,
    src := if field = "from" then addr else "peer@example.org/there".toList,
    lang := if field = "lang" then v else "en".toList }

/-- what the model says of one probe: does the reader get the arguments back -/
def probeModel (ws : Bool) (field : String) (cp : Nat) : Bool :=
  readHeader (printHeader (probeArgs ws field cp)) == some (expected (probeArgs ws field cp))

set_option maxRecDepth 100000 in
/-- **probe fact** (replaces the reading of `Send`'s format strings): REAL sessions of both roles
and framings were made to print their header with each of `' " & < > ; TAB LF CR space a é ☃`
inside `to`, `from` (resourcepart; "n/a" where an address cannot hold the character) and
`xml:lang`; `encoding/xml` read every header back with the very value — and the model's printer
and reader say the same on every point of the grid.  Independent of how `Send` is written. -/
theorem C12_gen_send_probe :
    ∃ t, Generated.C12.sendProbe = some t ∧ t.length = 156 ∧
      ∀ r ∈ t, (r.2.2.2.2 = "ok" ∧ probeModel r.1 r.2.2.1 r.2.2.2.1 = true) ∨
        (r.2.2.2.2 = "n/a" ∧ r.2.2.1 ≠ "lang" ∧ r.2.2.2.1 ∈ [9, 10, 13]) :=
  ⟨_, rfl, by decide, by decide⟩

set_option maxRecDepth 100000 in
/-- the model's `escChar` is `xml.EscapeText` on every code point below U+0300 and on the
boundaries of the XML character ranges (the real function evaluated on that whole domain at
extraction time) -/
theorem C12_gen_escape_table :
    ∃ t, Generated.C12.escapeTable = some t ∧
      ∀ e ∈ t, (escChar (Char.ofNat e.1)).map Char.toNat = e.2 :=
  ⟨_, rfl, by decide⟩

set_option maxRecDepth 100000 in
/-- the model's `parseVersion` is `stream.ParseVersion` on every string of length ≤ 3 over
`0 1 2 9 . + - a ␣` and a list of longer ones (the real function evaluated at extraction time) -/
theorem C12_gen_version_table :
    ∃ t, Generated.C12.versionTable = some t ∧ ∀ e ∈ t, parseVersion e.1 = e.2 :=
  ⟨_, rfl, by decide⟩

/-- **Which attributes belong to the header.**  On the grid of 8 attribute namespaces (none,
the bare `xml` prefix, the XML namespace, a foreign namespace, the stream namespace, `xmlns`,
`jabber:client`, the framing namespace) × 9 local names the model's `applyAttrs` records
exactly what the real `Info.FromStartElement` records (evaluated at extraction time): `id`,
`version`, `to`, `from`, `xmlns` only without a namespace, `lang` only in the XML namespace —
`x:id`, `stream:version`, `xml:to` … are not the header's. -/
theorem C12_gen_attr_grid :
    ∃ t, Generated.C12.attrGrid = some t ∧ ∀ e ∈ t, applyOne e.1 e.2.1 e.2.2.1 = e.2.2.2 :=
  ⟨_, rfl, by decide⟩

/-- the model reads an attribute into the stream information only under these names -/
theorem C12_header_attribute_names (pj : String → Option String) (a : Attr) (i0 : Info)
    (h : a.name ≠ ⟨"", "xmlns"⟩ ∧ a.name ≠ ⟨"", "to"⟩ ∧ a.name ≠ ⟨"", "from"⟩ ∧ a.name ≠ ⟨"", "id"⟩ ∧
      a.name ≠ ⟨"", "version"⟩ ∧ a.name ≠ ⟨nsXML, "lang"⟩ ∧ a.name ≠ ⟨"xml", "lang"⟩)
    (as : List Attr) : applyAttrs pj (a :: as) i0 = applyAttrs pj as i0 := by
  obtain ⟨h1, h2, h3, h4, h5, h6, h7⟩ := h
  simp [applyAttrs, h1, h2, h3, h4, h5, h6, h7]

/-- the `bind` feature value keeps no mutable state either: no variable of `bind` (bind.go) is
written or address-taken inside its `List` / `Parse` / `Negotiate` closures, so the sessions
that share one `BindResource()` / `BindCustom(…)` value share nothing that changes -/
theorem C12_gen_bind_closure_no_shared_writes : Generated.C12.bindClosureWrites = some [] := by decide

/-- … and no variable of `bind` that is computed by a call when the feature value is built
(outside the closures) is used inside them: nothing that ought to be per-session data — a
random resource, say — is drawn once per feature value (see `C12_bind_random_fresh`) -/
theorem C12_gen_bind_no_captured_call_results : Generated.C12.bindCapturedCallResults = some [] := by decide

end facts

/-! ## the header we send -/
section header
open XmppModel.Header

/-- **Round trip.**  For every stream id, pair of addresses and language tag (any sequences
of code points), both framings and both stream kinds, a parser that reads the printed
header — XML declaration, start tag, quoted attribute values with entity and character
references, namespace resolution — obtains exactly the element the arguments describe:
the framing's stream-open element, version 1.0, the content namespace, and `id`, `to`,
`from`, `xml:lang` with the values that were given (each present iff non-empty).  In
particular the header is a well-formed start tag whatever quotes, ampersands or angle
brackets the values contain.  Code points that XML cannot carry at all come back as U+FFFD
(`fixChar`); see `C12_header_exact` for valid ones. -/
theorem C12_header_roundtrip (a : HdrArgs) : readHeader (printHeader a) = some (expected a) := by
  unfold readHeader
  rw [readTag_printHeader, Option.map_some, resolve_rawAttrs]

theorem map_fixChar_valid (v : Str) (h : ∀ c ∈ v, xmlChar c = true) : v.map fixChar = v := by
  induction v with
  | nil => rfl
  | cons c v ih =>
    simp only [List.map_cons, fixChar_of_xmlChar (h c (by simp)), ih (fun c' h' => h c' (by simp [h']))]

/-- for values made of XML characters (every valid address, every id the library generates,
every language tag) the peer recovers the values themselves -/
theorem C12_header_exact (a : HdrArgs) (hid : ∀ c ∈ a.id, xmlChar c = true)
    (hto : ∀ c ∈ a.to, xmlChar c = true) (hfrom : ∀ c ∈ a.src, xmlChar c = true)
    (hlang : ∀ c ∈ a.lang, xmlChar c = true) :
    ∃ st, readHeader (printHeader a) = some st ∧
      st.name = (if a.ws then ⟨nsFraming, kOpen⟩ else ⟨nsStream, kStream⟩) ∧
      (⟨[], kVersion⟩, kOneZero) ∈ st.attrs ∧
      (⟨[], kXmlns⟩, if a.ws then nsFraming else contentNS a.s2s) ∈ st.attrs ∧
      (a.id ≠ [] → (⟨[], kId⟩, a.id) ∈ st.attrs) ∧ (a.to ≠ [] → (⟨[], kTo⟩, a.to) ∈ st.attrs) ∧
      (a.src ≠ [] → (⟨[], kFrom⟩, a.src) ∈ st.attrs) ∧ (a.lang ≠ [] → (⟨nsXML, kLang⟩, a.lang) ∈ st.attrs) ∧
      st.attrs.length = (if a.ws then 2 else 3) + (if a.id = [] then 0 else 1) + (if a.to = [] then 0 else 1) +
        (if a.src = [] then 0 else 1) + (if a.lang = [] then 0 else 1) := by
  refine ⟨expected a, C12_header_roundtrip a, ?_⟩
  cases hws : a.ws <;>
    simp only [expected, hws, Bool.false_eq_true, if_false, if_true, optAttr, map_fixChar_valid _ hid,
      map_fixChar_valid _ hto, map_fixChar_valid _ hfrom, map_fixChar_valid _ hlang] <;>
    by_cases h1 : a.id = [] <;> by_cases h2 : a.to = [] <;> by_cases h3 : a.src = [] <;>
    by_cases h4 : a.lang = [] <;>
    simp [h1, h2, h3, h4]

/-- **What does not round-trip.**  Raw text between the quotes of an attribute value (any
XML characters except the quote, `&` and `<`) is read with its line ends normalised —
`\r\n` and `\r` become `\n` — and with nothing else changed; so raw text comes back
unchanged exactly if it contains no carriage return.  (Tabs and line feeds are *not* turned
into spaces by `encoding/xml`.)  The printer never relies on this: `xml.EscapeText` writes
`\t`, `\n`, `\r` as character references, which `C12_header_roundtrip` shows come back as
themselves. -/
theorem C12_attr_value_line_ends (q : Char) (v acc rest : Str)
    (hv : ∀ c ∈ v, c ≠ q ∧ c ≠ '&' ∧ c ≠ '<' ∧ xmlChar c = true) :
    readValue q (v ++ q :: rest) ⟨acc, none, false⟩ = some (acc ++ normCR false v, rest) ∧
    (normCR false v = v ↔ '\r' ∉ v) := by
  refine ⟨readValue_raw q v hv false acc rest, ?_, normCR_id v⟩
  intro h hr
  have := normCR_no_cr v false
  rw [h] at this
  exact this hr

example : normCR false "a\r\nb\rc\n\td".toList = "a\nb\nc\n\td".toList := by decide

-- the model's printer produces the bytes of the Go format strings
set_option maxRecDepth 8000 in
example : printHeader ⟨false, false, [], "a".toList, "b'c".toList, []⟩ =
    "<?xml version=\"1.0\" encoding=\"UTF-8\"?><stream:stream xmlns='jabber:client' xmlns:stream='http://etherx.jabber.org/streams' version='1.0' to='a' from='b&#39;c'>".toList := by
  rfl

set_option maxRecDepth 8000 in
example : printHeader ⟨true, true, "i<".toList, [], [], "e&n".toList⟩ =
    "<open xmlns=\"urn:ietf:params:xml:ns:xmpp-framing\" version='1.0' id='i&lt;' xml:lang='e&amp;n'/>".toList := by
  rfl

-- the unescaped header of the unrepaired code is not well-formed for the reader either
set_option maxRecDepth 8000 in
example : readHeader "<stream:stream xmlns='jabber:client' xmlns:stream='http://etherx.jabber.org/streams' version='1.0' from='a@b/x'y'>".toList = none := by
  decide

end header

/-! ## incoming headers: acceptance -/
section accept
open XmppModel.StreamNeg

/-- the stream-open element of the framing in use -/
def IsOpen (ws : Bool) (n : Name) : Prop :=
  if ws then n = ⟨nsFraming, "open"⟩ else n = ⟨nsStream, "stream"⟩

theorem finalCheck_ok (recv ws : Bool) (a i : Info) :
    finalCheck recv ws a = .ok i ↔
      (a = i ∧ i.version = (1, 0) ∧ (ws = false → i.xmlns = nsClient ∨ i.xmlns = nsServer) ∧
       (recv = false → i.id ≠ "")) := by
  unfold finalCheck
  by_cases h1 : a.version = (1, 0) <;> by_cases h2 : a.xmlns = nsClient <;>
    by_cases h3 : a.xmlns = nsServer <;> by_cases h4 : a.id = "" <;>
    cases ws <;> cases recv <;> simp [h1, h2, h3, h4] <;>
    (try (constructor <;> intro h <;> (try subst h) <;> simp_all)) <;>
    (try (intro h; subst h; simp_all))

/-- **Acceptance.**  Once the first element of the peer's document is reached, it is
accepted — with the stream information `i` — exactly if it is the stream-open element of the
framing in use (complete, in the WebSocket framing), its attributes are well-formed
(`applyAttrs`: addresses parse, the version parses), the version is 1.0, in the TCP framing
the content namespace is `jabber:client` or `jabber:server`, and, when we initiated, there is
a stream id. -/
theorem C12_accept_iff (recv ws : Bool) (parseJid : String → Option String) (i0 : Info)
    (n : Name) (attrs : List Attr) (rest : List HTok) (i : Info) :
    acceptStart recv ws parseJid i0 n attrs rest = .ok i ↔
      (IsOpen ws n ∧ (ws = true → skipElement 0 rest = .ok ()) ∧
       ∃ a, applyAttrs parseJid attrs { i0 with name := n } = .ok a ∧ a = i ∧ i.version = (1, 0) ∧
       (ws = false → i.xmlns = nsClient ∨ i.xmlns = nsServer) ∧ (recv = false → i.id ≠ "")) := by
  obtain ⟨sp, lo⟩ := n
  unfold acceptStart IsOpen
  cases ws <;> simp only [Bool.false_eq_true, if_false, if_true, not_false_eq_true,
      not_true_eq_false, true_and, false_and, true_implies, false_implies, ne_eq, Name.mk.injEq]
  all_goals
    by_cases h1 : sp = nsStream <;> by_cases h2 : lo = "error" <;> by_cases h3 : lo = "stream" <;>
    by_cases h4 : lo = "open" <;> by_cases h5 : sp = nsFraming <;>
    simp_all [nsStream, nsFraming] <;>
    (try (cases hs : skipElement 0 rest <;> simp_all)) <;>
    (try (cases ha : applyAttrs parseJid attrs _ <;> simp_all [finalCheck_ok]))

/-- an XML declaration and white space are skipped, nothing else is: the element that is
judged is the first thing after them -/
theorem C12_expect_skips (recv ws : Bool) (parseJid : String → Option String) (i0 : Info)
    (decl : Bool) (spaces : List String) (hsp : ∀ t ∈ spaces, isWhite t = true)
    (n : Name) (attrs : List Attr) (rest : List HTok) :
    expect recv ws parseJid i0
      ((if decl then [HTok.tok (.procInst "xml" "version='1.0'")] else []) ++
        spaces.map (fun t => HTok.tok (.chars t)) ++ HTok.tok (.start n attrs) :: rest)
      = acceptStart recv ws parseJid i0 n attrs rest := by
  have hloop : ∀ sp : List String, (∀ t ∈ sp, isWhite t = true) →
      expectLoop recv ws parseJid i0 (sp.map (fun t => HTok.tok (.chars t)) ++ HTok.tok (.start n attrs) :: rest)
        = acceptStart recv ws parseJid i0 n attrs rest := by
    intro sp
    induction sp with
    | nil => intro _; simp [expectLoop]
    | cons t sp ih =>
      intro h
      simp only [List.map_cons, List.cons_append, expectLoop, h t (by simp), if_true]
      exact ih (fun t' ht' => h t' (by simp [ht']))
  unfold expect
  cases decl
  · simp only [Bool.false_eq_true, if_false, List.nil_append]
    cases spaces with
    | nil => simpa [skipDecl] using hloop [] (by simp)
    | cons t sp => simpa [skipDecl] using hloop (t :: sp) hsp
  · simp only [if_true, List.cons_append, List.nil_append, skipDecl]
    exact hloop spaces hsp

/-- comments, processing instructions other than the leading XML declaration, directives
and text before the header are refused; so is the end of input -/
theorem C12_expect_junk (recv ws : Bool) (parseJid : String → Option String) (i0 : Info)
    (rest : List HTok) :
    expectLoop recv ws parseJid i0 [] = .error .eof ∧
    (∀ t, expectLoop recv ws parseJid i0 (.tok (.comment t) :: rest) = .error .comment) ∧
    (∀ t i, expectLoop recv ws parseJid i0 (.tok (.procInst t i) :: rest) = .error .procInst) ∧
    (∀ t, expectLoop recv ws parseJid i0 (.tok (.directive t) :: rest) = .error .directive) ∧
    (∀ t, isWhite t = false → expectLoop recv ws parseJid i0 (.tok (.chars t) :: rest) = .error .chardata) ∧
    expectLoop recv ws parseJid i0 (.syntaxErr :: rest) = .error .xmlSyntax := by
  refine ⟨rfl, fun _ => rfl, fun _ _ => rfl, fun _ => rfl, ?_, rfl⟩
  intro t ht
  simp [expectLoop, ht]

/-- **Stream errors in place of a header are returned as such**, in both framings and
roles, with the condition the peer sent -/
theorem C12_stream_error_returned (recv ws : Bool) (parseJid : String → Option String) (i0 : Info)
    (attrs : List Attr) (rest : List HTok) :
    acceptStart recv ws parseJid i0 ⟨nsStream, "error"⟩ attrs rest
      = .error (.streamError (errorCondition rest)) := by
  simp [acceptStart]

example : errorCondition [.tok (.start ⟨"urn:ietf:params:xml:ns:xmpp-streams", "host-unknown"⟩ []),
    .tok (.stop ⟨"urn:ietf:params:xml:ns:xmpp-streams", "host-unknown"⟩), .tok (.stop ⟨nsStream, "error"⟩)]
    = "host-unknown" := by decide

-- non-vacuity of acceptance: a plain c2s header is accepted by an initiator, the same
-- header without an id is not, and version 1.1 is refused
def exHdr (v : String) (id : List Attr) : List HTok :=
  [.tok (.procInst "xml" "version='1.0'"),
   .tok (.start ⟨nsStream, "stream"⟩ ([⟨⟨"", "xmlns"⟩, nsClient⟩, ⟨⟨"", "version"⟩, v⟩,
      ⟨⟨"", "from"⟩, "example.net"⟩] ++ id))]

example : (expect false false some {} (exHdr "1.0" [⟨⟨"", "id"⟩, "abc"⟩])).toOption.map (·.id) = some "abc" := by
  decide
example : (match expect false false some {} (exHdr "1.0" []) with
    | .error .badFormat => true | _ => false) = true := by decide
example : (match expect true false some {} (exHdr "1.1" []) with
    | .error .unsupportedVersion => true | _ => false) = true := by decide
example : parseVersion "01.00" = some (1, 0) ∧ parseVersion "1.0.0" = none ∧ parseVersion "+1.0" = none ∧
    parseVersion "256.0" = none ∧ parseVersion "1." = none := by decide

end accept

/-! ## restarts: the addresses that are established do not change -/
section restart
open XmppModel.StreamNeg

/-- **Receiving side.**  A header is accepted after the address checks exactly if `Expect`
accepts it, its origin equals the established one — unless none is known yet on a
client-to-server stream — and its location equals the established one — unless none is
known yet; the stream we send back is addressed to their `from` from their `to`; these
become the established pair. -/
theorem C12_restart_receiving (ws s2s : Bool) (pj : String → Option String) (a a' : Addrs)
    (toks : List HTok) (i : Info) (o : OutHdr) :
    negStep true ws s2s pj a toks = .ok (a', i, o) ↔
      (expect true ws pj { to := a.to, src := a.src } toks = .ok i ∧
       ((s2s = false ∧ a.src = "") ∨ a.src = i.src) ∧ (a.to = "" ∨ a.to = i.to) ∧
       a' = ⟨i.to, i.src⟩ ∧ o = ⟨i.src, i.to, outNS ws s2s⟩) := by
  unfold negStep
  cases he : expect true ws pj { to := a.to, src := a.src } toks with
  | error e => simp
  | ok j =>
    simp only [if_true]
    constructor
    · intro h
      by_cases hc : originOK s2s a j ∧ locationOK a j
      · simp only [hc, and_self, if_true, Except.ok.injEq, Prod.mk.injEq] at h
        obtain ⟨rfl, rfl, rfl⟩ := h
        exact ⟨rfl, hc.1, hc.2, rfl, rfl⟩
      · simp [hc] at h
    · rintro ⟨hj, c1, c2, rfl, rfl⟩
      cases hj
      have hc : originOK s2s a i ∧ locationOK a i := ⟨c1, c2⟩
      simp [hc]

/-- **Initiating side.**  A header is accepted exactly if `Expect` accepts it, its `from`
is the location we connected to and its `to` — if it has one — is our origin (the
documented exception: some servers send no `to`). -/
theorem C12_restart_initiating (ws s2s : Bool) (pj : String → Option String) (a a' : Addrs)
    (toks : List HTok) (i : Info) (o : OutHdr) :
    negStep false ws s2s pj a toks = .ok (a', i, o) ↔
      (expect false ws pj { to := a.to, src := a.src } toks = .ok i ∧
       a.src = i.src ∧ (i.to = "" ∨ a.to = i.to) ∧
       a' = ⟨i.to, i.src⟩ ∧ o = ⟨a.src, a.to, outNS ws s2s⟩) := by
  unfold negStep
  cases he : expect false ws pj { to := a.to, src := a.src } toks with
  | error e => simp
  | ok j =>
    simp only [Bool.false_eq_true, if_false]
    constructor
    · intro h
      by_cases hc : peerOK a j
      · simp only [hc, if_true, Except.ok.injEq, Prod.mk.injEq] at h
        obtain ⟨rfl, rfl, rfl⟩ := h
        exact ⟨rfl, hc.1, hc.2, rfl, rfl⟩
      · simp [hc] at h
    · rintro ⟨hj, c1, c2, rfl, rfl⟩
      cases hj
      have hc : peerOK a i := ⟨c1, c2⟩
      simp [hc]

/-- a header that `Expect` accepts but whose addresses differ from the established ones is
rejected with the address-mismatch error (both roles) -/
theorem C12_restart_mismatch (ws s2s : Bool) (pj : String → Option String) (a : Addrs)
    (toks : List HTok) (i : Info) :
    (expect true ws pj { to := a.to, src := a.src } toks = .ok i →
      (a.src ≠ "" ∨ s2s = true) → a.src ≠ i.src → negStep true ws s2s pj a toks = .error .addrMismatch) ∧
    (expect true ws pj { to := a.to, src := a.src } toks = .ok i →
      a.to ≠ "" → a.to ≠ i.to → negStep true ws s2s pj a toks = .error .addrMismatch) ∧
    (expect false ws pj { to := a.to, src := a.src } toks = .ok i →
      a.src ≠ i.src → negStep false ws s2s pj a toks = .error .addrMismatch) ∧
    (expect false ws pj { to := a.to, src := a.src } toks = .ok i →
      i.to ≠ "" → a.to ≠ i.to → negStep false ws s2s pj a toks = .error .addrMismatch) := by
  refine ⟨?_, ?_, ?_, ?_⟩
  · intro he h1 h2
    have : ¬ originOK s2s a i := by
      unfold originOK
      rcases h1 with h1 | h1 <;> simp [h1, h2]
    simp [negStep, he, this]
  · intro he h1 h2
    have : ¬ locationOK a i := by unfold locationOK; simp [h1, h2]
    simp [negStep, he, this]
  · intro he h1
    have : ¬ peerOK a i := by unfold peerOK; simp [h1]
    simp [negStep, he, this]
  · intro he h1 h2
    have : ¬ peerOK a i := by unfold peerOK; simp [h1, h2]
    simp [negStep, he, this]

/-- `FromStartElement` never clears an address: with a parser that only returns non-empty
canonical strings, a non-empty `to` stays non-empty -/
theorem applyAttrs_to_nonempty (pj : String → Option String) (hpj : ∀ s j, pj s = some j → j ≠ "")
    (attrs : List Attr) : ∀ (i0 i : Info), applyAttrs pj attrs i0 = .ok i → i0.to ≠ "" → i.to ≠ "" := by
  induction attrs with
  | nil => intro i0 i h; simp only [applyAttrs, Except.ok.injEq] at h; subst h; exact id
  | cons a as ih =>
    intro i0 i h h0
    unfold applyAttrs at h
    split at h
    · exact ih _ _ h h0
    · split at h
      · split at h
        · exact ih _ _ h h0
        · split at h
          · rename_i j hj
            exact ih _ _ h (hpj _ _ hj)
          · cases h
      · split at h
        · split at h
          · exact ih _ _ h h0
          · split at h
            · exact ih _ _ h h0
            · cases h
        · split at h
          · exact ih _ _ h h0
          · split at h
            · split at h
              · exact ih _ _ h h0
              · cases h
            · split at h
              · exact ih _ _ h h0
              · exact ih _ _ h h0

theorem expect_to_nonempty (recv ws : Bool) (pj : String → Option String)
    (hpj : ∀ s j, pj s = some j → j ≠ "") (i0 i : Info) (toks : List HTok)
    (h : expect recv ws pj i0 toks = .ok i) (h0 : i0.to ≠ "") : i.to ≠ "" := by
  unfold expect at h
  generalize skipDecl toks = ts at h
  induction ts with
  | nil => simp [expectLoop] at h
  | cons t ts ih =>
    cases t with
    | syntaxErr => simp [expectLoop] at h
    | tok t =>
      cases t with
      | chars c => simp only [expectLoop] at h; split at h; exact ih h; cases h
      | procInst => simp [expectLoop] at h
      | comment => simp [expectLoop] at h
      | directive => simp [expectLoop] at h
      | stop n =>
        simp only [expectLoop] at h
        split at h
        · split at h <;> cases h
        · exact ih h
      | start n attrs =>
        simp only [expectLoop, acceptStart] at h
        split at h; cases h
        split at h; cases h
        split at h; cases h
        split at h; cases h
        split at h; cases h
        split at h; cases h
        rename_i a ha
        have := applyAttrs_to_nonempty pj hpj attrs _ a ha h0
        unfold finalCheck at h
        split at h; cases h
        split at h; cases h
        split at h; cases h
        cases h; exact this

/-- **Across any number of restarts** an established address never changes: for every
header sequence, every header that is accepted carries the origin / location that were known
when the session was created (receiving side: whichever of the two is known; initiating
side: both), for both roles, framings and stream kinds. -/
theorem C12_restart_addresses (recv ws s2s : Bool) (pj : String → Option String)
    (hpj : ∀ s j, pj s = some j → j ≠ "") (hdrs : List (List HTok)) :
    ∀ (a : Addrs), ∀ v ∈ negRun recv ws s2s pj a hdrs, ∀ i o, v = .ok (i, o) →
      (a.src ≠ "" → i.src = a.src) ∧ (a.to ≠ "" → i.to = a.to) := by
  induction hdrs with
  | nil => intro a v hv; simp [negRun] at hv
  | cons h hs ih =>
    intro a v hv i o hvi
    unfold negRun at hv
    cases hstep : negStep recv ws s2s pj a h with
    | error e => simp [hstep] at hv; subst hv; cases hvi
    | ok r =>
      obtain ⟨a', j, o'⟩ := r
      simp only [hstep, List.mem_cons] at hv
      -- what the step guarantees
      have key : (a.src ≠ "" → j.src = a.src) ∧ (a.to ≠ "" → j.to = a.to) ∧ a' = ⟨j.to, j.src⟩ := by
        cases recv
        · obtain ⟨he, c1, c2, e1, _⟩ := (C12_restart_initiating ws s2s pj a a' h j o').mp hstep
          refine ⟨fun _ => c1.symm, ?_, e1⟩
          intro h0
          rcases c2 with c2 | c2
          · exact absurd c2 (expect_to_nonempty false ws pj hpj _ j h he h0)
          · exact c2.symm
        · obtain ⟨_, c1, c2, e1, _⟩ := (C12_restart_receiving ws s2s pj a a' h j o').mp hstep
          refine ⟨?_, ?_, e1⟩
          · intro h0; rcases c1 with ⟨_, c1⟩ | c1; exact absurd c1 h0; exact c1.symm
          · intro h0; rcases c2 with c2 | c2; exact absurd c2 h0; exact c2.symm
      rcases hv with hv | hv
      · subst hv; cases hvi; exact ⟨key.1, key.2.1⟩
      · obtain ⟨k1, k2⟩ := ih a' v hv i o hvi
        obtain ⟨key1, key2, key3⟩ := key
        subst key3
        constructor
        · intro h0; have := key1 h0; rw [k1 (by simpa [this] using h0), this]
        · intro h0; have := key2 h0; rw [k2 (by simpa [this] using h0), this]

/-- **A refused header leaves the addresses alone**: whatever the reason for the refusal
(`Expect`'s checks or the address comparison), the session goes on reporting the addresses
that were established before it. -/
theorem C12_refused_header_keeps_addresses (recv ws s2s : Bool) (pj : String → Option String)
    (a : Addrs) (h : List HTok) (hs : List (List HTok)) (e : HErr)
    (hr : negStep recv ws s2s pj a h = .error e) : negEnd recv ws s2s pj a (h :: hs) = a := by
  simp [negEnd, hr]

/-- the addresses reported at the end are the initial ones or those of a header that was
accepted -/
theorem C12_final_addresses (recv ws s2s : Bool) (pj : String → Option String)
    (hs : List (List HTok)) : ∀ (a : Addrs),
    negEnd recv ws s2s pj a hs = a ∨
    ∃ i o, Except.ok (i, o) ∈ negRun recv ws s2s pj a hs ∧ negEnd recv ws s2s pj a hs = ⟨i.to, i.src⟩ := by
  induction hs with
  | nil => intro a; left; rfl
  | cons h hs ih =>
    intro a
    unfold negEnd negRun
    cases hstep : negStep recv ws s2s pj a h with
    | error e => left; rfl
    | ok r =>
      obtain ⟨a', j, o'⟩ := r
      simp only []
      have ha' : a' = ⟨j.to, j.src⟩ := by
        cases recv
        · exact ((C12_restart_initiating ws s2s pj a a' h j o').mp hstep).2.2.2.1
        · exact ((C12_restart_receiving ws s2s pj a a' h j o').mp hstep).2.2.2.1
      right
      rcases ih a' with e | ⟨i, o, hm, e⟩
      · exact ⟨j, o', by simp, by rw [e, ha']⟩
      · exact ⟨i, o, by simp [hm], e⟩

/-- **Hostile environment.**  On a connection that stops accepting writes after any number
of them, with a context that is cancelled at any point, with or without TeeIn/TeeOut: every
header that is reported accepted is one the undisturbed negotiation accepts, with the same
recorded information (so `C12_restart_addresses` applies to it) … -/
theorem C12_env_verdicts (recv ws s2s : Bool) (pj : String → Option String) (tee : Bool)
    (cancel : Option Nat) (hs : List (List HTok)) : ∀ (k : Nat) (b : Option Nat) (a : Addrs),
    ∀ v ∈ (negRunE recv ws s2s pj tee cancel k b a hs).1, ∀ x, v = .ok x →
      v ∈ negRun recv ws s2s pj a hs := by
  induction hs with
  | nil => intro k b a v hv; simp [negRunE] at hv
  | cons h hs ih =>
    intro k b a v hv x hx
    subst hx
    unfold negRunE at hv
    have hrun : ∀ a' i o, negStep recv ws s2s pj a h = .ok (a', i, o) →
        negRun recv ws s2s pj a (h :: hs) = .ok (i, o) :: negRun recv ws s2s pj a' hs := by
      intro a' i o hst; simp [negRun, hst]
    cases recv
    · simp only [Bool.false_eq_true, if_false] at hv
      split at hv
      · simp at hv
      · split at hv
        · simp at hv
        · split at hv
          · simp at hv
          · split at hv
            · simp at hv
            · rename_i a' i o hstep
              rw [hrun a' i o hstep]
              simp only [List.mem_cons] at hv ⊢
              rcases hv with hv | hv
              · exact Or.inl hv
              · exact Or.inr (ih _ _ _ _ hv x rfl)
    · simp only [if_true] at hv
      split at hv
      · simp at hv
      · split at hv
        · simp at hv
        · rename_i a' i o hstep
          rw [hrun a' i o hstep]
          split at hv
          · simp at hv
          · split at hv
            · simp at hv
            · simp only [List.mem_cons] at hv ⊢
              rcases hv with hv | hv
              · exact Or.inl hv
              · exact Or.inr (ih _ _ _ _ hv x rfl)

/-- … and the addresses reported at the end are those the undisturbed negotiation reports
after some prefix of the headers: a failed write or a cancellation never installs addresses
that no accepted header carried. -/
theorem C12_env_final (recv ws s2s : Bool) (pj : String → Option String) (tee : Bool)
    (cancel : Option Nat) (hs : List (List HTok)) : ∀ (k : Nat) (b : Option Nat) (a : Addrs),
    ∃ n, (negRunE recv ws s2s pj tee cancel k b a hs).2 = negEnd recv ws s2s pj a (hs.take n) := by
  induction hs with
  | nil => intro k b a; exact ⟨0, rfl⟩
  | cons h hs ih =>
    intro k b a
    unfold negRunE
    cases recv
    · simp only [Bool.false_eq_true, if_false]
      split
      · exact ⟨0, rfl⟩
      · split
        · exact ⟨0, rfl⟩
        · split
          · exact ⟨0, rfl⟩
          · split
            · rename_i e hstep; exact ⟨1, by simp [negEnd, hstep]⟩
            · rename_i a' i o hstep
              obtain ⟨n, hn⟩ := ih (k + 1) _ a'
              refine ⟨n + 1, ?_⟩
              simp only [List.take_succ_cons, negEnd, hstep]
              exact hn
    · simp only [if_true]
      split
      · exact ⟨0, rfl⟩
      · split
        · rename_i e hstep; exact ⟨1, by simp [negEnd, hstep]⟩
        · rename_i a' i o hstep
          split
          · exact ⟨1, by simp [negEnd, hstep]⟩
          · split
            · exact ⟨1, by simp [negEnd, hstep]⟩
            · obtain ⟨n, hn⟩ := ih (k + 1) _ a'
              refine ⟨n + 1, ?_⟩
              simp only [List.take_succ_cons, negEnd, hstep]
              exact hn

end restart

/-! ## resource binding -/
section bind
open XmppModel.Bind

/-- **The request.**  Whatever the reply will be, the initiator asks for exactly the
resourcepart of its own address, and sends no `<resource/>` when it has none. -/
theorem C12_bind_request (addr : String) (r : Reply) :
    (client addr r).requested = (if resourcepart addr = "" then none else some (resourcepart addr)) := by
  unfold client request
  cases r with
  | eof => rfl
  | nonElement => rfl
  | otherElement => rfl
  | iq idOK type jid errCond =>
    cases jid <;> simp only [] <;> (repeat' split) <;> rfl

example : resourcepartL "user@example.net/home".toList = "home".toList ∧
    resourcepartL "user@example.net".toList = [] ∧
    resourcepartL "example.net/a/b".toList = "a/b".toList := by decide

/-- **Adoption.**  The session becomes ready exactly when the reply is a result IQ with the
request's id that carries a valid address, and then reports that address without error;
every other reply (error, wrong or missing id, other type, no or invalid address, other
element, end of stream) returns an error and leaves the address unchanged. -/
theorem C12_bind_adopt (addr : String) (r : Reply) :
    ((client addr r).ready = true ↔ ∃ j c, r = .iq true "result" (.valid j) c) ∧
    (∀ j c, r = .iq true "result" (.valid j) c → (client addr r).addr = j ∧ (client addr r).err = .none) ∧
    ((client addr r).ready = false → (client addr r).addr = addr ∧ (client addr r).err ≠ .none) := by
  cases r with
  | eof => simp [client]
  | nonElement => simp [client]
  | otherElement => simp [client]
  | iq idOK type jid errCond =>
    cases jid with
    | invalid => simp [client]
    | absent =>
      cases idOK <;> by_cases h1 : type = "result" <;> by_cases h2 : type = "error" <;>
        cases errCond <;> simp [client, h1, h2]
    | valid j =>
      cases idOK <;> by_cases h1 : type = "result" <;> by_cases h2 : type = "error" <;>
        cases errCond <;> simp_all [client]

/-- **The reply.**  For a request whose `to`/`from` parse (or are absent) the receiver
answers with the request's id, addressed back (`to` = the request's `from`, `from` = the
request's `to`); a result carries the address the callback chose, or a fresh random resource
on the bare remote address when there is no callback, and completes the session; a stanza
error from the callback is sent as an error reply with its condition and the session does not
become ready; if the callback fails nothing is sent.  The callback sees the remote address and
the requested resource.  A request whose `to` or `from` is not an address is not answered. -/
theorem C12_bind_reply (remote reqId : String) (reqRes : Option String) (reqTo reqFrom : JidField)
    (cb : Callback) (hto : reqTo ≠ .invalid) (hfrom : reqFrom ≠ .invalid) :
    (∀ q, (server remote reqId reqRes reqTo reqFrom cb).reply = some q →
      q.id = reqId ∧ q.to = addrOf reqFrom ∧ q.src = addrOf reqTo) ∧
    (cb = .default → ∃ q, (server remote reqId reqRes reqTo reqFrom cb).reply = some q ∧
      q.type = "result" ∧ q.assigned = some (.random 0) ∧
      (server remote reqId reqRes reqTo reqFrom cb).ready = true) ∧
    (∀ j, cb = .address j → ∃ q, (server remote reqId reqRes reqTo reqFrom cb).reply = some q ∧
      q.type = "result" ∧ q.assigned = some (.jid j) ∧ q.cond = none ∧
      (server remote reqId reqRes reqTo reqFrom cb).ready = true ∧
      (server remote reqId reqRes reqTo reqFrom cb).err = none) ∧
    (∀ c, cb = .stanzaError c → ∃ q, (server remote reqId reqRes reqTo reqFrom cb).reply = some q ∧
      q.type = "error" ∧ q.cond = some c ∧ q.assigned = none ∧
      (server remote reqId reqRes reqTo reqFrom cb).ready = false ∧
      (server remote reqId reqRes reqTo reqFrom cb).err ≠ none) ∧
    (cb = .failure → (server remote reqId reqRes reqTo reqFrom cb).reply = none ∧
      (server remote reqId reqRes reqTo reqFrom cb).ready = false) ∧
    (cb ≠ .default → (server remote reqId reqRes reqTo reqFrom cb).cbArgs = some (remote, reqRes.getD "")) := by
  cases cb <;> simp [server, hto, hfrom] <;> (intro q hq; subst hq; simp)

/-! ### Round E: the stanza's own attributes are the unqualified ones (review B, C12-1) -/

/-- the stanza's own attribute only depends on the unqualified attributes of the start element -/
theorem iqField_own (attrs : List Bind.Attr) (loc : String) :
    iqField attrs loc = iqField (attrs.filter Bind.Attr.own) loc := by
  unfold iqField
  rw [List.filter_filter]
  congr 2
  apply List.filter_congr
  intro a _
  cases h : a.own <;> simp [h]

/-- **The request's id is the request's id.**  The receiver answers with the value of the
UNQUALIFIED `id` attribute of the request (the empty id when there is none), addresses the reply
to the unqualified `from` and from the unqualified `to` — and two requests whose start elements
have the same unqualified attributes are served identically: attributes called `id`, `type`, `to`,
`from` in ANY namespace, before or after the plain ones, with any value (valid address or not),
change neither the reply, nor the callback's arguments, nor the verdict. -/
theorem C12_bind_reply_attrs (pj : String → Option String) (remote : String) (attrs : List Bind.Attr)
    (reqRes : Option String) (cb : Callback) :
    (∀ q, (serverA pj remote attrs reqRes cb).reply = some q →
      q.id = strOf (iqField attrs "id") ∧
      q.to = addrOf (addrField pj (iqField attrs "from")) ∧
      q.src = addrOf (addrField pj (iqField attrs "to"))) ∧
    (∀ attrs', attrs'.filter Bind.Attr.own = attrs.filter Bind.Attr.own →
      serverA pj remote attrs' reqRes cb = serverA pj remote attrs reqRes cb) := by
  constructor
  · intro q hq
    unfold serverA at hq
    by_cases hinv : addrField pj (iqField attrs "to") = .invalid ∨ addrField pj (iqField attrs "from") = .invalid
    · simp [server, hinv] at hq
    · have h1 : addrField pj (iqField attrs "to") ≠ .invalid := fun h => hinv (Or.inl h)
      have h2 : addrField pj (iqField attrs "from") ≠ .invalid := fun h => hinv (Or.inr h)
      exact (C12_bind_reply remote _ reqRes _ _ cb h1 h2).1 q hq
  · intro attrs' h
    unfold serverA
    rw [iqField_own attrs' "id", iqField_own attrs' "to", iqField_own attrs' "from", h,
      ← iqField_own, ← iqField_own, ← iqField_own]

/-- the same for the initiating side: which reply counts as "the answer to my request" (id), and
as what (type), is read from the unqualified attributes only -/
theorem C12_bind_adopt_attrs (addr reqId : String) (attrs attrs' : List Bind.Attr) (jid : JidField)
    (c : Option String) (h : attrs'.filter Bind.Attr.own = attrs.filter Bind.Attr.own) :
    client addr (replyA reqId attrs' jid c) = client addr (replyA reqId attrs jid c) ∧
    ((client addr (replyA reqId attrs jid c)).ready = true →
      iqField attrs "id" = some reqId ∨ (iqField attrs "id" = none ∧ reqId = "")) := by
  constructor
  · unfold replyA
    rw [iqField_own attrs' "id", iqField_own attrs' "type", h, ← iqField_own, ← iqField_own]
  · intro hr
    have := ((C12_bind_adopt addr (replyA reqId attrs jid c)).1.mp hr)
    obtain ⟨j, c', hj⟩ := this
    simp only [replyA, Reply.iq.injEq, beq_iff_eq] at hj
    cases hid : iqField attrs "id" with
    | none => right; simp [hid, strOf] at hj; exact ⟨rfl, hj.1⟩
    | some v => left; simp [hid, strOf] at hj; rw [hj.1]

/-- non-vacuity and the failure the repair removed: request `<iq xmlns:p=… p:id='evil' id='real'
type='set'>`: the model answers `real`; the lookup by local name in any namespace (`attr.Get`, the
code before the repair) answers `evil` -/
theorem C12_bind_any_namespace_lookup_fails :
    ∃ attrs : List Bind.Attr,
      (∀ q, (serverA some "a@b" attrs none .default).reply = some q → q.id = "real") ∧
      (serverA some "a@b" attrs none .default).reply ≠ none ∧
      anyNsField attrs "id" = some "evil" ∧ iqField attrs "id" = some "real" :=
  ⟨[⟨"xmlns", "p", "urn:p"⟩, ⟨"urn:p", "id", "evil"⟩, ⟨"", "id", "real"⟩, ⟨"", "type", "set"⟩],
    by decide, by decide, by decide, by decide⟩

/-- every random value `serveAll k` assigns was drawn at or after position `k`, and they
increase strictly in the order of the sessions -/
theorem randomIds_serveAll (rs : List Req) : ∀ k,
    (∀ x ∈ randomIds (serveAll k rs), k ≤ x) ∧ (randomIds (serveAll k rs)).Pairwise (· < ·) := by
  induction rs with
  | nil => intro k; simp [serveAll, randomIds]
  | cons r rs ih =>
    intro k
    obtain ⟨rem, id, res, rto, rfrom, cb⟩ := r
    by_cases hd : (Req.drawsRandom ⟨rem, id, res, rto, rfrom, cb⟩) = true
    · -- the default callback runs: this session gets value k, the others later ones
      have hcb : cb = .default ∧ rto ≠ .invalid ∧ rfrom ≠ .invalid := by
        simp only [Req.drawsRandom, Bool.and_eq_true, beq_iff_eq, Bool.not_eq_true', Bool.or_eq_false_iff,
          beq_eq_false_iff_ne, ne_eq] at hd
        exact ⟨hd.1, hd.2.1, hd.2.2⟩
      obtain ⟨rfl, h1, h2⟩ := hcb
      obtain ⟨i1, i2⟩ := ih (k + 1)
      simp only [serveAll, hd, if_true, randomIds, server, h1, h2, or_self, if_false]
      refine ⟨?_, ?_⟩
      · intro x hx
        rcases List.mem_cons.mp hx with rfl | hx
        · exact Nat.le_refl _
        · exact Nat.le_of_succ_le (i1 x hx)
      · exact List.pairwise_cons.mpr ⟨fun x hx => i1 x hx, i2⟩
    · have hd' : (Req.drawsRandom ⟨rem, id, res, rto, rfrom, cb⟩) = false := by simpa using hd
      obtain ⟨i1, i2⟩ := ih k
      have hnone : randomIds (serveAll k (⟨rem, id, res, rto, rfrom, cb⟩ :: rs)) = randomIds (serveAll k rs) := by
        simp only [serveAll, hd', Bool.false_eq_true, if_false, randomIds]
        by_cases hinv : rto = .invalid ∨ rfrom = .invalid
        · simp [server, hinv]
        · cases cb with
          | default =>
            simp only [Req.drawsRandom, beq_self_eq_true, Bool.true_and, Bool.not_eq_false',
              Bool.or_eq_true, beq_iff_eq] at hd'
            exact absurd hd' hinv
          | address j => simp [server, hinv]
          | stanzaError c => simp [server, hinv]
          | failure => simp [server, hinv]
      rw [hnone]
      exact ⟨i1, i2⟩

/-- **Freshness across sessions.**  The random source is called once per session that is
served by the default callback — not once per feature value — so whatever else the sessions
sharing one `BindResource()` value do, no two of them are assigned the same random resource. -/
theorem C12_bind_random_fresh (rs : List Req) (k : Nat) : (randomIds (serveAll k rs)).Nodup := by
  have := (randomIds_serveAll rs k).2
  exact this.imp (fun h => Nat.ne_of_lt h)

example : randomIds (serveAll 0 [⟨"a@b", "1", none, .absent, .absent, .default⟩,
    ⟨"a@b", "2", none, .absent, .absent, .address "a@b/x"⟩,
    ⟨"a@b", "3", none, .invalid, .absent, .default⟩,
    ⟨"a@b", "4", none, .absent, .absent, .default⟩]) = [0, 1] := by decide

/-- regenerated by running REAL receiving sessions one after the other on ONE feature value
(`BindResource()` and `BindCustom(echo)`), 2 to 4 sessions with their own remote address, request id
and requested resource: every reply carries its own request's id and its own session's address, the
default callback hands out non-empty pairwise distinct resources and the custom one is called with
each session's own request — the behaviour the closure facts `bindClosureWrites` /
`bindCapturedCallResults` approximate syntactically; and the model's `serveAll` assigns `k` distinct
random values to `k` such sessions -/
theorem C12_gen_bind_shared_probe :
    Generated.C12.bindSharedProbe = some (["default", "custom"].flatMap fun kind =>
      [2, 3, 4].map fun k => (kind, k, true, true, true)) ∧
    (∀ k ∈ [2, 3, 4], (randomIds (serveAll 0 ((List.range k).map fun i =>
      (⟨s!"u{i}@h{i}.example", s!"req{i}", some s!"res{i}", .absent, .absent, .default⟩ : Req)))).length = k) := by
  refine ⟨by decide, by decide⟩

theorem C12_bind_bad_request_address (remote reqId : String) (reqRes : Option String)
    (reqTo reqFrom : JidField) (cb : Callback) (h : reqTo = .invalid ∨ reqFrom = .invalid) :
    (server remote reqId reqRes reqTo reqFrom cb).reply = none ∧
    (server remote reqId reqRes reqTo reqFrom cb).ready = false ∧
    (server remote reqId reqRes reqTo reqFrom cb).cbArgs = none := by
  simp [server, h]

end bind

/-! ### Round D: the header does not depend on what happened to other sessions -/

section SendHistory
open XmppModel.Header XmppModel.HeaderSend

/-- **history independence of `Send`**: after ANY history of calls (other arguments, failed or
successful writes) a call whose write succeeds hands the connection exactly its own header — one
stream-open element — and a peer reading those bytes recovers the arguments of THAT call. -/
theorem C12_send_history_independent (hist : List Call) (c : Call) (hw : c.writeOk = true) (st : Str) :
    run true st (hist ++ [c]) = run true st hist ++ [some (printHeader c.args)] ∧
    readHeader (printHeader c.args) = some (expected c.args) := by
  refine ⟨?_, C12_header_roundtrip c.args⟩
  rw [run_perCall, run_perCall, List.map_append]
  simp [hw]

example : run true [] [⟨⟨false, true, [], "victim.example".toList, "a.example".toList, "de".toList⟩, false⟩,
    ⟨⟨false, false, [], "example.net".toList, [], []⟩, true⟩] =
    [none, some (printHeader ⟨false, false, [], "example.net".toList, [], []⟩)] := by
  rw [run_perCall]; rfl

set_option maxRecDepth 100000 in
/-- witness that the buffer per call is what makes it true: with one recycled buffer that is emptied
only after a successful write, a failed call followed by a successful one sends BOTH headers, and
the peer reads the addresses of the failed (other) session -/
theorem C12_send_recycled_buffer_fails :
    ∃ a b : HdrArgs, ∃ sent,
      run false [] [⟨a, false⟩, ⟨b, true⟩] = [none, some sent] ∧
      sent = printHeader a ++ printHeader b ∧
      readHeader sent = some (expected a) ∧ readHeader sent ≠ some (expected b) :=
  ⟨⟨false, true, [], "victim.example".toList, "a.example".toList, "de".toList⟩,
   ⟨false, false, [], "example.net".toList, [], []⟩, _, rfl, rfl, by decide, by decide⟩

/-- regenerated by running REAL sessions: after each history (another session whose first / second
write fails, whose connection takes ten bytes, on the other framing and role, cancelled,
successful) a session of either role and framing writes byte for byte what it writes alone -/
theorem C12_gen_send_history_probe :
    Generated.C12.sendHistoryProbe = some (["wf1", "wf2", "wfb", "wfx", "ctx", "ok"].flatMap fun h =>
      [false, true].flatMap fun ws => [false, true].map fun recv => (h, ws, recv, "same")) := by decide

end SendHistory

/-! ### Round E: one `Negotiator` value serves many sessions -/

section NegValue
open XmppModel.Header XmppModel.NegValue

/-- **a negotiator value keeps nothing between sessions**: whichever sessions (kinds, roles,
framings, addresses) the value served before and whatever its closure variables held, the header
it sends for a session is the header of THAT session's own state; a peer reading it recovers that
session's arguments, and on TCP the content namespace it declares is the one of the session's own
stream kind (`jabber:server` iff the session has the S2S bit). -/
theorem C12_negotiator_value_independent (before : List Sess) (s : Sess) (m : Option Bool) :
    headers true m (before ++ [s]) = headers true m before ++ [printHeader s.own] ∧
    readHeader (printHeader s.own) = some (expected s.own) ∧
    (s.ws = false → (⟨[], kXmlns⟩, contentNS s.s2s) ∈ (expected s.own).attrs) := by
  refine ⟨?_, C12_header_roundtrip s.own, ?_⟩
  · simp [headers, serveAll_perSession]
  · intro h
    simp [expected, Sess.own, h]

example : headers true none [⟨false, false, [], "example.net".toList, [], []⟩,
      ⟨false, true, [], "example.org".toList, "example.net".toList, []⟩] =
    [printHeader ⟨false, false, [], "example.net".toList, [], []⟩,
     printHeader ⟨false, true, [], "example.org".toList, "example.net".toList, []⟩] := by
  simp [headers, serveAll_perSession, Sess.own]

set_option maxRecDepth 100000 in
/-- witness that "per session" is what makes it true: a negotiator value that works the content
namespace out on first use and keeps it in the closure serves a c2s session and then an s2s session
— the second header declares `jabber:client`, so the peer does not recover the content namespace
of that stream -/
theorem C12_negotiator_memo_namespace_fails :
    ∃ a b : Sess, ∃ h1 h2, headers false none [a, b] = [h1, h2] ∧
      readHeader h1 = some (expected a.own) ∧
      readHeader h2 ≠ some (expected b.own) ∧
      readHeader h2 = some (expected { b.own with s2s := false }) :=
  ⟨⟨false, false, [], "example.net".toList, [], []⟩,
   ⟨false, true, [], "example.org".toList, "example.net".toList, []⟩, _, _, rfl,
   by decide, by decide, by decide⟩

/-- the expected probe table: every sequence of 2 and 3 session kinds (role × c2s/s2s) per framing;
the last session writes what it writes alone and reports its own content namespace -/
def negSharedExpected : List (Bool × List Nat × String × String) :=
  [false, true].flatMap fun ws =>
    (List.range 4).flatMap fun a => (List.range 4).flatMap fun b =>
      let row (sq : List Nat) (last : Nat) : Bool × List Nat × String × String :=
        (ws, sq, "same", String.mk (contentNS (decide (2 ≤ last))))
      row [a, b] b :: (List.range 4).map fun c => row [a, b, c] c

/-- regenerated by running REAL sessions on ONE `Negotiator` value: for every sequence of two and
three sessions over the four kinds (initiating / receiving × c2s / s2s) and both framings, the last
session writes byte for byte what it writes on a negotiator value of its own, and `Session.Out()`
reports the content namespace of its own kind — which is what the model's `contentNS` says -/
theorem C12_gen_neg_shared_probe :
    Generated.C12.negSharedProbe = some negSharedExpected := by decide

end NegValue

/-! ### Round D: the address comparison behind every header check -/

section AddressCompare
open XmppModel.Jid

/-- `negotiator.go` compares the addresses of a header with the established ones with `JID.Equal`,
and the model of the negotiation (`originOK`, `locationOK`, `peerOK`) compares canonical strings.
This is the bridge: on the packed representation (`data`, `locallen`, `domainlen`) `Equal` holds
iff localpart, domainpart and resourcepart are the same octets — in particular two addresses made
of the same octets cut at different places are different. -/
theorem C12_address_compare_exact (l d r l' d' r' : Bytes) :
    (XmppModel.Jid.mk l d r).equal (XmppModel.Jid.mk l' d' r') = true ↔ (l = l' ∧ d = d' ∧ r = r') := by
  constructor
  · intro h
    simp only [Jid.equal, XmppModel.Jid.mk, Bool.and_eq_true, beq_iff_eq] at h
    obtain ⟨⟨h1, h2⟩, h3⟩ := h
    rw [List.append_assoc, List.append_assoc] at h1
    obtain ⟨e1, h1'⟩ := List.append_inj h1 h2
    obtain ⟨e2, e3⟩ := List.append_inj h1' h3
    exact ⟨e1, e2, e3⟩
  · rintro ⟨rfl, rfl, rfl⟩
    simp [Jid.equal]

example : (XmppModel.Jid.mk [0x61] [0x62, 0x63] []).equal (XmppModel.Jid.mk [0x61] [0x62] [0x63]) = false := by decide

/-- a comparison of the octets and the localpart length alone -/
def equalDataLocal (a b : Jid) : Bool := a.data == b.data && a.ll == b.ll

/-- witness that BOTH lengths are needed: `a@bc` and `a@b/c` have the same octets and the same
localpart length, are well-formed, print differently — and the weaker comparison calls them equal -/
theorem C12_address_compare_needs_domain_length :
    ∃ a b : Jid, a.WF ∧ b.WF ∧ equalDataLocal a b = true ∧ a.equal b = false ∧ a.toString ≠ b.toString :=
  ⟨XmppModel.Jid.mk [0x61] [0x62, 0x63] [], XmppModel.Jid.mk [0x61] [0x62] [0x63],
    by decide, by decide, by decide, by decide, by decide⟩

set_option maxRecDepth 100000 in
/-- regenerated by running the REAL `jid.JID.Equal` on ALL pairs of a universe of addresses that holds
the established addresses of the generated sessions, their near misses (the same octets cut
differently into local / domain / resource, one octet less or more, bare vs full) and plain ones:
the result is equality of the three parts, and the model's `Equal` says the same on every pair -/
theorem C12_gen_jid_equal_probe :
    ∃ u t, Generated.C12.jidEqualUniverse = some u ∧ Generated.C12.jidEqualTable = some t ∧ u.length ≥ 30 ∧
      t = u.map (fun a => u.map fun b => decide (a = b)) ∧
      t = u.map (fun a => u.map fun b =>
        (XmppModel.Jid.mk a.1 a.2.1 a.2.2).equal (XmppModel.Jid.mk b.1 b.2.1 b.2.2)) :=
  ⟨_, _, rfl, rfl, by decide, by decide, by decide⟩

set_option maxRecDepth 100000 in
/-- the universe is not vacuous: it holds pairs of different addresses with the same octets and the
same localpart length (only the domain / resource boundary differs), and pairs where only the
local / domain boundary differs -/
theorem C12_jid_equal_probe_has_recut_pairs :
    ∃ u, Generated.C12.jidEqualUniverse = some u ∧
      (u.any fun a => u.any fun b => decide (a ≠ b) && a.1 == b.1 && (a.2.1 ++ a.2.2 == b.2.1 ++ b.2.2)) = true ∧
      (u.any fun a => u.any fun b => decide (a ≠ b) && a.2.2 == b.2.2 && (a.1 ++ a.2.1 == b.1 ++ b.2.1)) = true :=
  ⟨_, rfl, by decide, by decide⟩

end AddressCompare

end XmppModel.Props.C12
