import XmppModel.Model.StartTLS
import XmppModel.Lemmas.StartTLS
import XmppModel.Lemmas.StartTLSShape
import XmppModel.Lemmas.StartTLSFuel
import XmppModel.Lemmas.StartTLSName
import XmppModel.Lemmas.ByteDecoder
import XmppModel.Lemmas.StartTLSRechunk
import XmppModel.Model.StartTLSProbe
import XmppModel.Lemmas.StartTLSNegotiate
import XmppModel.Generated.C02
/-!
# C02 — a client asked to use STARTTLS never proceeds in clear text

Property theorems only (helpers: `Lemmas/StartTLS.lean`; model: `Model/StartTLS.lean`).
Quantifiers: every peer script (`Input.clear`, `Input.prot`: any segments of any units, junk
below the TLS layer anywhere), every behaviour of the other features' callbacks and every map
iteration order (`Input.oracle`), every configuration whose other features require `Secure`
(`Compliant`), every value of the two features.go behaviours C02 does not constrain (`rr`,
`rt`), tee on or off, every amount of fuel (the Go loops run as long as the peer feeds them).
-/
namespace XmppModel.Props.C02
open XmppModel XmppModel.StartTLS
-- (the types of the probe tables are nested deeply enough for the default limit of the instance
-- search that finds their decidable equality)
set_option synthInstance.maxSize 1024

/-! ### Tie to the source: regenerated facts -/

/-- the bit values of the `SessionState` constants of session.go are the model's -/
theorem C02_gen_state_bits :
    Generated.C02.secureBit = some Secure.toNat ∧ Generated.C02.authnBit = some Authn.toNat ∧
    Generated.C02.readyBit = some Ready.toNat ∧ Generated.C02.receivedBit = some Received.toNat ∧
    Generated.C02.outputClosedBit = some OutClosed.toNat ∧
    Generated.C02.inputClosedBit = some InClosed.toNat ∧ Generated.C02.s2sBit = some S2S.toNat := by
  decide

/-- the masks of the value returned by the real `xmpp.StartTLS(nil)` are the model's -/
theorem C02_gen_starttls_masks :
    Generated.C02.startTLSNecessary = some startTLS.nec.toNat ∧
    Generated.C02.startTLSProhibited = some startTLS.proh.toNat ∧
    Generated.C02.startTLSNegotiable = some startTLS.negotiable := by
  decide

/-! #### Probe tables: the real functions, run over complete finite domains

`harness facts C02` executes the real code on every point of a finite domain and emits the table;
the theorems say that the table is *exactly* the model's function mapped over the same domain
(so the domain is complete and every entry agrees).  They do not depend on how the Go source is
written — helpers, `switch` or `if`, names — only on what it does. -/

/-- **session.go `negotiateSession`, what a session starts with**: for every kind of connection
(`net.Conn`, plain `io.ReadWriter`, clear-text wrapper with a `ConnectionState()` method,
`*tls.Conn`) and the initial states 0, `Secure`, `Authn`, `S2S`, the `SessionState` the real
negotiator sees at its first call is the model's `init` — `Secure` is added exactly on a
`*tls.Conn`, never on a clear-text wrapper that merely has the method. -/
theorem C02_gen_start_state_table :
    Generated.C02.startStateProbe = some (startStateDomain.map fun i => (i, startStateModel i)) := by
  decide +kernel

/-- **websocket/ws.go `NewSession`, what a WebSocket session starts with**: for a `net.Conn`, a plain
`io.ReadWriter` and a client `*websocket.Conn` (real opening handshake) for every scheme of its
origin URL (http, https, ws, wss) × location URL (ws, wss), the `SessionState` of the session the
real `websocket.NewSession` creates is the model's `init`: `Secure` exactly when the connection is
a `*websocket.Conn` whose LOCATION is a `wss:` URL — whatever the origin. -/
theorem C02_gen_ws_start_state_table :
    Generated.C02.wsStartProbe = some (wsStartDomain.map fun i => (i, wsStartModel i)) := by
  decide +kernel

/-- **negotiator.go + features.go, the first features list**: for every tee variant (off, TeeIn,
TeeOut, both), every clear connection kind — TCP framing and WebSocket framing (raw carriers
and client `*websocket.Conn`s with an http:, https:, wss: origin and a ws: location, created by
`websocket.NewSession` / `websocket.Negotiator`) —, the first list empty / naming only an unknown
feature / STARTTLS optional / STARTTLS required, and a peer that then stays silent or says
`<proceed/>` and continues inside TLS, the observable trace and the outcome of the real
`NewSession` are the model's `run` (with the three features.go behaviours C02 does not constrain
as measured).  In particular the RFC 7590 attempt is made on the first list whether or not the
tee step came first, and never again after the switch. -/
theorem C02_gen_first_list_table :
    ∃ rr rt sk, Generated.C02.featuresFlags = some (rr, rt, sk) ∧
      Generated.C02.firstListProbe = some (firstListDomain.map fun i => (i, firstListModel rr rt sk i)) := by
  refine ⟨_, _, _, rfl, ?_⟩
  decide +kernel

/-- **starttls.go `Negotiate`, called directly**: for the default and an explicit configuration and
every kind of answer of the peer (end of input, `<proceed/>`, `<failure/>`, a stream error,
another element of the TLS namespace, a foreign element, white space, bytes that are not XML, a
stream header, a features list) what the real function wrote and returned — mask, kind of new
`io.ReadWriter`, error class — is the model's `negotiateOne`: only `<proceed/>` yields a layer,
and then `Secure` and a `*tls.Conn` and nothing else. -/
theorem C02_gen_negotiate_table :
    Generated.C02.negotiateProbe = some (negotiateDomain.map fun i => (i, negotiateModel i)) := by
  decide +kernel

/-- **starttls.go, one feature value, many sessions**: for the default and an explicit
configuration and every history of one or two sessions out of five shapes (own and remote domain
different, c2s and s2s, STARTTLS advertised / forced / refused / never reached) negotiated with ONE
`StartTLS` value, the server names in the real ClientHellos are the model's `sessions` — the
closure variable is never changed (`negotiateName` returns it as it was). -/
theorem C02_gen_server_name_table :
    Generated.C02.serverNameProbe = some (serverNameDomain.map fun i => (i, serverNameModel i)) := by
  decide +kernel

/-- **negotiator.go, the addresses of the peer's stream header, probed on the real code**: for
every `to` of the address universe (none, own address, other localpart / domain / resourcepart,
bare domains, same and other lengths) and every kind of `from`, in the header received in clear
text and in the header received after the TLS switch, on c2s and s2s sessions, the observable
trace and the outcome of the real `NewSession` are the model's: a header is
accepted only with the session's own address (or none) as `to`, the ClientHello names the own
domain, the own address stays what it was. -/
theorem C02_gen_header_address_table :
    Generated.C02.headerAddressProbe = some headerAddressExpected ∧
    ∀ rr rt sk, headerAddressExpected = headerAddressDomain.map fun i => (i, headerAddressModel rr rt sk i) := by
  refine ⟨by decide, ?_⟩
  intro rr rt sk
  cases rr <;> cases rt <;> cases sk <;> decide +kernel

/-- … and `LocalAddr()` after each of those calls is the model's: the address the session was
created with -/
theorem C02_gen_header_local_table :
    Generated.C02.headerLocalProbe = some headerLocalExpected ∧
    ∀ rr rt sk, headerLocalExpected = headerAddressDomain.map fun i => (i, headerLocalModel rr rt sk i) := by
  refine ⟨by decide, ?_⟩
  intro rr rt sk
  cases rr <;> cases rt <;> cases sk <;> decide +kernel

/-- **addresses are values** (stream.Info.FromStartElement, jid unmarshalling): for every ordered
pair of an address universe that contains addresses of equal and of different shapes, parsing a
header into a shallow copy of a stream info (`newIn := *in`) gives the copy the header's address
and leaves the value it was copied from — the session's, the caller's — as it was.  The model's
sessions are immutable values; this is the corresponding fact about the code. -/
theorem C02_gen_info_copy_table :
    Generated.C02.infoCopyProbe = some (infoCopyDomain.map fun i => (i, infoCopyModel i)) := by
  decide +kernel

/-- **sasl.go, every configuration of mechanisms**: for each of the 31 non-empty sets of PLAIN,
SCRAM-SHA-1(-PLUS), SCRAM-SHA-256(-PLUS) the value the real `xmpp.SASL` returns requires `Secure`,
is prohibited once `Authn`, and is negotiable — the masks do not depend on the mechanisms. -/
theorem C02_gen_sasl_masks_all_mechanisms :
    Generated.C02.saslMaskProbe = some (saslMaskDomain.map fun m => (m, saslMaskModel m)) := by
  decide +kernel

/-- starttls.go: the code reached from `StartTLS` writes no state shared by the sessions that use
one feature value — no variable captured by the `Negotiate`/`List`/`Parse` closures (the
configuration), no package-level variable, no field of an object built with the value -/
theorem C02_gen_starttls_value_writes_nothing : Generated.C02.startTLSSharedWrites = some [] := by
  decide

/-! ### One `Negotiate` call of the STARTTLS feature, from every state

(`C02_gen_negotiate_table` ties `negotiateOne` to the real function on eleven answers from the
initial state; these hold for every session state, read-ahead, script and configuration.) -/

/-- **A layer only on `<proceed/>`, and then `Secure` and nothing else.**  If the call returns
without an error, the request was written, the next unit the peer sent was `<proceed/>`, the mask is
exactly `Secure` — not `Ready`: a session is never done before the stream has been restarted
inside the layer — and the new `io.ReadWriter` is a TLS client. -/
theorem C02_negotiate_layer_only_on_proceed (req : Bool) (res : NegRes) (s s' : Sess) (m : Mask) (rw : Rw)
    (h : negotiateOne ⟨0, req, startTLS⟩ res s = .ok (m, rw) s') :
    m = Secure ∧ rw = .tls ∧
    ∃ s1, write .wStartTLS (chooseConfig s) = .ok () s1 ∧ pull s1 = .ok .proceed s' := by
  obtain ⟨hm, hr, s1, s2, hw, hp, rfl⟩ := negotiateOne_starttls_ok h
  exact ⟨hm, hr, s1, hw, hp⟩

/-- **In clear text the call writes the request and nothing else**, whatever the peer answers and
however the call ends (result or error): the trace grows by the request, written outside any
layer, and at most one delivery after it. -/
theorem C02_negotiate_clear_writes_only_request (req : Bool) (res : NegRes) (s : Sess) (ht : s.tls = false) :
    match negotiateOne ⟨0, req, startTLS⟩ res s with
    | .ok _ s' | .stop _ s' =>
      s'.trace = .wStartTLS false :: s.trace ∨
      ∃ o, s'.trace = .deliver o false :: .wStartTLS false :: s.trace :=
  negotiateOne_starttls_clear_trace ht

/-- both happen: `<proceed/>` gives (`Secure`, TLS client) after one write; `<failure/>` an error
after the same write -/
example : negotiateModel (false, some .proceed) = ([.wStartTLS false], .ok 1 .tls) ∧
    negotiateModel (true, some .failure) = ([.wStartTLS false], .err .refused) := by
  decide +kernel

/-! ### What makes a session start `Secure`: the kind of connection -/

/-- **Only a real TLS connection starts `Secure`.**  Whatever `io.ReadWriter` the session is
created on — a plain one, a `net.Conn`, a clear-text wrapper with a `ConnectionState()` method,
a `*tls.Conn` — a TLS layer is in place from the start, and `Secure` is set by the library, exactly
when it is a `*tls.Conn`. -/
theorem C02_starts_secure_only_on_tls (env : Env) (st0 : Mask) (i : Input) (hs : has st0 Secure = false) :
    (init env st0 i).tls = env.conn.startsSecure ∧
    (has (init env st0 i).state Secure = true ↔
      (∃ n, env.conn = .tlsConn n) ∨ ∃ c o, env.conn = .wsConn c o .wss) := by
  refine ⟨rfl, ?_⟩
  cases hc : env.conn with
  | tlsConn n =>
    simp only [init, hc, ConnKind.startsSecure, if_true]
    exact ⟨fun _ => .inl ⟨n, rfl⟩, fun _ => has_or_self st0 Secure⟩
  | plainRW => simp [init, hc, ConnKind.startsSecure, hs]
  | netConn => simp [init, hc, ConnKind.startsSecure, hs]
  | stateMethod => simp [init, hc, ConnKind.startsSecure, hs]
  | wsRaw n => simp [init, hc, ConnKind.startsSecure, hs]
  | wsConn c o l =>
    cases l
    · simp [init, hc, ConnKind.startsSecure, hs]
    · simp [init, hc, ConnKind.startsSecure, hs]
    · simp [init, hc, ConnKind.startsSecure, hs]
    · simp only [init, hc, ConnKind.startsSecure, beq_self_eq_true, if_true]
      exact ⟨fun _ => .inr ⟨c, o, rfl⟩, fun _ => has_or_self st0 Secure⟩

/-- **A session starts `Secure` only over a transport that is TLS.**  `transportTLS`: a `*tls.Conn`,
or a `*websocket.Conn` whose location is a `wss:` URL (RFC 6455: that scheme is WebSocket over TLS;
the origin URL, the side of the handshake and the framing say nothing about the transport).  So the
premise "on a connection that is not yet secure" of every other theorem (`startsSecure = false`)
holds on every connection that really is clear text. -/
theorem C02_starts_secure_implies_transport_tls (c : ConnKind) (h : c.startsSecure = true) :
    c.transportTLS = true := by
  cases c <;> simp_all [ConnKind.startsSecure, ConnKind.transportTLS]

/-- … and the converse on a `*tls.Conn` / `*websocket.Conn`: a connection of these two types that
runs over TLS is recognised (no STARTTLS inside TLS). -/
theorem C02_transport_tls_starts_secure (c : ConnKind) (h : c.transportTLS = true) :
    c.startsSecure = true := by
  cases c <;> simp_all [ConnKind.startsSecure, ConnKind.transportTLS]

/-- the origin of a WebSocket connection and the side of its handshake do not matter -/
theorem C02_ws_origin_irrelevant (cfg : Cfg) (env : Env) (c c' : Bool) (o o' l : Scheme) (st0 : Mask)
    (i : Input) (fuel : Nat) :
    run cfg { env with conn := .wsConn c o l } st0 i fuel = run cfg { env with conn := .wsConn c' o' l } st0 i fuel := by
  cases l <;> rfl

/-- **The WebSocket framing changes nothing at the level of units.**  On a clear-text carrier a
session with the WebSocket framing (`websocket.Negotiator`: the same negotiator with `<open/>`
headers, every configured feature — STARTTLS included — handed to `negotiateFeatures`) runs exactly
as on a `net.Conn` with the TCP framing: same writes, same layer switch, same outcome.  (A model
decision, tied to the code by the first-list table over both framings and by the differential run
over the framing dimension; together with `C02_no_cleartext` … it says that a `ws:` connection gets
the full RFC 7590 protection.) -/
theorem C02_ws_framing_agrees (cfg : Cfg) (env : Env) (st0 : Mask) (i : Input) (fuel : Nat)
    (k : ConnKind) (hw : k.wsFraming = true) (hc : k.transportTLS = false) :
    run cfg { env with conn := k } st0 i fuel = run cfg { env with conn := .netConn } st0 i fuel := by
  cases k with
  | wsRaw n => rfl
  | wsConn c o l => cases l <;> first | rfl | simp [ConnKind.transportTLS] at hc
  | _ => simp [ConnKind.wsFraming] at hw


/-- a clear-text connection is a clear-text connection, with or without a `ConnectionState()`
method, `net.Conn` or not: the runs are identical -/
theorem C02_clear_connection_kinds_agree (cfg : Cfg) (env : Env) (st0 : Mask) (i : Input) (fuel : Nat) :
    run cfg { env with conn := .stateMethod } st0 i fuel = run cfg { env with conn := .netConn } st0 i fuel ∧
    run cfg { env with conn := .plainRW } st0 i fuel = run cfg { env with conn := .netConn } st0 i fuel :=
  ⟨rfl, rfl⟩

/-- on a `*tls.Conn` (already secure) no STARTTLS is attempted and nothing is written outside the
layer; the outcome is a session on that layer or an error -/
theorem C02_secure_connection_no_starttls (cfg : Cfg) (env : Env) (st0 : Mask) (hk : env.conn.startsSecure = true)
    (i : Input) (fuel : Nat) :
    (run cfg env st0 i fuel).1.filter isSig = [] ∧
    ∀ st t h, (run cfg env st0 i fuel).2 = .done st t h → has st Secure = true ∧ t = true := by
  have := run_secure_conn cfg env st0 hk i fuel
  refine ⟨this.1, ?_⟩
  intro st t h hd
  have g := this.2
  rw [hd] at g
  exact g

/-! ### Nothing but the header and the STARTTLS request in clear text; ready only when secured

(for every kind of connection: `Env.conn` is universally quantified) -/

/-- **No clear-text traffic.**  For every peer, every callback behaviour and every pick order:
every write of the session that did not go through an installed TLS layer is the stream header
or the STARTTLS request — no other feature ever writes in clear text. -/
theorem C02_no_cleartext (cfg : Cfg) (env : Env) (st0 : Mask) (hc : Compliant cfg.toFCfg st0)
    (hs : has st0 Secure = false) (hr : has st0 Ready = false) (i : Input) (fuel : Nat) :
    ∀ e ∈ (run cfg env st0 i fuel).1, ∀ id, e ≠ .wOther id false := by
  intro e he id heq
  have := (run_safe cfg env st0 hc hs hr i fuel).1 e he
  rw [heq] at this
  cases this

/-- **Ready only when protected.**  Whatever the peer advertises, omits or answers, the outcome
is an error or a session whose state has `Secure` and whose connection has a TLS layer. -/
theorem C02_ready_only_secured (cfg : Cfg) (env : Env) (st0 : Mask) (hc : Compliant cfg.toFCfg st0)
    (hs : has st0 Secure = false) (hr : has st0 Ready = false) (i : Input) (fuel : Nat)
    (st : Mask) (t hsk : Bool) (hd : (run cfg env st0 i fuel).2 = .done st t hsk) :
    has st Secure = true ∧ t = true := by
  have := (run_safe cfg env st0 hc hs hr i fuel).2
  rw [hd] at this
  exact this

/-- **At most one header and one request in clear text, then the switch, then nothing.**  The
subsequence of the trace made of the writes that did not go through a TLS layer and of the layer
switches (`isSig`) is a prefix of `[header, STARTTLS request, switch]`: nothing else is ever
written in clear text, nothing is written in clear text after the switch, there is at most one
switch, and it comes only after the request. -/
theorem C02_clear_trace_shape (cfg : Cfg) (env : Env) (st0 : Mask) (hc : Compliant cfg.toFCfg st0)
    (hs : has st0 Secure = false) (hr : has st0 Ready = false) (hk : env.conn.startsSecure = false)
    (i : Input) (fuel : Nat) :
    (run cfg env st0 i fuel).1.filter isSig <+: [.wHdr false, .wStartTLS false, .switch] := by
  rcases (run_shape cfg env st0 hc hs hr hk i fuel).1 with h | h | h | h <;> rw [h]
  · exact ⟨_, rfl⟩
  · exact ⟨[.wStartTLS false, .switch], rfl⟩
  · exact ⟨[.switch], rfl⟩
  · exact ⟨[], rfl⟩

/-- **A session only after the whole exchange.**  When `NewSession` returns a session, exactly
the header and the STARTTLS request were written in clear text and the TLS layer was installed
after them (in particular the RFC 7590 attempt was made even if STARTTLS was not advertised). -/
theorem C02_session_after_full_exchange (cfg : Cfg) (env : Env) (st0 : Mask) (hc : Compliant cfg.toFCfg st0)
    (hs : has st0 Secure = false) (hr : has st0 Ready = false) (hk : env.conn.startsSecure = false)
    (i : Input) (fuel : Nat)
    (st : Mask) (t hsk : Bool) (hd : (run cfg env st0 i fuel).2 = .done st t hsk) :
    (run cfg env st0 i fuel).1.filter isSig = [.wHdr false, .wStartTLS false, .switch] :=
  (run_shape cfg env st0 hc hs hr hk i fuel).2 st t hsk hd

/-- the two theorems above in the words of the property: it suffices that every other
configured feature has `Secure` among its `Necessary` bits -/
theorem C02_secure_features_suffice (cfg : Cfg) (st0 : Mask) (hs : has st0 Secure = false)
    (h : ∀ f ∈ cfg.others, has f.nec Secure = true) : Compliant cfg.toFCfg st0 :=
  compliant_of_secure cfg.toFCfg st0 hs h

/-- the built-in features: SASL (`Necessary: Secure`) and resource binding (`Necessary: Authn`),
with the masks read from the real values, are not negotiable on a stream that is neither
secured nor authenticated — so a client configured with STARTTLS, SASL and bind satisfies the
hypothesis of the theorems above -/
theorem C02_gen_builtin_features_comply :
    ∃ sn sp bn bp, Generated.C02.saslNecessary = some sn ∧ Generated.C02.saslProhibited = some sp ∧
      Generated.C02.bindNecessary = some bn ∧ Generated.C02.bindProhibited = some bp ∧
      ∀ st0 : Mask, has st0 Secure = false → has st0 Authn = false →
        ∀ rr rt sk, Compliant ⟨rr, rt, sk, [⟨7, BitVec.ofNat 8 sn, BitVec.ofNat 8 sp, true⟩,
                                     ⟨8, BitVec.ofNat 8 bn, BitVec.ofNat 8 bp, true⟩]⟩ st0 := by
  refine ⟨_, _, _, _, rfl, rfl, rfl, rfl, ?_⟩
  intro st0 hs ha rr rt sk f hf
  simp only [List.mem_cons, List.not_mem_nil, or_false] at hf
  revert st0
  rcases hf with rfl | rfl <;> decide

/-- … and so is STARTTLS + SASL + bind for EVERY set of mechanisms the authentication feature can
be configured with (the table of the real values, one row per set) -/
theorem C02_gen_builtin_features_comply_all_mechanisms :
    ∃ tbl bn bp, Generated.C02.saslMaskProbe = some tbl ∧ Generated.C02.bindNecessary = some bn ∧
      Generated.C02.bindProhibited = some bp ∧ tbl.map (·.1) = saslMaskDomain ∧
      ∀ row ∈ tbl, ∀ st0 : Mask, has st0 Secure = false → has st0 Authn = false →
        ∀ rr rt sk, Compliant ⟨rr, rt, sk, [⟨7, BitVec.ofNat 8 row.2.1, BitVec.ofNat 8 row.2.2.1, row.2.2.2⟩,
                                     ⟨8, BitVec.ofNat 8 bn, BitVec.ofNat 8 bp, true⟩]⟩ st0 := by
  refine ⟨_, _, _, C02_gen_sasl_masks_all_mechanisms, rfl, rfl, ?_, ?_⟩
  · simp [List.map_map, Function.comp_def]
  · intro row hrow
    obtain ⟨m, _, rfl⟩ := List.mem_map.1 hrow
    simp only [saslMaskModel, saslFeature]
    intro st0 hs ha rr rt sk f hf
    simp only [List.mem_cons, List.not_mem_nil, or_false] at hf
    revert st0
    rcases hf with rfl | rfl <;> decide

/-- **The negotiation ends with the peer's input.**  Every negotiator call that does not stop
consumes at least one unit of the peer's script; with more fuel than the script has units a run
never ends for lack of fuel — the loops of `negotiateSession` and `intstream.Expect` cannot
spin, whatever the peer sends (so the `∀ fuel` of the other theorems hides no diverging run). -/
theorem C02_terminates (cfg : Cfg) (env : Env) (st0 : Mask) (i : Input) (fuel : Nat) (h : i.units < fuel) :
    (run cfg env st0 i fuel).2 ≠ .stop .fuel :=
  run_nf cfg env st0 i fuel h

/-! ### Clear text received before the layer switch is never delivered after it -/

/-- **Pre-buffered clear text is dropped.**  No unit whose bytes arrived in clear text is handed
to an XML consumer once a TLS layer is installed (no hypothesis on the configuration). -/
theorem C02_prebuffer_dropped (cfg : Cfg) (env : Env) (st0 : Mask) (i : Input) (fuel : Nat) :
    Ev.deliver true true ∉ (run cfg env st0 i fuel).1 := by
  unfold run
  split
  · intro h; cases h
  · intro h
    have hp : PB (init env st0 i) := ⟨fun _ => rfl, fun e he => (by cases he)⟩
    have := (loop_all PB_io PB_neg PB_install cfg fuel false (init env st0 i) hp).2 _ (List.mem_reverse.1 h)
    cases this

/-! ### The tee -/

/-- **The tee is transparent.**  The trace (every write, every delivery, the layer switch) and
the outcome of a run are equal with and without `TeeIn`/`TeeOut`. -/
theorem C02_tee_transparent (cfg : Cfg) (env : Env) (st0 : Mask) (i : Input) (fuel : Nat) :
    run { cfg with tee := true } env st0 i fuel = run { cfg with tee := false } env st0 i fuel := by
  unfold run
  split
  · rfl
  · rw [loop_tee cfg fuel false (init env st0 i) (Or.inr ⟨rfl, rfl, rfl⟩)]

/-! ### The server name of a reused feature value -/

/-- negotiating never changes the configuration captured by the feature value -/
theorem C02_feature_value_unchanged (cfg : Cfg) (env : Env) (st0 : Mask) (i : Input) (fuel : Nat) :
    capturedAfter cfg env st0 i fuel = env.captured :=
  (run_names cfg env st0 i fuel).2.1

/-! ### The session's own address is not the peer's to choose

`Session.LocalAddr()` is `Session.in.Info.To`, and the negotiator assigns the stream info from
every header it accepts (`*in = newIn`); `StartTLS(nil)` names `LocalAddr().Domain()`.  The peer
writes that header — before TLS anyone on the path does. -/

/-- **A header is accepted only if its `to` is absent or the address the session already has, and
its `from` is absent or the remote address** — in every session state, secured or not (the check
does not depend on the state at all). -/
theorem C02_header_address_check (f : HFrom) (t : Option Addr) (s : Sess) :
    (∀ s', acceptHdr f t s = .ok () s' → f ≠ .differ ∧ (t = none ∨ t = some s.laddr) ∧ s' = s) ∧
    (f = .differ ∨ (∃ a, t = some a ∧ a ≠ s.laddr) → acceptHdr f t s = .stop (.err .proto) s) := by
  rw [acceptHdr_eq]
  constructor
  · intro s' h
    split at h
    · next hc =>
      cases h
      have hc' : (f != HFrom.differ) = true ∧ ((t == none) = true ∨ (t == some s.laddr) = true) := by
        simpa [hdrAccepted] using hc
      refine ⟨by simpa using hc'.1, ?_, rfl⟩
      rcases hc'.2 with h1 | h1
      · exact .inl (by simpa using h1)
      · exact .inr (by simpa using h1)
    · cases h
  · intro h
    have : hdrAccepted f t s.laddr = false := by
      rcases h with rfl | ⟨a, rfl, hne⟩
      · simp [hdrAccepted]
      · simp [hdrAccepted, hne]
    rw [this]; rfl

/-- **The own address is fixed.**  Whatever headers the peer sends — any `to`, any number of
restarts, in clear text or inside TLS — `LocalAddr()` after the call (on a session or after an
error) is the address the session was created with. -/
theorem C02_own_address_fixed (cfg : Cfg) (env : Env) (st0 : Mask) (i : Input) (fuel : Nat) :
    localAfter cfg env st0 i fuel = ownAddr env st0 :=
  (run_names cfg env st0 i fuel).2.2

/-- a header whose `to` is another domain (own address `user@d0`) is refused in clear text: no
STARTTLS request, no ClientHello; with the own address as `to` the session goes through and the
ClientHello names `d0` -/
example :
    run { rr := false, rt := false, sk := true, others := [], tee := false } ⟨0, 1, none, .netConn⟩ 0
      ⟨[[.hdrA .same (some ⟨1, 1, 0⟩), .list [⟨0, true, true⟩]], [.proceed]],
       [.unit (.hdr true), .unit (.list [])], [(0, ⟨0, false, false⟩)]⟩ 20
      = ([.wHdr false, .deliver true false], .stop (.err .proto)) ∧
    (run { rr := false, rt := false, sk := true, others := [], tee := false } ⟨0, 1, none, .netConn⟩ 0
      ⟨[[.hdrA .same (some ⟨1, 0, 0⟩), .list [⟨0, true, true⟩]], [.proceed]],
       [.unit (.hdrA .absent none), .unit (.list [])], [(0, ⟨0, false, false⟩)]⟩ 20).2 = .done 5 true true ∧
    Ev.hello (.dom 0) ∈ (run { rr := false, rt := false, sk := true, others := [], tee := false } ⟨0, 1, none, .netConn⟩ 0
      ⟨[[.hdrA .same (some ⟨1, 0, 0⟩), .list [⟨0, true, true⟩]], [.proceed]],
       [.unit (.hdrA .absent none), .unit (.list [])], [(0, ⟨0, false, false⟩)]⟩ 20).1 := by
  decide +kernel

/-- every ClientHello of a session names the server of the explicit configuration, or — with
`StartTLS(nil)` — the domain of the session's own address (whatever the peer does, whether the
handshake succeeds or not) -/
theorem C02_hello_names (cfg : Cfg) (env : Env) (st0 : Mask) (i : Input) (fuel : Nat) (n : Name)
    (hk : env.conn.startsSecure = false) (h : Ev.hello n ∈ (run cfg env st0 i fuel).1) :
    n = match env.captured with
        | some x => x
        | none => Name.dom env.domain := by
  rcases (run_names cfg env st0 i fuel).1 n h with this | this
  · rw [this]
    cases env.captured <;> rfl
  · cases hc : env.conn <;> simp [hc, ConnKind.name, ConnKind.startsSecure] at this hk

/-- **The server name is a function of the local address only.**  Two sessions that differ only in
their remote address (the `location` argument of `NewSession`: a hosting domain, the other
server of an s2s stream) have the same trace — the same ClientHello names — and outcome. -/
theorem C02_remote_address_irrelevant (cfg : Cfg) (env : Env) (r : Nat) (st0 : Mask) (i : Input) (fuel : Nat) :
    run cfg { env with remote := r } st0 i fuel = run cfg env st0 i fuel := rfl

/-- **Server name.**  For every history of sessions (any configurations, own and remote
domains equal or different, c2s or s2s state, any peers and outcomes) negotiated with one value
of `StartTLS(nil)`, every ClientHello of the k-th session names the domainpart of the k-th
session's OWN address. -/
theorem C02_servername (specs : List SessionSpec) :
    ∀ (k : Nat) (r : List Ev × Outcome) (x : SessionSpec),
      (history none specs)[k]? = some r → specs[k]? = some x → x.conn.startsSecure = false →
      ∀ n, Ev.hello n ∈ r.1 → n = Name.dom x.domain := by
  induction specs with
  | nil => intro k r x h; simp [history] at h
  | cons y rest ih =>
    intro k r x hr hx hk n hn
    cases k with
    | zero =>
      simp only [history, List.getElem?_cons_zero, Option.some.injEq] at hr hx
      subst hr hx
      exact C02_hello_names y.cfg ⟨y.domain, y.remote, none, y.conn⟩ y.state0 y.input y.fuel n hk hn
    | succ k =>
      simp only [history, List.getElem?_cons_succ] at hr hx
      rw [C02_feature_value_unchanged] at hr
      exact ih k r x hr hx hk n hn

/-- the feature-value-level summary used by the `sni` protocol line: the ClientHello names of a
list of sessions (own domain, remote domain, s2s flag) that get as far as `kind` says -/
theorem C02_servername_summary (l : List SniSess) :
    sessions none l = l.map fun x => match x.kind with
      | .p | .x => some (Name.dom x.domain)
      | _ => none := by
  induction l with
  | nil => rfl
  | cons x rest ih =>
    obtain ⟨d, r, s2s, k⟩ := x
    cases k <;> simp [sessions, negotiateName, ih]

/-- the model's `Negotiate` is one instance of the parameter -/
theorem C02_sessions_instance (cap : Option Name) (l : List SniSess) :
    sessions cap l = sessionsG negotiateName cap l := by
  induction l generalizing cap with
  | nil => rfl
  | cons x rest ih =>
    obtain ⟨d, r, s2s, k⟩ := x
    cases k <;> simp [sessions, sessionsG, ih]

/-- **What the server-name clause needs of `Negotiate`, made explicit.**  For ANY `Negotiate`
(a function from the closure variable and the session's own domain to the closure variable
afterwards and the server name): if it leaves a nil closure variable nil (`hkeep`) and the default
configuration names the own domain (`hdef`), then every ClientHello of every session of every
history over one `StartTLS(nil)` value names that session's own domain.  `hkeep` is the assumption
about starttls.go; it is tied to the code by the server-name table (all histories of one to three
sessions, A,B,A included) and the shared-writes fact, not derived. -/
theorem C02_servername_needs_value_unchanged (f : NameFn)
    (hkeep : ∀ d, (f none d).1 = none) (hdef : ∀ d, (f none d).2 = .dom d) (l : List SniSess) :
    sessionsG f none l = l.map fun x => match x.kind with
      | .p | .x => some (Name.dom x.domain)
      | _ => none := by
  induction l with
  | nil => rfl
  | cons x rest ih =>
    obtain ⟨d, r, s2s, k⟩ := x
    cases k <;> simp [sessionsG, hkeep, hdef, ih]

/-- … and it does need it: with the `Negotiate` of the code before bd73f11 (default configuration
assigned to the closure variable) the second session of a history offers the first one's domain. -/
theorem C02_servername_capturing_fails :
    ¬ ∀ l : List SniSess, sessionsG negotiateNameCapturing none l = l.map fun x => match x.kind with
      | .p | .x => some (Name.dom x.domain)
      | _ => none := by
  intro h
  have := h [⟨0, 0, false, .p⟩, ⟨1, 1, false, .p⟩]
  revert this
  decide

/-- non-vacuity: the model's `Negotiate` meets both hypotheses -/
example : (∀ d, (negotiateName none d).1 = none) ∧ (∀ d, (negotiateName none d).2 = .dom d) :=
  ⟨fun _ => rfl, fun _ => rfl⟩

/-- with an explicit configuration every ClientHello names that configuration's server -/
theorem C02_servername_explicit (l : List SniSess) :
    sessions (some .explicit) l = l.map fun x => match x.kind with
      | .p | .x => some Name.explicit
      | _ => none := by
  induction l with
  | nil => rfl
  | cons x rest ih =>
    obtain ⟨d, r, s2s, k⟩ := x
    cases k <;> simp [sessions, negotiateName, ih]

/-! ### `Session.Feature` on the protected stream; sessions that share a negotiator -/

/-- **The advertised-features map is that of the current stream.**  `negotiateSession` wipes
`Session.features` whenever a new `io.ReadWriter` is installed, so once a TLS layer is in place
everything `Session.Feature` reports was advertised by a features list read *inside* that layer —
nothing a peer (or an attacker) advertised in clear text before `<proceed/>` is ever reported as a
feature of the protected stream.  For every configuration, connection kind, peer and outcome
(session or error). -/
theorem C02_features_cache_is_current_stream (cfg : Cfg) (env : Env) (st0 : Mask) (i : Input) (fuel : Nat)
    (ht : tlsAfter cfg env st0 i fuel = true) :
    ∀ x ∈ featuresAfter cfg env st0 i fuel, x.2 = true :=
  run_features cfg env st0 i fuel ht

/-- negotiator.go: the code reached from `NewNegotiator` (helpers followed two levels, closures and
method values included) writes no state shared by the sessions negotiated with one value — no
variable captured by the returned closure, no package-level variable, no field of an object built
with the value: the first-features-list flag, the tee handle and the stream config live in the
per-session `negotiatorState` -/
theorem C02_gen_negotiator_closure_writes_nothing : Generated.C02.negotiatorSharedWrites = some [] := by
  decide

/-- **Sessions are independent of each other.**  A negotiator value has no mutable state in the
model (the first-list flag is a field of the session, set by `init`), and a STARTTLS feature
value is never changed by a session (`C02_feature_value_unchanged`): in a history of sessions
negotiated with one negotiator and one feature value, every session's trace and outcome are those
of the same session run alone — in particular the downgrade protection of the first features list
is not used up by an earlier session. -/
theorem C02_sessions_independent (cap : Option Name) (specs : List SessionSpec) :
    history cap specs =
      specs.map fun x => run x.cfg ⟨x.domain, x.remote, cap, x.conn⟩ x.state0 x.input x.fuel := by
  induction specs generalizing cap with
  | nil => rfl
  | cons x rest ih =>
    simp only [history, List.map_cons]
    rw [C02_feature_value_unchanged, ih]

/-! ### Bytes: units split across reads, re-chunking

`encoding/xml` is a parameter (`Tokeniser`): for the bytes from a unit boundary on it says whether
a complete unit is a prefix of them; a longer input does not change an answer already given and
a unit has at least one byte.  The peer's byte stream may be cut into reads anywhere. -/

/-- **What the decoder delivers does not depend on the chunking.**  For two chunkings of the same
byte stream (read-ahead ++ remaining chunks), any number of pulls delivers the same units. -/
theorem C02_rechunking_units (tk : Tokeniser) (k : Nat) (cs1 cs2 : List Bs) (b1 b2 : Bs)
    (h : b1 ++ cs1.flatten = b2 ++ cs2.flatten) : unitsB tk k cs1 b1 = unitsB tk k cs2 b2 :=
  unitsB_rechunk tk k cs1 cs2 b1 b2 h

/-- **The unit/segment model is the byte-level decoder.**  The byte-level decoder with read-ahead
over any chunking behaves as the unit-level decoder (`pullU` — which is `pull` of the session
model in clear text, `pull_clear_ok`/`pull_clear_stop`) over the induced segmentation, in which a
unit split across reads belongs to the read that completes it: same unit (or both at the end of
the stream), and afterwards again corresponding read-ahead and remaining input — so what sits in
the read-ahead when a new layer is installed corresponds as well. -/
theorem C02_byte_decoder_refines (tk : Tokeniser) (cs : List Bs) (b : Bs) :
    match pullB tk cs b with
    | some (u, b', cs') =>
      pullU (tokAll tk b).1 (absChunks tk (tokAll tk b).2 cs) =
        some (u, (tokAll tk b').1, absChunks tk (tokAll tk b').2 cs')
    | none => pullU (tokAll tk b).1 (absChunks tk (tokAll tk b).2 cs) = none :=
  pullB_refines tk cs b

/-- **A bounded read-ahead is one more chunking.**  The decoder reads through a buffer of bounded
size (4096 bytes), so a segment longer than that arrives as several reads: the units delivered are
the same, and by `C02_byte_decoder_refines` the run is the unit-level run over the segmentation
those reads induce — in particular clear text pipelined behind `<proceed/>` beyond the buffer's
size is NOT in the read-ahead that is dropped at the switch: it is still on the connection, where
the TLS layer finds it (the handshake fails; see the example below and the `oversized` scripts of
the harness, which hands the model exactly this induced segmentation). -/
theorem C02_bounded_read_ahead (tk : Tokeniser) (k n : Nat) (cs : List Bs) :
    unitsB tk k (boundedReads n cs) [] = unitsB tk k cs [] :=
  C02_rechunking_units tk k _ _ [] [] (by rw [boundedReads_flatten])

/-- "H P w w" sent as one segment, read two bytes at a time: `<proceed/>` completes in the first
read, the pipelined units arrive in the second — the segmentation of the second script below -/
example : absChunks byteTokeniser [] (boundedReads 1 [[72, 80, 32, 32]]) = [[.hdr true, .proceed], [.space, .space]] := by
  decide +kernel

/-- what that means for the session: pipelined clear text inside the read-ahead is dropped and the
handshake goes on; beyond it, the TLS layer meets clear text and the outcome is an error -/
example :
    (run { rr := false, rt := false, sk := true, others := [], tee := false } ⟨0, 0, none, .netConn⟩ 0
      ⟨[[.hdr true, .list [⟨0, true, true⟩]], [.proceed, .space]], [.unit (.hdr true), .unit (.list [])], [(0, ⟨0, false, false⟩)]⟩ 20).2
      = .done 5 true true ∧
    (run { rr := false, rt := false, sk := true, others := [], tee := false } ⟨0, 0, none, .netConn⟩ 0
      ⟨[[.hdr true, .list [⟨0, true, true⟩]], [.proceed], [.space]], [.unit (.hdr true), .unit (.list [])], [(0, ⟨0, false, false⟩)]⟩ 20).2
      = .stop (.err .tls) := by
  decide +kernel

/-- **The clear-text phase is invariant under re-chunking of the peer's byte stream.**  Two
sessions whose peers send the same clear-text bytes cut into reads differently go through the
negotiator call in lock step: the same writes and deliveries (equal traces), the same stop reason,
or the same result (mask, new layer) with sessions that still differ only in the cut.  (Once a
TLS layer is installed the read-ahead is dropped: *that* depends on the cut, and is the subject
of `C02_prebuffer_dropped`.) -/
theorem C02_rechunking_clear_phase (tk : Tokeniser) (cfg : FCfg) (env : Env) (st0 : Mask) (cs1 cs2 : List Bs)
    (prot : List PItem) (oracle : List (Nat × NegRes)) (fuel : Nat) (hk : env.conn.startsSecure = false)
    (h : cs1.flatten = cs2.flatten) :
    RelRes (step cfg fuel (initBytes tk env st0 cs1 prot oracle))
           (step cfg fuel (initBytes tk env st0 cs2 prot oracle)) :=
  step_sync cfg fuel _ _ (initBytes_sync tk env st0 cs1 cs2 prot oracle hk h)

/-- the tokeniser contract is satisfiable, and the decoder does split/merge reads: "HP" delivered
as one read or as two gives the same two units -/
example : unitsB byteTokeniser 5 [[72, 80]] [] = [.hdr true, .proceed] ∧
    unitsB byteTokeniser 5 [[72], [], [80]] [] = [.hdr true, .proceed] :=
  ⟨rfl, rfl⟩

/-! ### A list is not done while a required feature it skipped has become negotiable

(features.go `dcd0f4b`; the model's `sk`.)  C02 does not depend on it — every theorem above holds
for both values — but the tie does: after the TLS switch a list may name a feature whose masks
did not hold when the list was read and hold once a voluntary feature of the same list has been
negotiated; the session is then not `Ready`, the list is an error. -/

theorem C02_list_not_done_while_required_pending (cfg : FCfg) (hsk : cfg.sk = true) (skipped : List Cached)
    (s : Sess) (c : Cached) (hc : c ∈ skipped) (hreq : c.req = true) (hneg : c.f.negotiable = true)
    (hnot : s.negotiated.contains c.id = false) (hel : eligible s.state c.f.nec c.f.proh = true) :
    finishList cfg skipped s = .stop (.err .proto) s := by
  unfold finishList
  rw [if_pos]
  simp only [hsk, Bool.true_and, List.any_eq_true]
  refine ⟨c, hc, ?_⟩
  rw [hreq, hneg, hnot, hel]
  rfl

/-- the two scripts of the round-3 report: STARTTLS, then a list with a voluntary feature that
sets Authn and a required one that needs Authn — "features advertised out of order", not Ready -/
example :
    (run { rr := false, rt := true, sk := true, tee := false,
           others := [⟨1, 1, 0, true⟩, ⟨2, 3, 4, true⟩] } ⟨1, 0, none, .netConn⟩ 0
      ⟨[[.hdr true, .list [], .proceed]],
       [.unit (.hdr true), .unit (.list [⟨2, true, true⟩, ⟨1, false, true⟩, ⟨9, false, true⟩])],
       [(0, ⟨0, false, false⟩), (1, ⟨2, false, false⟩)]⟩ 20).2 = .stop (.err .proto) := by
  decide +kernel

/-- … and with the older features.go (`sk = false`) the same script ended in a session -/
example :
    (run { rr := false, rt := true, sk := false, tee := false,
           others := [⟨1, 1, 0, true⟩, ⟨2, 3, 4, true⟩] } ⟨1, 0, none, .netConn⟩ 0
      ⟨[[.hdr true, .list [], .proceed]],
       [.unit (.hdr true), .unit (.list [⟨2, true, true⟩, ⟨1, false, true⟩, ⟨9, false, true⟩])],
       [(0, ⟨0, false, false⟩), (1, ⟨2, false, false⟩)]⟩ 20).2 = .done 7 true true := by
  decide +kernel

/-! ### Non-vacuity -/

def f1 : Feature := ⟨1, Secure, 0, true⟩
def cfg1 : Cfg := { rr := false, rt := false, sk := true, others := [f1], tee := true }

example : Compliant cfg1.toFCfg 0 := by
  intro f hf
  simp only [cfg1, List.mem_singleton] at hf
  subst hf
  decide

/-- an empty first features list: the client asks for TLS anyway and, told to proceed, ends with
a protected session — header and request in clear, everything else inside the layer -/
example :
    run cfg1 ⟨2, 3, none, .stateMethod⟩ 0 ⟨[[.hdr true, .list []], [.proceed, .hdr true]], [.unit (.hdr true), .unit (.list [])],
      [(0, ⟨0, false, false⟩)]⟩ 10 =
    ([.wHdr false, .deliver true false, .deliver true false, .wStartTLS false, .deliver true false,
      .switch, .hello (.dom 2), .wHdr true, .deliver false true, .deliver false true], .done 5 true true) := by
  decide +kernel

/-- the hypothesis matters: a feature that does not require `Secure` does write in clear text -/
example :
    Ev.wOther 1 false ∈ (run { rr := false, rt := false, sk := true, others := [⟨1, 0, 0, true⟩], tee := false } ⟨0, 1, none, .plainRW⟩ 0
      ⟨[[.hdr true, .list [⟨0, false, true⟩, ⟨1, false, true⟩]]], [], [(1, ⟨0, false, false⟩)]⟩ 10).1 := by
  decide +kernel

/-- the first-features-list flag matters: the same empty list read with the flag lost (what the
negotiator did with a tee before the fix) makes the session ready in clear text -/
example :
    (loop cfg1 10 false { init ⟨0, 1, none, .plainRW⟩ 0 ⟨[[.hdr true, .list []]], [], []⟩ with first := false }).2
      = .done 4 false false := by
  decide +kernel

/-- … and with the flag in place the client asks for TLS and, the peer being silent, fails -/
example :
    (loop cfg1 10 false (init ⟨0, 1, none, .plainRW⟩ 0 ⟨[[.hdr true, .list []]], [], [(0, ⟨0, false, false⟩)]⟩)).2
      = .stop (.err .read) := by
  decide +kernel

/-- optional STARTTLS refused: an error, never a clear-text session -/
example :
    (run cfg1 ⟨0, 1, none, .plainRW⟩ 0 ⟨[[.hdr true, .list [⟨0, false, true⟩]], [.failure]], [], [(0, ⟨0, false, false⟩)]⟩ 10).2
      = .stop (.err .refused) := by
  decide +kernel

/-- a stream error that declares the stream namespace itself ends the negotiation wherever it
arrives — also in place of the header, in both framings -/
example : (run cfg1 ⟨0, 0, none, .wsRaw true⟩ 0 ⟨[[.streamErrD]], [], []⟩ 10).2 = .stop (.err .streamerr) ∧
    (run cfg1 ⟨0, 0, none, .netConn⟩ 0 ⟨[[.streamErr]], [], []⟩ 10).2 = .stop (.err .proto) := by
  decide +kernel

/-- non-vacuity: an empty first list on a clear-text `*websocket.Conn` with an https origin — the
STARTTLS request is made, nothing else is written in clear, no session without the layer -/
example : (run cfg1 ⟨0, 0, none, .wsConn true .https .ws⟩ 0 ⟨[[.hdr true, .list []]], [], [(0, ⟨0, false, false⟩)]⟩ 10) =
    ([.wHdr false, .deliver true false, .deliver true false, .wStartTLS false], .stop (.err .read)) := by
  decide +kernel

end XmppModel.Props.C02
