import XmppModel.Model.Sasl
import XmppModel.Lemmas.Sasl
import XmppModel.Lemmas.SaslGate
import XmppModel.Generated.C03
/-!
# C03 — the authenticated bit is only set by a completed, accepted SASL exchange

Property theorems only (helpers in `Lemmas/Sasl.lean`).  Quantifiers: every mechanism (any
function from the challenges seen so far to a step result), every mechanism preference list
on either side, every finite script of peer elements and payload classes, every verdict of
the permission callback.
-/
namespace XmppModel.Props.C03
open XmppModel XmppModel.Sasl

/-! ## initiating side -/

/-- **Soundness of the initiating side.**  If `negotiateClient` returns the `Authn` bit then
no error is returned, the mechanism in use is the one selected from both lists, every `Step`
made said `more` except the last one which said `done` (so: run to completion, without error,
never stepped again after completion or error), and the elements read from the receiver are
decodable `<challenge/>`s followed by exactly one decodable `<success/>`, which is the last
element read; and the challenges handed to the mechanism are exactly the decoded payloads
of those `<challenge/>`s, in order (followed by the payload of `<success/>` when the mechanism
was still waiting for data). -/
theorem C03_client_sound (cm : List (String × Mech)) (adv : List String) (peer : List CEv)
    (h : (clientNeg cm adv peer).authn = true) :
    (clientNeg cm adv peer).err = .none ∧
    ∃ name mech, select cm adv = some (name, mech) ∧ name ≠ "" ∧
      (clientNeg cm adv peer).used = some name ∧
      RunsToDone mech [] (clientNeg cm adv peer).hist ∧
      ∃ pre p c rest, peer = pre ++ .success p :: rest ∧
        (clientNeg cm adv peer).consumed = pre.length + 1 ∧
        p.decodeClient = some c ∧ (∀ e ∈ pre, GoodChallenge e) ∧
        ((clientNeg cm adv peer).hist = chalBytes pre ∨
         (clientNeg cm adv peer).hist = chalBytes pre ++ [c]) := by
  unfold clientNeg at h ⊢
  cases hs : select cm adv with
  | none => simp [hs, fail] at h
  | some nm =>
    obtain ⟨name, mech⟩ := nm
    simp only [hs] at h ⊢
    by_cases hn : name = ""
    · simp [hn, fail] at h
    · simp only [hn, if_false] at h ⊢
      cases hk : (mech []).kind with
      | authnErr => simp [hk, fail] at h
      | otherErr => simp [hk, fail] at h
      | more =>
        simp only [hk] at h ⊢
        obtain ⟨e1, ext, pre, p, c, rest, e2, e3, e4, e5, e6, e7, e8⟩ := clientLoop_sound mech peer [] h hk
        simp only [List.nil_append] at e2
        refine ⟨e1, name, mech, rfl, hn, rfl, by simpa [e2] using e3, pre, p, c, rest, e4, e5, e6, e7, ?_⟩
        simpa [e2] using e8
      | done =>
        simp only [hk] at h ⊢
        obtain ⟨e1, e2, _, p, c, rest, e4, e4', e5⟩ := readFinal_sound [] peer h
        refine ⟨e1, name, mech, rfl, hn, rfl, ?_, [], p, c, rest, by simpa using e4, by simpa using e4', e5,
          by simp, Or.inl (by simp [e2, chalBytes])⟩
        simp only [e2]
        exact hk

-- non-vacuity: a three-step (SCRAM-shaped) mechanism, server-final carried by `<success/>`
example :
    let mech : Mech := fun h => if h.length < 2 then { kind := .more, resp := [1] } else { kind := .done }
    (clientNeg [("M", mech)] ["X", "M"] [.challenge (.valid [7]), .success (.valid [8])]).authn = true := by
  decide

-- … and server-final carried by a `<challenge/>`, answered, then an empty `<success/>`
example :
    let mech : Mech := fun h => if h.length < 2 then { kind := .more, resp := [1] } else { kind := .done }
    let r := clientNeg [("M", mech)] ["M"] [.challenge (.valid [7]), .challenge (.valid [8]), .success .empty]
    r.authn = true ∧ r.sent = [.auth "M" [1], .response [1], .response []] ∧ r.consumed = 3 := by
  decide

/-- an error is never returned together with the `Authn` bit -/
theorem C03_client_fail_closed (cm : List (String × Mech)) (adv : List String) (peer : List CEv)
    (h : (clientNeg cm adv peer).err ≠ .none) : (clientNeg cm adv peer).authn = false := by
  cases ha : (clientNeg cm adv peer).authn with
  | false => rfl
  | true => exact absurd (C03_client_sound cm adv peer ha).1 h

/-- **Write failures and cancellation on the initiating side.**  Whatever the connection
does (it may stop accepting writes after any number of elements) and whenever the context is
cancelled, a result that carries the `Authn` bit is exactly the result of the exchange on a
healthy connection with a live context — so everything `C03_client_sound` says holds for it:
in particular `<auth/>` and every `<response/>` were written, the mechanism completed and
`<success/>` was the last element read. -/
theorem C03_client_env (env : CEnv) (cm : List (String × Mech)) (adv : List String) (peer : List CEv)
    (h : (clientNegE env cm adv peer).authn = true) :
    clientNegE env cm adv peer = clientNeg cm adv peer := by
  unfold clientNegE at h ⊢
  unfold clientNeg
  cases hs : select cm adv with
  | none => simp [hs, fail] at h
  | some nm =>
    obtain ⟨name, mech⟩ := nm
    simp only [hs] at h ⊢
    by_cases hn : name = ""
    · simp [hn, fail] at h
    · simp only [hn, if_false] at h ⊢
      cases hk : (mech []).kind with
      | authnErr => simp [hk, fail] at h
      | otherErr => simp [hk, fail] at h
      | more =>
        simp only [hk] at h ⊢
        by_cases hw : env.canWrite = true
        · simp only [hw, if_true] at h ⊢
          rw [clientLoopE_eq mech peer env.wrote 0 [] h]
        · simp [hw, fail] at h
      | done =>
        simp only [hk] at h ⊢
        by_cases hw : env.canWrite = true
        · simp [hw]
        · simp [hw, fail] at h

/-- an error — including a failed write and a cancelled context — is never returned together
with the `Authn` bit -/
theorem C03_client_env_fail_closed (env : CEnv) (cm : List (String × Mech)) (adv : List String)
    (peer : List CEv) (h : (clientNegE env cm adv peer).err ≠ .none) :
    (clientNegE env cm adv peer).authn = false := by
  cases ha : (clientNegE env cm adv peer).authn with
  | false => rfl
  | true =>
    rw [C03_client_env env cm adv peer ha] at h ha
    exact absurd (C03_client_sound cm adv peer ha).1 h

-- non-vacuity: the connection fails on the second element / the context is cancelled after
-- the first challenge: error, no Authn; and a healthy environment authenticates
example :
    let mech : Mech := fun h => if h.length < 1 then { kind := .more, resp := [1] } else { kind := .done }
    let peer := [CEv.challenge (.valid [7]), .success .empty]
    (clientNegE ⟨some 1, none⟩ [("M", mech)] ["M"] peer).err = .writeErr ∧
    (clientNegE ⟨some 1, none⟩ [("M", mech)] ["M"] peer).authn = false ∧
    (clientNegE ⟨none, some 0⟩ [("M", mech)] ["M"] peer).err = .ctxErr ∧
    (clientNegE ⟨some 2, some 1⟩ [("M", mech)] ["M"] peer).authn = true := by
  decide

/-- **Negative cases.**  Whatever the mechanism: an authenticated result has read at least
one element (so EOF right after `<auth/>` never authenticates), and nothing it has read is a
`<failure/>`, an unknown element, an element of another namespace, stray character data, or a
`<challenge/>`/`<success/>` whose payload does not decode; a `<success/>` occurs only as the
very last element read (no premature or repeated success), and a `<challenge/>` never is
the last element read (no completion without the receiver's verdict). -/
theorem C03_client_neg (cm : List (String × Mech)) (adv : List String) (peer : List CEv)
    (h : (clientNeg cm adv peer).authn = true) :
    0 < (clientNeg cm adv peer).consumed ∧ (clientNeg cm adv peer).consumed ≤ peer.length ∧
    (∀ e ∈ peer.take (clientNeg cm adv peer).consumed,
      (∀ b, e ≠ .failure b) ∧ e ≠ .other ∧ e ≠ .otherNs ∧ e ≠ .space ∧
      (∀ p, e = .challenge p ∨ e = .success p → p.decodeClient ≠ none)) ∧
    (∀ i p, peer[i]? = some (.success p) → i < (clientNeg cm adv peer).consumed →
      i + 1 = (clientNeg cm adv peer).consumed) ∧
    (∀ p, peer[(clientNeg cm adv peer).consumed - 1]? ≠ some (.challenge p)) := by
  obtain ⟨_, _, _, _, _, _, _, pre, p, c, rest, e1, en, e2, e3, _⟩ := C03_client_sound cm adv peer h
  rw [en]
  have htake : peer.take (pre.length + 1) = pre ++ [CEv.success p] := by
    rw [e1]; simp [List.take_append, List.take_of_length_le]
  have hlen : pre.length + 1 ≤ peer.length := by rw [e1]; simp
  have hget : ∀ i, i < pre.length + 1 → peer[i]? = (pre ++ [CEv.success p])[i]? := by
    intro i hi
    rw [← htake, List.getElem?_take]; simp [hi]
  refine ⟨by omega, hlen, ?_, ?_, ?_⟩
  · intro e he
    rw [htake] at he
    rcases List.mem_append.mp he with he | he
    · obtain ⟨q, d, rfl, hq⟩ := e3 e he
      refine ⟨by simp, by simp, by simp, by simp, ?_⟩
      intro p' hp'
      rcases hp' with hp' | hp'
      · cases hp'; simp [hq]
      · cases hp'
    · simp only [List.mem_cons, List.not_mem_nil, or_false] at he
      subst he
      refine ⟨by simp, by simp, by simp, by simp, ?_⟩
      intro p' hp'
      rcases hp' with hp' | hp'
      · cases hp'
      · cases hp'; simp [e2]
  · intro i q hq hi
    rw [hget i hi] at hq
    by_cases hlt : i < pre.length
    · rw [List.getElem?_append_left hlt] at hq
      obtain ⟨q', d, he, _⟩ := e3 _ (List.mem_of_getElem? hq)
      cases he
    · omega
  · intro q hq
    rw [hget (pre.length + 1 - 1) (by omega)] at hq
    simp at hq

/-- **`<failure/>` is a failure whatever it contains.**  An element named `failure` in the
SASL namespace — with a defined condition, with none, with an unknown one, with only a
`<text/>`, with several, with one in a foreign namespace, or with content that is not even
well-formed — ends the exchange with an error and without the `Authn` bit, both while the
mechanism still runs and when it has already completed (PLAIN after its initial response);
and an authenticated exchange has read no such element. -/
theorem C03_client_failure_any_content (mech : Mech) (hist : List Bytes) (b : FailBody) (rest : List CEv) :
    (readFinal hist (.failure b :: rest)).authn = false ∧ (readFinal hist (.failure b :: rest)).err ≠ .none ∧
    (clientLoop mech hist (.failure b :: rest)).authn = false ∧
    (clientLoop mech hist (.failure b :: rest)).err ≠ .none := by
  cases b <;> simp [readFinal, clientLoop, fail, failErr]

theorem C03_client_failure_never_read (cm : List (String × Mech)) (adv : List String) (peer : List CEv)
    (h : (clientNeg cm adv peer).authn = true) (i : Nat) (b : FailBody)
    (hi : peer[i]? = some (.failure b)) : (clientNeg cm adv peer).consumed ≤ i := by
  obtain ⟨_, _, hall, _, _⟩ := C03_client_neg cm adv peer h
  apply Nat.le_of_not_lt
  intro hlt
  have hm : CEv.failure b ∈ peer.take (clientNeg cm adv peer).consumed := by
    apply List.mem_of_getElem? (i := i)
    rw [List.getElem?_take]; simp [hlt, hi]
  exact (hall _ hm).1 b rfl

/-- **A premature `<success/>` never authenticates.**  If the receiver sends `<success/>` while
the mechanism, stepped with its payload, still says *more*, the exchange ends with an error,
unauthenticated, nothing further is written — whatever the mechanism's response at that Step is
(empty: "it has nothing left to send and was only waiting for the outcome", or not): the
response plays no role in the decision. -/
theorem C03_client_premature_success (mech : Mech) (hist : List Bytes) (p : Payload) (c : Bytes)
    (rest : List CEv) (hp : p.decodeClient = some c) (hk : (mech (hist ++ [c])).kind = .more) :
    (clientLoop mech hist (.success p :: rest)).authn = false ∧
    (clientLoop mech hist (.success p :: rest)).err = .unexpected ∧
    (clientLoop mech hist (.success p :: rest)).sent = [] := by
  simp [clientLoop, hp, hk, fail]

-- non-vacuity: a mutual-authentication mechanism that answers the nonce with an empty response
-- and waits for the proof; the receiver sends the nonce in a <success/>
example :
    let mech : Mech := fun h => match h with
      | [] => { kind := .more, resp := [1] }
      | [_] => { kind := .more, resp := [] }
      | _ => { kind := .done }
    (clientNeg [("M", mech)] ["M"] [.success (.valid [7])]).authn = false ∧
    (clientNeg [("M", mech)] ["M"] [.success (.valid [7])]).err = .unexpected ∧
    (clientNeg [("M", mech)] ["M"] [.challenge (.valid [7]), .success (.valid [8])]).authn = true := by
  decide

/-- **Mechanism selection.**  The mechanism selected is the first one of the client's list
whose name the receiver advertised: it is in both lists, and no earlier entry of the client's
list is advertised. -/
theorem C03_client_mech_first (cm : List (String × Mech)) (adv : List String) (m : String × Mech)
    (h : select cm adv = some m) :
    m.1 ∈ adv ∧ ∃ before after, cm = before ++ m :: after ∧ ∀ x ∈ before, x.1 ∉ adv := by
  unfold select at h
  obtain ⟨h1, before, after, h2, h3⟩ := List.find?_eq_some_iff_append.mp h
  refine ⟨by simpa using h1, before, after, h2, ?_⟩
  intro x hx
  simpa using h3 x hx

/-- a mechanism that both sides did not offer is never used, and the `<auth/>` element names
the mechanism that is stepped -/
theorem C03_client_mech_used (cm : List (String × Mech)) (adv : List String) (peer : List CEv)
    (name : String) (h : (clientNeg cm adv peer).used = some name) :
    name ∈ adv ∧ name ∈ cm.map (·.1) ∧
    ∃ resp rest, (clientNeg cm adv peer).sent = .auth name resp :: rest ∨
      ((clientNeg cm adv peer).sent = [] ∧
        ((clientNeg cm adv peer).err = .mechErr ∨ (clientNeg cm adv peer).err = .panicked ∨
          (clientNeg cm adv peer).err = .authnErr)) := by
  unfold clientNeg at h ⊢
  cases hs : select cm adv with
  | none => simp [hs, fail] at h
  | some nm =>
    obtain ⟨n, mech⟩ := nm
    obtain ⟨h1, before, after, h2, _⟩ := C03_client_mech_first cm adv (n, mech) hs
    simp only [hs] at h ⊢
    by_cases hn : n = ""
    · simp [hn, fail] at h
    · simp only [hn, if_false] at h ⊢
      have hmem : n ∈ cm.map (·.1) := by rw [h2]; simp
      cases hk : (mech []).kind <;> simp only [hk] at h ⊢ <;> simp only [Option.some.injEq] at h <;>
        subst h <;> refine ⟨h1, hmem, ?_⟩
      · exact ⟨(mech []).resp, _, Or.inl rfl⟩
      · exact ⟨(mech []).resp, _, Or.inl rfl⟩
      · exact ⟨[], [], Or.inr ⟨rfl, Or.inr (Or.inr rfl)⟩⟩
      · refine ⟨[], [], Or.inr ⟨rfl, ?_⟩⟩
        simp only [fail, stepErr]
        cases (mech []).panic <;> simp

/-- no common mechanism: `errNoMechanisms`, nothing is sent, nothing is read -/
theorem C03_client_no_mech (cm : List (String × Mech)) (adv : List String) (peer : List CEv)
    (h : ∀ m ∈ cm, m.1 ∉ adv) :
    clientNeg cm adv peer = { err := .nomech } := by
  have : select cm adv = none := by
    unfold select
    rw [List.find?_eq_none]
    intro x hx
    simpa using h x hx
  simp [clientNeg, this, fail]

/-! ## receiving side -/

/-- **Soundness of the receiving side.**  If `negotiateServer` returns the `Authn` bit then
the peer's elements read are: anything that kept the loop going, then an `<auth/>` naming a
mechanism of the configured list (the one that is stepped), then `<response/>`s only; the
mechanism was handed exactly the decoded payloads of that `<auth/>` and those responses,
every step said `more` except the last which said `done` (no error, no step after
completion); no error is returned; the last element written is `<success/>` carrying the
mechanism's final data; and the permission verdicts of the final step are the last ones
recorded. -/
theorem C03_server_sound (cfg : List (String × Mech)) (peer : List SEv)
    (h : (serverNeg cfg peer).authn = true) :
    ∃ pre name m p d rs ds rest,
      peer = pre ++ .auth name p :: (rs ++ rest) ∧
      (serverNeg cfg peer).consumed = pre.length + 1 + rs.length ∧
      lookup cfg name = some (name, m) ∧ name ≠ "" ∧ p.decodeServer = some d ∧ Resps rs ds ∧
      (serverNeg cfg peer).used = some name ∧ (serverNeg cfg peer).hist = d :: ds ∧
      RunsToDone m [d] ds ∧ Final m (serverNeg cfg peer) := by
  have := serverLoop_sound cfg peer none h (by intro c hc; cases hc)
  cases this with
  | continued c rs ds rest e0 => cases e0
  | fresh pre name m p d rs ds rest e1 e2 e3 e4 e5 e6 e7 e8 e9 e10 =>
    exact ⟨pre, name, m, p, d, rs, ds, rest, e1, e2, e3, e4, e5, e6, e7, e8, e9, e10⟩

-- non-vacuity: a two-step mechanism, `<auth/>` then `<response/>`
example :
    let mech : Mech := fun h => if h.length < 2 then { kind := .more, resp := [1] } else { kind := .done, resp := [2] }
    let r := serverNeg [("M", mech)] [.auth "M" (.valid [7]), .response .eq]
    r.authn = true ∧ r.sent = [.challenge [1], .success [2]] ∧ r.hist = [[7], []] := by
  decide

/-- the mechanism used on the receiving side is one of the configured (= advertised) list -/
theorem C03_server_mech_configured (cfg : List (String × Mech)) (peer : List SEv)
    (h : (serverNeg cfg peer).authn = true) :
    ∃ name, (serverNeg cfg peer).used = some name ∧ name ∈ cfg.map (·.1) := by
  obtain ⟨_, name, m, _, _, _, _, _, _, _, hl, _, _, _, hu, _⟩ := C03_server_sound cfg peer h
  refine ⟨name, hu, ?_⟩
  have := List.mem_of_find?_eq_some hl
  exact List.mem_map.mpr ⟨(name, m), this, rfl⟩

/-- the receiving side never steps a mechanism it cannot serve: the mechanism of an
authenticated exchange does not carry the "-PLUS" suffix (the SASL library's server side has no
channel binding; before the repair selecting such a mechanism panicked the receiver) -/
theorem C03_server_mech_supported (cfg : List (String × Mech)) (peer : List SEv)
    (h : (serverNeg cfg peer).authn = true) :
    ∃ name, (serverNeg cfg peer).used = some name ∧ serverSupported name = true := by
  obtain ⟨_, name, m, _, _, _, _, _, _, _, hl, _, _, _, hu, _⟩ := C03_server_sound cfg peer h
  exact ⟨name, hu, lookup_supported hl⟩

/-- an error is never returned together with the `Authn` bit -/
theorem C03_server_fail_closed (cfg : List (String × Mech)) (peer : List SEv)
    (h : (serverNeg cfg peer).err ≠ .none) : (serverNeg cfg peer).authn = false := by
  cases ha : (serverNeg cfg peer).authn with
  | false => rfl
  | true =>
    obtain ⟨_, _, _, _, _, _, _, _, _, _, _, _, _, _, _, _, _, f⟩ := C03_server_sound cfg peer ha
    exact absurd f.err h

/-- **PLAIN and the permission callback.**  With the real PLAIN mechanism configured, an
authenticated exchange whose final mechanism is PLAIN consists of one `<auth/>` whose payload
is `identity NUL username NUL password`, the application's permission callback was invoked
with exactly these credentials, accepted them, and that is the last verdict recorded. -/
theorem C03_server_plain_permission (perm : Bytes → Bytes → Bytes → Bool)
    (cfg : List (String × Mech)) (peer : List SEv)
    (hcfg : lookup cfg "PLAIN" = some ("PLAIN", plainServer perm))
    (h : (serverNeg cfg peer).authn = true) (hu : (serverNeg cfg peer).used = some "PLAIN") :
    ∃ pre p d ident user pass rest,
      peer = pre ++ .auth "PLAIN" p :: rest ∧ (serverNeg cfg peer).consumed = pre.length + 1 ∧
      p.decodeServer = some d ∧ splitZero d = [ident, user, pass] ∧
      perm user pass ident = true ∧
      ∃ p0, (serverNeg cfg peer).perms = p0 ++ [⟨user, pass, ident, true⟩] := by
  obtain ⟨pre, name, m, p, d, rs, ds, rest, e1, e2, e3, _, e5, e6, e7, e8, e9, f⟩ := C03_server_sound cfg peer h
  rw [e7] at hu
  cases hu
  rw [hcfg] at e3
  cases e3
  cases e6 with
  | cons hd tl =>
    -- a second step would need PLAIN's first step to say `more`, which it never does
    have hk : (plainServer perm [d]).kind = .more := e9.1
    rcases plainServer_spec perm d with ⟨_, _, _, _, _, hq⟩ | ⟨_, _, _, _, _, hq⟩ | hq <;>
      rw [hq] at hk <;> cases hk
  | nil =>
    have hk : (plainServer perm [d]).kind = .done := e9
    obtain ⟨p0, hp⟩ := f.perms
    rw [e8] at hp
    rcases plainServer_spec perm d with ⟨ident, user, pass, hs, hperm, hq⟩ | ⟨_, _, _, _, _, hq⟩ | hq
    · rw [hq] at hp
      exact ⟨pre, p, d, ident, user, pass, rest, by simpa using e1, by simpa using e2, e5, hs, hperm, p0, hp⟩
    · rw [hq] at hk; cases hk
    · rw [hq] at hk; cases hk

-- non-vacuity: accepted credentials authenticate, rejected ones do not and are answered
-- with `<failure><not-authorized/></failure>`
example :
    let perm : Bytes → Bytes → Bytes → Bool := fun u p _ => u == [117] && p == [112]
    let ok := serverNeg [("PLAIN", plainServer perm)] [.auth "PLAIN" (.valid [0, 117, 0, 112])]
    let no := serverNeg [("PLAIN", plainServer perm)] [.auth "PLAIN" (.valid [0, 117, 0, 113])]
    ok.authn = true ∧ ok.perms = [⟨[117], [112], [], true⟩] ∧
    no.authn = false ∧ no.err = .authnErr ∧ no.sent = [.failure "not-authorized"] ∧
    no.perms = [⟨[117], [113], [], false⟩] := by
  decide

/-- elements that end the receiving loop without authentication whatever came before -/
def AlwaysRejects (cfg : List (String × Mech)) (ev : SEv) : Prop :=
  ∀ cur, ∃ r, sevent cfg cur ev = .stop r ∧ r.authn = false

/-- **Negative cases.**  `<abort/>`, `<failure/>`, unknown elements, elements of another
namespace, stray character data, an `<auth/>` for a mechanism that is not configured, and
any `<auth/>`/`<response/>` with an undecodable payload always end the exchange without
authentication … -/
theorem C03_server_rejects (cfg : List (String × Mech)) :
    AlwaysRejects cfg .abort ∧ AlwaysRejects cfg .failure ∧ AlwaysRejects cfg .other ∧
    AlwaysRejects cfg .otherNs ∧ AlwaysRejects cfg .space ∧
    (∀ name p, lookup cfg name = none → AlwaysRejects cfg (.auth name p)) ∧
    (∀ name, AlwaysRejects cfg (.auth name .bad)) ∧ AlwaysRejects cfg (.response .bad) := by
  refine ⟨fun _ => ⟨_, rfl, rfl⟩, fun _ => ⟨_, rfl, rfl⟩, fun _ => ⟨_, rfl, rfl⟩, fun _ => ⟨_, rfl, rfl⟩,
    fun _ => ⟨_, rfl, rfl⟩, ?_, ?_, ?_⟩
  · intro name p hl cur
    exact ⟨_, by simp only [sevent, hl]; rfl, rfl⟩
  · intro name cur
    cases hl : lookup cfg name with
    | none => exact ⟨_, by simp only [sevent, hl]; rfl, rfl⟩
    | some nm =>
      obtain ⟨n, m⟩ := nm
      by_cases hn : n = ""
      · exact ⟨_, by simp only [sevent, hl, hn, if_true]; rfl, rfl⟩
      · exact ⟨_, by simp only [sevent, hl, hn, if_false, sstep, Payload.decodeServer]; rfl, rfl⟩
  · intro cur
    cases cur with
    | none => exact ⟨_, rfl, rfl⟩
    | some c => exact ⟨_, by simp only [sevent, sstep, Payload.decodeServer]; rfl, rfl⟩

theorem sevent_stop_consumed {cfg : List (String × Mech)} {cur : Option SCur} {ev : SEv} {r : SRes}
    (h : sevent cfg cur ev = .stop r) : r.consumed = 1 := by
  have hs : ∀ name m hist p, sstep name m hist p = .stop r → r.consumed = 1 := by
    intro name m hist p hs
    unfold sstep at hs
    split at hs
    · cases hs; rfl
    · split at hs <;> cases hs <;> rfl
  cases ev with
  | failure => cases h; rfl
  | space => cases h; rfl
  | abort => cases h; rfl
  | other => cases h; rfl
  | otherNs => cases h; rfl
  | auth name p =>
    simp only [sevent] at h
    split at h
    · cases h; rfl
    · split at h
      · cases h; rfl
      · exact hs _ _ _ _ h
  | response p =>
    simp only [sevent] at h
    split at h
    · cases h; rfl
    · exact hs _ _ _ _ h

/-- … so an authenticated run ended strictly before the first such element: nothing a
peer sends after or instead of a complete exchange can add authentication. -/
theorem C03_server_neg (cfg : List (String × Mech)) (ev : SEv) (hev : AlwaysRejects cfg ev)
    (pre rest : List SEv) : ∀ cur,
    (serverLoop cfg cur (pre ++ ev :: rest)).authn = true →
    (serverLoop cfg cur (pre ++ ev :: rest)).consumed ≤ pre.length := by
  induction pre with
  | nil =>
    intro cur h
    obtain ⟨r, h1, h2⟩ := hev cur
    simp [serverLoop, h1, h2] at h
  | cons e pre ih =>
    intro cur h
    simp only [List.cons_append, serverLoop] at h ⊢
    cases he : sevent cfg cur e with
    | stop r => simp only [he]; rw [sevent_stop_consumed he]; simp
    | cont c resp perms =>
      simp only [he, SRes.after_authn, SRes.after_consumed] at h ⊢
      have := ih (some c) h
      simp only [List.length_cons]
      omega

/-- a `<response/>` before any `<auth/>`: `<failure><malformed-request/></failure>` is
written, an error returned, nothing else read -/
theorem C03_server_response_first (cfg : List (String × Mech)) (p : Payload) (rest : List SEv) :
    serverNeg cfg (.response p :: rest) = sfail .unexpected [.failure "malformed-request"] := rfl

/-- an `<auth/>` for a mechanism that was not offered: `<failure><invalid-mechanism/></failure>` -/
theorem C03_server_unknown_mech (cfg : List (String × Mech)) (name : String) (p : Payload)
    (rest : List SEv) (h : lookup cfg name = none) :
    serverNeg cfg (.auth name p :: rest) = sfail .nomech [.failure "invalid-mechanism"] := by
  simp [serverNeg, serverLoop, sevent, h]

/-- `<abort/>`: `<failure><aborted/></failure>` and an error, whatever the state -/
theorem C03_server_abort (cfg : List (String × Mech)) (cur : Option SCur) (rest : List SEv) :
    serverLoop cfg cur (.abort :: rest) = sfail .terminated [.failure "aborted"] := rfl

/-- a mechanism step that fails with `sasl.ErrAuthn` (e.g. the permission callback said no)
ends the exchange with `<failure><not-authorized/></failure>` and the error, unauthenticated -/
theorem C03_server_not_authorized (name : String) (mech : Mech) (hist : List Bytes) (p : Payload)
    (d : Bytes) (hd : p.decodeServer = some d) (hk : (mech (hist ++ [d])).kind = .authnErr) :
    ∃ r, sstep name mech hist p = .stop r ∧ r.authn = false ∧ r.err = .authnErr ∧
      r.sent = [.failure "not-authorized"] := by
  simp [sstep, hd, hk, sfail]

/-- **Write failures.**  On a connection that stops accepting writes after any number of
SASL elements, an authenticated result is exactly the result of the run on a healthy
connection: in particular `<success/>` did reach the wire (it is the last element of `sent`,
`C03_server_sound`), and a failed write never leaves the `Authn` bit set. -/
theorem C03_server_write_failure (cfg : List (String × Mech)) (peer : List SEv) :
    ∀ (cur : Option SCur) (budget : Nat), (serverLoopW cfg cur budget peer).authn = true →
      serverLoopW cfg cur budget peer = serverLoop cfg cur peer := by
  induction peer with
  | nil => intro cur b h; simp [serverLoopW] at h
  | cons ev rest ih =>
    intro cur b h
    unfold serverLoopW at h ⊢
    unfold serverLoop
    cases hev : sevent cfg cur ev with
    | stop r =>
      simp only [hev] at h ⊢
      by_cases hb : r.sent.length ≤ b
      · simp [hb]
      · simp [hb] at h
    | cont c resp perms =>
      simp only [hev] at h ⊢
      cases b with
      | zero => simp at h
      | succ b =>
        simp only [SRes.after_authn] at h ⊢
        rw [ih (some c) b h]

theorem serverLoop_authn_err (cfg : List (String × Mech)) (peer : List SEv) : ∀ (cur : Option SCur),
    (serverLoop cfg cur peer).authn = true → (serverLoop cfg cur peer).err = .none := by
  induction peer with
  | nil => intro cur ha; simp [serverLoop] at ha
  | cons ev rest ih =>
    intro cur ha
    unfold serverLoop at ha ⊢
    cases hev : sevent cfg cur ev with
    | stop r =>
      simp only [hev] at ha ⊢
      obtain ⟨hstop, _⟩ := sevent_src cfg cur ev
      obtain ⟨name, m, hist, p, _, hss⟩ := hstop r hev ha
      obtain ⟨d, _, _, hr⟩ := sstep_stop hss ha
      subst hr; rfl
    | cont c resp perms =>
      simp only [hev, SRes.after_authn, SRes.after_err] at ha ⊢
      exact ih (some c) ha

theorem C03_server_write_failure_closed (cfg : List (String × Mech)) (peer : List SEv)
    (cur : Option SCur) (budget : Nat) (h : (serverLoopW cfg cur budget peer).err = .writeErr) :
    (serverLoopW cfg cur budget peer).authn = false := by
  cases ha : (serverLoopW cfg cur budget peer).authn with
  | false => rfl
  | true =>
    have e := C03_server_write_failure cfg peer cur budget ha
    rw [e] at h ha
    rw [serverLoop_authn_err cfg peer cur ha] at h
    cases h

-- non-vacuity: the connection fails when <success/> is written
example :
    let mech : Mech := fun _ => { kind := .done }
    let r := serverLoopW [("M", mech)] none 0 [.auth "M" .empty]
    r.authn = false ∧ r.err = .writeErr ∧ r.sent = [] := by decide

/-! ### the negotiation context on the receiving side -/

/-- **A done context never authenticates.**  Wherever the implementation looks at the
negotiation context (`ctx.top`, `ctx.mid`: at the top of which iterations, after which `Step`s —
arbitrary predicates), and whenever the context becomes done (`ctx.doneAt`: before the first
element is read, while an element is in flight, inside a `Step`, while a challenge or the
closing `<success/>` is written), a result that carries the `Authn` bit is exactly the result
of the run with a live context — so `C03_server_sound` applies to it: an `<auth/>` for a
configured mechanism was read, the mechanism completed on exactly the payloads received, the
permission verdicts are those of its last step, `<success/>` was written.  Leaving the loop
because the context is done is not a way in. -/
theorem C03_server_ctx (cfg : List (String × Mech)) (ctx : SCtx) (peer : List SEv) :
    ∀ (cur : Option SCur) (i : Nat), (serverLoopC cfg ctx cur i peer).authn = true →
      serverLoopC cfg ctx cur i peer = serverLoop cfg cur peer := by
  induction peer with
  | nil =>
    intro cur i h
    unfold serverLoopC at h
    split at h <;> simp at h
  | cons ev rest ih =>
    intro cur i h
    unfold serverLoopC at h ⊢
    unfold serverLoop
    by_cases hs : ctx.stopsTop i = true
    · simp [hs] at h
    · simp only [hs, Bool.false_eq_true, if_false] at h ⊢
      cases hev : sevent cfg cur ev with
      | stop r =>
        simp only [hev] at h ⊢
        by_cases hm : (r.authn && ctx.stopsMid i) = true
        · simp [hm, ctxStop] at h
        · simp [hm]
      | cont c resp perms =>
        simp only [hev] at h ⊢
        by_cases hm : ctx.stopsMid i = true
        · simp [hm, ctxStop] at h
        · simp only [hm, Bool.false_eq_true, if_false, SRes.after_authn] at h ⊢
          rw [ih (some c) (i + 1) h]

/-- the context's error is never returned together with the `Authn` bit -/
theorem C03_server_ctx_fail_closed (cfg : List (String × Mech)) (ctx : SCtx) (peer : List SEv)
    (cur : Option SCur) (i : Nat) (h : (serverLoopC cfg ctx cur i peer).err ≠ .none) :
    (serverLoopC cfg ctx cur i peer).authn = false := by
  cases ha : (serverLoopC cfg ctx cur i peer).authn with
  | false => rfl
  | true =>
    have e := C03_server_ctx cfg ctx peer cur i ha
    rw [e] at h ha
    exact absurd (serverLoop_authn_err cfg peer cur ha) h

/-- an implementation that looks at the context at the top of iteration `i` and finds it done
handles no further element: nothing is stepped, nothing is written (in particular no
`<success/>`), no `Authn` -/
theorem C03_server_ctx_done (cfg : List (String × Mech)) (ctx : SCtx) (t i : Nat)
    (ht : ctx.doneAt = some t) (hk : t ≤ 2 * i) (hl : ctx.top i = true)
    (cur : Option SCur) (peer : List SEv) :
    (serverLoopC cfg ctx cur i peer).authn = false ∧
    (serverLoopC cfg ctx cur i peer).err = .ctxErr ∧
    (serverLoopC cfg ctx cur i peer).sent = [] ∧
    (serverLoopC cfg ctx cur i peer).perms = [] := by
  unfold serverLoopC
  simp [SCtx.stopsTop, SCtx.done, ht, hk, hl]

/-- an implementation that looks at the context after the `Step` of iteration `i` and finds it
done (it became done while the element was in flight, or inside the `Step` / the permission
callback) writes neither a `<challenge/>` nor `<success/>` for that `Step` and does not
authenticate — even when that `Step` completed the mechanism and the callback said yes -/
theorem C03_server_ctx_done_mid (cfg : List (String × Mech)) (ctx : SCtx) (t i : Nat)
    (ht : ctx.doneAt = some t) (hk : t ≤ 2 * i + 1) (hl : ctx.mid i = true)
    (cur : Option SCur) (peer : List SEv) :
    (serverLoopC cfg ctx cur i peer).authn = false ∧
    (∀ resp, SSent.success resp ∉ (serverLoopC cfg ctx cur i peer).sent) ∧
    (∀ resp, SSent.challenge resp ∉ (serverLoopC cfg ctx cur i peer).sent) := by
  have hmid : ctx.stopsMid i = true := by simp [SCtx.stopsMid, SCtx.done, ht, hk, hl]
  have hstop : ∀ (r : SRes), sevent cfg cur (peer.headD .space) = .stop r → r.authn = false →
      (∀ resp, SSent.success resp ∉ r.sent) ∧ (∀ resp, SSent.challenge resp ∉ r.sent) := by
    intro r he ha
    have hs : ∀ name m hist p, sstep name m hist p = .stop r →
        (∀ resp, SSent.success resp ∉ r.sent) ∧ (∀ resp, SSent.challenge resp ∉ r.sent) := by
      intro name m hist p hs
      unfold sstep at hs
      split at hs
      · cases hs; simp [sfail]
      · split at hs <;> cases hs <;> simp_all [sfail]
    cases hev : peer.headD .space with
    | failure => rw [hev] at he; cases he; simp [sfail]
    | space => rw [hev] at he; cases he; simp [sfail]
    | abort => rw [hev] at he; cases he; simp [sfail]
    | other => rw [hev] at he; cases he; simp [sfail]
    | otherNs => rw [hev] at he; cases he; simp [sfail]
    | auth name p =>
      rw [hev] at he
      simp only [sevent] at he
      split at he
      · cases he; simp [sfail]
      · split at he
        · cases he; simp [sfail]
        · exact hs _ _ _ _ he
    | response p =>
      rw [hev] at he
      simp only [sevent] at he
      split at he
      · cases he; simp [sfail]
      · exact hs _ _ _ _ he
  unfold serverLoopC
  by_cases hs : ctx.stopsTop i = true
  · simp [hs]
  · simp only [hs, Bool.false_eq_true, if_false]
    cases peer with
    | nil => simp
    | cons ev rest =>
      cases hev : sevent cfg cur ev with
      | stop r =>
        simp only [hev]
        cases ha : r.authn with
        | true => simp [hmid, ctxStop]
        | false =>
          have := hstop r (by simpa using hev) ha
          simp [ha, this]
      | cont c resp perms => simp only [hev]; simp [hmid, ctxStop]

/-- the code as it is (no test anywhere): the context plays no role at all -/
theorem C03_server_ctx_ignored (cfg : List (String × Mech)) (k : Option Nat) (peer : List SEv) :
    ∀ (cur : Option SCur) (i : Nat),
      serverLoopC cfg { doneAt := k } cur i peer = serverLoop cfg cur peer := by
  induction peer with
  | nil => intro cur i; unfold serverLoopC; simp [SCtx.stopsTop, serverLoop]
  | cons ev rest ih =>
    intro cur i
    unfold serverLoopC serverLoop
    simp only [SCtx.stopsTop, SCtx.stopsMid, Bool.false_and, Bool.and_false, Bool.false_eq_true, if_false]
    cases hev : sevent cfg cur ev with
    | stop r => rfl
    | cont c resp perms => simp only [ih]

/-- **A context that becomes done while the closing `<success/>` is being written, or later,
changes nothing** — wherever the implementation looks: if the exchange with a live context
authenticates after `n` elements, then with a context that becomes done at tick `2(i+n)` (the
write that follows the last test of the loop) or later the run is that same exchange.  By then
everything the property demands has happened. -/
theorem C03_server_ctx_late (cfg : List (String × Mech)) (ctx : SCtx) (t : Nat)
    (ht : ctx.doneAt = some t) (peer : List SEv) :
    ∀ (cur : Option SCur) (i : Nat), (serverLoop cfg cur peer).authn = true →
      2 * (i + (serverLoop cfg cur peer).consumed) ≤ t →
      serverLoopC cfg ctx cur i peer = serverLoop cfg cur peer := by
  induction peer with
  | nil => intro cur i h; simp [serverLoop] at h
  | cons ev rest ih =>
    intro cur i h hc
    unfold serverLoop at h hc ⊢
    unfold serverLoopC
    cases hev : sevent cfg cur ev with
    | stop r =>
      simp only [hev] at h hc ⊢
      rw [sevent_stop_consumed hev] at hc
      have h1 : ctx.stopsTop i = false := by
        simp only [SCtx.stopsTop, SCtx.done, ht, Bool.and_eq_false_iff, decide_eq_false_iff_not]
        right; omega
      have h2 : ctx.stopsMid i = false := by
        simp only [SCtx.stopsMid, SCtx.done, ht, Bool.and_eq_false_iff, decide_eq_false_iff_not]
        right; omega
      simp [h1, h2]
    | cont c resp perms =>
      simp only [hev, SRes.after_authn, SRes.after_consumed] at h hc ⊢
      have h1 : ctx.stopsTop i = false := by
        simp only [SCtx.stopsTop, SCtx.done, ht, Bool.and_eq_false_iff, decide_eq_false_iff_not]
        right; omega
      have h2 : ctx.stopsMid i = false := by
        simp only [SCtx.stopsMid, SCtx.done, ht, Bool.and_eq_false_iff, decide_eq_false_iff_not]
        right; omega
      simp only [h1, h2, Bool.false_eq_true, if_false]
      rw [ih (some c) (i + 1) h (by omega)]

-- non-vacuity: the context is done before the first element / between the two round trips of
-- a two-step mechanism / inside the last Step / while <success/> is written: an
-- implementation that looks gives up where it looks, one that does not completes
example :
    let mech : Mech := fun h => if h.length < 2 then { kind := .more, resp := [1] } else { kind := .done, resp := [2] }
    let peer := [SEv.auth "M" (.valid [7]), .response .eq]
    let all : Nat → Bool := fun _ => true
    let odd : Nat → Bool := fun i => i % 2 == 1
    (serverLoopC [("M", mech)] ⟨all, fun _ => false, some 0⟩ none 0 peer).err = .ctxErr ∧
    (serverLoopC [("M", mech)] ⟨all, fun _ => false, some 1⟩ none 0 peer).err = .ctxErr ∧
    (serverLoopC [("M", mech)] ⟨all, fun _ => false, some 1⟩ none 0 peer).sent = [.challenge [1]] ∧
    -- looks only at odd iterations: a context done from the start is noticed at iteration 1
    (serverLoopC [("M", mech)] ⟨odd, fun _ => false, some 0⟩ none 0 peer).sent = [.challenge [1]] ∧
    (serverLoopC [("M", mech)] ⟨odd, fun _ => false, some 0⟩ none 0 peer).err = .ctxErr ∧
    -- done inside the last Step: noticed by a mid test only
    (serverLoopC [("M", mech)] ⟨all, fun _ => false, some 3⟩ none 0 peer).authn = true ∧
    (serverLoopC [("M", mech)] ⟨all, all, some 3⟩ none 0 peer).err = .ctxErr ∧
    (serverLoopC [("M", mech)] ⟨all, all, some 3⟩ none 0 peer).sent = [.challenge [1]] ∧
    -- done while <success/> is written: nobody notices
    (serverLoopC [("M", mech)] ⟨all, all, some 4⟩ none 0 peer).authn = true ∧
    (serverLoopC [("M", mech)] {doneAt := some 0} none 0 peer).authn = true := by
  decide

/-! ### the permission callback and mechanisms other than PLAIN (known finding)

Full strength would be: *for every configured mechanism* an authenticated exchange holds an
accepting verdict of the application's permission callback —

    ∀ cfg peer, (serverNeg cfg peer).authn = true → ∃ p ∈ (serverNeg cfg peer).perms, p.verdict = true

`sasl.go` leaves consulting the callback to the mechanism, and `mellium.im/sasl`'s ANONYMOUS
(observed through the real mechanism on every run: `srv-real-ANONYMOUS`) completes without
consulting it.  So the statement is proved for PLAIN (`C03_server_plain_permission`, the
partial theorem) and fails in general: -/

/-- ANONYMOUS as observed: one `Step`, done, no data, the callback is never called -/
def anonymousServer : Mech := fun _ => { kind := .done }

theorem C03_server_permission_any_mechanism_fails :
    ¬ (∀ (cfg : List (String × Mech)) (peer : List SEv), (serverNeg cfg peer).authn = true →
        ∃ p ∈ (serverNeg cfg peer).perms, p.verdict = true) := by
  intro h
  have := h [("ANONYMOUS", anonymousServer)] [.auth "ANONYMOUS" .empty] (by decide)
  revert this
  decide

/-! ### a `Step` that panics -/

/-- **A failed `Step` on the receiving side** — an error other than `sasl.ErrAuthn`, or a panic
raised by the mechanism or by the application's permission callback below it, whatever the
value it panics with — ends the exchange at once: no `Authn`, an error, nothing written (no
`<success/>`); it surfaces as `panicked` exactly when it was a panic. -/
theorem C03_server_step_fails (name : String) (mech : Mech) (hist : List Bytes) (p : Payload)
    (d : Bytes) (hd : p.decodeServer = some d) (hk : (mech (hist ++ [d])).kind = .otherErr) :
    ∃ r, sstep name mech hist p = .stop r ∧ r.authn = false ∧ r.err ≠ .none ∧ r.sent = [] ∧
      (r.err = .panicked ↔ (mech (hist ++ [d])).panic ≠ none) := by
  have e : sstep name mech hist p = .stop
      { sfail (stepErr (mech (hist ++ [d]))) [] with
        perms := (mech (hist ++ [d])).perms, used := some name, hist := hist ++ [d] } := by
    simp only [sstep, hd, hk]
  refine ⟨_, e, rfl, ?_, rfl, ?_⟩ <;>
    simp only [sfail, stepErr] <;> cases (mech (hist ++ [d])).panic <;> simp

/-- the same on the initiating side, for a `<challenge/>` and for a `<success/>` -/
theorem C03_client_step_fails (mech : Mech) (hist : List Bytes) (p : Payload) (c : Bytes)
    (rest : List CEv) (hp : p.decodeClient = some c) (hk : (mech (hist ++ [c])).kind = .otherErr) :
    (clientLoop mech hist (.challenge p :: rest)).authn = false ∧
    (clientLoop mech hist (.challenge p :: rest)).err ≠ .none ∧
    (clientLoop mech hist (.challenge p :: rest)).sent = [] ∧
    (clientLoop mech hist (.success p :: rest)).authn = false ∧
    (clientLoop mech hist (.success p :: rest)).err ≠ .none := by
  simp only [clientLoop, hp, hk, fail, stepErr]
  cases (mech (hist ++ [c])).panic <;> simp

/-- **Whatever the implementation does with panics.**  `pol` says which panics it recovers and
turns into an error return (`sasl.go` recovers none).  For every such policy an authenticated
exchange on the receiving side is one in which the mechanism *the application configured*
ran to completion on the payloads received — every `Step` returned normally, said `more`
except the last which said `done`: no policy makes a panicking `Step` count as completion. -/
theorem C03_server_panic_policy (pol : PanicVal → Bool) (cfg : List (String × Mech)) (peer : List SEv)
    (h : (serverNeg (guardCfg pol cfg) peer).authn = true) :
    ∃ pre name m p d rs ds rest,
      peer = pre ++ .auth name p :: (rs ++ rest) ∧ lookup cfg name = some (name, m) ∧
      p.decodeServer = some d ∧ Resps rs ds ∧
      (serverNeg (guardCfg pol cfg) peer).hist = d :: ds ∧ RunsToDone m [d] ds ∧
      (serverNeg (guardCfg pol cfg) peer).err = .none := by
  obtain ⟨pre, name, m', p, d, rs, ds, rest, e1, _, e3, _, e5, e6, _, e8, e9, f⟩ :=
    C03_server_sound (guardCfg pol cfg) peer h
  rw [lookup_guardCfg] at e3
  cases hl : lookup cfg name with
  | none => simp [hl] at e3
  | some nm =>
    obtain ⟨n, m⟩ := nm
    simp only [hl, Option.map_some, Option.some.injEq, Prod.mk.injEq] at e3
    obtain ⟨rfl, rfl⟩ := e3
    exact ⟨pre, n, m, p, d, rs, ds, rest, e1, hl, e5, e6, e8, (RunsToDone_guard pol m ds [d]).mp e9, f.err⟩

theorem C03_client_panic_policy (pol : PanicVal → Bool) (cm : List (String × Mech)) (adv : List String)
    (peer : List CEv) (h : (clientNeg (guardCfg pol cm) adv peer).authn = true) :
    ∃ name mech, select cm adv = some (name, mech) ∧
      RunsToDone mech [] (clientNeg (guardCfg pol cm) adv peer).hist ∧
      (clientNeg (guardCfg pol cm) adv peer).err = .none := by
  obtain ⟨e0, name, m', e1, _, _, e4, _⟩ := C03_client_sound (guardCfg pol cm) adv peer h
  rw [select_guardCfg] at e1
  cases hl : select cm adv with
  | none => simp [hl] at e1
  | some nm =>
    obtain ⟨n, m⟩ := nm
    simp only [hl, Option.map_some, Option.some.injEq, Prod.mk.injEq] at e1
    obtain ⟨rfl, rfl⟩ := e1
    exact ⟨n, m, rfl, (RunsToDone_guard pol m _ []).mp e4, e0⟩

/-- **A permission callback that panics has not accepted anything.**  With PLAIN configured
and an application callback that panics (with whatever value) instead of returning a verdict,
no exchange that ends on PLAIN is authenticated — under every panic policy. -/
theorem C03_server_callback_panics (pol : PanicVal → Bool) (v : PanicVal) (cfg : List (String × Mech))
    (peer : List SEv) (hcfg : lookup cfg "PLAIN" = some ("PLAIN", plainServerPanics v))
    (hu : (serverNeg (guardCfg pol cfg) peer).used = some "PLAIN") :
    (serverNeg (guardCfg pol cfg) peer).authn = false := by
  cases ha : (serverNeg (guardCfg pol cfg) peer).authn with
  | false => rfl
  | true =>
    obtain ⟨_, name, m', _, d, _, ds, _, _, _, e3, _, _, _, e7, _, e9, _⟩ :=
      C03_server_sound (guardCfg pol cfg) peer ha
    rw [e7] at hu
    cases hu
    rw [lookup_guardCfg, hcfg] at e3
    simp only [Option.map_some, Option.some.injEq, Prod.mk.injEq, true_and] at e3
    subst e3
    have hk : (guard pol (plainServerPanics v) [d]).kind = .otherErr := by
      rw [guard_kind, plainServerPanics_kind]
    cases ds with
    | nil => have h1 : (guard pol (plainServerPanics v) [d]).kind = .done := e9
             rw [hk] at h1; cases h1
    | cons c cs => have h1 : (guard pol (plainServerPanics v) [d]).kind = .more := e9.1
                   rw [hk] at h1; cases h1

-- non-vacuity: a callback that panics with a string, under the policy of `sasl.go` (the panic
-- travels up) and under a recovering one (an error return); a mechanism whose second step panics
example :
    let cfg := [("PLAIN", plainServerPanics .stringVal)]
    let peer := [SEv.auth "PLAIN" (.valid [0, 117, 0, 112])]
    (serverNeg (guardCfg (fun _ => false) cfg) peer).err = .panicked ∧
    (serverNeg (guardCfg (fun _ => false) cfg) peer).authn = false ∧
    (serverNeg (guardCfg (fun _ => false) cfg) peer).sent = [] ∧
    (serverNeg (guardCfg (fun _ => true) cfg) peer).err = .mechErr ∧
    (serverNeg (guardCfg (fun _ => true) cfg) peer).authn = false := by
  decide

example :
    let mech : Mech := fun h => if h.length < 2 then { kind := .more, resp := [1] } else { kind := .otherErr, panic := some .otherVal }
    let r := serverNeg [("M", mech)] [.auth "M" (.valid [7]), .response .eq]
    r.authn = false ∧ r.err = .panicked ∧ r.sent = [.challenge [1]] := by
  decide

/-! ### the conditions of `<failure/>` -/

/-- **Every `<failure/>` ends the exchange unauthenticated, with the peer's failure as the
error** (probed: both roles × the eleven defined conditions, an unknown child, no child — 26
complete sessions): never `Authn`, the error is the decoded SASL failure and names the
condition (`none` for what is not a defined condition). -/
theorem C03_gen_failure_conds :
    (Generated.C03.saslFailureConds.map fun t =>
      t.length == 26 && t.all fun r =>
        r.2.2.1 == false && r.2.2.2.1 == true && r.2.2.2.2 == failureText r.2.1) = some true := by
  decide

/-- the table covers every defined condition on both roles -/
theorem C03_gen_failure_conds_complete :
    (Generated.C03.saslFailureConds.map fun t =>
      definedConds.all fun c => t.any (fun r => r.1 == "cli" && r.2.1 == c) && t.any (fun r => r.1 == "srv" && r.2.1 == c))
      = some true := by
  decide

/-- **What the receiving side writes when it refuses is a defined condition** — whatever the
configuration, the state of the exchange and the element: every `<failure/>` in the reaction of
`negotiateServer` carries one of four conditions, all defined, so the initiating side of this
library (and any conforming one) reads it as the failure it is (`C03_gen_failure_conds`,
`C03_client_failure_never_read`). -/
theorem C03_server_failures_defined (cfg : List (String × Mech)) (cur : Option SCur) (ev : SEv)
    (r : SRes) (h : sevent cfg cur ev = .stop r) (c : String) (hc : SSent.failure c ∈ r.sent) :
    c ∈ serverFailureConds ∧ definedConds.contains c = true := by
  have key : c ∈ serverFailureConds := by
    have hs : ∀ (name : String) (mech : Mech) (hist : List Bytes) (p : Payload) (r : SRes),
        sstep name mech hist p = .stop r → SSent.failure c ∈ r.sent → c ∈ serverFailureConds := by
      intro name mech hist p r h hc
      unfold sstep at h
      split at h
      · cases h; simp [sfail] at hc
      · split at h <;> first
          | (cases h; simp [sfail] at hc; try (subst hc; decide))
          | (cases h)
    cases ev with
    | failure => simp [sevent, sfail] at h; subst h; simp at hc
    | space => simp [sevent, sfail] at h; subst h; simp at hc
    | abort => simp [sevent, sfail] at h; subst h; simp at hc; subst hc; decide
    | other => simp [sevent, sfail] at h; subst h; simp at hc; subst hc; decide
    | otherNs => simp [sevent, sfail] at h; subst h; simp at hc; subst hc; decide
    | auth name p =>
      simp only [sevent] at h
      split at h
      · cases h; simp [sfail] at hc; subst hc; decide
      · split at h
        · cases h; simp [sfail] at hc; subst hc; decide
        · exact hs _ _ _ _ _ h hc
    | response p =>
      simp only [sevent] at h
      split at h
      · cases h; simp [sfail] at hc; subst hc; decide
      · exact hs _ _ _ _ _ h hc
  refine ⟨key, ?_⟩
  have : ∀ x ∈ serverFailureConds, definedConds.contains x = true := by decide
  exact this c key

/-! ### many sessions on one feature value -/

/-- **No shared mutable state behind the feature value** (regenerated from the source on every
run with go/ast; the walk starts at the exported constructors `SASL` / `SASLServer`, follows the
package's functions through every file and depends on no name of an unexported function, local
or file): no variable captured by the closures of the feature value and no package-level
variable is assigned to, incremented, ranged into, address-taken or has a method called on it
by code that runs when a session negotiates. -/
theorem C03_gen_no_shared_writes : Generated.C03.saslSharedWrites = some [] := by decide

/-- nor does the code that builds the feature value make an object with state (a negotiator, a
nonce, a buffer: the result of a call into a package that is not stateless) that the closures
then use for every session -/
theorem C03_gen_no_captured_fresh : Generated.C03.saslCapturedFresh = some [] := by decide

/-- the walk did reach the two constructors, what they call, and session-time code (closures
or functions called from them): an extractor that found nothing proves nothing -/
theorem C03_gen_walk :
    (Generated.C03.saslWalk.map fun w => decide (2 ≤ w.1) && decide (1 ≤ w.2)) = some true := by decide

/-- the product of sessions (no store): session `i` after any schedule is session `i` run
alone for as many quanta as the schedule gave it -/
theorem C03_sched_product (cfg : List (String × Mech)) (sched : List Nat) :
    ∀ (ss : List SSess) (i : Nat),
    (runSched cfg ss sched)[i]? = ss[i]?.map (SSess.iter cfg (sched.count i)) := by
  induction sched with
  | nil => intro ss i; simp [runSched, SSess.iter]
  | cons j sched ih =>
    intro ss i
    simp only [runSched]
    rw [ih, List.getElem?_modify, List.count_cons]
    by_cases hji : j = i
    · subst hji
      cases h : ss[j]? with
      | none => simp
      | some s => simp [SSess.iter]
    · have : (j == i) = false := by simpa using hji
      simp [hji, this]

/-- **Sessions are independent.**  The sessions of one feature value run over a store `σ` of
whatever they could share (`Shared`: how the store enters a quantum, what a quantum leaves in
each variable), and `W`, the variables the code writes, is what the regenerated fact says.
Then, for EVERY such store, whatever the schedule — any interleaving, any number of sessions —
the store is never changed and the state of session `i` is the state it reaches when run alone
for as many quanta as the schedule gave it: a function of its own script only; nothing another
session does (its credentials, its verdicts, the mechanism it chose) enters it.  (The theorem
breaks when the fact reports a written variable: `C03_sessions_shared_write_fails`.) -/
theorem C03_sessions_independent {σ : Type} (sh : Shared σ) (W : List String)
    (hW : Generated.C03.saslSharedWrites = some W)
    (cfg : List (String × Mech)) (sched : List Nat) (ss : List SSess) (i : Nat) :
    (runSchedShared sh W cfg sh.init ss sched).1 = sh.init ∧
    (runSchedShared sh W cfg sh.init ss sched).2[i]? = ss[i]?.map (SSess.iter cfg (sched.count i)) := by
  have hnil : W = [] := by
    have := C03_gen_no_shared_writes
    rw [hW] at this
    exact Option.some.inj this
  subst hnil
  rw [runSchedShared_nil]
  exact ⟨rfl, C03_sched_product cfg sched ss i⟩

/-- **… and that needs the fact.**  With one written variable in the store (`leakyShared`: the
negotiator state of the last quantum survives outside the loop, the regression a cached
`selected` / `server` or a package-level variable would be) independence fails, and in the
worst way: a session whose peer sends a bare `<response/>` continues the exchange another
session began and is authenticated, where alone it is refused. -/
theorem C03_sessions_shared_write_fails :
    ¬ (∀ (W : List String) (cfg : List (String × Mech)) (sched : List Nat) (ss : List SSess) (i : Nat),
        ((runSchedShared leakyShared W cfg leakyShared.init ss sched).2[i]?).map sessSummary
          = (ss[i]?.map (SSess.iter cfg (sched.count i))).map sessSummary) := by
  intro h
  have := h ["cur"] [("M", fun hist => if hist.length = 1 then { kind := .more } else { kind := .done })]
    [0, 1] [SSess.start [.auth "M" .empty, .response .empty], SSess.start [.response .empty]] 1
  revert this
  decide

/-- … so, once the schedule has given session `i` one quantum more than its script is long,
it has finished with exactly the result of `negotiateServer` on its own script: its `Authn`
bit, the elements written to it and the permission verdicts recorded for it are those of its
own credentials (`C03_server_sound`, `C03_server_plain_permission` apply to it). -/
theorem C03_sessions_outcome {σ : Type} (sh : Shared σ) (W : List String)
    (hW : Generated.C03.saslSharedWrites = some W)
    (cfg : List (String × Mech)) (scripts : List (List SEv))
    (sched : List Nat) (i : Nat) (peer : List SEv) (hi : scripts[i]? = some peer)
    (hfair : peer.length + 1 ≤ sched.count i) :
    (runSchedShared sh W cfg sh.init (scripts.map SSess.start) sched).2[i]?
      = some (.finished (serverNeg cfg peer)) := by
  rw [(C03_sessions_independent sh W hW cfg sched _ i).2, List.getElem?_map, hi]
  obtain ⟨m, hm⟩ := Nat.exists_eq_add_of_le hfair
  simp only [Option.map_some, SSess.start]
  rw [hm, SSess.iter_add, SSess.iter_serverLoop, SSess.iter_finished]
  simp [SRes.prefixed, serverNeg]

-- non-vacuity: two PLAIN sessions, the first refused, the second accepted, interleaved, over
-- the leaky store with nothing written (W = [])
example :
    ((runSchedShared leakyShared [] [("PLAIN", plainServer fun u p _ => u == [117] && p == [112])] none
      ([[SEv.auth "PLAIN" (.valid [0, 117, 0, 113])],
        [SEv.auth "PLAIN" (.valid [0, 117, 0, 112])]].map SSess.start) [1, 0, 0, 1]).2).map sessSummary
    = [some (false, [⟨[117], [113], [], false⟩]), some (true, [⟨[117], [112], [], true⟩])] := by
  decide

/-! ### many initiating sessions on one `xmpp.SASL` value -/

/-- **Initiating sessions are independent** — the same statement for the client library that
negotiates all its connections with one `xmpp.SASL(…)` value: over EVERY store of what the
sessions could share, with the written variables `W` the regenerated fact reports (the walk
covers `negotiateClient` and everything it calls), the store is never changed and session `i`
is the session run alone: which mechanism it selects, what it sends and whether it ends
authenticated depend on what ITS peer advertised and sent, and on nothing else. -/
theorem C03_client_sessions_independent {σ : Type} (sh : SharedC σ) (W : List String)
    (hW : Generated.C03.saslSharedWrites = some W)
    (cm : List (String × Mech)) (sched : List Nat) (ss : List CSess) (i : Nat) :
    (runSchedSharedC sh W cm sh.init ss sched).1 = sh.init ∧
    (runSchedSharedC sh W cm sh.init ss sched).2[i]? = ss[i]?.map (CSess.iter cm (sched.count i)) := by
  have hnil : W = [] := by
    have := C03_gen_no_shared_writes
    rw [hW] at this
    exact Option.some.inj this
  subst hnil
  rw [runSchedSharedC_nil]
  exact ⟨rfl, runSchedC_product cm sched ss i⟩

/-- … so a session that got two quanta more than its peer's script is long has finished with
exactly the result of `negotiateClient` on its own advertised list and script
(`C03_client_sound` applies to it) -/
theorem C03_client_sessions_outcome {σ : Type} (sh : SharedC σ) (W : List String)
    (hW : Generated.C03.saslSharedWrites = some W)
    (cm : List (String × Mech)) (scripts : List (List String × List CEv))
    (sched : List Nat) (i : Nat) (adv : List String) (peer : List CEv)
    (hi : scripts[i]? = some (adv, peer)) (hfair : peer.length + 2 ≤ sched.count i) :
    (runSchedSharedC sh W cm sh.init (scripts.map fun ap => CSess.init ap.1 ap.2) sched).2[i]?
      = some (.finished (clientNeg cm adv peer)) := by
  rw [(C03_client_sessions_independent sh W hW cm sched _ i).2, List.getElem?_map, hi]
  obtain ⟨m, hm⟩ := Nat.exists_eq_add_of_le hfair
  simp only [Option.map_some]
  rw [hm, CSess.iter_add, CSess.iter_clientNeg, CSess.iter_finished]

/-- **… and that needs the fact**: with one written variable (`leakySharedC`: the running
exchange of the last quantum is remembered outside `negotiateClient`) a session to which the
peer advertised NOTHING takes over another session's exchange and ends authenticated on a bare
`<success/>`, where alone it fails with "no matching mechanisms". -/
theorem C03_client_sessions_shared_write_fails :
    ¬ (∀ (W : List String) (cm : List (String × Mech)) (sched : List Nat) (ss : List CSess) (i : Nat),
        ((runSchedSharedC leakySharedC W cm leakySharedC.init ss sched).2[i]?).map csessSummary
          = (ss[i]?.map (CSess.iter cm (sched.count i))).map csessSummary) := by
  intro h
  have := h ["sel"] [("M", fun hist => if hist.length = 0 then { kind := .more } else { kind := .done })]
    [0, 1] [CSess.init ["M"] [.challenge .empty], CSess.init [] [.success .empty]] 1
  revert this
  decide

-- non-vacuity: two sessions with different advertised lists on one value, interleaved
example :
    ((runSchedSharedC leakySharedC [] [("A", fun _ => { kind := .done, resp := [1] }), ("B", fun _ => { kind := .done, resp := [2] })] none
      [CSess.init ["B"] [.success .empty], CSess.init ["B", "A"] [.failure .defined]] [1, 0, 0, 1, 1, 0]).2).map csessSummary
    = [some (true, .none, [.auth "B" [2]]), some (false, .saslFailure, [.auth "A" [1]])] := by
  decide

/-! ### the gates of the feature and the `Authn` bit of the session -/

/-- **SASL is gated by the session state, whatever the mechanisms** (probed on every run: the
harness builds `xmpp.SASL(…)` and `xmpp.SASLServer(…)` with the code under test for every list
of one or two of the six exported mechanisms — 84 feature values — and reads their masks):
`Necessary = Secure`, `Prohibited = Authn` in every row. -/
theorem C03_gen_feature_gates :
    (Generated.C03.saslGateMasks.map fun t =>
      t.length == 84 && t.all fun r => r.2.2.1 == saslNecessary && r.2.2.2 == saslProhibited) = some true := by
  decide

/-- **… and the gate is what decides** (probed: 48 complete sessions, both roles × every
subset of {Secure, Authn} as initial state × every exported mechanism): the feature is offered
(receiving side) / an `<auth/>` is written (initiating side), and `Negotiate` runs, exactly when
the model's `allowed` says so. -/
theorem C03_gen_gate_runs :
    (Generated.C03.saslGateRuns.map fun t =>
      t.length == 48 && t.all fun r =>
        r.2.2.2.1 == allowed saslNecessary saslProhibited r.2.1 &&
        r.2.2.2.2 == allowed saslNecessary saslProhibited r.2.1) = some true := by
  decide

/-- no exchange on a stream that is not secured, none on a session that is authenticated -/
theorem C03_gate_closed (state : Nat)
    (h : state &&& secureBit ≠ secureBit ∨ state &&& authnBit ≠ 0) :
    allowed saslNecessary saslProhibited state = false := by
  simp only [allowed, saslNecessary, saslProhibited]
  rcases h with h | h <;> simp [h]

/-- **The `Authn` bit of the session (initiating side).**  A session that did not have the bit
and has it after the feature negotiation was secured, ran the exchange, and the exchange
returned `Authn` without error — so everything `C03_client_sound` says holds for it. -/
theorem C03_session_authn_bit_client (state : Nat) (cm : List (String × Mech)) (adv : List String)
    (peer : List CEv) (hs : state &&& authnBit = 0)
    (h : clientStateAfter saslNecessary saslProhibited state cm adv peer &&& authnBit ≠ 0) :
    state &&& secureBit = secureBit ∧
    (clientNeg cm adv peer).authn = true ∧ (clientNeg cm adv peer).err = .none := by
  unfold clientStateAfter clientGated at h
  by_cases ha : allowed saslNecessary saslProhibited state = true
  · simp only [ha, if_true, stateAfter] at h
    have hsec : state &&& secureBit = secureBit := by
      simp only [allowed, saslNecessary, Bool.and_eq_true, beq_iff_eq] at ha
      exact ha.1
    by_cases he : (clientNeg cm adv peer).err = .none
    · by_cases hb : (clientNeg cm adv peer).authn = true
      · exact ⟨hsec, hb, he⟩
      · simp [he, hb, hs] at h
    · simp [he, hs] at h
  · simp [ha, hs] at h

/-- **The `Authn` bit of the session (receiving side)**: likewise, so `C03_server_sound` holds -/
theorem C03_session_authn_bit_server (state : Nat) (cfg : List (String × Mech)) (peer : List SEv)
    (hs : state &&& authnBit = 0)
    (h : serverStateAfter saslNecessary saslProhibited state cfg peer &&& authnBit ≠ 0) :
    state &&& secureBit = secureBit ∧
    (serverNeg cfg peer).authn = true ∧ (serverNeg cfg peer).err = .none := by
  unfold serverStateAfter serverGated at h
  by_cases ha : allowed saslNecessary saslProhibited state = true
  · simp only [ha, if_true, stateAfter] at h
    have hsec : state &&& secureBit = secureBit := by
      simp only [allowed, saslNecessary, Bool.and_eq_true, beq_iff_eq] at ha
      exact ha.1
    by_cases he : (serverNeg cfg peer).err = .none
    · by_cases hb : (serverNeg cfg peer).authn = true
      · exact ⟨hsec, hb, he⟩
      · simp [he, hb, hs] at h
    · simp [he, hs] at h
  · simp [ha, hs] at h

/-- **No second exchange**: the state a successful exchange leaves closes the gate — the
identity the first exchange established cannot be replaced by another one. -/
theorem C03_no_second_exchange (state : Nat) :
    allowed saslNecessary saslProhibited (stateAfter state true .none) = false := by
  apply C03_gate_closed
  right
  simp only [stateAfter, if_true, authnBit]
  intro h
  have h1 : ((state ||| 2) &&& 2).testBit 1 = true := by
    have h2 : Nat.testBit 2 1 = true := by decide
    rw [Nat.testBit_and, Nat.testBit_or, h2]; simp
  rw [h] at h1
  simp at h1

example : clientStateAfter saslNecessary saslProhibited 1
    [("M", fun _ => { kind := .done })] ["M"] [.success .empty] = 3 := by decide
example : clientStateAfter saslNecessary saslProhibited 0
    [("M", fun _ => { kind := .done })] ["M"] [.success .empty] = 0 := by decide

/-! ### what the negotiator of the selected mechanism is created with -/

/-- **Options of the negotiator** (probed on every run: a recording mechanism reports, from
inside its first `Step`, the TLS state, the remote mechanism list and the credentials of its
negotiator — both roles × connections without TLS state / with the zero state / TLS 1.2 with
tls-unique data / TLS 1.3 × three advertised lists): every row is what the model says. -/
theorem C03_gen_neg_opts :
    (Generated.C03.saslNegOpts.map fun t =>
      t.length == 16 && t.all fun r => optsRow r.1 r.2.1 r.2.2.1 == some r.2.2.2) = some true := by
  decide

/-- **… also over a real TLS layer, with and without the tee** (probed: the session runs on a
`*tls.Conn` of an in-process handshake, both roles × TLS 1.2 / 1.3 × `StreamConfig.TeeIn/TeeOut`
set or not): the recording mechanism ran, saw a TLS state with the version of the connection
and the tls-unique data of that very connection. -/
theorem C03_gen_neg_opts_tls :
    (Generated.C03.saslNegOptsTLS.map fun t =>
      t.length == 8 && t.all fun r =>
        r.2.2.2 == (true, (tlsOpt (some ⟨r.2.1, []⟩)).isSome, r.2.1, true)) = some true := by
  decide

/-- **Channel binding gets the state of this connection or nothing**: the mechanism sees a TLS
state exactly when the session's connection reports one whose version is not zero, and then it
is that state, unchanged — on both sides; the initiating side's mechanism sees exactly the list
the peer advertised (what a `-PLUS` capable mechanism needs to detect a downgrade). -/
theorem C03_negotiator_options (cs : Option ConnState) (adv : List String) (l p i : String) (s : ConnState) :
    ((clientOpts cs adv l p i).tls = some s ↔ cs = some s ∧ s.version ≠ 0) ∧
    ((serverOpts cs l).tls = some s ↔ cs = some s ∧ s.version ≠ 0) ∧
    (clientOpts cs adv l p i).remote = adv := by
  have key : tlsOpt cs = some s ↔ cs = some s ∧ s.version ≠ 0 := by
    unfold tlsOpt
    cases cs with
    | none => simp
    | some c =>
      by_cases hv : c.version = 0
      · simp only [hv, if_true]
        constructor
        · intro h; cases h
        · rintro ⟨h1, h2⟩; cases h1; exact absurd hv h2
      · simp only [hv, if_false]
        constructor
        · intro h; cases h; exact ⟨rfl, hv⟩
        · rintro ⟨h1, _⟩; exact h1
  exact ⟨key, key, rfl⟩

/-- **… through to the wire** (probed: real SCRAM-SHA-1 / -PLUS / SHA-256-PLUS clients of the
dependency in four preference lists × four advertised lists × the four connection kinds, 64
sessions): the mechanism named in `<auth/>` and the channel-binding flag of its client-first
message are what `select`, `clientOpts` and the dependency's flag rule give. -/
theorem C03_gen_scram_gs2 :
    (Generated.C03.saslScramGs2.map fun t =>
      t.length == 64 && t.all fun r => gs2Row r.1 r.2.1 r.2.2.1 == r.2.2.2) = some true := by
  decide

/-- **A `-PLUS` mechanism that is used binds the channel whenever the connection has a TLS
state**: if the initiating side selects a mechanism whose name ends in `-PLUS` (so both sides
offered it — `C03_client_mech_used`) on a connection that reports a TLS state with a version,
its negotiator announces channel binding — never `n` or `y`, which a receiver would accept
without binding. -/
theorem C03_channel_binding (cs : ConnState) (hv : cs.version ≠ 0) (cm : List (String × Mech))
    (adv : List String) (name : String) (m : Mech) (l p i : String)
    (hsel : select cm adv = some (name, m)) (hplus : isPlus name = true) :
    gs2Flag (clientOpts (some cs) adv l p i) name = .pUnique ∨
    gs2Flag (clientOpts (some cs) adv l p i) name = .pExporter := by
  have hmem : adv.contains name = true := by
    have := List.find?_some hsel
    simpa using this
  simp only [gs2Flag, clientOpts, tlsOpt, hv, if_false, hplus, hmem, Bool.not_true, if_true]
  by_cases h13 : 772 ≤ cs.version <;> simp [h13]

/-- … and without a TLS state (none reported, or the zero state) nothing is bound -/
theorem C03_channel_binding_needs_tls (cs : Option ConnState) (h : tlsOpt cs = none)
    (adv : List String) (name l p i : String) :
    gs2Flag (clientOpts cs adv l p i) name = .n := by
  simp [gs2Flag, clientOpts, h]

example : select [("SCRAM-SHA-1-PLUS", fun _ => ({ kind := .more } : StepRes))] ["SCRAM-SHA-1-PLUS"]
    = some ("SCRAM-SHA-1-PLUS", fun _ => { kind := .more }) ∧ isPlus "SCRAM-SHA-1-PLUS" = true := by
  constructor
  · rfl
  · decide

example : (clientOpts (connOfKind 2) ["SCRAM-SHA-1-PLUS"] "u" "p" "").tls = some ⟨771, [7, 8, 9]⟩ := by decide
example : (clientOpts (connOfKind 1) ["SCRAM-SHA-1-PLUS"] "u" "p" "").tls = none := by decide

/-- a mechanism the receiving side accepts is one it advertised -/
theorem C03_server_accepts_only_advertised (cfg : List (String × Mech)) (name n : String) (m : Mech)
    (h : lookup cfg name = some (n, m)) : n ∈ advertised cfg := by
  have hs := lookup_supported h
  have hm := List.mem_of_find?_eq_some h
  simp only [advertised, List.mem_filter, List.mem_map]
  exact ⟨⟨(n, m), hm, rfl⟩, hs⟩

/-- the feature dispatch in front of `negotiateServer` adds no way to authenticate -/
theorem C03_server_session (cfg : List (String × Mech)) (peer : List SEv)
    (h : (serverSession cfg peer).authn = true) : serverSession cfg peer = serverNeg cfg peer := by
  unfold serverSession at h ⊢
  split at h <;> first | (simp at h) | rfl

end XmppModel.Props.C03
