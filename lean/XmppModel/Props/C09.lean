import XmppModel.Model.Skeleton
import XmppModel.Model.ServeLoop
import XmppModel.Model.ScramLoop
import XmppModel.Model.WaitFor
import XmppModel.Lemmas.Skeleton
import XmppModel.Lemmas.ServeLoop
import XmppModel.Lemmas.WaitFor
import XmppModel.Model.FormLines
import XmppModel.Lemmas.FormLines
import XmppModel.Model.MucHandover
import XmppModel.Lemmas.MucHandover
import XmppModel.Generated.C09
/-!
# C09 — no peer input can panic or wedge the library

Statement (properties.jsonl): for any byte sequence a peer sends to a served session whose
multiplexer carries the library's own extension handlers, the library neither panics nor
blocks forever; every request helper that parses a peer's reply returns a value or an
error, never a panic.

How it is decided here.  Panic freedom of Go code is a statement about partial operations.
`Model/Skeleton.lean` is an IR that keeps exactly those (and the guards that protect
them); `harness/c09` regenerates the skeleton of every function of the anchored packages
from the Go source on every run (`Generated/C09.lean`).  The theorems below say:

* `C09_check_sound` — the abstract interpreter `check` is sound for *every* skeleton, fuel,
  initial state and oracle (the oracle is the peer and every condition the skeleton leaves
  open, so this quantifies over all inputs and histories);
* `C09_all_safe` — every regenerated skeleton passes the checker (`decide`, re-run whenever
  the source changes);
* `C09_library_never_panics` — hence no execution of any regenerated skeleton reaches a
  panic;
* `C09_serve_*` — the serve loop consumes at least one token per iteration, so it returns
  on every finite input however the handlers behave.

What is *partial* (see meta/C09.json): the skeleton abstracts data to kinds; the translator
(go/ast + go/types, `harness/c09/translate.go`) and its reviewed allow list are trusted;
`encoding/xml` and `xmlstream` are assumed panic-free on non-nil arguments; channel
protocols are C06/C15/C18's; form/form.go and disco/info.go are C19/C20's.
-/
namespace XmppModel.Props.C09
open XmppModel.Skeleton XmppModel.ServeLoop

/-! ## The checker is sound -/

/-- Soundness of the abstract interpreter, for all skeletons and all environments: if no site
is flagged from an abstract store that describes the concrete one, execution (any fuel, any
oracle) does not panic, and every way of leaving the statement is described by the
abstract result. -/
theorem C09_check_sound (n : Nat) (s : Stmt) (a : AStore) (st : CState)
    (hc : (check s a).2 = []) (hs : Sound a st.σ) : Good (check s a).1 (exec n s st) :=
  check_sound n s a st hc hs

/-- A skeleton without flagged sites never panics: every fuel, every initial kinds, every
oracle. -/
theorem C09_safe_never_panics (s : Stmt) (h : flagged s = []) (n : Nat) (σ : Var → Kind)
    (orc : List Nat) (site : Site) : exec n s ⟨σ, orc⟩ ≠ .panic site :=
  safe_no_panic h n σ orc site

-- non-vacuity: a guarded dereference is accepted …
example : flagged (.seq (.havoc 0 [.nil, .ptr]) (.ifKind 0 [.nil] .ret (.require 0 [.ptr] 7))) = [] := by
  decide
-- … the same dereference without its guard is flagged, and does panic for some oracle
example : flagged (.seq (.havoc 0 [.nil, .ptr]) (.require 0 [.ptr] 7)) = [7] := by decide
example : (exec 5 (.seq (.havoc 0 [.nil, .ptr]) (.require 0 [.ptr] 7)) ⟨fun _ => .nil, [0]⟩).panicSite = some 7 := by
  decide

/-- The checker is not vacuous: an unconditional hazard is always reported. -/
theorem C09_hazard_flagged (site : Site) : flagged (.hazard site) = [site] := rfl

/-- An unchecked assertion on a freshly read token is always reported (whatever kind is
asserted, as long as it is a single one of the seven). -/
theorem C09_unchecked_assert_flagged (site : Site) :
    flagged (.seq (.havoc 0 [.nil, .start, .stop, .chars, .comment, .procInst, .directive])
      (.require 0 [.start] site)) = [site] := rfl

/-! ## The regenerated skeletons -/

def allSafe : Option (List (String × Stmt)) → Bool
  | some l => l.all fun p => safe p.2
  | none => false

/-- Every function in scope passes the checker.  Re-decided on every run against the
skeletons regenerated from the working tree; an unchecked assertion, an unguarded
`Current()` dereference, an index / slice / `make` / `Must…` the translator does not
recognise as safe, makes this false. -/
theorem C09_all_safe : allSafe XmppModel.Generated.C09.skeletons = true := by decide +kernel

theorem allSafe_some {o : Option (List (String × Stmt))} (h : allSafe o = true) :
    ∃ l, o = some l ∧ ∀ p ∈ l, flagged p.2 = [] := by
  cases o with
  | none => simp [allSafe] at h
  | some l =>
    refine ⟨l, rfl, ?_⟩
    intro p hp
    simp only [allSafe, List.all_eq_true] at h
    have := h p hp
    simpa [safe, List.isEmpty_iff] using this

/-- No execution of any regenerated skeleton panics — all fuels, all initial states, all
oracles (= all peer inputs and all outcomes of the conditions a skeleton leaves open). -/
theorem C09_library_never_panics :
    ∃ l, XmppModel.Generated.C09.skeletons = some l ∧
      ∀ p ∈ l, ∀ (n : Nat) (σ : Var → Kind) (orc : List Nat) (site : Site),
        exec n p.2 ⟨σ, orc⟩ ≠ .panic site := by
  obtain ⟨l, hl, hsafe⟩ := allSafe_some C09_all_safe
  exact ⟨l, hl, fun p hp n σ orc site => safe_no_panic (hsafe p hp) n σ orc site⟩

/-- package part of a regenerated function name (`pkg.Func`, `pkg.(*T).Method`): package names
are part of the import path, i.e. API; function, receiver and helper names are not consumed by
the theorems below (round F, review finding 3). -/
def pkgOf (n : String) : String := String.ofList (n.toList.takeWhile (· != '.'))

/-- same elements with the same multiplicities -/
def sameMultiset (a b : List (String × Bool)) : Bool :=
  a.length == b.length && b.all fun x => (a.filter (· == x)).length == (b.filter (· == x)).length

/-- The extraction found the scope it expects: every package whose handlers / helpers the
property's anchors name has non-trivial skeletons. -/
theorem C09_scope_present :
    (["xmpp", "stanza", "receipts", "history", "commands", "blocklist", "carbons", "mux", "roster",
      "pubsub", "disco", "paging", "muc"].all fun n =>
        match XmppModel.Generated.C09.skeletons with
        | some l => l.any fun p => pkgOf p.1 == n
        | none => false) = true := by decide +kernel

example : pkgOf "receipts.(*Handler).HandleMessage" = "receipts" := by decide
example : sameMultiset [("a", true), ("b", false), ("a", true)] [("b", false), ("a", true), ("a", true)] = true := by decide
example : sameMultiset [("a", true), ("b", false)] [("a", false), ("b", true)] = false := by decide

/-! ## Serve makes progress -/

/-- Whatever the handler does with its element (`fails` = does it return an error), one
iteration of the serve loop removes at least one token from a non-empty input. -/
theorem C09_serve_step_progress (fails : List Tk → Bool) (t : Tk) (ts : List Tk) :
    (serveStep fails (t :: ts)).2.length < (t :: ts).length :=
  serveStep_progress fails t ts

/-- Serve returns on every finite input, for every handler behaviour: the loop ends by EOF or
by an error after at most one `handleInputStream` call per token plus one. -/
theorem C09_serve_terminates (fails : List Tk → Bool) (input : List Tk) :
    (serve fails input).outcome ≠ .fuelOut ∧ (serve fails input).iterations ≤ input.length + 1 :=
  serve_terminates fails input

example : (serve (fun _ => false) [.start, .chars, .stop, .chars, .start, .stop]).iterations = 4 := by decide
example : (serve (fun _ => false) [.start, .chars, .stop, .chars, .start, .stop]).outcome = .eof := by decide
example : (serve (fun _ => false) [.start, .bad, .stop, .chars]).outcome = .stopped := by decide

/-! ## Lock discipline of session.go

A path that leaves a function of session.go with `s.in`, `s.out` or `s.stateMutex` held wedges
the session for ever (Serve blocks in `sendError` / `Close`).  The harness classifies every
`Lock()` and every unmatched `Unlock()` of session.go syntactically (`harness/c09/lockfacts.go`,
regenerated on every run); the obligation is that every classification is one of the sound
patterns, that locks are handed to a caller only by the two functions whose result releases
them, and that the two `Close` methods which release a lock they did not take do so by `defer`
or with nothing but the "already closed" guard in front of the release. -/

def isRootCloser (n : String) : Bool :=
  "xmpp.(".toList.isPrefixOf n.toList && ").Close".toList.isSuffixOf n.toList

def lockOk (f : String × String × Nat) : Bool :=
  match f.2.1 with
  | "paired-defer" | "paired-explicit" => true
  -- only API names are consumed: the exported Session methods that hand the lock to the closer
  -- they return, and methods called Close (io.Closer) of the root package
  | "handoff" => f.1 == "xmpp.(*Session).TokenWriter" || f.1 == "xmpp.(*Session).TokenReader"
  | "release-defer" => isRootCloser f.1
  | "release-plain" => isRootCloser f.1 && f.2.2 ≤ 1
  | _ => false

def lockDisciplineOk : Option (List (String × String × Nat)) → Bool
  | some l => !l.isEmpty && l.all lockOk
  | none => false

/-- Every `Lock()` in session.go is released on every path by one of the recognised patterns
(or handed to the returned closer), and the closers release unconditionally. -/
theorem C09_lock_discipline : lockDisciplineOk XmppModel.Generated.C09.lockFacts = true := by
  decide +kernel

example : lockOk ("xmpp.(*lockWriteCloser).Close", "release-plain", 2) = false := by decide
example : lockOk ("xmpp.(*Session).Encode", "handoff", 0) = false := by decide

/-! ## Round F: every response a function obtains is closed or handed on, on every path

The other half of the `handshake` of `C09_root_serve_channel_waits_escape`: the serve goroutine
waits until the party that took a response closes it.  Regenerated (`harness/c09/respfacts.go`):
every call in scope whose result is an `xmlstream.TokenReadCloser`, with how the result is
disposed of on every path from there to a return or to the end of the function - `defer`,
`closed` (every path closes it or hands it on in its return statement), `handed-on` (stored:
the holder's duty).  A path that returns with the response open (`violation:…`) wedges Serve
for ever; findings 7, 11, 16 and the seeded C09-11 were of that kind and were found by the
watchdog only.  No names consumed.  Not covered: responses behind iterators (`xmlstream.Iter`,
the `Close` of the iterator types) and the holder's side of `handed-on`. -/

def responseKindOk (k : String) : Bool := k == "defer" || k == "closed" || k == "handed-on"

def responsesOk : Option (List (String × String)) → Bool
  | some l => l.all (fun f => responseKindOk f.2) && l.any (fun f => f.2 == "defer") &&
      l.any (fun f => f.2 == "closed")
  | none => false

theorem C09_responses_closed_on_every_path :
    responsesOk XmppModel.Generated.C09.responseFacts = true := by
  decide +kernel

example : responsesOk (some [("a", "defer"), ("b", "closed"),
    ("commands.(Command).ExecuteIQ", "violation:a return leaves the response open (line 72)")]) = false := by
  decide

/-! ## Round F: a channel is closed at most once

`close` of a closed channel panics (four genuine panics of this check's history, the seeded
C09-8) and is not an operation of the skeleton IR.  Every `close(ch)` in scope is regenerated
with what makes it happen at most once (`harness/c09/closefacts.go`): inside a `sync.Once`, the
only close of a local channel, or the close of an entry that the same block removes from its
table.  Outside the root package no other close is accepted; the root package has one: the
response slot (`iqResponder.Close`), which is only handed out behind the idempotent `errCloser`
(sendResp) - reviewed, and exercised by the "answered twice" / "closed twice" scenarios.  Send
on a closed channel is not covered (fuzzing only). -/

def closeFactsOk : Option (List (String × String)) → Bool
  | some l => l.all (fun f => f.2 == "once" || f.2 == "local" || f.2 == "removed-entry" ||
        (f.1 == "xmpp" && f.2 == "bare")) &&
      (l.filter fun f => f.2 == "bare").length ≤ 1 && l.any (fun f => f.2 == "once") &&
      l.any (fun f => f.2 == "removed-entry")
  | none => false

theorem C09_channels_closed_at_most_once :
    closeFactsOk XmppModel.Generated.C09.closeFacts = true := by
  decide +kernel

-- history's table entry closed without being removed (seeded C09-8), a second bare close in the root
example : closeFactsOk (some [("xmpp", "bare"), ("history", "bare"), ("ibb", "once"), ("h", "removed-entry")]) = false := by decide
example : closeFactsOk (some [("xmpp", "bare"), ("xmpp", "bare"), ("ibb", "once"), ("h", "removed-entry")]) = false := by decide

/-! ## Round E: every mutex of the handler packages is released on every path

The same classification as above, run over every package that has wait-for sets (history, ibb,
muc, receipts): here NO name is consumed, only the kind.  A `Lock()` that some path leaves
without a matching release (an early `return` between `h.m.Lock()` and `h.m.Unlock()`), a lock
handed to somebody else, or a release without an acquisition is refused: the next stanza that
needs the mutex would wedge Serve.  `window` = `X.Unlock(); wait; X.Lock()` inside a region
whose release is deferred (ibb `Conn.Read`). -/

def handlerLockOk (f : String × String × Nat) : Bool :=
  f.2.1 == "paired-defer" || f.2.1 == "paired-explicit" || f.2.1 == "window"

def handlerLocksOk : Option (List (String × String × Nat)) → Bool
  | some l => !l.isEmpty && l.all handlerLockOk &&
      l.any (fun f => f.2.1 == "paired-defer") && l.any (fun f => f.2.1 == "paired-explicit")
  | none => false

theorem C09_handler_locks_released_on_every_path :
    handlerLocksOk XmppModel.Generated.C09.handlerLockFacts = true := by
  decide +kernel

example : handlerLockOk ("receipts.(*Handler).HandleMessage",
    "violation:a path leaves receipts.(*Handler).HandleMessage holding h.m (line 190)", 0) = false := by decide
example : handlerLockOk ("x", "handoff", 0) = false := by decide

/-! ## Goroutines started by the code in scope

A handler that waits for a goroutine it started can be wedged by it (the goroutine blocks on a
pipe nobody drains after a write error, Serve never returns); one that does not wait can
leak it.  Which is which is regenerated (`harness/c09/gofacts.go`) and pinned here: a new
`go` statement in handler code, or a function that starts to wait for its goroutine, breaks
this obligation and has to be reviewed against the error paths (the dynamic side: every
handler runs with the output closed / failing at every write index, `servex`).  Reviewed:
blocklist's handler ranges over the list goroutine's channel and stops at the first write
error (the goroutine then leaks, Serve goes on); disco's handler does not wait for its
producer; history's query goroutine is not waited for; muc's join / leave wait in a select
that also watches the caller's context. -/
theorem C09_goroutines_reviewed :
    (match XmppModel.Generated.C09.goroutines with
      | some l => sameMultiset (l.map fun g => (pkgOf g.1, g.2))
          [("xmpp", false), ("xmpp", false), ("blocklist", true), ("disco", false), ("history", false),
           ("muc", true), ("muc", true)]
      | none => false) = true := by decide +kernel

/-! ## Iterators that turn pages

`Serve` hands a response to the waiting helper and reads nothing else until that response is
closed.  An iterator whose `Next` requests the next page must therefore close the page it
holds *before* it sends the request (otherwise the helper waits for a reply Serve will never
read and Serve waits for a Close that never comes).  Regenerated: every request sent from a
`Next` method and whether a `Close()` on something the iterator holds precedes it. -/
theorem C09_page_turns_close_first :
    (match XmppModel.Generated.C09.pageTurns with
      | some l => !l.isEmpty && l.all (fun p => p.2.2)
      | none => false) = true := by decide +kernel

/-! ## Size-dependent partial operations that were accepted

A `make`, index, slice or destination-size site that an idiom or the allow list accepts is
accepted *for the size / index expression that was reviewed*.  The expressions are regenerated
and compared here: editing one (a scratch buffer of a fixed size instead of one sized from the
packet, say) resurfaces the site for review even though the new form may look harmless to the
idioms.  Index / slice operations that the range analysis proves in range on every run
(`Generated.C09.derivedSites`, round D) are not part of this list: they are re-proved, not
reviewed, so renaming their operands or moving them into a helper changes nothing here. -/
theorem C09_accepted_sizes_reviewed :
    XmppModel.Generated.C09.acceptedSizes.filter (fun s => s.2.1 != "make") = [
  ("disco.walkItem", "index(allow)", "items[itemIdx]"),
  ("disco.walkItem", "slice(allow)", "items[last + 1:]"),
  ("disco.appendItems", "index(allow)", "items[itemIdx]"),
  ("ibb.handlePayload", "make(allow)", "make([]byte, base64.StdEncoding.DecodedLen(len(p.Data)))"),
  ("ibb.handlePayload", "dstsize", "base64.StdEncoding.Decode(data, p.Data)"),
  ("ibb.handlePayload", "slice(allow)", "data[:n]"),
  ("attr.randomID", "make(allow)", "make([]byte, (n / 2) + (n & 1))"),
  ("attr.randomID", "slice(allow)", "fmt.Sprintf(\"%x\", b)[:n]")] := by decide +kernel

/-- Round F: `make` sites accepted by the idiom "every size argument is syntactically
non-negative" (constants, len / cap, unsigned values, sums and products of such: `nonNegative`
in translate.go, decided on every run) carry no reviewed judgement about their text, so they
are no longer pinned (a new `make([]xml.Attr, 0, len(start.Attr))` in bookmarks alarmed, a
rename of `tok` would have); they stay listed in the facts and the evidence, and there must be
some (the extractor still sees them). -/
theorem C09_make_sites_found :
    (XmppModel.Generated.C09.acceptedSizes.filter (fun s => s.2.1 == "make")).isEmpty = false := by
  decide +kernel

/-! ## Handler locks and the transport; request contexts

A mutex of a handler package must not be held while a stanza is written to the session: the
write blocks as long as the peer does not read, a handler that takes the same mutex stops the
serve goroutine from reading, and a peer that finishes its own writes first is never drained.
Regenerated: every (function, mutex, send) with the mutex held across the call
(`harness/c09/lockfacts.go`, `heldAcrossSend`). -/
theorem C09_no_lock_across_send : XmppModel.Generated.C09.locksAcrossSend = some [] := by
  decide +kernel

/-- Every `context.With…` whose cancel function is not deferred at once is one of the reviewed
places that hand the cancel function on (returned by setDeadline / setWriteDeadline, stored in
the session by negotiateSession / SetCloseDeadline, stored per expectation by ibb's Expect).
A request goroutine whose context outlives its caller stays registered for its id: a late reply
is handed to it and never closed (Serve waits for ever). -/
theorem C09_cancels_reviewed :
    sameMultiset (XmppModel.Generated.C09.cancels.map fun g => (pkgOf g.1, g.2))
      [("xmpp", false), ("xmpp", false), ("xmpp", false), ("xmpp", false), ("xmpp", true),
       ("ibb", true), ("ibb", true), ("ibb", false), ("muc", true), ("muc", true)] = true := by
  decide +kernel

/-! ## A pending request, the serve goroutine and the handlers' locks

A local call that waits for the peer's answer (an acknowledged ibb `Write` / `Flush`, every
`UnmarshalIQ`-based helper) can only be released by the serve goroutine, which reads the answer
and hands it over.  If a handler - running on the serve goroutine - needs a mutex the waiting
call holds, a peer that sends the handler's stanza *before* the answer wedges the session for
ever: the handler waits for the lock, the call for the answer, the answer for Serve
(`Model/WaitFor.lean`).  The two sets are regenerated per handler package
(`harness/c09/waitfacts.go`): mutexes held across a wait for the peer (directly, through
functions of the package, or through writer chains built over the package's stanza writer) and
mutexes taken by code reachable from the package's handlers. -/

section WaitFor
open XmppModel.WaitFor

/-- Disjoint lock sets: whatever the peer sends and whether or not a call is waiting, the serve
goroutine reads the whole input and is back at its loop head (so Serve returns once the input
ends) after at most `measure` transitions - for every pair of sets, every input. -/
theorem C09_disjoint_locks_serve_finishes {α : Type} [DecidableEq α] (held acq : List α)
    (hd : disjoint held acq = true) (aw : Bool) (inbox : List Msg) :
    finished (run held acq (measure acq ⟨aw, none, inbox⟩) ⟨aw, none, inbox⟩) = true :=
  run_finishes hd _ _ (todoOk_init held aw inbox) (Nat.le_refl _)

/-- A shared lock: with a call waiting, the first stanza for a handler stops the serve goroutine
for ever; nothing behind it (the answer included) is ever read.  This is the negation witness
of the full-strength statement for code whose sets intersect. -/
theorem C09_shared_lock_wedges {α : Type} [DecidableEq α] (held acq : List α) (x : α)
    (hx : x ∈ held) (ha : x ∈ acq) (rest : List Msg) :
    wedged held acq (run held acq (acq.length + 1) ⟨true, none, .stanza :: rest⟩) = true ∧
      (run held acq (acq.length + 1) ⟨true, none, .stanza :: rest⟩).inbox = rest := by
  have hr : run held acq (acq.length + 1) (⟨true, none, .stanza :: rest⟩ : St α)
      = run held acq acq.length ⟨true, some acq, rest⟩ := by simp [run, step]
  rw [hr]
  exact run_wedges (by simpa using hx) acq rest acq.length ha (Nat.le_refl _)

-- non-vacuity: a handler that takes two other locks lets the answer through …
example : finished (run [1] [2, 3] 20 ⟨true, none, [.stanza, .reply, .stanza]⟩) = true := by decide
example : (run [1] [2, 3] 20 ⟨true, none, [.stanza, .reply, .stanza]⟩).awaiting = false := by decide
-- … one that needs the waiting call's lock never gets to the answer
example : wedged [1] [2, 1] (run [1] [2, 1] 20 ⟨true, none, [.stanza, .reply]⟩) = true := by decide
example : (run [1] [2, 1] 20 ⟨true, none, [.stanza, .reply]⟩).inbox = [.reply] := by decide
-- without a waiting call the same handler is harmless
example : finished (run [1] [2, 1] 20 ⟨false, none, [.stanza, .reply]⟩) = true := by decide

def waitLocksOk : Option (List (String × List String × List String)) → Bool
  | some l => l.any (fun p => !p.2.1.isEmpty) && l.any (fun p => !p.2.2.isEmpty) &&
      l.all fun p => disjoint p.2.1 p.2.2
  | none => false

/-- In every handler package the mutexes held across a wait for the peer and the mutexes taken
on the serve goroutine are disjoint (and the extraction found both kinds somewhere: ibb's
write lock, the handlers' table locks).  Re-decided on every run. -/
theorem C09_handler_locks_disjoint : waitLocksOk XmppModel.Generated.C09.waitLocks = true := by
  decide +kernel

/-- Hence, for the regenerated sets of every handler package: every input, with or without a
pending request, is read to its end by the serve goroutine. -/
theorem C09_pending_request_never_wedges_serve :
    ∃ l, XmppModel.Generated.C09.waitLocks = some l ∧ ∀ p ∈ l, ∀ (aw : Bool) (inbox : List Msg),
      finished (run p.2.1 p.2.2 (measure p.2.2 ⟨aw, none, inbox⟩) ⟨aw, none, inbox⟩) = true := by
  have h := C09_handler_locks_disjoint
  cases hw : XmppModel.Generated.C09.waitLocks with
  | none => rw [hw] at h; simp [waitLocksOk] at h
  | some l =>
    rw [hw] at h
    refine ⟨l, rfl, ?_⟩
    intro p hp aw inbox
    simp only [waitLocksOk, Bool.and_eq_true, List.all_eq_true] at h
    exact C09_disjoint_locks_serve_finishes _ _ (h.2 p hp) aw inbox

/-! ### Channel waits on the serve goroutine

A handler can also wait on a channel (history hands a result to the iterator, ibb hands a new
stream to `Accept` / `Expect`, muc hands the self-presence to a pending join, receipts signals
the waiting sender).  A channel operation that can block without an alternative is, in the
terms of the model above, a resource the serve goroutine needs and that - in the worst case -
only a local call provides which is itself waiting for the peer: a member of both sets.  The
operations reachable from the handlers are regenerated with the way each wait can end
(`harness/c09/chanfacts.go`: select with default / with a second communication, send on a
channel every `make` of which is buffered, close, range over a channel closed by a goroutine
the function started); no names are consumed. -/

def chanKindOk (k : String) : Bool :=
  k == "default" || k == "escape" || k == "buffered" || k == "close" || k == "producer"

/-- the operations of package `pkg` that can block with no alternative, as resources -/
def blockingOps (ops : List (String × String × String)) (pkg : String) : List String :=
  (ops.filter fun o => o.1 == pkg && !chanKindOk o.2.2).map fun o => "chan:" ++ o.2.1

def serveChanOpsOk : Option (List (String × String × String)) → Bool
  | some l => l.any (fun o => o.2.2 == "escape") && l.any (fun o => o.2.2 == "buffered") &&
      l.all fun o => chanKindOk o.2.2
  | none => false

/-- Every channel operation that can run on the serve goroutine can be left without the help of
a call that waits for the peer (and the extraction found the hand-overs: some select with an
alternative, some buffered signal).  Re-decided on every run. -/
theorem C09_serve_channel_waits_escape :
    serveChanOpsOk XmppModel.Generated.C09.serveChanOps = true := by
  decide +kernel

theorem C09_blocking_ops_nil_of_all_ok {ops : List (String × String × String)}
    (h : ops.all (fun o => chanKindOk o.2.2) = true) (pkg : String) : blockingOps ops pkg = [] := by
  simp only [blockingOps, List.map_eq_nil_iff, List.filter_eq_nil_iff]
  intro o ho
  have := List.all_eq_true.mp h o ho
  simp [this]

/-- Locks and channel waits together, for the regenerated facts of every handler package: with
the blocking channel operations counted as resources on both sides, the serve goroutine still
reads every input to its end, whether or not a request is pending. -/
theorem C09_pending_request_never_wedges_serve_channels :
    ∃ l ops, XmppModel.Generated.C09.waitLocks = some l ∧
      XmppModel.Generated.C09.serveChanOps = some ops ∧
      ∀ p ∈ l, ∀ (aw : Bool) (inbox : List Msg),
        finished (run (p.2.1 ++ blockingOps ops p.1) (p.2.2 ++ blockingOps ops p.1)
          (measure (p.2.2 ++ blockingOps ops p.1) ⟨aw, none, inbox⟩) ⟨aw, none, inbox⟩) = true := by
  have hc := C09_serve_channel_waits_escape
  obtain ⟨l, hl, hfin⟩ := C09_pending_request_never_wedges_serve
  cases ho : XmppModel.Generated.C09.serveChanOps with
  | none => rw [ho] at hc; simp [serveChanOpsOk] at hc
  | some ops =>
    rw [ho] at hc
    simp only [serveChanOpsOk, Bool.and_eq_true] at hc
    refine ⟨l, ops, hl, rfl, ?_⟩
    intro p hp aw inbox
    rw [C09_blocking_ops_nil_of_all_ok hc.2 p.1]
    simpa using hfin p hp aw inbox

/-- The converse, for any facts: a channel operation of a package that can block with no
alternative is a shared resource, so with a call waiting the first handler stanza stops the
serve goroutine for ever (instance of `C09_shared_lock_wedges`). -/
theorem C09_blocking_channel_wait_wedges (held acq : List String)
    (ops : List (String × String × String)) (pkg : String) (o : String × String × String)
    (ho : o ∈ ops) (hp : o.1 = pkg) (hk : chanKindOk o.2.2 = false) (rest : List Msg) :
    let h := held ++ blockingOps ops pkg
    let a := acq ++ blockingOps ops pkg
    wedged h a (run h a (a.length + 1) ⟨true, none, .stanza :: rest⟩) = true ∧
      (run h a (a.length + 1) ⟨true, none, .stanza :: rest⟩).inbox = rest := by
  intro h a
  have hm : ("chan:" ++ o.2.1) ∈ blockingOps ops pkg := by
    simp only [blockingOps, List.mem_map, List.mem_filter]
    exact ⟨o, ⟨ho, by simp [hp, hk]⟩, rfl⟩
  exact C09_shared_lock_wedges h a ("chan:" ++ o.2.1)
    (List.mem_append_right _ hm) (List.mem_append_right _ hm) rest

-- non-vacuity: a bare send in a handler is a blocking operation and wedges; the same facts with
-- an escape do not
example : blockingOps [("history", "send", "blocking"), ("ibb", "send", "escape")] "history" = ["chan:send"] := by
  decide
example : blockingOps [("history", "send", "escape"), ("ibb", "send", "escape")] "history" = [] := by decide
example : serveChanOpsOk (some [("history", "send", "blocking"), ("ibb", "send", "escape"), ("r", "send", "buffered")]) = false := by
  decide

end WaitFor

/-! ## Known finding: the SCRAM client of the SASL dependency (negotiation, before Serve)

Full-strength statement (false for mellium.im/sasl v0.3.2, see `Model/ScramLoop.lean`):
`∀ msg, ScramLoop.serverFirst msg = .returns` — the client's field loop terminates on every
server-first message.  The negation is proved with the witness the harness replays on the
real code (`<challenge>AQ==</challenge>`, i.e. the one-byte message `[1]`); what does hold
is the `_partial` theorem: the loop terminates whenever the last field is well-formed. -/

open XmppModel.ScramLoop in
theorem C09_scram_client_loop_fails : ¬ (∀ msg : ScramLoop.Bytes, serverFirst msg = .returns) := by
  intro h
  have := h [1]
  revert this
  decide

open XmppModel.ScramLoop in
theorem C09_scram_client_returns_partial :
    ∀ fs : List ScramLoop.Bytes, (∀ f, fs.getLast? = some f → malformed f = false) → run fs = .returns := by
  intro fs
  induction fs with
  | nil => intro _; rfl
  | cons f rest ih =>
    intro h
    cases rest with
    | nil =>
      have := h f (by simp)
      simp [run, this]
    | cons g r =>
      have ih' := ih (by intro f' hf'; exact h f' (by simpa using hf'))
      simp only [run]
      split
      · exact ih'
      · split
        · rfl
        · exact ih'

-- non-vacuity: a plausible server-first message terminates, the witness does not
open XmppModel.ScramLoop in
-- "r=ab,i=1"
example : serverFirst [114, 61, 97, 98, 44, 105, 61, 49] = .returns := by decide
open XmppModel.ScramLoop in
example : serverFirst [1] = .loops := by decide

/-! ## Round E: channel waits of the ROOT package on the serve goroutine (the response slot)

`handleInputStream` hands a response to the request that waits for it and then waits until the
requester has closed it.  The hand-over must have an alternative exit (the requester's context:
it ends whenever `sendResp` returns, so a requester that gives up at any moment releases the
serve loop); the wait behind it is a `handshake`: a receive from the channel the select case has
just sent on - the requester accepted the response in a rendezvous, so it exists and owes the
`Close` (an obligation of the helpers, exercised by the watchdog runs; not proved).  The
operations reachable from `(*Session).Serve` are regenerated with the same classifier as for
the handler packages; no names consumed.  A plain send / receive with no alternative (the
check-then-act rewrite `if ctx.Err() == nil { c <- v; <-c }`) is `blocking` and refused: in the
terms of the wait-for model it is a resource of both sides (`C09_blocking_channel_wait_wedges`). -/

def rootChanKindOk (k : String) : Bool := chanKindOk k || k == "handshake"

def rootServeChanOpsOk : Option (List (String × String)) → Bool
  | some l => l.any (fun o => o.1 == "send" && o.2 == "escape") &&
      l.any (fun o => o.1 == "recv" && o.2 == "handshake") && l.all fun o => rootChanKindOk o.2
  | none => false

/-- Every channel operation the root package can perform on the serve goroutine has an
alternative exit or is the acknowledged half of a hand-over that had one; the hand-over and its
handshake were found.  Re-decided on every run. -/
theorem C09_root_serve_channel_waits_escape :
    rootServeChanOpsOk XmppModel.Generated.C09.rootServeChanOps = true := by
  decide +kernel

-- the check-then-act rewrite of the hand-over
example : rootServeChanOpsOk (some [("recv", "default"), ("send", "blocking"), ("recv", "blocking")]) = false := by decide
example : rootServeChanOpsOk (some [("send", "escape"), ("recv", "handshake"), ("recv", "escape")]) = true := by decide

/-! ## Round E: the unbounded line-splitting loops of form/form.go (`Submit` of a peer's form)

A form decoded from a peer's reply (muc.GetConfig, a command payload, …) is sent back with
`Submit`; `(*Data).TokenReader` cuts the peer's instructions and text-multi values into lines
with `for { idx := strings.IndexAny(…) … }` loops that have no bound of their own.  The model
(Model/FormLines.lean) keeps that shape (fuel-bounded, `none` = still looping), so "returns
whatever the reply contains" is a statement that can fail: `C09_form_loop_without_progress_hangs`
exhibits a loop of the same shape that never returns.  Tie: op `formsubmit` runs the real
decoder + Submit + encoder under the watchdog on every small form and compares what the
submission carries with `submitted`. -/

open XmppModel.FormLines in
/-- The text-multi loop returns for every text (any separator predicate, any lines collected
so far) within `length + 1` turns, with exactly the pieces between separators. -/
theorem C09_form_multi_loop_returns {α : Type} (sep : α → Bool) (s : List α) (acc : List (List α)) :
    multiLoop sep (s.length + 1) s acc = some (acc ++ segments sep s) :=
  multiLoop_eq sep _ s acc (Nat.lt_succ_self _)

open XmppModel.FormLines in
/-- More fuel never changes the answer (the bound is not an artefact). -/
theorem C09_form_multi_loop_fuel_irrelevant {α : Type} (sep : α → Bool) (s : List α) (acc : List (List α))
    (n : Nat) (h : s.length < n) : multiLoop sep n s acc = multiLoop sep (s.length + 1) s acc := by
  rw [multiLoop_eq sep n s acc h, multiLoop_eq sep _ s acc (Nat.lt_succ_self _)]

open XmppModel.FormLines in
/-- The instructions loop returns for every text, with the non-empty pieces. -/
theorem C09_form_instr_loop_returns {α : Type} (sep : α → Bool) (s : List α) (acc : List (List α)) :
    instrLoop sep (s.length + 1) s acc = some (acc ++ nonEmpty (segments sep s)) :=
  instrLoop_eq sep _ s acc (Nat.lt_succ_self _)

open XmppModel.FormLines in
/-- Hence a submission of ANY form a peer can send is produced: `submitted` is never `none`,
and it carries the non-empty lines of the instructions and of the joined values. -/
theorem C09_form_submit_returns (instr values : List Bytes) :
    submitted instr values = some
      (nonEmpty (segments isNL (accInstr 10 instr)),
       if values.isEmpty then [] else nonEmpty (segments isNL (joinNL 10 values))) := by
  by_cases hv : values.isEmpty = true
  · simp [submitted, C09_form_instr_loop_returns, hv]
  · simp [submitted, C09_form_instr_loop_returns, C09_form_multi_loop_returns, hv]

open XmppModel.FormLines in
/-- No piece contains a separator, their number is the number of separators + 1, and pieces
plus separators add up to the text: the loop loses and invents nothing. -/
theorem C09_form_segments_exact {α : Type} (sep : α → Bool) (s : List α) :
    (∀ l ∈ segments sep s, ∀ b ∈ l, sep b = false) ∧
    (segments sep s).length = (s.filter sep).length + 1 ∧
    ((segments sep s).map List.length).sum + (s.filter sep).length = s.length :=
  ⟨segments_no_sep sep s, segments_length sep s, segments_total sep s⟩

open XmppModel.FormLines in
/-- The model can express the failure: a loop of the same shape that advances only behind a
non-empty line never returns on a text that starts with a separator, whatever the fuel. -/
theorem C09_form_loop_without_progress_hangs {α : Type} (sep : α → Bool) (b : α) (r : List α)
    (acc : List (List α)) (hb : sep b = true) : ∀ n, stuckLoop sep n (b :: r) acc = none :=
  fun n => stuckLoop_stuck sep n (b :: r) acc (by simp [indexSep, hb])

-- non-vacuity: "a\n\nb" (an empty <value/> between two values) and CR LF inside a value
open XmppModel.FormLines in
example : submitted [] [[97], [], [98, 13, 10, 99]] = some ([], [[97], [98], [99]]) := by decide
open XmppModel.FormLines in
example : submitted [[], [97, 10], [], [98]] [] = some ([[97], [98]], []) := by decide
open XmppModel.FormLines in
example : multiLoop isNL 5 [97, 10, 10, 98] [] = some [[97], [], [98]] := by decide
open XmppModel.FormLines in
example : multiLoop isNL 2 [97, 10, 10, 98] [] = none := by decide  -- too little fuel: still looping
open XmppModel.FormLines in
example : stuckLoop isNL 40 [97, 10, 10, 98] [] = none := by decide

/-! ## Round E: the join hand-over loop of muc's presence handler

`(*Client).handlePresence` runs on the serve goroutine with `Client.managedM` held; its
`selectJoin:` loop (take the pending request out of `Channel.join`, put a foreign one back,
answer ours, look again when the caller has given up) has no bound of its own.
Model/MucHandover.lean keeps that shape (fuel-bounded, `none` = still looping; `later` = the
requests that further Join calls put into the channel while the handler runs).  Tie: op
`muchand` (the real handler on the one-step domain). -/

open XmppModel.MucHandover in
/-- The hand-over returns for every content of the channel and every environment, within
`|later| + 2` turns. -/
theorem C09_muc_handover_returns (q : Option Req) (later : List Req) :
    ∃ r, selectJoin (later.length + 2) q later = some r :=
  selectJoin_returns later q

open XmppModel.MucHandover in
/-- A pending request for ANOTHER occupant JID (a change of nickname is under way, the presence
is for the nickname still held) is neither completed nor lost: the presence goes on to the user
callback and the request is in the channel again, at the first turn. -/
theorem C09_muc_foreign_request_put_back (n : Nat) (jc : Req) (later : List Req)
    (h : jc.same = false) : selectJoin (n + 1) (some jc) later = some (.forward, some jc) :=
  foreign_request_put_back n jc later h

open XmppModel.MucHandover in
/-- A live request for this occupant JID is completed at the first turn. -/
theorem C09_muc_own_request_completed (n : Nat) (jc : Req) (later : List Req)
    (hs : jc.same = true) (hl : jc.live = true) :
    selectJoin (n + 1) (some jc) later = some (.handed, none) :=
  own_request_completed n jc later hs hl

open XmppModel.MucHandover in
/-- The model can express the wedge: with `continue` instead of `break` behind the put-back the
handler never returns while a request for another nickname is pending, whatever the fuel. -/
theorem C09_muc_handover_continue_hangs (n : Nat) (jc : Req) (later : List Req)
    (h : jc.same = false) : selectJoinSpin n (some jc) later = none :=
  selectJoinSpin_hangs n jc later h

open XmppModel.MucHandover in
-- two callers gave up, the third one listens: three turns
example : selectJoin 4 (some ⟨true, false⟩) [⟨true, false⟩, ⟨true, true⟩] = some (.handed, none) := by decide
open XmppModel.MucHandover in
example : selectJoin 2 (some ⟨true, false⟩) [⟨true, false⟩, ⟨true, true⟩] = none := by decide
open XmppModel.MucHandover in
example : selectJoin 2 (some ⟨false, true⟩) [] = some (.forward, some ⟨false, true⟩) := by decide

end XmppModel.Props.C09
