import XmppModel.Model.Payload
import XmppModel.Model.Form
import XmppModel.Lemmas.Payload
import XmppModel.Lemmas.Form
import XmppModel.Model.Payloads
import XmppModel.Lemmas.Payloads
import XmppModel.Generated.C19
/-!
# C19 — extension payloads encode consistently, safely and round-trip

Property theorems only (helpers are in `Lemmas/Payload.lean`, `Lemmas/Form.lean`).
Quantifiers: every skeleton and every token stream it can produce, every element tree,
every form / field / value / `jid.Parse` oracle.
-/
namespace XmppModel.Props.C19
open XmppModel XmppModel.Xml XmppModel.Payload XmppModel.Form

/-! ### Layer 1: writers built from the nesting-preserving combinators are balanced -/

/-- any token stream produced by a skeleton that passes the syntactic check is balanced
(so `encoding/xml` prints a well-nested document; `ext` parts are balanced by hypothesis) -/
theorem C19_balanced (s : Skel) (ts : List Tok) (hs : balancedSkel s = true) (hg : Gen s ts) :
    balanced ts = true :=
  balanced_of_depth (gen_depth hg hs 0)

example : balancedSkel (.wrap (.seq (.wrap .chars) (.many (.alt (.wrap .empty) .ext)))) = true := by decide

/-- `xmlstream.Wrap` of a balanced stream is balanced -/
theorem C19_wrap_balanced (n : Name) (as : List Attr) (ts : List Tok) (h : balanced ts = true) :
    balanced (Tok.start n as :: ts ++ [Tok.stop n]) = true :=
  balanced_of_depth (depthAfter_wrap n as ts (depthAfter_of_balanced h) 0)

/-- `xmlstream.MultiReader` of balanced streams is balanced -/
theorem C19_multi_balanced (a b : List Tok) (ha : balanced a = true) (hb : balanced b = true) :
    balanced (a ++ b) = true := by
  apply balanced_of_depth
  rw [depthAfter_append, depthAfter_of_balanced ha 0]
  simpa using depthAfter_of_balanced hb 0

example : balanced [Tok.start ⟨"", "a"⟩ [], Tok.stop ⟨"", "a"⟩] = true := by decide

/-- the check is not vacuous: a lone start token is rejected, and it is unbalanced -/
theorem C19_unbalanced_rejected :
    balancedSkel (.seq .startTok .chars) = false ∧
    balanced [Tok.start ⟨"", "a"⟩ [], Tok.chars "x"] = false := by decide

/-- the skeleton of every writer found in the anchored files (regenerated from the source
on every run) is built from nesting-preserving combinators only … -/
theorem C19_all_writers_balanced :
    ∀ w ∈ Generated.C19.writers, balancedSkel w.2 = true := by decide

/-- … and every writer the property names is present with a balanced skeleton -/
theorem C19_required_writers_balanced :
    ∀ r ∈ Generated.C19.required, ∃ s, r.2 = some s ∧ balancedSkel s = true := by
  intro r hr
  have h : ∀ r ∈ Generated.C19.required, (match r.2 with | some s => balancedSkel s | none => false) = true := by decide
  have := h r hr
  cases h2 : r.2 with
  | none => simp [h2] at this
  | some s => exact ⟨s, rfl, by simpa [h2] using this⟩

/-- so every token stream such a writer can produce (its `ext` parts being balanced) is balanced -/
theorem C19_writers_sound (w : String × Skel) (hw : w ∈ Generated.C19.writers) (ts : List Tok)
    (hg : Gen w.2 ts) : balanced ts = true :=
  C19_balanced w.2 ts (C19_all_writers_balanced w hw) hg

example : Generated.C19.writers.length ≥ 50 := by decide

/-- the matcher the driver runs on every real token stream (`skel` lines) is sound: a stream it
accepts is one the skeleton can produce … -/
theorem C19_matcher_sound (s : Skel) (ts : List Tok) (h : accepts s ts = true) : Gen s ts :=
  accepts_sound s ts h

/-- … hence balanced whenever the skeleton passes the syntactic check -/
theorem C19_accepted_balanced (s : Skel) (ts : List Tok) (hs : balancedSkel s = true)
    (h : accepts s ts = true) : balanced ts = true :=
  C19_balanced s ts hs (accepts_sound s ts h)

example : accepts (.wrap (.many (.alt (.wrap .chars) .ext)))
    [Tok.start ⟨"", "x"⟩ [], Tok.start ⟨"", "v"⟩ [], Tok.chars "t", Tok.stop ⟨"", "v"⟩,
     Tok.start ⟨"u", "f"⟩ [], Tok.stop ⟨"u", "f"⟩, Tok.stop ⟨"", "x"⟩] = true := by decide

example : accepts (.wrap .chars) [Tok.start ⟨"", "x"⟩ [], Tok.start ⟨"", "v"⟩ [], Tok.stop ⟨"", "v"⟩, Tok.stop ⟨"", "x"⟩] = false := by
  decide

/-- every element tree flattens to a balanced token stream -/
theorem C19_tree_balanced (n : Node) : balanced (flatten n) = true :=
  balanced_of_depth (depthAfter_flatten n 0)

/-- the parser inverts `flatten`: a decoder that rebuilds the tree sees the tree that was written -/
theorem C19_parse_flatten (ns : List Node) : parse (flattenL ns) = some ns :=
  parse_flattenL ns

theorem C19_parse_flatten_one (n : Node) : parse (flatten n) = some [n] := by
  have := parse_flattenL [n]
  simpa [flattenL] using this

/-! ### Layer 2: data forms -/

/-- what a field carries on the wire: never an empty value, only values that were given -/
theorem C19_wire_sound (jn : JidNorm) (typ : String) (vs : List String) :
    ∀ v ∈ wireValues jn typ vs, v ≠ "" ∧ v ∈ vs := by
  unfold wireValues
  generalize false = first
  induction vs generalizing first with
  | nil => simp [wireValuesAux]
  | cons x xs ih =>
    intro v hv
    simp only [wireValuesAux] at hv
    split at hv
    · have := ih first v hv; exact ⟨this.1, by simp [this.2]⟩
    · split at hv
      · simp at hv
      · split at hv
        · have := ih first v hv; exact ⟨this.1, by simp [this.2]⟩
        · split at hv
          · have := ih first v hv; exact ⟨this.1, by simp [this.2]⟩
          · rcases List.mem_cons.mp hv with rfl | h
            · exact ⟨by assumption, by simp⟩
            · have := ih true v h; exact ⟨this.1, by simp [this.2]⟩

/-- a single-valued field type carries at most one value -/
theorem C19_wire_single (jn : JidNorm) (typ : String) (vs : List String) (h : isMulti typ = false) :
    (wireValues jn typ vs).length ≤ 1 := by
  unfold wireValues
  have key : ∀ vs, wireValuesAux jn typ true vs = [] := by
    intro vs
    induction vs with
    | nil => simp [wireValuesAux]
    | cons x xs ih => simp only [wireValuesAux]; split <;> simp [ih, h]
  induction vs with
  | nil => simp [wireValuesAux]
  | cons x xs ih =>
    simp only [wireValuesAux]
    split
    · exact ih
    · simp only [Bool.false_and, Bool.false_eq_true, if_false]
      split
      · exact ih
      · split
        · exact ih
        · simp [key]

/-- boolean fields only carry the four lexical forms, JID fields only parseable JIDs -/
theorem C19_wire_typed (jn : JidNorm) (typ : String) (vs : List String) :
    ∀ v ∈ wireValues jn typ vs,
      (typ = "boolean" → boolLex v = true) ∧ (isJid typ = true → (jn v).isSome = true) := by
  unfold wireValues
  generalize false = first
  induction vs generalizing first with
  | nil => simp [wireValuesAux]
  | cons x xs ih =>
    intro v hv
    simp only [wireValuesAux] at hv
    split at hv
    · exact ih first v hv
    · split at hv
      · simp at hv
      · split at hv
        · exact ih first v hv
        · split at hv
          · exact ih first v hv
          · rename_i hb hj
            rcases List.mem_cons.mp hv with rfl | h
            · constructor
              · intro ht; simpa [ht] using hb
              · intro ht
                simp only [ht, Bool.true_and] at hj
                cases hjv : jn v <;> simp_all
            · exact ih true v h

/-- decoding the element written for a field gives the field's normal form (type default,
filtered values, options only on list fields), for every field and `jid.Parse` oracle -/
theorem C19_field_roundtrip (jn : JidNorm) (f : Field) :
    ∃ n as ks, encodeField jn f = .elem n as ks ∧ decodeField as ks = canonField jn f := by
  have h := decodeField_encodeField jn f
  refine ⟨⟨ns, "field"⟩, _, _, rfl, ?_⟩
  simpa [encodeField] using h

/-- a form that is not a submission decodes to its normal form: title with line breaks
replaced by spaces, instructions without empty lines, every field in normal form -/
theorem C19_form_roundtrip (jn : JidNorm) (frm : Form) (vals : Vals) (h : frm.typ ≠ "submit") :
    decodeForm (encodeForm jn frm vals) = some (canonForm jn frm) := by
  simp only [encodeForm, decodeForm, h, if_false, headKids]
  have ht : attrLocal [at' "type" frm.typ] "type" = some frm.typ := by
    simp [attrLocal, at']
  rw [ht]
  rw [decodeKids_append, decodeKids_append]
  have h1 : decodeKids ⟨"", "", frm.typ, []⟩
      (if frm.title = "" then [] else [leaf ns "title" (normTitle frm.title)]) =
      some ⟨normTitle frm.title, "", frm.typ, []⟩ := by
    by_cases hti : frm.title = ""
    · simp [hti, decodeKids, normTitle, spaceRepl]
    · simp [hti, decodeKids, leaf, textOf_textKid]
  rw [h1]
  simp only [Option.bind_some]
  rw [decodeKids_instr]
  simp only [Option.bind_some]
  rw [decodeKids_fields]
  simp [canonForm]

example : decodeForm (encodeForm (fun _ => none)
    ⟨"a\nb", "l1\n\nl2", "form", [⟨"boolean", "v", "", "", true, ["yes", "1", "0"], []⟩]⟩ []) =
    some ⟨"a b", "l1\nl2", "form", [⟨"boolean", "v", "", "", true, ["1"], []⟩]⟩ := by decide

/-- the value filter is idempotent: the normal form of a field is a fixed point (decoding and
re-encoding a decoded form changes nothing more) -/
theorem C19_wire_idem (jn : JidNorm) (typ : String) (vs : List String) :
    wireValues jn typ (wireValues jn typ vs) = wireValues jn typ vs := by
  unfold wireValues
  generalize false = first
  induction vs generalizing first with
  | nil => simp [wireValuesAux]
  | cons x xs ih =>
    simp only [wireValuesAux]
    split
    · exact ih first
    · split
      · simp [wireValuesAux]
      · split
        · exact ih first
        · split
          · exact ih first
          · rename_i h1 h2 h3 h4
            simp [wireValuesAux, h1, h2, h3, h4, ih true]

/-- the trees written for a form and for a submission are balanced -/
theorem C19_form_balanced (jn : JidNorm) (frm : Form) (vals : Vals) :
    balanced (flatten (encodeForm jn frm vals)) = true ∧
    balanced (flatten (submit jn frm vals).1) = true :=
  ⟨C19_tree_balanced _, C19_tree_balanced _⟩

/-- `Get` after a successful `Set` returns the value that was set -/
theorem C19_form_set_get (jn : JidNorm) (frm : Form) (vals vals' : Vals) (id : String) (v : Val) (b : Bool)
    (h : Form.set frm vals id v = (.ok b, vals')) : Form.get jn frm vals' id = (some v, true) := by
  unfold Form.set at h
  by_cases h1 : fieldTyp frm.fields id = "fixed"
  · simp [h1] at h
  · by_cases h2 : fits (fieldTyp frm.fields id) v = some false
    · simp [h1, h2] at h
    · simp only [h1, h2, if_false, Prod.mk.injEq] at h
      rw [← h.2]
      simp [Form.get, lookupVal]

/-- `Set` refuses a value whose dynamic type does not fit the field, and fixed fields -/
theorem C19_form_set_typed (frm : Form) (vals : Vals) (f : Field) (v : Val)
    (hf : findField frm.fields f.var = some f) (hm : fits f.typ v = some false) :
    Form.set frm vals f.var v = (.err, vals) := by
  unfold Form.set
  have ht : fieldTyp frm.fields f.var = f.typ := by simp [fieldTyp, hf]
  rw [ht]
  by_cases hx : f.typ = "fixed" <;> simp [hx, hm]

example : Form.set ⟨"", "", "form", [⟨"boolean", "b", "", "", false, [], []⟩]⟩ [] "b" (.str "x") = (.err, []) := by decide

/-- a submission has type `submit`, and it carries, for every non-fixed field with a stored
value, exactly the strings of that value in the field's normal form -/
theorem C19_form_submit_values (jn : JidNorm) (frm : Form) (vals : Vals) (f : Field) (v : Val)
    (hfix : f.typ ≠ "fixed") (hv : lookupVal vals f.var = some v) :
    submitField jn frm vals f = some (encodeField jn { f with values := valStrings f.typ v }) := by
  simp [submitField, hfix, Form.get, hv]

theorem C19_form_submit_type (jn : JidNorm) (frm : Form) (vals : Vals) :
    ∃ ks, (submit jn frm vals).1 = .elem ⟨ns, "x"⟩ [at' "type" "submit"] ks := by
  simp [submit, encodeForm]

/-- fixed fields are never submitted; optional fields without a value are left out -/
theorem C19_form_submit_skips (jn : JidNorm) (frm : Form) (vals : Vals) (f : Field) :
    (f.typ = "fixed" → submitField jn frm vals f = none) ∧
    (f.typ ≠ "fixed" → f.required = false → (Form.get jn frm vals f.var).2 = false →
      submitField jn frm vals f = none) := by
  constructor
  · intro h; simp [submitField, h]
  · intro h hr hg; simp [submitField, h, hr, hg]

/-- splitting a multi-line value is total and inverts joining lines with `\n`: `Submit` of
what `Get` returns for a text-multi field carries the original lines -/
theorem C19_textmulti_split_join (ls : List (List Char)) (hne : ls ≠ [])
    (hl : ∀ l ∈ ls, ∀ c ∈ l, isNL c = false) : splitNL (joinNL ls) = ls := by
  induction ls with
  | nil => exact absurd rfl hne
  | cons l rest ih =>
    have hl' := hl l (by simp)
    cases rest with
    | nil => simpa [joinNL] using splitNL_line l hl'
    | cons l2 rest2 =>
      have ih' := ih (by simp) (fun l hl0 c hc => hl l (by simp [hl0]) c hc)
      simp only [joinNL] at ih' ⊢
      rw [splitNL_line_nl l _ hl', ih']

example : splitNL (joinNL [['a'], [], ['b']]) = [['a'], [], ['b']] := by decide

/-- the split never returns the empty list (the loop of `TokenReader` always terminates
with at least the last line), also for the empty value and a value ending in a line break -/
theorem C19_textmulti_total (s : List Char) : splitNL s ≠ [] := by
  induction s with
  | nil => simp [splitNL]
  | cons c cs ih =>
    simp only [splitNL]
    split
    · simp
    · split <;> simp

example : splitNL [] = [[]] ∧ splitNL ['a', '\n'] = [['a'], []] := by decide

/-! ### Layer 2: flat records (one theorem for every schema) and composite payloads -/

open XmppModel.Payloads in
/-- the field names of every schema of the library's flat payload types are distinct -/
theorem C19_schemas_ok : ∀ p ∈ Payloads.schemas, p.2.ok = true := by decide

open XmppModel.Payloads in
/-- a flat record decodes to exactly the value that was written, for every schema with
distinct field names and every well-typed value (attributes and children omitted when
empty decode to the empty string) -/
theorem C19_record_roundtrip (s : Schema) (vs : List FV) (hok : s.ok = true)
    (hw : wellTyped s.fields vs = true) : decRec s (encRec s vs) = some vs :=
  decRec_encRec s vs hok hw

open XmppModel.Payloads in
example : decRec ⟨⟨"jabber:iq:version", "query"⟩, [.child "name" true, .child "version" true, .child "os" true]⟩
    (encRec ⟨⟨"jabber:iq:version", "query"⟩, [.child "name" true, .child "version" true, .child "os" true]⟩
      [.one "a<b", .one "", .one "x\ny"]) = some [.one "a<b", .one "", .one "x\ny"] := by decide

open XmppModel.Payloads in
/-- a record of another element is refused -/
theorem C19_record_name_checked (s : Schema) (n : Name) (as : List Attr) (ks : List Node) (h : n ≠ s.root) :
    decRec s (.elem n as ks) = none := by
  simp [decRec, h]

open XmppModel.Payloads in
theorem C19_rset_roundtrip (s : RSet) : decRSet (encRSet s) = some s := decRSet_encRSet s

open XmppModel.Payloads in
theorem C19_roster_roundtrip (q : RosterQuery) : decRosterQuery (encRosterQuery q) = some q :=
  decRosterQuery_enc q

open XmppModel.Payloads in
/-- `disco.Info` (with the extension forms that `TokenReader` now writes) decodes to the same
identities, features and node, and to the normal form of every form -/
theorem C19_info_roundtrip (jn : JidNorm) (i : Info) (h : ∀ f ∈ i.forms, f.typ ≠ "submit") :
    decInfo (encInfo jn i) = some { i with forms := i.forms.map (canonForm jn) } := by
  cases i with
  | mk node ids feats forms =>
    simp only [encInfo, decInfo, if_true]
    rw [decForms_append, decForms_append, decForms_features, decForms_identities,
      decForms_forms jn forms h (fun f hf => C19_form_roundtrip jn f [] hf)]
    simp only [Form.kidsNamed_append, kidsNamed_features, kidsNamed_identities]
    rw [kidsNamed_forms jn "identity" forms (by decide), kidsNamed_forms jn "feature" forms (by decide)]
    have hn : Payloads.attrOrEmpty (optAt "node" node) "node" = node := by
      by_cases hnode : node = "" <;> simp [Payloads.attrOrEmpty, attrLast, optAt, at', hnode]
    have hid : ∀ x : Identity, decIdentity ([at' "category" x.category] ++ optAt "name" x.name ++ [at' "type" x.typ]
        ++ (if x.lang = "" then [] else [⟨⟨nsXML, "lang"⟩, x.lang⟩])) = x := decIdentity_enc
    have hvar : ∀ v : String, Payloads.attrOrEmpty [at' "var" v] "var" = v := by
      intro v; simp [Payloads.attrOrEmpty, attrLast, at']
    have e1 : ("feature" = "identity") = False := by decide
    have e2 : ("identity" = "feature") = False := by decide
    simp only [e1, e2, if_true, if_false, List.nil_append, List.append_nil, List.map_map, Function.comp_def,
      hn, hid, hvar, List.map_id', Option.bind_some, Option.map_some]
    rfl

end XmppModel.Props.C19
