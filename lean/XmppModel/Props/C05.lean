import XmppModel.Model.Encoder
import XmppModel.Model.SendLts
import XmppModel.Lemmas.Encoder
import XmppModel.Lemmas.SendLts
import XmppModel.Model.SendGuard
import XmppModel.Lemmas.SendGuard
import XmppModel.Generated.C05
import XmppModel.Model.ValueForms
import XmppModel.Model.Transport
import XmppModel.Model.SendFlush
import XmppModel.Lemmas.SendFlush
import XmppModel.Model.SendKinds
import XmppModel.Lemmas.SendKinds
/-!
# C05 — each transmit call puts exactly its own element on the wire, whole

Property theorems only.  Quantifiers: every element (token list) a call can be given, every
encoder configuration (content namespace, local address), every generated id, any number of
concurrent calls and every schedule.
-/
namespace XmppModel.Props.C05
open XmppModel XmppModel.Xml XmppModel.Encoder

/-! ### Tie to the source: lock discipline of every function that touches the output encoder -/

/-- how a mention of the output encoder may be protected (classes computed by the lock-flow
analysis of `harness/c05/lockflow.go`, which finds the output side of `Session` by its type,
follows calls into unexported helpers and does not depend on names of helpers, locals or
unexported fields):
`locked` = every mention comes after a top-level `X.out.Lock()` of the function's own body and
before any non-deferred unlock; `held` = an unexported helper, *every* reference to which
(call, method value) is made with the lock held — by a locked function, a holder method, or,
recursively, a held helper; `probe` = as `held`, and the function only inspects the encoder's
state through a type assertion; `holder` = a method of the type `TokenWriter` returns (made
only with the lock held: `C05_gen_tokenwriter_holds_lock`); `setup` = a function that can only run
while a session is being made (structural, see `C05_gen_lock_discipline`: no other goroutine has
the session yet).
Anything else is reported as `unlocked` / `unlocked-probe`. -/
def protectedClass (c : String) : Bool :=
  c == "locked" || c == "held" || c == "probe" || c == "holder" || c == "setup"

/-- the table is there, the token writer's methods are in it (class `holder`), locked functions
exist, and so do functions of class `setup`.  `setup` is decided by the extractor STRUCTURALLY
since round E (review A-4; it was a list of two function names): an unexported top-level
function every reference to which sits in a top-level function — never in a method of any type,
never in a `go` statement — that is exported and takes no `*Session` (a constructor) or is
itself `setup`; such a function only runs while the session is being made.  That `Encode`,
`EncodeElement`, `Send`, `SendElement` take the lock — themselves or through an unexported
function they delegate to — is part of `C05_gen_broken_guard` (no row is pinned by name: a
maintainer may rename or split any unexported function) -/
theorem C05_gen_lock_discipline :
    ∃ t, Generated.C05.transmitFns = some t ∧
      (∃ p ∈ t, p.2 = "holder") ∧ (∃ p ∈ t, p.2 = "locked") ∧ (∃ p ∈ t, p.2 = "setup") := by
  refine ⟨_, rfl, by decide, by decide, by decide⟩

/-- `TokenWriter` takes the output lock before it hands out the writer (and does not release
it), values of the writer's type are made nowhere else without the lock, and the writer's
`Close` releases it (deferred, so also when the final flush fails) -/
theorem C05_gen_tokenwriter_holds_lock :
    Generated.C05.tokenWriterLocks = some true ∧ Generated.C05.closeUnlocks = some true ∧
    Generated.C05.holderOnlyFromLocked = some true := by decide

/-- no function touches the encoder — writes to it or reads its state — without the lock:
every mention in the package is in a protected class (hypothesis `locks i = true` of
`C05_atomic`, and what makes the answer of the broken-element probe stay valid until the
element has been written) -/
theorem C05_gen_all_locked :
    ∃ t, Generated.C05.transmitFns = some t ∧ t ≠ [] ∧ ∀ p ∈ t, protectedClass p.2 = true := by
  refine ⟨_, rfl, by decide, by decide⟩

/-- the encoder's state can only change in `EncodeToken`: it is the only method of the encoder's
type that assigns to one of its fields (a `Flush` of its own that resets the depth would move
the counter behind the model's back: `C05_flush_transparent` rests on this; methods that only
read do not matter), and outside the type only stream negotiation (which builds the encoder)
writes to such a field -/
theorem C05_gen_encoder_methods :
    Generated.C05.stanzaEncoderMethods = some ["EncodeToken"] ∧
    ∃ o t, Generated.C05.stanzaEncoderOutsideWriters = some o ∧ Generated.C05.transmitFns = some t ∧
      ∀ f ∈ o, t.any (fun p => p.1 == f && p.2 == "setup") = true := by
  refine ⟨by decide, _, _, rfl, rfl, by decide⟩

/-- every one-shot transmit entry point refuses to write when the previous write was abandoned
inside an element (hypothesis `guard = true` of the fault theorems), and it finds that out
UNDER the lock: in the function that takes the lock for the entry point the order is `Lock`,
`defer Unlock`, a conditional early return that reaches the probe of the encoder's state
(directly or through helpers), then the first write (`guardUnderLock` of
`C05_guard_under_lock_refuses`; a probe in front of the `Lock` is the schedule of
`C05_guard_before_lock_nests`).  The token writer's `EncodeToken` does the same before its
first write. -/
theorem C05_gen_broken_guard :
    Generated.C05.entryGuard =
      some [("Encode", true), ("EncodeElement", true), ("Send", true), ("SendElement", true)] ∧
    Generated.C05.holderGuard = some true := by decide

/-- `internal/marshal` keeps no state between calls: no package-level variable other than error
sentinels (`errors.New` / `fmt.Errorf`) and blank interface assertions (a pooled or cached
buffer shared between calls and sessions is how one call's content ends up in another's
element) -/
theorem C05_gen_marshal_stateless : Generated.C05.marshalGlobals = some [] := by decide

/-! ### The stanza encoder changes exactly what the property allows -/

/-- **exactness**: for every top-level element (start, balanced content, end) the encoder's
output is the element with the start completed by `encStart` at depth 1, the end completed by
`encStop`, and every token in between untouched except for the removal of `xmlns` attributes
from namespaced start elements; the depth returns to 0 -/
theorem C05_encoder_exact (cfg : Cfg) (fresh : String) (n m : Name) (as : List Attr) (body : List Tok)
    (hb : balanced body = true) :
    encode cfg fresh 0 (.start n as :: body ++ [.stop m]) =
      (0, encStart cfg fresh 1 n as :: body.map stripTok ++ [encStop cfg 1 m]) := by
  have hb' : depthAfter 0 body = some 0 := by simpa [balanced] using hb
  have h := encode_inside cfg fresh 1 (by omega) body 0 0 hb'
  have h : encode cfg fresh 1 body = (1, body.map stripTok) := by simpa using h
  rw [List.cons_append, encode_cons]
  simp only [Encoder.encTok, Int.zero_add]
  rw [encode_append, h]
  simp [encode_cons, encode_nil, Encoder.encTok]

example : balanced [.start ⟨"", "body"⟩ [], .chars "hi", .stop ⟨"", "body"⟩] = true := by decide

/-- the output is as well nested as the input, for every token list and starting depth -/
theorem C05_encoder_balanced (cfg : Cfg) (fresh : String) (ts : List Tok) :
    balanced (wireToks cfg fresh ts) = balanced ts := by
  simp [balanced, wireToks, depthAfter_encode]

/-- a sequence of complete elements leaves the encoder at depth 0 again, so the next call is
treated as top level (induction over the calls) -/
theorem C05_encoder_sequence (cfg : Cfg) (fresh : String) (els : List (List Tok))
    (h : ∀ e ∈ els, ∃ n as body m, e = .start n as :: body ++ [.stop m] ∧ balanced body = true) :
    (encode cfg fresh 0 els.flatten).1 = 0 ∧
    (encode cfg fresh 0 els.flatten).2 = (els.map (wireToks cfg fresh)).flatten := by
  induction els with
  | nil => simp [encode_nil]
  | cons e es ih =>
    obtain ⟨n, as, body, m, rfl, hb⟩ := h e (by simp)
    have ih' := ih (fun e he => h e (by simp [he]))
    have hx := C05_encoder_exact cfg fresh n m as body hb
    simp only [List.flatten_cons, List.map_cons]
    rw [encode_append, hx]
    have hx' : encode cfg fresh 0 (Tok.start n as :: (body ++ [Tok.stop m])) =
        (0, encStart cfg fresh 1 n as :: List.map stripTok body ++ [encStop cfg 1 m]) := by
      simpa using hx
    simp [ih'.1, ih'.2, wireToks, hx']

def startAttrs : Tok → List Attr
  | .start _ as => as
  | _ => []

def tokName : Tok → Option Name
  | .start n _ => some n
  | .stop n => some n
  | _ => none

/-- attributes of a completed stanza start: the caller's attributes without empty `id`/`from`
and without `xmlns`, then `from` iff the encoder has an address and the caller gave none, then
a generated `id` iff the caller gave none — nothing else -/
theorem C05_stanza_attrs (cfg : Cfg) (fresh : String) (n : Name) (as : List Attr)
    (hs : isStanzaEmptySpace n = true) (hns : cfg.ns ≠ "") :
    startAttrs (encStart cfg fresh 1 n as) =
      as.filter (fun a => keepAttr a && notXmlns a)
        ++ (if cfg.from_ != "" && !found as "from" then [fromAttr cfg] else [])
        ++ (if !found as "id" then [idAttr fresh] else []) := by
  have hsp : (fillNs cfg n).space ≠ "" := by
    unfold fillNs; split
    · simpa using hns
    · rename_i h; simpa using h
  simp only [encStart, hs, startAttrs, dropXmlns, completeAttrs]
  simp only [bne_iff_ne, ne_eq, hsp, not_false_eq_true, if_true, BEq.rfl, Bool.and_self]
  simp only [List.filter_append, List.filter_filter]
  congr 1
  · congr 1
    · apply List.filter_congr; intro a _; simp [Bool.and_comm]
    · split <;> simp [notXmlns, fromAttr]
  · split <;> simp [notXmlns, idAttr]

/-- FULL statement of the clause "every outgoing stanza carries the stream's content namespace":
`(fillNs cfg n).space = cfg.ns` for every name the encoder treats as a stanza.  That is FALSE
(`C05_stanza_ns_fails`): a name that already carries the OTHER stanza namespace is treated as a
stanza (id / from are stamped) and keeps its namespace.  Proved here (partial): the namespace is
the stream's or one of the two stanza namespaces, the local name is kept.  Full strength under
the hypothesis that the caller did not name the other namespace: `C05_stanza_ns_stream`.
(round E, review A-2; the statement used to carry the unqualified name) -/
theorem C05_stanza_ns_partial (cfg : Cfg) (fresh : String) (n : Name) (as : List Attr)
    (hs : isStanzaEmptySpace n = true) :
    tokName (encStart cfg fresh 1 n as) = some (fillNs cfg n) ∧
    ((fillNs cfg n).space = cfg.ns ∨ (fillNs cfg n).space = nsClient ∨ (fillNs cfg n).space = nsServer) ∧
    (fillNs cfg n).loc = n.loc := by
  refine ⟨by simp [encStart, hs, tokName], ?_, by unfold fillNs; split <;> rfl⟩
  unfold fillNs
  split
  · left; rfl
  · rename_i h
    simp only [isStanzaEmptySpace, Bool.and_eq_true, Bool.or_eq_true, beq_iff_eq] at hs
    rcases hs.2 with (h1 | h1) | h1
    · right; left; exact h1
    · right; right; exact h1
    · simp [h1] at h

/-- **the stream's content namespace**: a stanza whose name carries no namespace or the stream's
own goes out in the stream's content namespace -/
theorem C05_stanza_ns_stream (cfg : Cfg) (fresh : String) (n : Name) (as : List Attr)
    (hs : isStanzaEmptySpace n = true) (hn : n.space = "" ∨ n.space = cfg.ns) :
    tokName (encStart cfg fresh 1 n as) = some ⟨cfg.ns, n.loc⟩ := by
  simp only [encStart, hs, tokName, Bool.and_true, BEq.rfl, if_true, Option.some.injEq]
  unfold fillNs
  rcases hn with h | h
  · simp [h]
  · split
    · rfl
    · obtain ⟨sp, lo⟩ := n; simp_all

/-- negation witness of the full clause (known finding `stream-namespace / other-stanza-namespace`):
on a `jabber:client` stream `{jabber:server}message` is completed like a stanza (an id is
generated) and goes out in `jabber:server` -/
theorem C05_stanza_ns_fails :
    let t := encStart ⟨nsClient, ""⟩ "ID#" 1 ⟨nsServer, "message"⟩ []
    tokName t = some ⟨nsServer, "message"⟩ ∧ (∃ a ∈ startAttrs t, a.name = ⟨"", "id"⟩ ∧ a.value = "ID#") ∧
    ¬ (∀ (cfg : Cfg) (n : Name), isStanzaEmptySpace n = true → (fillNs cfg n).space = cfg.ns) := by
  refine ⟨by decide, by decide, fun h => ?_⟩
  have := h ⟨nsClient, ""⟩ ⟨nsServer, "message"⟩ (by decide)
  revert this
  decide

theorem isPlain_iff (a : Attr) (l : String) : isPlain a l = true ↔ a.name = ⟨"", l⟩ := by
  obtain ⟨⟨sp, lo⟩, v⟩ := a
  simp [isPlain]

/-- every outgoing stanza carries a non-empty id: THE `id` attribute, full name (no namespace) —
round E: the statement was about any attribute with the local name `id` before, which `xml:id`
satisfies (review A-1) -/
theorem C05_id_nonempty (cfg : Cfg) (fresh : String) (n : Name) (as : List Attr)
    (hs : isStanzaEmptySpace n = true) (hns : cfg.ns ≠ "") (hf : fresh ≠ "") :
    ∃ a ∈ startAttrs (encStart cfg fresh 1 n as), a.name = ⟨"", "id"⟩ ∧ a.value ≠ "" := by
  rw [C05_stanza_attrs cfg fresh n as hs hns]
  by_cases hfound : found as "id" = true
  · simp only [found, List.any_eq_true, Bool.and_eq_true, bne_iff_ne, ne_eq] at hfound
    obtain ⟨a, ha, hl, hv⟩ := hfound
    refine ⟨a, ?_, (isPlain_iff a "id").1 hl, hv⟩
    simp only [List.mem_append, List.mem_filter]
    left; left
    refine ⟨ha, ?_⟩
    have hn := (isPlain_iff a "id").1 hl
    simp [keepAttr, notXmlns, isPlain, hn, hv]
  · refine ⟨idAttr fresh, ?_, rfl, hf⟩
    simp [hfound]

/-- on a stream whose encoder has an address every outgoing stanza carries a non-empty `from`:
the caller's, else the encoder's -/
theorem C05_from_cfg (cfg : Cfg) (fresh : String) (n : Name) (as : List Attr)
    (hs : isStanzaEmptySpace n = true) (hns : cfg.ns ≠ "") (hfrom : cfg.from_ ≠ "") :
    ∃ a ∈ startAttrs (encStart cfg fresh 1 n as), a.name = ⟨"", "from"⟩ ∧ a.value ≠ "" ∧
      (found as "from" = false → a.value = cfg.from_) := by
  rw [C05_stanza_attrs cfg fresh n as hs hns]
  by_cases hfound : found as "from" = true
  · have hfound' := hfound
    simp only [found, List.any_eq_true, Bool.and_eq_true, bne_iff_ne, ne_eq] at hfound
    obtain ⟨a, ha, hl, hv⟩ := hfound
    have hn := (isPlain_iff a "from").1 hl
    refine ⟨a, ?_, hn, hv, fun h => by simp [hfound'] at h⟩
    simp only [List.mem_append, List.mem_filter]
    left; left
    refine ⟨ha, ?_⟩
    simp [keepAttr, notXmlns, isPlain, hn, hv]
  · refine ⟨fromAttr cfg, ?_, rfl, hfrom, fun _ => rfl⟩
    simp [hfound, hfrom]

/-- the addresses of the probe sessions: each of the four is named after its role -/
def probeAddrs : Addrs := ⟨"inTo", "inFrom", "outFrom", "outTo"⟩

def FromSource.ofRole : String → FromSource
  | "inTo" => .localAddr
  | "inFrom" => .remoteAddr
  | "outFrom" => .outFrom
  | "outTo" => .outTo
  | _ => .other

/-- the source of the encoder's address as the repository has it: what a real received
server-to-server session with four different addresses stamps on an outgoing stanza
(regenerated PROBE fact: `harness facts` negotiates the sessions and reads the wire) -/
def genFromSource : FromSource :=
  match Generated.C05.fromProbe with
  | some rows =>
    match rows.find? (fun r => r.1 == "received" && r.2.1 == nsServer) with
    | some r => FromSource.ofRole r.2.2.2
    | none => .other
  | none => .other

/-- regenerated probe: on initiated and received sessions, client and server-to-server
namespace, with four pairwise different addresses, `LocalAddr()` reports the `to` of the input
stream info and the `from` the encoder stamps is exactly what the model's `sessionCfg` says
for the probed source — the local address on server-to-server streams, nothing on client
streams -/
theorem C05_gen_from_source :
    genFromSource = .localAddr ∧
    ∃ rows, Generated.C05.fromProbe = some rows ∧ rows.length = 4 ∧
      ∀ r ∈ rows, r.2.2.1 = probeAddrs.localAddr ∧
        (sessionCfg genFromSource r.2.1 probeAddrs).from_ = r.2.2.2 := by
  refine ⟨by decide, _, rfl, by decide, by decide⟩

/-- **server-to-server streams**: whatever addresses the session holds (told beforehand or
learnt from the peer's stream header, initiated or received), when it reports a non-empty
`LocalAddr()` every outgoing stanza carries a non-empty `from`, and where the caller gave none
it is exactly the address `LocalAddr()` reports -/
theorem C05_from_s2s (a : Addrs) (fresh : String) (n : Name) (as : List Attr)
    (hs : isStanzaEmptySpace n = true) (hl : a.localAddr ≠ "") :
    ∃ x ∈ startAttrs (encStart (sessionCfg genFromSource nsServer a) fresh 1 n as),
      x.name = ⟨"", "from"⟩ ∧ x.value ≠ "" ∧ (found as "from" = false → x.value = a.localAddr) := by
  rw [C05_gen_from_source.1]
  have hc : sessionCfg .localAddr nsServer a = ⟨nsServer, a.localAddr⟩ := by
    simp [sessionCfg, FromSource.pick, Addrs.localAddr]
  rw [hc]
  exact C05_from_cfg ⟨nsServer, a.localAddr⟩ fresh n as hs (by simp [nsServer]) hl

/-- the statement depends on WHICH address the encoder is given: taken from the output stream
info instead, a received session that learnt its address from the peer's header (`to=` → input
info; its output info has no `from`) sends stanzas without `from` although `LocalAddr()` is set -/
theorem C05_from_s2s_fails_out_from :
    let a : Addrs := ⟨"capulet.example", "", "", ""⟩
    a.localAddr ≠ "" ∧
    ∀ x ∈ startAttrs (encStart (sessionCfg .outFrom nsServer a) "ID#" 1 ⟨"", "message"⟩ []), x.name.loc ≠ "from" := by
  decide

/-- on a client stream (no encoder address) no `from` is invented -/
theorem C05_from_c2s (cfg : Cfg) (fresh : String) (n : Name) (as : List Attr)
    (hs : isStanzaEmptySpace n = true) (hns : cfg.ns ≠ "") (hfrom : cfg.from_ = "")
    (a : Attr) (ha : a ∈ startAttrs (encStart cfg fresh 1 n as)) (hl : a.name = ⟨"", "from"⟩) : a ∈ as := by
  rw [C05_stanza_attrs cfg fresh n as hs hns] at ha
  simp only [hfrom, bne_self_eq_false, Bool.false_and, List.append_nil, List.mem_append,
    List.mem_filter, Bool.false_eq_true, if_false] at ha
  rcases ha with ha | ha
  · exact ha.1
  · split at ha
    · simp only [List.mem_singleton] at ha; subst ha; simp [idAttr] at hl
    · simp at ha

/-- the three attributes the encoder may touch, by FULL name -/
def touchable (a : Attr) : Bool := isPlain a "id" || isPlain a "from" || isPlain a "xmlns"

/-- nothing else is altered: every attribute other than `id`, `from`, `xmlns` (the attributes
without a namespace of these names; `xml:id`, `{urn:x}from`, `{urn:x}xmlns` are "other") is
passed through, in order, and none is added -/
theorem C05_other_attrs_kept (cfg : Cfg) (fresh : String) (n : Name) (as : List Attr)
    (hs : isStanzaEmptySpace n = true) (hns : cfg.ns ≠ "") :
    (startAttrs (encStart cfg fresh 1 n as)).filter (fun a => !touchable a) =
      as.filter (fun a => !touchable a) := by
  rw [C05_stanza_attrs cfg fresh n as hs hns]
  simp only [List.filter_append, List.filter_filter]
  have e1 : (if (cfg.from_ != "" && !found as "from") = true then [fromAttr cfg] else []).filter
      (fun a => !touchable a) = [] := by
    split <;> simp [fromAttr, touchable, isPlain]
  have e2 : (if (!found as "id") = true then [idAttr fresh] else []).filter
      (fun a => !touchable a) = [] := by
    split <;> simp [idAttr, touchable, isPlain]
  rw [e1, e2]
  simp only [List.append_nil]
  apply List.filter_congr
  intro a _
  simp only [keepAttr, notXmlns, touchable, isPlain]
  by_cases h0 : a.name.space = "" <;> by_cases h1 : a.name.loc = "id" <;> by_cases h2 : a.name.loc = "from" <;>
    by_cases h3 : a.name.loc = "xmlns" <;> simp [h0, h1, h2, h3]

/-- **namespaced attributes are never touched**, at any depth, stanza or not: the attributes
that carry a namespace (`xml:lang`, `xml:id`, `{urn:x}id`, `{urn:x}from`, `{urn:x}xmlns`, …) of
the start element written are exactly the caller's, in order (round E) -/
theorem C05_namespaced_attrs_untouched (cfg : Cfg) (fresh : String) (d : Int) (n : Name) (as : List Attr) :
    (startAttrs (encStart cfg fresh d n as)).filter (fun a => a.name.space != "") =
      as.filter (fun a => a.name.space != "") := by
  have hdrop : ∀ (m : Name) (l : List Attr),
      (dropXmlns m l).filter (fun a => a.name.space != "") = l.filter (fun a => a.name.space != "") := by
    intro m l
    unfold dropXmlns
    split
    · rw [List.filter_filter]
      apply List.filter_congr
      intro a _
      by_cases h0 : a.name.space = "" <;> simp [notXmlns, h0]
    · rfl
  unfold encStart
  split
  · simp only [startAttrs, hdrop, completeAttrs, List.filter_append, List.filter_filter]
    have e1 : (if (cfg.from_ != "" && !found as "from") = true then [fromAttr cfg] else []).filter
        (fun a => a.name.space != "") = [] := by
      split <;> simp [fromAttr]
    have e2 : (if (!found as "id") = true then [idAttr fresh] else []).filter
        (fun a => a.name.space != "") = [] := by
      split <;> simp [idAttr]
    rw [e1, e2]
    simp only [List.append_nil]
    apply List.filter_congr
    intro a _
    by_cases h0 : a.name.space = "" <;> simp [keepAttr, isPlain, h0]
  · simp only [startAttrs, hdrop]

def xmlid : Attr := ⟨⟨"http://www.w3.org/XML/1998/namespace", "id"⟩, "x1"⟩
def nsfrom : Attr := ⟨⟨"urn:a", "from"⟩, "o"⟩
def nsid : Attr := ⟨⟨"urn:a", "id"⟩, ""⟩

/-- the code before `fix: the stanza encoder takes any attribute with the local name …`
(identification by local name): `<iq xml:id="x1">` goes out WITHOUT an id attribute,
`{urn:a}from` suppresses the from of a server-to-server stanza, and an empty `{urn:a}id` is
deleted — the three clauses fail for that encoder -/
theorem C05_local_name_matching_fails :
    (∀ a ∈ startAttrs (encStartLocal ⟨nsClient, ""⟩ "ID#" 1 ⟨"", "iq"⟩ [xmlid]), a.name ≠ ⟨"", "id"⟩) ∧
    (∀ a ∈ startAttrs (encStartLocal ⟨nsServer, "me.example"⟩ "ID#" 1 ⟨"", "message"⟩ [nsfrom]), a.name ≠ ⟨"", "from"⟩) ∧
    (∀ a ∈ startAttrs (encStartLocal ⟨nsClient, ""⟩ "ID#" 1 ⟨"", "presence"⟩ [nsid]), a ≠ nsid) ∧
    -- the repaired encoder on the same inputs
    (∃ a ∈ startAttrs (encStart ⟨nsClient, ""⟩ "ID#" 1 ⟨"", "iq"⟩ [xmlid]), a.name = ⟨"", "id"⟩ ∧ a.value = "ID#") ∧
    (∃ a ∈ startAttrs (encStart ⟨nsClient, ""⟩ "ID#" 1 ⟨"", "iq"⟩ [xmlid]), a = xmlid) ∧
    (∃ a ∈ startAttrs (encStart ⟨nsClient, ""⟩ "ID#" 1 ⟨"", "presence"⟩ [nsid]), a = nsid) := by
  decide

/-- an element that is not a stanza, or is not at top level, only loses `xmlns` attributes when
it is namespaced -/
theorem C05_non_stanza_untouched (cfg : Cfg) (fresh : String) (d : Int) (n : Name) (as : List Attr)
    (h : d ≠ 1 ∨ isStanzaEmptySpace n = false) :
    encStart cfg fresh d n as = .start n (dropXmlns n as) := by
  unfold encStart
  rcases h with h | h
  · simp [h]
  · simp [h]

/-- **one namespace declaration per start tag**: whenever the name handed to the XML encoder
carries a namespace (for which the encoder writes the `xmlns` declaration itself) no attribute
named `xmlns` is left, at any depth, stanza or not, whatever spelling the caller used (name
without namespace plus explicit `xmlns` attribute included): the start tag never declares the
default namespace twice -/
theorem C05_single_ns_declaration (cfg : Cfg) (fresh : String) (d : Int) (n : Name) (as : List Attr)
    (m : Name) (hm : tokName (encStart cfg fresh d n as) = some m) (hsp : m.space ≠ "") :
    ∀ a ∈ startAttrs (encStart cfg fresh d n as), a.name ≠ ⟨"", "xmlns"⟩ := by
  unfold encStart at hm ⊢
  by_cases hc : (d == 1 && isStanzaEmptySpace n) = true
  · rw [if_pos hc] at hm ⊢
    simp only [tokName, Option.some.injEq] at hm
    simp only [startAttrs, dropXmlns, hm, bne_iff_ne, ne_eq, hsp, not_false_eq_true, if_true]
    intro a ha hn
    have := (List.mem_filter.mp ha).2
    simp [notXmlns, hn] at this
  · rw [if_neg hc] at hm ⊢
    simp only [tokName, Option.some.injEq] at hm
    subst hm
    simp only [startAttrs, dropXmlns, bne_iff_ne, ne_eq, hsp, not_false_eq_true, if_true]
    intro a ha hn
    have := (List.mem_filter.mp ha).2
    simp [notXmlns, hn] at this

/-- the order of the two steps matters: with the `xmlns` loop BEFORE the stamping step a
top-level `<message xmlns="jabber:client">` given with no namespace in its name keeps the
attribute and gets the stream namespace in its name as well: two declarations, not
well-formed -/
theorem C05_early_filter_duplicates_xmlns :
    let t := encStartEarly ⟨nsClient, ""⟩ "ID#" 1 ⟨"", "message"⟩ [⟨⟨"", "xmlns"⟩, nsClient⟩]
    tokName t = some ⟨nsClient, "message"⟩ ∧ ∃ a ∈ startAttrs t, a.name.loc = "xmlns" := by
  decide

/-! ### token writer handles used after `Close` (round 6) -/

open Handles in
/-- **a closed handle is inert**: every operation on it leaves the wire, the encoder's buffer,
the holder of the output lock and the set of closed handles exactly as they were;
`EncodeToken` reports `io.EOF`, `Flush` and a second `Close` have nothing to do -/
theorem C05_closed_handle_inert (s : Sess) (h : Nat) (op : HOp) (hc : s.closed.contains h = true) :
    (step true s h op).1 = s ∧ ∀ t, op = .enc t → (step true s h op).2 = .eof := by
  have hm : h ∈ s.closed := by simpa using hc
  cases op <;> simp [step, hm]

open Handles in
theorem Handles.closed_mono (s : Sess) (h : Nat) (op : HOp) (x : Nat) (hx : s.closed.contains x = true) :
    (step true s h op).1.closed.contains x = true := by
  unfold step
  split
  · cases op <;> simpa using hx
  · cases op <;> simp_all

open Handles in
/-- in any interleaving of the operations of one live handle `b` with operations on handles that
are closed (any number of stale handles, any operations, any positions — also between the
tokens of `b`'s element), the session ends exactly as if only `b`'s operations had happened -/
theorem C05_closed_handles_inert_program : ∀ (prog : List (Nat × HOp)) (s : Sess) (b : Nat),
    (∀ x ∈ prog, x.1 = b ∨ s.closed.contains x.1 = true) →
    (run true s prog).1 = (run true s (prog.filter fun x => decide (x.1 = b))).1 := by
  intro prog
  induction prog with
  | nil => intro s b _; rfl
  | cons x xs ih =>
    intro s b h
    by_cases hb : x.1 = b
    · have hf : (x :: xs).filter (fun y => decide (y.1 = b)) = x :: xs.filter (fun y => decide (y.1 = b)) := by
        simp [hb]
      rw [hf]
      simp only [run]
      apply ih
      intro y hy
      rcases h y (List.mem_cons_of_mem _ hy) with h1 | h1
      · exact Or.inl h1
      · exact Or.inr (Handles.closed_mono s x.1 x.2 y.1 h1)
    · have hc : s.closed.contains x.1 = true := by
        rcases h x (List.mem_cons_self ..) with h1 | h1
        · exact absurd h1 hb
        · exact h1
      have hf : (x :: xs).filter (fun y => decide (y.1 = b)) = xs.filter (fun y => decide (y.1 = b)) := by
        simp [hb]
      rw [hf]
      simp only [run]
      rw [(C05_closed_handle_inert s x.1 x.2 hc).1]
      exact ih s b fun y hy => h y (List.mem_cons_of_mem _ hy)

open Handles in
/-- the statement needs the handle to remember that it was closed: without that a token written
through the stale handle `0` lands inside the element handle `1` is writing, and a second
`Close` of handle `0` releases the lock handle `1` holds -/
theorem C05_closed_handle_not_inert_without_guard :
    let a : Tok := .start ⟨"", "a"⟩ []
    let b : Tok := .start ⟨"", "b"⟩ []
    let x : Tok := .chars "x"
    let s := acquire (run false (acquire init 0) [(0, .enc a), (0, .close)]).1 1
    (run false s [(1, .enc b), (0, .enc x), (1, .enc (.stop ⟨"", "b"⟩)), (1, .close)]).1.wire
        = [a, b, x, .stop ⟨"", "b"⟩] ∧
    (run false s [(1, .enc b), (0, .close)]).1.holder = none ∧
    (run true s [(1, .enc b), (0, .enc x), (0, .close), (1, .enc (.stop ⟨"", "b"⟩)), (1, .close)]).1.wire
        = [a, b, .stop ⟨"", "b"⟩] ∧
    (run true s [(1, .enc b), (0, .close)]).1.holder = some 1 := by
  decide


/-! ### The entry points hand exactly one complete element to the encoder -/

/-- `Send`: the first element of the reader, whole, and nothing of what follows it -/
theorem C05_send_whole (n m : Name) (as : List Attr) (body rest : List Tok) (hb : balanced body = true) :
    sendToks (.start n as :: body ++ .stop m :: rest) = .ok (.start n as :: body ++ [.stop n]) := by
  have hb' : depthAfter 0 body = some 0 := by simpa [balanced] using hb
  simp [sendToks, inner_balanced body (.stop m :: rest) 0 0 hb', inner]

/-- `Send` refuses a reader that does not begin with a start element and writes nothing -/
theorem C05_send_not_start (ts : List Tok) (h : ∀ n as rest, ts ≠ .start n as :: rest) :
    sendToks ts = .error .notStart ∨ sendToks ts = .error .eof := by
  cases ts with
  | nil => right; rfl
  | cons t rest => cases t <;> first | (left; rfl) | exact absurd rfl (h _ _ _)

/-- `SendElement`: the supplied start element is the outermost tag and everything below it — the
whole payload, token by token — is passed on unchanged -/
theorem C05_sendelement_outermost (n : Name) (as : List Attr) (p : List Tok) :
    sendElementToks n as p = .start n as :: p ++ [.stop n] := rfl

/-- `EncodeElement` (repaired `marshal.EncodeXMLElement`): the outermost tag of what is written
has the name of the supplied start element and begins with its attributes, followed by the
value's own attributes (minus its default-namespace declaration); the content is unchanged -/
theorem C05_start_outermost (n m m' : Name) (as own : List Attr) (body : List Tok) (hb : balanced body = true) :
    replaceOuter n as 0 (.start m own :: body ++ [.stop m']) =
      .start n (as ++ own.filter notDefaultDecl) :: body ++ [.stop n] := by
  have hb' : depthAfter 0 body = some 0 := by simpa [balanced] using hb
  simp [replaceOuter, replaceOuter_balanced n as body [.stop m'] 0 0 hb']

/-- `Send`, `SendElement`, the stanza variants, `TokenWriter` + `Close` and handler replies end
with a flush: when the call returns, all its tokens are on the connection and the buffer is
empty.

Full statement (every successful transmit call returns with its element on the connection):
FALSE for `Encode`/`EncodeElement` with a `WriterTo` value, see `C05_flushed_fails_writerto`
and the `known:` entry; `C05_flushed_partial` covers the other value forms. -/
theorem C05_flushed (w ts : List Tok) : exec ⟨w, []⟩ (txProg ts) = ⟨w ++ ts, []⟩ := by
  have key : ∀ (ts : List Tok) (o : Out), exec o (ts.map .write ++ [.flush]) = ⟨o.wire ++ (o.buf ++ ts), []⟩ := by
    intro ts
    induction ts with
    | nil => intro o; simp [exec]
    | cons t ts ih => intro o; simp [exec, ih]
  simpa [txProg] using key ts ⟨w, []⟩

/-- `Encode`/`EncodeElement` with a token-reader, `Marshaler` or struct value flush -/
theorem C05_flushed_partial (w ts : List Tok) : exec ⟨w, []⟩ (encodeProg false ts) = ⟨w ++ ts, []⟩ := by
  simpa [encodeProg, txProg] using C05_flushed w ts

/-- negation witness: with a `WriterTo` value the call returns while the element is still in
the encoder's buffer (reproduced on the implementation by the `flushed` oracle clause) -/
theorem C05_flushed_fails_writerto :
    ¬ (∀ w ts : List Tok, exec ⟨w, []⟩ (encodeProg true ts) = ⟨w ++ ts, []⟩) := by
  intro h
  have := h [] [.chars "x"]
  revert this
  decide

/-- without the final flush nothing reaches the connection -/
theorem C05_unflushed_stays_buffered (ts : List Tok) : exec ⟨[], []⟩ (ts.map .write) = ⟨[], ts⟩ := by
  have key : ∀ (ts : List Tok) (o : Out), exec o (ts.map .write) = ⟨o.wire, o.buf ++ ts⟩ := by
    intro ts
    induction ts with
    | nil => intro o; simp [exec]
    | cons t ts ih => intro o; simp [exec, ih]
  simpa using key ts ⟨[], []⟩

/-! ### Flushing in the middle of an element changes nothing -/

theorem exec_flush_end (ops : List Op) : ∀ o : Out, exec o (ops ++ [.flush]) = ⟨o.wire ++ o.buf ++ writes ops, []⟩ := by
  induction ops with
  | nil => intro o; simp [exec, writes]
  | cons op ops ih =>
    intro o
    cases op with
    | write t => simp [exec, writes, ih]
    | flush => simp [exec, writes, ih]

theorem twRun_spec (cfg : Cfg) (fresh : String) (ops : List TwOp) :
    ∀ d, (twRun cfg fresh d ops).1 = (encode cfg fresh d (twToks ops)).1 ∧
      writes (twRun cfg fresh d ops).2 = (encode cfg fresh d (twToks ops)).2 := by
  induction ops with
  | nil => intro d; simp [twRun, twToks, writes, encode_nil]
  | cons op ops ih =>
    intro d
    cases op with
    | tok t =>
      have := ih (Encoder.encTok cfg fresh d t).1
      simp [twRun, twToks, writes, encode_cons, this.1, this.2]
    | flush =>
      have := ih d
      simp [twRun, twToks, writes, this.1, this.2]

/-- **flush transparency**: a token writer may flush at any point, any number of times: the
encoder ends at the same depth and, once the final flush has happened, the connection carries
exactly what it carries without the intermediate flushes — in particular a child written right
after a flush is still a child (no id, namespace or from is stamped on it) -/
theorem C05_flush_transparent (cfg : Cfg) (fresh : String) (d : Int) (ops : List TwOp) (w : List Tok) :
    (twRun cfg fresh d ops).1 = (encode cfg fresh d (twToks ops)).1 ∧
    exec ⟨w, []⟩ ((twRun cfg fresh d ops).2 ++ [.flush]) = ⟨w ++ (encode cfg fresh d (twToks ops)).2, []⟩ := by
  have h := twRun_spec cfg fresh ops d
  refine ⟨h.1, ?_⟩
  rw [exec_flush_end, h.2]; simp

/-- the flush positions do not change which tokens are written -/
theorem C05_withFlushes_toks (pos : List Nat) (ts : List Tok) : ∀ i, twToks (withFlushes pos i ts) = ts := by
  induction ts with
  | nil => intro i; simp only [withFlushes]; split <;> simp [twToks]
  | cons t ts ih =>
    intro i
    simp only [withFlushes]
    split <;> simp [twToks, ih]

example : (twRun ⟨"jabber:client", ""⟩ "ID#" 0
    (withFlushes [1, 2] 0 [.start ⟨"", "x"⟩ [], .start ⟨"", "message"⟩ [], .stop ⟨"", "message"⟩, .stop ⟨"", "x"⟩])).2
    = [.write (.start ⟨"", "x"⟩ []), .flush, .write (.start ⟨"", "message"⟩ []), .flush,
       .write (.stop ⟨"", "message"⟩), .write (.stop ⟨"", "x"⟩)] := by decide

/-! ### A call that fails half way, and the next call -/

/-- **what the unguarded code does**: if a call stops strictly inside its element (after the
start token and before the end token: reader error, refused token, write error), the next
call's complete element is encoded as *content* of the unfinished one: none of its tokens is
completed (no id, namespace, from), the encoder stays inside an element, and what the two
calls leave on the connection is not a sequence of complete elements -/
theorem C05_fault_inside_unguarded (cfg : Cfg) (fresh : String) (n m n' m' : Name) (as as' : List Attr)
    (body body' : List Tok) (hb : balanced body = true) (hb' : balanced body' = true)
    (k : Nat) (hk : 0 < k) (hk2 : k < (Tok.start n as :: body ++ [Tok.stop m]).length) :
    let ts := Tok.start n as :: body ++ [Tok.stop m]
    let us := Tok.start n' as' :: body' ++ [Tok.stop m']
    ∃ d : Nat, 1 ≤ d ∧
      (faultThenNext false cfg fresh ts k us).2 = .wrote (us.map stripTok) ∧
      (encode cfg fresh 0 (ts.take k ++ us)).1 = d ∧
      balanced ((faultThenNext false cfg fresh ts k us).1 ++ us.map stripTok) = false := by
  intro ts us
  have hbd : depthAfter 0 body = some 0 := by simpa [balanced] using hb
  have hbd' : depthAfter 0 body' = some 0 := by simpa [balanced] using hb'
  obtain ⟨r, hr⟩ := prefix_open n m as body hbd k hk hk2
  have hus : depthAfter 0 us = some 0 := element_balanced n' m' as' body' hbd'
  have hfst : (encode cfg fresh 0 (ts.take k)).1 = ((r + 1 : Nat) : Int) := by
    have := encode_fst cfg fresh (ts.take k) 0 0 (r + 1) hr
    simpa using this
  have hin0 := encode_inside cfg fresh ((r + 1 : Nat) : Int) (by omega) us 0 0 hus
  have hin : encode cfg fresh ((r + 1 : Nat) : Int) us = (((r + 1 : Nat) : Int), us.map stripTok) := by
    simpa using hin0
  refine ⟨r + 1, by omega, ?_, ?_, ?_⟩
  · simp only [faultThenNext, Bool.false_and, Bool.false_eq_true, if_false]
    rw [hfst, hin]
  · rw [encode_append, hfst, hin]
  · simp only [faultThenNext, Bool.false_and, Bool.false_eq_true, if_false, balanced]
    have h1 : depthAfter 0 (encode cfg fresh 0 (ts.take k)).2 = some (r + 1) := by
      rw [depthAfter_encode]; exact hr
    have h2 : depthAfter (r + 1) (us.map stripTok) = some (r + 1) := by
      have e : us.map stripTok = (encode cfg fresh ((r + 1 : Nat) : Int) us).2 := by rw [hin]
      rw [e, depthAfter_encode]
      have := depthAfter_shift us 0 0 (r + 1) hus
      simpa using this
    rw [Encoder.depthAfter_append, h1]
    simp [h2]

/-- **the repaired code**: a session whose last transmit call stopped inside an element refuses
the next one (nothing more is written) … -/
theorem C05_fault_inside_guarded (cfg : Cfg) (fresh : String) (n m : Name) (as : List Attr)
    (body us : List Tok) (hb : balanced body = true) (refusedTok : Bool)
    (k : Nat) (hk : 0 < k) (hk2 : k < (Tok.start n as :: body ++ [Tok.stop m]).length) :
    (faultThenNext true cfg fresh (Tok.start n as :: body ++ [Tok.stop m]) k us refusedTok).2 = .refused := by
  have hbd : depthAfter 0 body = some 0 := by simpa [balanced] using hb
  obtain ⟨r, hr⟩ := prefix_open n m as body hbd k hk hk2
  have hfst : (encode cfg fresh 0 ((Tok.start n as :: body ++ [Tok.stop m]).take k)).1 = ((r + 1 : Nat) : Int) := by
    have := encode_fst cfg fresh _ 0 0 (r + 1) hr
    simpa using this
  have hne : ¬ ((r : Int) + 1 = 0) := by omega
  simp only [faultThenNext, hfst, Bool.true_and]
  simp [hne]

/-- … and likewise, wherever it happened, when the writer underneath refused a token -/
theorem C05_fault_refused_token_guarded (cfg : Cfg) (fresh : String) (ts us : List Tok) (k : Nat) :
    (faultThenNext true cfg fresh ts k us true).2 = .refused := by
  simp [faultThenNext]

/-- … while a call that failed before handing anything to the encoder, or after its whole
element, leaves the session usable: the next call emits its whole element, completed as a top
level element, with or without the guard -/
theorem C05_fault_boundary (guard : Bool) (cfg : Cfg) (fresh : String) (n m : Name) (as : List Attr)
    (body us : List Tok) (hb : balanced body = true)
    (k : Nat) (hk : k = 0 ∨ (Tok.start n as :: body ++ [Tok.stop m]).length ≤ k) :
    (faultThenNext guard cfg fresh (Tok.start n as :: body ++ [Tok.stop m]) k us).2 = .wrote (wireToks cfg fresh us) := by
  rcases hk with rfl | hk
  · simp [faultThenNext, encode_nil, wireToks]
  · rw [faultThenNext, List.take_of_length_le hk]
    have := C05_encoder_exact cfg fresh n m as body hb
    have h2 : encode cfg fresh 0 (Tok.start n as :: (body ++ [Tok.stop m])) =
        (0, encStart cfg fresh 1 n as :: List.map stripTok body ++ [encStop cfg 1 m]) := by simpa using this
    simp [h2, wireToks]

/-! ### Atomicity under every schedule -/

open XmppModel.SendLts in
/-- **atomicity**: for any number of concurrent calls that all take the output lock and any
schedule, the wire is the concatenation of the complete blocks of the finished calls (each
exactly the sequential model's output `job i`, each call at most once) followed by the prefix
written so far by the one call inside its critical section -/
theorem C05_atomic {α : Type} (job : Nat → List α) (locks : Nat → Bool) (hl : ∀ i, locks i = true)
    (sched : List Nat) :
    let s := run job locks (init α) sched
    s.wire = s.finished.flatMap job ++ open_ job s ∧ s.finished.Nodup ∧
      (∀ i, i ∈ s.finished ↔ s.pc i = .done) ∧
      (s.lock = none → s.wire = s.finished.flatMap job) := by
  intro s
  have inv := inv_run job locks hl sched (init α) (inv_init job)
  refine ⟨inv.wire_eq, inv.nodup, inv.fin_done, ?_⟩
  intro hnone
  have : open_ job s = [] := by simp [open_, hnone]
  rw [inv.wire_eq, this, List.append_nil]

open XmppModel.SendLts in
/-- atomicity and the shared encoder together: let every call hand one complete element
(`job i`, its tokens *before* the stanza encoder) to the session's single encoder.  Whenever the
lock is free, what the encoder has written for the whole interleaved run is the concatenation
of what it writes for each finished call on its own — the per-call sequential model — and the
encoder is back at depth 0, for any number of calls and every schedule -/
theorem C05_atomic_encoded (cfg : Cfg) (fresh : String) (job : Nat → List Tok)
    (hjob : ∀ i, ∃ n as body m, job i = .start n as :: body ++ [.stop m] ∧ balanced body = true)
    (locks : Nat → Bool) (hl : ∀ i, locks i = true) (sched : List Nat) :
    let s := run job locks (init Tok) sched
    s.lock = none →
      (encode cfg fresh 0 s.wire).1 = 0 ∧
      (encode cfg fresh 0 s.wire).2 = (s.finished.map fun i => wireToks cfg fresh (job i)).flatten := by
  intro s hnone
  have hw := (C05_atomic job locks hl sched).2.2.2 hnone
  have hflat : s.wire = (s.finished.map job).flatten := by
    rw [hw, List.flatMap_def]
  have := C05_encoder_sequence cfg fresh (s.finished.map job) (by
    intro e he
    obtain ⟨i, _, rfl⟩ := List.mem_map.mp he
    exact hjob i)
  rw [hflat]
  refine ⟨this.1, ?_⟩
  rw [this.2, List.map_map]
  rfl

open XmppModel.SendLts in
/-- a finished call's block is on the wire, contiguous and whole -/
theorem C05_atomic_block {α : Type} (job : Nat → List α) (locks : Nat → Bool) (hl : ∀ i, locks i = true)
    (sched : List Nat) (i : Nat) (hd : (run job locks (init α) sched).pc i = .done) :
    ∃ pre post, (run job locks (init α) sched).wire = pre ++ job i ++ post := by
  have inv := inv_run job locks hl sched (init α) (inv_init job)
  have hm := (inv.fin_done i).mpr hd
  obtain ⟨a, b, hab⟩ := List.append_of_mem hm
  refine ⟨a.flatMap job, b.flatMap job ++ open_ job (run job locks (init α) sched), ?_⟩
  rw [inv.wire_eq, hab]
  simp [List.flatMap_append]

open XmppModel.SendLts in
/-- non-vacuity and the converse: two calls, one of which does not lock, interleave under a
schedule (so the lock facts above are what the theorem rests on) -/
theorem C05_atomic_fails_without_lock :
    (run (fun i => if i = 0 then ["a1", "a2"] else ["b1", "b2"]) (fun i => i ≠ 1) (init String)
      [0, 0, 1, 1, 0, 1, 0, 1]).wire = ["a1", "b1", "a2", "b2"] := by decide

open XmppModel.SendLts in
example : (run (fun i => if i = 0 then ["a1", "a2"] else ["b1", "b2"]) (fun _ => true) (init String)
      [0, 0, 1, 1, 0, 1, 0, 1, 1, 1, 1]).wire = ["a1", "a2", "b1", "b2"] := by decide

/-! ### Round C: the broken-element guard is evaluated under the lock

Calls may stop inside their element (`failAt`); every call asks whether the stream is inside an
unfinished element before it writes.  `entryGuard` / `holderGuard` (`C05_gen_broken_guard`) say
that the source asks *after* `Lock` — `early i = false` for every call. -/

/-- **guard under the lock**: any number of calls, any jobs, any of them stopping anywhere,
**every schedule**: no call ever writes its first item inside another call's unfinished
element (every element that is started is a top-level element of the stream), nobody is
refused unless some call really failed, and between calls the encoder is inside an element
only if a call stopped there -/
theorem C05_guard_under_lock_refuses {α : Type} (p : SendGuard.Prog α) (he : ∀ i, p.early i = false)
    (sched : List Nat) :
    (SendGuard.run p (SendGuard.init α) sched).nested = [] ∧
    (∀ i, (SendGuard.run p (SendGuard.init α) sched).pc i = .refused →
        ∃ j, (SendGuard.run p (SendGuard.init α) sched).pc j = .failed) ∧
    ((SendGuard.run p (SendGuard.init α) sched).lock = none →
      (SendGuard.run p (SendGuard.init α) sched).inside = true →
        ∃ j, (SendGuard.run p (SendGuard.init α) sched).pc j = .failed) := by
  have inv := SendGuard.inv_run p he sched _ (SendGuard.inv_init p)
  refine ⟨inv.nested, inv.why_refused, ?_⟩
  intro hl hi
  rcases inv.why_inside hi with ⟨j, k, hj, _⟩ | hf
  · rw [hl] at hj; cases hj
  · exact hf

/-- when the calls of the source ask: before queuing for the lock iff the regenerated facts do
not show the probe under the lock for every entry point and the token writer -/
def genEarly : Bool :=
  !(Generated.C05.entryGuard ==
      some [("Encode", true), ("EncodeElement", true), ("Send", true), ("SendElement", true)] &&
    Generated.C05.holderGuard == some true)

/-- the same for the source as it is: with the guard where the regenerated facts find it, for
every program and every schedule no element is started inside an unfinished one -/
theorem C05_guard_as_extracted {α : Type} (p : SendGuard.Prog α) (he : ∀ i, p.early i = genEarly)
    (sched : List Nat) : (SendGuard.run p (SendGuard.init α) sched).nested = [] :=
  (C05_guard_under_lock_refuses p (fun i => by rw [he i]; decide) sched).1

/-- after a call has stopped inside its element the stream stays silent: whatever is scheduled
afterwards, not one more item reaches the wire and no further call completes (every later
call is refused — it does not report success for an element that is not top level) -/
theorem C05_broken_stream_stays_silent {α : Type} (p : SendGuard.Prog α) (he : ∀ i, p.early i = false)
    (sched later : List Nat)
    (hl : (SendGuard.run p (SendGuard.init α) sched).lock = none)
    (hi : (SendGuard.run p (SendGuard.init α) sched).inside = true) :
    (SendGuard.run p (SendGuard.run p (SendGuard.init α) sched) later).wire =
      (SendGuard.run p (SendGuard.init α) sched).wire ∧
    (SendGuard.run p (SendGuard.run p (SendGuard.init α) sched) later).finished =
      (SendGuard.run p (SendGuard.init α) sched).finished :=
  SendGuard.dead_run p he later _ (SendGuard.inv_run p he sched _ (SendGuard.inv_init p)) hl hi

/-- two calls: call 0 sends `a b c` and stops before `b`, call 1 sends `x y` -/
def guardDemo (early : Bool) (fails : Bool) : SendGuard.Prog String :=
  { job := fun i => if i = 0 then ["a", "b", "c"] else ["x", "y"],
    failAt := fun i => if i = 0 ∧ fails then some 1 else none,
    early := fun _ => early }

/-- non-vacuity: under the lock, the call queued behind the one that stops is refused and the
wire ends with the unfinished element -/
example :
    let s := SendGuard.run (guardDemo false true) (SendGuard.init String) [0, 0, 1, 0, 1, 1, 1]
    s.pc 0 = .failed ∧ s.pc 1 = .refused ∧ s.wire = ["a"] ∧ s.lock = none ∧ s.inside = true := by
  decide

/-- **the hypothesis is necessary** (the "fail fast" rewrite: probe in front of `Lock`): call 1
looks at the encoder, queues behind call 0, call 0 stops inside its element and releases the
lock, call 1 writes its element INSIDE the unfinished one and reports success -/
theorem C05_guard_before_lock_nests :
    let s := SendGuard.run (guardDemo true true) (SendGuard.init String) [1, 0, 0, 0, 0, 1, 1, 1, 1]
    s.pc 0 = .failed ∧ s.pc 1 = .done ∧ s.nested = [1] ∧ s.wire = ["a", "x", "y"] := by
  decide

/-- the same rewrite also refuses calls for no reason: nobody fails, call 1 merely looks while
call 0 is in the middle of its element (an unlocked look cannot tell "broken" from "busy") -/
theorem C05_guard_before_lock_refuses_spuriously :
    let s := SendGuard.run (guardDemo true false) (SendGuard.init String) [0, 0, 0, 1, 0, 0, 0]
    s.pc 0 = .done ∧ s.pc 1 = .refused ∧ ∀ j, j < 2 → s.pc j ≠ .failed := by
  decide

/-! ### Round D: from the value to the tokens (`internal/marshal`) -/

open ValueForms in
/-- is `letter` the mark of an encoding method a value with the methods `code` may be encoded by -/
def admissibleLetter (code letter : String) : Bool :=
  allCaps.any fun c => c.code == code &&
    [Source.writeXML, .marshalerToks, .readerToks, .marshalXML, .reflection].any fun s => admissible c s && s.letter == letter

/-- regenerated PROBE fact: `harness facts` hands a value with every subset of the four encoding
methods (each writing its own mark, all of them the same element with `xml:lang` and an
attribute in an extension namespace) to `Encode` and to `EncodeElement` of a real session and
reads the wire: all 32 rows are there, every element arrived with its name and both namespaced
attributes intact, and it was made by a method the value offers (by reflection only when it
offers none).  Which of several offered methods is used is left to the code. -/
theorem C05_gen_value_forms :
    ∃ rows, Generated.C05.valueProbe = some rows ∧
      rows.map (fun r => (r.1, r.2.1)) = (["enc", "encel"].flatMap fun e => ValueForms.allCaps.map fun c => (e, c.code)) ∧
      rows.all (fun r => r.2.2.2 && admissibleLetter r.2.1 r.2.2.1) = true := by
  refine ⟨_, rfl, by decide, by decide⟩

/-- the order in which the model asks for the methods is an admissible one, for every value -/
theorem C05_dispatch_admissible (c : ValueForms.Caps) :
    ValueForms.admissible c (ValueForms.dispatch c) = true := by
  rcases c with ⟨w, m, r, x⟩
  cases w <;> cases m <;> cases r <;> cases x <;> rfl

/-- values that make their own tokens have them handed on as they are -/
theorem C05_own_tokens_unchanged (src : ValueForms.Source) (h : src.printed = false) (ts : List Tok) :
    ValueForms.handed src ts = ts := by
  simp [ValueForms.handed, h]

/-- what is left of a token when the namespace of an element name and the namespace
declarations are put aside -/
def shape : Tok → Tok
  | .start n as => .start ⟨"", n.loc⟩ (as.filter fun a => !isNsDecl a)
  | .stop n => .stop ⟨"", n.loc⟩
  | t => t

/-- **a printed value (MarshalXML, reflection) arrives whole**: reading its bytes back resolved
changes nothing but the spelling of namespaces - same tokens in the same order, same local
names, every attribute that is not a namespace declaration kept with its namespace, name and
value, same text; for every token list and every namespace context -/
theorem C05_printed_value_same_shape (st : List String) (ts : List Tok) :
    (resolve st ts).map shape = ts.map shape := by
  induction ts generalizing st with
  | nil => simp [resolve]
  | cons t ts ih =>
    cases t with
    | start n as => simp [resolve, shape, ih, List.filter_filter]
    | stop n =>
      cases st with
      | nil => simp [resolve, shape, ih]
      | cons s rest => simp [resolve, shape, ih]
    | chars x => simp [resolve, shape, ih]
    | comment x => simp [resolve, shape, ih]
    | procInst a b => simp [resolve, shape, ih]
    | directive x => simp [resolve, shape, ih]

/-- and no namespace declaration is handed on as if it were an attribute -/
theorem C05_printed_value_no_declarations (st : List String) (ts : List Tok) (n : Name) (as : List Attr)
    (h : Tok.start n as ∈ resolve st ts) : ∀ a ∈ as, isNsDecl a = false := by
  induction ts generalizing st with
  | nil => simp [resolve] at h
  | cons t ts ih =>
    cases t with
    | start m bs =>
      simp only [resolve, List.mem_cons] at h
      rcases h with h | h
      · injection h with h1 h2
        intro a ha
        rw [h2] at ha
        simpa using (List.mem_filter.mp ha).2
      · exact ih _ h
    | stop m =>
      cases st with
      | nil => simp only [resolve, List.mem_cons] at h; rcases h with h | h; · cases h
               · exact ih _ h
      | cons s rest => simp only [resolve, List.mem_cons] at h; rcases h with h | h; · cases h
                       · exact ih _ h
    | chars x => simp only [resolve, List.mem_cons] at h; rcases h with h | h; · cases h
                 · exact ih _ h
    | comment x => simp only [resolve, List.mem_cons] at h; rcases h with h | h; · cases h
                   · exact ih _ h
    | procInst x y => simp only [resolve, List.mem_cons] at h; rcases h with h | h; · cases h
                      · exact ih _ h
    | directive x => simp only [resolve, List.mem_cons] at h; rcases h with h | h; · cases h
                     · exact ih _ h

/-- non-vacuity + what the other way of reading back does: `<iq xml:lang="en"/>` printed and read
back RAW carries the prefix where the namespace belongs (the session's encoder would declare
`xmlns:_xml="xml"`); read back resolved it is the attribute the value has -/
theorem C05_raw_readback_mangles_prefixed_attr :
    let lang : Attr := ⟨⟨"http://www.w3.org/XML/1998/namespace", "lang"⟩, "en"⟩
    ValueForms.rawBackAttrs (fun _ => "_") [lang] = [⟨⟨"xml", "lang"⟩, "en"⟩] ∧
    ValueForms.handed .marshalXML [.start ⟨"", "iq"⟩ [⟨⟨"", "xmlns"⟩, "jabber:client"⟩, lang], .stop ⟨"", "iq"⟩]
      = [.start ⟨"jabber:client", "iq"⟩ [lang], .stop ⟨"jabber:client", "iq"⟩] := by
  decide

/-! ### Round D: the transport below the encoder (`conn.Write`) -/

open Transport in
/-- `conn.Write` as the code has it (one attempt): what the transport accepted is exactly the
reported prefix of the buffer, for every script of transport answers and every buffer -/
theorem C05_conn_write_exact {α : Type} : Exact (writeOnce (α := α)) := by
  intro s b
  cases s with
  | nil => simp [writeOnce]
  | cons r rest =>
    simp only [writeOnce]
    by_cases h : r.n ≤ b.length
    · rw [Nat.min_eq_left h]
    · have h' : b.length ≤ r.n := by omega
      rw [Nat.min_eq_right h', List.take_of_length_le h', List.take_of_length_le (Nat.le_refl _)]

open Transport in
/-- **whatever the transport does** (any answers: partial writes, temporary errors, timeouts,
permanent errors, short counts without error), below a layer that is exact per call the wire is
a PREFIX of what the encoder flushed - no byte twice, none out of order - and when no error was
reported it is all of it -/
theorem C05_transport_exact {α : Type} (write : List Resp → List α → Res α) (hw : Exact write)
    (s : List Resp) (cs : List (List α)) :
    (∃ rest, (flushChunks write s cs).1 ++ rest = cs.flatten) ∧
    ((flushChunks write s cs).2 = true → (flushChunks write s cs).1 = cs.flatten) := by
  induction cs generalizing s with
  | nil => simp [flushChunks]
  | cons c cs ih =>
    simp only [flushChunks]
    split
    · refine ⟨⟨c.drop (write s c).2.1 ++ cs.flatten, ?_⟩, by simp⟩
      rw [hw s c, ← List.append_assoc, List.take_append_drop, List.flatten_cons]
    · rename_i hc
      have hlen : c.length ≤ (write s c).2.1 := by
        simp only [Bool.or_eq_true, decide_eq_true_eq, not_or, Nat.not_lt] at hc
        exact hc.2
      have hall : (write s c).1 = c := by rw [hw s c, List.take_of_length_le hlen]
      obtain ⟨⟨rest, hr⟩, hok⟩ := ih (write s c).2.2.2
      refine ⟨⟨rest, ?_⟩, fun h => ?_⟩
      · simp only [hall, List.flatten_cons, List.append_assoc, hr]
      · simp only [hall, List.flatten_cons, hok h]

open Transport in
/-- the layer as the code has it -/
theorem C05_transport_exact_once {α : Type} (s : List Resp) (cs : List (List α)) :
    (∃ rest, (flushChunks writeOnce s cs).1 ++ rest = cs.flatten) ∧
    ((flushChunks writeOnce s cs).2 = true → (flushChunks writeOnce s cs).1 = cs.flatten) :=
  C05_transport_exact writeOnce C05_conn_write_exact s cs

open Transport in
/-- **the hypothesis is necessary**: a layer that answers a temporary error by submitting the
WHOLE buffer again puts the accepted prefix on the wire twice and reports success -/
theorem C05_retry_all_duplicates :
    flushChunks (writeRetryAll 2) [⟨3, some .temp⟩] [[1, 2, 3, 4, 5, 6, 7, 8]] = ([1, 2, 3, 1, 2, 3, 4, 5, 6, 7, 8], true) ∧
    ¬ Exact (writeRetryAll (α := Nat) 2) := by
  refine ⟨by decide, fun h => ?_⟩
  have := h [⟨3, some .temp⟩] [1, 2, 3, 4, 5, 6, 7, 8]
  revert this
  decide

set_option maxRecDepth 100000 in
open Transport in
/-- regenerated PROBE fact: `Session.Conn().Write("abcdefgh")` of a real session on a transport
that is not a net.Conn, for every script of two answers over {0, 3, 8 bytes} x {no error,
temporary, timeout, permanent} and every script of four answers over {(3, temporary),
(0, temporary), (8, ok)}: the bytes the transport accepted are exactly the reported prefix -/
theorem C05_gen_conn_write_exact :
    ∃ rows, Generated.C05.connWriteProbe = some rows ∧ rows.length = 225 ∧
      rows.all (fun r => r.2.2.2 == [97, 98, 99, 100, 101, 102, 103, 104].take r.2.1) = true := by
  refine ⟨_, rfl, by decide, by decide⟩

/-- non-vacuity of `C05_transport_exact`: a write cut short with a temporary error; the wire is
the accepted prefix, the failure is reported -/
example : Transport.flushChunks Transport.writeOnce [⟨3, some .temp⟩] [[1, 2, 3, 4, 5, 6, 7, 8], [9]] = ([1, 2, 3], false) := by
  decide

def twoSiblings : List Tok :=
  [.start ⟨"urn:a", "a"⟩ [], .stop ⟨"urn:a", "a"⟩, .start ⟨"urn:a", "b"⟩ [], .stop ⟨"urn:a", "b"⟩]

/-- "exactly ONE complete top-level element" FAILS for `Encode` of a value that encodes to
several sibling elements (its own tokens or printed): all of them are handed to the encoder and
the call reports success (known finding `one-element / value-of-many-elements`; review A-5),
whereas `Send` of the same tokens transmits the first element only (`C05_send_whole`) -/
theorem C05_encode_one_element_fails :
    topCount 0 (wireToks ⟨nsClient, ""⟩ "ID#" (ValueForms.handed .readerToks twoSiblings)) = 2 ∧
    topCount 0 (wireToks ⟨nsClient, ""⟩ "ID#" (ValueForms.handed .marshalXML twoSiblings)) = 2 ∧
    (sendToks twoSiblings).toOption.map (fun o => topCount 0 (wireToks ⟨nsClient, ""⟩ "ID#" o)) = some 1 := by
  decide

/-- regenerated PROBE fact (round E, review A-4): every exported method of `*xmpp.Session`, found
by reflection and called on a fresh real session with synthesized arguments (and an unhandled IQ
on the input, so that a serving method writes the automatic reply): whoever wrote to the
connection did so with the output lock held at EVERY write.  This is what makes every modelled
call a locking call (`locks i = true` in `C05_atomic`), as behaviour instead of source text: a
new method that writes to the connection directly, without the lock and without mentioning the
encoder, is a row with `held = false`.  Non-vacuity: at least 20 methods wrote, `Send`, `Encode`
and the serving method among them. -/
theorem C05_gen_writes_under_lock :
    ∃ rows, Generated.C05.lockProbe = some rows ∧
      (∀ r ∈ rows, r.2.1 = true → r.2.2 = true) ∧
      20 ≤ (rows.filter (fun r => r.2.1)).length ∧
      (rows.filter (fun r => r.2.1)).any (fun r => r.1 == "Send") = true ∧
      (rows.filter (fun r => r.2.1)).any (fun r => r.1 == "Encode") = true ∧
      (rows.filter (fun r => r.2.1)).any (fun r => r.1 == "Serve") = true := by
  refine ⟨_, rfl, by decide, by decide, by decide, by decide, by decide⟩

/-! ### Round G: the call kinds of session.go over the send LTS (review A-3) -/

open SendKinds in
/-- **atomicity for every mix of call kinds**: one-shot calls (`send`, `Encode`, `EncodeElement`,
`sendError`), token-writer handles with arbitrary user code between two tokens, and iterations
of the serve loop (lock taken lazily by the first token written through the iteration's ONE
`deferWriter`, handler reply and automatic reply under the same tenure, handler code in
between; a silent iteration never touches the lock), any number of each, EVERY schedule of
writing and non-writing steps: the wire is the concatenation of the complete blocks of the
finished calls followed by the prefix written by the one call inside its tenure, and every
finished call's block is on the wire, contiguous and whole -/
theorem C05_kinds_atomic {α : Type} (p : Prog α) (sched : List Act) :
    let s := run p (SendLts.init α) sched
    s.wire = s.finished.flatMap p.job ++ SendLts.open_ p.job s ∧
    (s.lock = none → s.wire = s.finished.flatMap p.job) ∧
    ∀ i, s.pc i = .done → ∃ pre post, s.wire = pre ++ p.job i ++ post := by
  intro s
  have inv := inv_run p sched (SendLts.init α) (SendLts.inv_init p.job)
  refine ⟨inv.wire_eq, ?_, ?_⟩
  · intro hnone
    have : SendLts.open_ p.job s = [] := by simp [SendLts.open_, hnone]
    rw [inv.wire_eq, this, List.append_nil]
  · intro i hd
    have hm := (inv.fin_done i).mpr hd
    obtain ⟨a, b, hab⟩ := List.append_of_mem hm
    refine ⟨a.flatMap p.job, b.flatMap p.job ++ SendLts.open_ p.job (run p (SendLts.init α) sched), ?_⟩
    rw [inv.wire_eq, hab]
    simp [List.flatMap_append]

open SendKinds in
/-- **the replies written by the serve goroutine are contiguous too**: for a finished iteration
of the serve loop, whatever else transmits at the same time and however the handler's code is
interleaved, the handler's reply tokens are on the wire in one piece and the automatic reply
(the `service-unavailable` error of an unanswered get/set IQ) follows them IMMEDIATELY — nothing
of another call before, inside or between the two -/
theorem C05_serve_replies_contiguous {α : Type} (p : Prog α) (sched : List Act) (i : Nat)
    (hk : p.kind i = .serveIter) (hd : (run p (SendLts.init α) sched).pc i = .done) :
    ∃ pre post, (run p (SendLts.init α) sched).wire = pre ++ p.reply i ++ p.auto i ++ post := by
  obtain ⟨pre, post, h⟩ := (C05_kinds_atomic p sched).2.2 i hd
  refine ⟨pre, post, ?_⟩
  rw [h]
  simp [Prog.job, hk, List.append_assoc]

open SendKinds in
/-- **what a serve iteration writes is a sequence of complete top-level elements, or the session
ends** (rule of session.go since the serve-loop fixes: `deferWriter.abandoned`): for every list of
tokens the handler got accepted, with or without a refused token, answered or not, and every
well-formed automatic reply — either the iteration reports `errOutputBroken` and NOTHING is
written after the handler's tokens, or its block (`reply`, or `reply ++ auto`) is balanced: the
automatic reply is a top-level element of the stream and the next call (`C05_kinds_atomic`)
finds the encoder at depth 0 -/
theorem C05_serve_iteration_whole_or_ends (needsResp : Bool) (id : String) (reply : List Tok)
    (refused : Bool) (auto : List Tok) (ha : balanced auto = true) :
    ((serveIter needsResp id reply refused auto).2 = true ∧
        (serveIter needsResp id reply refused auto).1 = reply ∧ abandoned reply refused = true) ∨
    ((serveIter needsResp id reply refused auto).2 = false ∧
        balanced (serveIter needsResp id reply refused auto).1 = true ∧
        ((serveIter needsResp id reply refused auto).1 = reply ∨
         (serveIter needsResp id reply refused auto).1 = reply ++ auto)) := by
  unfold serveIter
  by_cases hab : abandoned reply refused = true
  · left; simp [hab]
  · right
    have hb : depthAfter 0 reply = some 0 := by
      simp only [abandoned, Bool.or_eq_true, bne_iff_ne, ne_eq, not_or, Bool.not_eq_true] at hab
      exact Classical.not_not.mp hab.2
    have ha' : depthAfter 0 auto = some 0 := by simpa [balanced] using ha
    simp only [hab, Bool.false_eq_true, if_false]
    split
    · refine ⟨rfl, ?_, Or.inr rfl⟩
      simp [balanced, depthAfter_append, hb, ha']
    · refine ⟨rfl, ?_, Or.inl rfl⟩
      simp [balanced, hb]

def openReply : List Tok := [.start ⟨"urn:a", "x"⟩ []]
def autoErr : List Tok :=
  [.start ⟨"", "iq"⟩ [⟨⟨"", "type"⟩, "error"⟩, ⟨⟨"", "id"⟩, "q1"⟩], .start ⟨"", "error"⟩ [], .stop ⟨"", "error"⟩, .stop ⟨"", "iq"⟩]

open SendKinds in
/-- **the rule is necessary**: without it, a handler that returns nil with `<x>` open gets the
automatic reply of its unanswered IQ nested inside `<x>` (not a top-level element: the block is
not balanced); with it the iteration ends the session after the handler's tokens.  A refused
token has the same effect, and a complete answer suppresses the automatic reply. -/
theorem C05_serve_auto_reply_nests_without_check :
    serveIterNoCheck true "q1" openReply autoErr = openReply ++ autoErr ∧
    balanced (serveIterNoCheck true "q1" openReply autoErr) = false ∧
    serveIter true "q1" openReply false autoErr = (openReply, true) ∧
    serveIter true "q1" [] true autoErr = ([], true) ∧
    serveIter true "q1" [] false autoErr = (autoErr, false) ∧
    serveIter true "q1" autoErr false autoErr = (autoErr, false) ∧
    serveIter false "q1" [] false autoErr = ([], false) := by
  decide

/-- a session on which a handle writes `<a>…`, two one-shot calls transmit and the serve loop
answers an IQ (handler reply `r1 r2`, then the automatic reply `e`), with handler and user code
between the writes -/
def kindsDemo : SendKinds.Prog String :=
  { kind := fun i => if i = 0 then .handle else if i = 3 then .serveIter else if i = 4 then .serveIter else .oneShot,
    reply := fun i => if i = 0 then ["a1", "a2"] else if i = 1 then ["x"] else if i = 2 then ["y"]
      else if i = 3 then ["r1", "r2"] else [],
    auto := fun i => if i = 3 then ["e"] else [],
    waits := fun _ => none }

open SendKinds in
/-- non-vacuity: the schedule interleaves all kinds; iteration 4 writes nothing and never takes
the lock (it stays `idle` although it is scheduled while the lock is free) -/
example :
    let s := run kindsDemo (SendLts.init String)
      [.go 3, .idle 3, .go 0, .go 1, .go 3, .idle 3, .go 2, .go 3, .go 0, .idle 3, .go 3, .go 3, .go 4, .go 0, .go 0,
       .idle 0, .go 0, .go 0, .go 4, .go 1, .go 1, .go 1, .go 2, .go 2, .go 2]
    s.wire = ["r1", "r2", "e", "a1", "a2", "x", "y"] ∧ s.pc 4 = .idle ∧ s.lock = none := by
  decide

/-- a token-writer handle (call 0) whose owner, after the first token, calls `Send` on the same
session (call 1) and goes on only when that call has returned -/
def selfSend : SendKinds.Prog String :=
  { kind := fun i => if i = 0 then .handle else .oneShot,
    reply := fun i => if i = 0 then ["a", "b"] else if i = 1 then ["x"] else [],
    auto := fun _ => [],
    waits := fun i => if i = 0 then some (1, 1) else none }

open SendKinds in
/-- **negation witness / assumption made explicit** (review A-3a): user code that holds a token
writer and makes a transmit call on the SAME session deadlocks — from the state after the
handle's first token NO action of ANY call changes anything, under every schedule: the handle
never finishes, the inner `Send` never gets the lock, and every other call on the session is
locked out for good.  The property speaks about successful calls, and no call succeeds; the
theorems above assume `waits = none` for handles only in the sense that their conclusions are
about calls that DO finish. -/
theorem C05_holder_send_self_deadlocks (sched : List Act) :
    let s0 := run selfSend (SendLts.init String) [.go 0, .go 0]
    let s := run selfSend s0 sched
    s.wire = ["a"] ∧ s.lock = some 0 ∧ s.pc 0 = .holding 1 ∧ s.pc 1 = .idle ∧ s.finished = [] := by
  intro s0 s
  have hstuck : ∀ a, step selfSend s0 a = none ∨ step selfSend s0 a = some s0 := by
    intro a
    cases a with
    | idle i => right; rfl
    | go i =>
      left
      by_cases h0 : i = 0
      · subst h0; decide
      · have hpc : s0.pc i = .idle := by
          simp [s0, run, step, selfSend, blockedOn, SendLts.step, SendLts.init, SendLts.setPc, Prog.job, h0]
        have hlock : s0.lock = some 0 := by decide
        simp [step, selfSend, blockedOn, h0, SendLts.step, hpc, hlock, Prog.job]
  have : s = s0 := stuck_run selfSend s0 hstuck sched
  rw [this]
  decide

/-! ### a call that returned nil HAS put its element on the output stream (round E, seeded C05-19) -/

open SendFlush in
/-- **returned ⇒ on the wire**: with the unconditional flush at the end of every transmit call
(`send`, `Encode`, `EncodeElement`, the token writer's `Close`), for ANY number of calls, every
program (calls that give up after k items — k = 0: the reader fails on the first token, not a
start element, closed stream — without flushing), every schedule and every placement of
buffer spills: at every moment, each call that has returned nil has its complete block on the
WIRE (not in the buffer), contiguous, ending where the stream stood when it returned; every
call in state `ok` is such a call.  It does not matter who is queued for the lock. -/
theorem C05_returned_on_wire {α : Type} (p : Prog α) (hp : p.lazy = false) (sched : List Act) :
    let s := run p (init α) sched
    (∀ i, s.pc i = .ok → ∃ e, (i, e) ∈ s.rets) ∧
    ∀ r ∈ s.rets, ∃ pre post, s.wire = pre ++ p.job r.1 ++ post ∧ (pre ++ p.job r.1).length = r.2 := by
  intro s
  have inv := inv_run p hp sched (init α) (inv_init p)
  exact ⟨inv.ok_ret, fun r hr => returned_on_wire inv r hr⟩

/-- the program of the witness: call 0 sends `a`; call 1 queues behind it and then gives up
before its first item (its token reader fails) -/
def queuedQuitter (lazy : Bool) : SendFlush.Prog String :=
  { job := fun i => if i = 0 then ["a"] else ["b"], stopAt := fun i => if i = 1 then some 0 else none, lazy := lazy }

def queuedQuitterSched : List SendFlush.Act :=
  [.call 0, .call 0, .call 0, .call 1, .call 0, .call 1, .call 1]

open SendFlush in
/-- **the hypothesis is necessary** (the "group commit" of seeded C05-19): when the final flush
is skipped because another call is queued, and that call then ends without flushing, call 0 has
returned nil and NOTHING is on the wire; with the unconditional flush the same schedule has `a`
on the wire at that point -/
theorem C05_group_commit_loses_element :
    (let s := run (queuedQuitter true) (init String) queuedQuitterSched
     s.pc 0 = .ok ∧ s.pc 1 = .err ∧ s.lock = none ∧ s.wire = [] ∧ s.buf = ["a"]) ∧
    (let s := run (queuedQuitter false) (init String) queuedQuitterSched
     s.pc 0 = .ok ∧ s.pc 1 = .err ∧ s.lock = none ∧ s.wire = ["a"] ∧ s.buf = []) := by
  decide

/-- non-vacuity of `C05_returned_on_wire`: three calls queued at once, the second gives up before its
first item, a spill in the middle of the first; both successful calls are on the wire -/
example :
    let p : SendFlush.Prog String :=
      { job := fun i => if i = 0 then ["a", "b"] else if i = 1 then ["x"] else ["c"],
        stopAt := fun i => if i = 1 then some 0 else none, lazy := false }
    let s := SendFlush.run p (SendFlush.init String)
      [.call 0, .call 1, .call 2, .call 0, .call 0, .spill 1, .call 0, .call 0, .call 1, .call 1, .call 2, .call 2, .call 2]
    s.wire = ["a", "b", "c"] ∧ s.rets = [(0, 2), (2, 3)] ∧ s.pc 1 = .err := by
  decide

end XmppModel.Props.C05
