import XmppModel.Model.Negotiate
import XmppModel.Lemmas.Negotiate
/-!
# C01 — features are negotiated only when allowed, in order, at most once

Property theorems about the negotiation machine `Model/Negotiate.lean` (the model of
`negotiateSession`, `negotiator` and `negotiateFeatures` after the `fix:` commits).
Quantifiers: every configuration `C` (any masks, mandatory or voluntary, restarting or not,
negotiable or informational, shared namespaces), every behaviour `O` of the callbacks and
every fault pattern, every initial state `st0`, every peer script, every pick script (map
iteration order), every number of steps: `Reach … c` is "c is the configuration after some
number of steps from the initial one".
-/
namespace XmppModel.Props.C01
open XmppModel XmppModel.Negotiate

variable {C : List Feature} {O : Oracle} {st0 : St} {script : List Peer} {picks : List FName}

theorem invA_reach {c : Conf} (h : Reach C O st0 script picks c) : InvA C c := by
  refine reach_ind (P := InvA C) ?_ (fun c _ hc => invA_step C O c hc) c h
  constructor
  · intro h; cases h
  · intro e he; cases he

/-- **prerequisites**: whenever a feature's `Negotiate` runs — selected from the list or by
the unconditional STARTTLS attempt, on either side — every necessary bit is set and no
prohibited bit is set in the session state of that moment -/
theorem C01_prereq {c : Conf} (h : Reach C O st0 script picks c)
    {f : Feature} {st : St} {req forced srv : Bool} {r : NegRes}
    (he : Ev.neg f st req forced srv r ∈ c.tr) : eligible st f = true :=
  ((invA_reach h).good _ he).1

/-- **negotiable**: `Negotiate` is only ever called on a feature that has one (in particular
the unconditional STARTTLS attempt never calls a nil function) -/
theorem C01_negotiable {c : Conf} (h : Reach C O st0 script picks c)
    {f : Feature} {st : St} {req forced srv : Bool} {r : NegRes}
    (he : Ev.neg f st req forced srv r ∈ c.tr) : f.negotiable = true :=
  ((invA_reach h).good _ he).2

/-- **monotone**, one step: no step ever clears a state bit -/
theorem C01_monotone_step (c : Conf) : sub c.st (step C O c).st := step_mono C O c

/-- **monotone**, along a run: the state after `n + m` steps contains the state after `n` -/
theorem C01_monotone_run (c : Conf) (n m : Nat) : sub (run C O n c).st (run C O (n + m) c).st := by
  induction m with
  | zero => exact sub_refl _
  | succ m ih =>
    rw [← Nat.add_assoc, run_succ]
    exact sub_trans ih (step_mono C O _)

/-- **monotone**: every reachable state contains the initial state -/
theorem C01_monotone {c : Conf} (h : Reach C O st0 script picks c) : sub st0 c.st := by
  obtain ⟨n, rfl⟩ := h
  have := C01_monotone_run (C := C) (O := O) (init st0 script picks) 0 n
  rw [Nat.zero_add] at this
  exact this

end XmppModel.Props.C01
