import XmppModel.Model.Negotiate
import XmppModel.Lemmas.Negotiate
import XmppModel.Lemmas.NegotiateReady
import XmppModel.Lemmas.NegotiateOnce
import XmppModel.Lemmas.NegotiateAdv
import XmppModel.Lemmas.NegotiateReach
import XmppModel.Lemmas.NegotiateTerm
import XmppModel.Lemmas.NegotiateDriver
import XmppModel.Lemmas.NegotiateTee
import XmppModel.Lemmas.NegotiateDyn
import XmppModel.Lemmas.NegotiateDynAdv
import XmppModel.Lemmas.NegotiateFeats
import XmppModel.Generated.C01
/-!
# C01 — features are negotiated only when allowed, in order, at most once

Property theorems about the negotiation machine `Model/Negotiate.lean` (the model of
`negotiateSession`, `negotiator` and `negotiateFeatures` after the `fix:` commits).
Quantifiers: every configuration `C` (any masks, mandatory or voluntary, restarting or not,
negotiable or informational, shared namespaces), every behaviour `O` of the callbacks and
every fault pattern, every initial state `st0`, every peer script, every pick script (map
iteration order), every number of steps: `Reach … c` is "c is the configuration after some
number of steps from the initial one".
-/
namespace XmppModel.Props.C01
open XmppModel XmppModel.Negotiate

variable {C : List Feature} {O : Oracle} {st0 : St} {script : List Peer} {picks : List FName}

/-! ### tie to the source: regenerated facts -/

/-- the `SessionState` bits of session.go are the model's bits -/
theorem C01_gen_bits : Generated.C01.stateBits =
    some [("Secure", bSecure.toNat), ("Authn", bAuthn.toNat), ("Ready", bReady.toNat),
          ("Received", bReceived.toNat), ("S2S", bS2S.toNat)] := by decide

set_option maxRecDepth 8192 in
/-- the mask test of the real code, evaluated on all 512 triples (state, necessary, prohibited)
over the bits Secure, Authn, S2S through a one-feature receiver, is the model's `eligible` -/
theorem C01_gen_mask_test : ∃ t, Generated.C01.maskTable = some t ∧
    ∀ row ∈ t, eligible (BitVec.ofNat 8 row.1)
      ⟨0, ⟨2, 1⟩, BitVec.ofNat 8 row.2.1, BitVec.ofNat 8 row.2.2.1, true⟩ = row.2.2.2 :=
  ⟨_, rfl, by decide⟩

set_option maxRecDepth 8192 in
/-- the mask test of the **initiating** side (other code: `readStreamFeatures` and the selection
loop of `negotiateFeatures`), evaluated by the real code on all 512 triples through a one-feature
initiator whose peer advertises the feature as mandatory: the feature is negotiated iff the model's
`eligible` holds, and when it is (its own mask supplies `Ready`) the session is established -/
theorem C01_gen_mask_test_init : ∃ t, Generated.C01.maskTableInit = some t ∧ t.length = 512 ∧
    ∀ row ∈ t, eligible (BitVec.ofNat 8 row.1)
      ⟨0, ⟨2, 1⟩, BitVec.ofNat 8 row.2.1, BitVec.ofNat 8 row.2.2.1, true⟩ = row.2.2.2.1
      ∧ row.2.2.2.2 = row.2.2.2.1 :=
  ⟨_, rfl, rfl, by decide⟩

/-- what `C01_gen_mask_ready` demands of one row -/
def readyRowOk (row : Nat × Nat × Nat × Bool) : Bool :=
  let f : Feature := ⟨0, ⟨2, 1⟩, BitVec.ofNat 8 row.2.1, BitVec.ofNat 8 row.2.2.1, true⟩
  (eligible (BitVec.ofNat 8 row.1) f && eligible (BitVec.ofNat 8 row.1 ||| bReady) f) == row.2.2.2

/-- **the Ready bit in the mask test** (review A, C01-5): the real code, on all 8 × 16 × 16 = 2048
combinations of a start state over Secure, Authn, S2S and masks over Secure, Authn, **Ready**, S2S,
through a two-feature initiator (a voluntary feature supplies `Ready`, then the mandatory feature
with the masks under test is looked at in state `st ||| Ready`): it is negotiated iff the model's
`eligible` held when the list was read (`st`) **and** holds when it is selected (`st ||| Ready`) — a
feature prohibited by `Ready` (resource binding) is not run once the session is ready, one that
needs `Ready` is never run during negotiation; a mask test that special-cases the ready bit breaks
this theorem -/
theorem C01_gen_mask_ready : ∃ t, Generated.C01.maskTableReady = some t ∧ t.length = 2048 ∧
    ∀ row ∈ t, readyRowOk row = true := by
  refine ⟨_, rfl, by decide +kernel, ?_⟩
  have h : (Generated.C01.maskTableReady.getD []).all readyRowOk = true := by decide +kernel
  exact fun row hr => List.all_eq_true.mp h row hr

/-- … and `eligible` only looks at the bits the two masks name, so the table extends to every
state: bits outside `necessary ||| prohibited` never matter -/
theorem C01_eligible_local (st : St) (f : Feature) :
    eligible st f = eligible (st &&& (f.nec ||| f.proh)) f := by
  unfold eligible
  congr 1
  · congr 1
    apply BitVec.eq_of_getLsbD_eq
    intro i _
    simp only [BitVec.getLsbD_and, BitVec.getLsbD_or]
    cases st.getLsbD i <;> cases f.nec.getLsbD i <;> simp
  · congr 1
    apply BitVec.eq_of_getLsbD_eq
    intro i _
    simp only [BitVec.getLsbD_and, BitVec.getLsbD_or]
    cases st.getLsbD i <;> cases f.proh.getLsbD i <;> simp

/-- masks and negotiability of the built-in features (read from the feature values the
library constructs) -/
theorem C01_gen_builtin : Generated.C01.builtin =
    some [("starttls", 0, bSecure.toNat, true), ("sasl", bSecure.toNat, bAuthn.toNat, true),
          ("bind", bAuthn.toNat, bReady.toNat, true), ("bidi", bSecure.toNat, bAuthn.toNat, true)] := by
  decide

/-- consequence for the built-in order: a feature with the masks of SASL only ever runs on a
secured, not yet authenticated stream; one with the masks of resource binding only on an
authenticated stream -/
theorem C01_builtin_order {c : Conf} (h : Reach C O st0 script picks c)
    {f : Feature} {st : St} {req forced srv : Bool} {r : NegRes}
    (he : Ev.neg f st req forced srv r ∈ c.tr) :
    (f.nec = bSecure → f.proh = bAuthn → has st bSecure = true ∧ st &&& bAuthn = 0) ∧
    (f.nec = bAuthn → has st bAuthn = true) := by
  have hp := ((invA_reach h).good _ he).1
  unfold eligible at hp
  simp only [Bool.and_eq_true, beq_iff_eq] at hp
  constructor
  · intro h1 h2; rw [h1, h2] at hp
    exact ⟨by unfold has; simp [hp.1], hp.2⟩
  · intro h1; rw [h1] at hp
    unfold has; simp [hp.1]

/-- **prerequisites**: whenever a feature's `Negotiate` runs — selected from the list or by
the unconditional STARTTLS attempt, on either side — every necessary bit is set and no
prohibited bit is set in the session state of that moment -/
theorem C01_prereq {c : Conf} (h : Reach C O st0 script picks c)
    {f : Feature} {st : St} {req forced srv : Bool} {r : NegRes}
    (he : Ev.neg f st req forced srv r ∈ c.tr) : eligible st f = true :=
  ((invA_reach h).good _ he).1

/-- **negotiable**: `Negotiate` is only ever called on a feature that has one (in particular
the unconditional STARTTLS attempt never calls a nil function) -/
theorem C01_negotiable {c : Conf} (h : Reach C O st0 script picks c)
    {f : Feature} {st : St} {req forced srv : Bool} {r : NegRes}
    (he : Ev.neg f st req forced srv r ∈ c.tr) : f.negotiable = true :=
  ((invA_reach h).good _ he).2

/-- **monotone**, one step: no step ever clears a state bit -/
theorem C01_monotone_step (c : Conf) : sub c.st (step C O c).st := step_mono C O c

/-- **monotone**, along a run: the state after `n + m` steps contains the state after `n` -/
theorem C01_monotone_run (c : Conf) (n m : Nat) : sub (run C O n c).st (run C O (n + m) c).st := by
  induction m with
  | zero => exact sub_refl _
  | succ m ih =>
    rw [← Nat.add_assoc, run_succ]
    exact sub_trans ih (step_mono C O _)

/-- **monotone**: every reachable state contains the initial state -/
theorem C01_monotone {c : Conf} (h : Reach C O st0 script picks c) : sub st0 c.st := by
  obtain ⟨n, rfl⟩ := h
  have := C01_monotone_run (C := C) (O := O) (init st0 script picks) 0 n
  rw [Nat.zero_add] at this
  exact this

/-! ### at most once per stream -/

/-- **at most once per stream**: reading the trace newest first, every `Negotiate` call is for
a namespace that has not been negotiated successfully since the last stream header
(`segNs`: namespaces negotiated since the last header event) -/
theorem C01_once {c : Conf} (h : Reach C O st0 script picks c) : OnceOK c.tr := (invD_reach h).ok

/-- unfolded form of `C01_once`: if the trace is `l₁ ++ neg f … :: l₂` (so `l₂` is what happened
before that call), `f`'s namespace was not negotiated in `l₂` since the last header -/
theorem C01_once_at {c : Conf} (h : Reach C O st0 script picks c) (l₁ l₂ : List Ev)
    {f : Feature} {st : St} {req forced srv : Bool} {r : NegRes}
    (ht : c.tr = l₁ ++ Ev.neg f st req forced srv r :: l₂) : f.name.ns ∉ segNs l₂ := by
  have hok := C01_once h
  rw [ht] at hok
  clear ht
  induction l₁ with
  | nil => exact hok.1
  | cons e l ih => exact ih hok.2

/-! ### a restart begins with a fresh stream header -/

/-- **restart ⇒ header**: in every reachable trace the event that follows a successful
`Negotiate` which returned a new connection layer is a stream header event (header written
by the initiator, header read by the receiver) -/
theorem C01_restart_header {c : Conf} (h : Reach C O st0 script picks c) : RestartOK c.tr :=
  (invE_reach h).ok

/-- … and the session is never reported established with a restart still pending, unless a
feature itself put the ready bit into its mask (or the caller passed it in): the library
never adds `Ready` to a result that carries a new connection layer -/
theorem C01_no_ready_on_restart {c : Conf} (h : Reach C O st0 script picks c) (hd : c.pc = .done)
    (hr : headRestart c.tr = true) : has st0 bReady = true ∨ FeatReady c.tr := by
  have hrd := (invC_reach h).doneReady hd
  have hdo := (invE_reach h).top (Or.inr hd) hr
  rcases (invC2_reach h).top (Or.inr hd) hrd with h1 | h1 | h1
  · exact Or.inl h1
  · exact Or.inr h1
  · rw [hdo] at h1; cases h1

/-- **ready**: success is only reported with the ready bit set -/
theorem C01_ready {c : Conf} (h : Reach C O st0 script picks c) (hd : c.pc = .done) :
    has c.st bReady = true := (invC_reach h).doneReady hd

/-! ### only what the current list offers -/

/-- **advertised**: reading the trace newest first, every `Negotiate` call that is not the
unconditional STARTTLS attempt is for a feature of the most recent features list
(`lastList`): on the receiving side one of the features written into the list, on the
initiating side one of the features kept from the list that was read -/
theorem C01_advertised {c : Conf} (h : Reach C O st0 script picks c) : AdvOK c.tr := (invF_reach h).ok

theorem C01_advertised_at {c : Conf} (h : Reach C O st0 script picks c) (l₁ l₂ : List Ev)
    {f : Feature} {st : St} {req srv : Bool} {r : NegRes}
    (ht : c.tr = l₁ ++ Ev.neg f st req false srv r :: l₂) : f ∈ lastList l₂ := by
  have hok := C01_advertised h
  rw [ht] at hok
  clear ht
  induction l₁ with
  | nil => rcases hok.1 with h | h
           · cases h
           · exact h
  | cons e l ih => exact ih hok.2

/-- **the sole exception**: a `Negotiate` call for a feature that the current list does not
offer (`forced`) is for the configured feature of the STARTTLS namespace, happens on the
initiating side, and exactly one features list has been read before it — the first one of the
session (`nLists`: number of lists read so far) -/
theorem C01_forced_starttls {c : Conf} (h : Reach C O st0 script picks c) : ForcedOK c.tr :=
  (invX_reach h).ok

theorem C01_forced_starttls_at {c : Conf} (h : Reach C O st0 script picks c) (l₁ l₂ : List Ev)
    {f : Feature} {st : St} {req srv : Bool} {r : NegRes}
    (ht : c.tr = l₁ ++ Ev.neg f st req true srv r :: l₂) :
    f.name.ns = nsTLS ∧ srv = false ∧ nLists l₂ = 1 := by
  have hok := C01_forced_starttls h
  rw [ht] at hok
  clear ht
  induction l₁ with
  | nil => exact hok.1
  | cons e l ih => exact ih hok.2

/-- **what the initiator keeps of a features list**: every feature it may later negotiate
from that list is configured, had its masks satisfied when the list was read, and is named by
a child element of the list `adv`, which is an item the peer really sent (an element of the
peer script) -/
theorem C01_cached_advertised {c : Conf} (h : Reach C O st0 script picks c) {st : St}
    {fs : List Feature} {adv : List AdvItem} {es : List Entry} (he : Ev.listIn st fs adv es ∈ c.tr) :
    (adv = [] ∨ Peer.adv adv ∈ script) ∧
    ∀ f ∈ fs, f ∈ C ∧ eligible st f = true ∧ ∃ req, AdvItem.feat f.name req ∈ adv :=
  (invP_reach h).inOK st fs adv es he

/-- **the receiver advertises exactly the configured features whose prerequisites hold**, in
configuration order, whenever it writes a features list -/
theorem C01_recv_advert {c : Conf} (h : Reach C O st0 script picks c) {st : St} {fs : List Feature}
    {ok : Bool} (he : Ev.listOut st fs ok ∈ c.tr) : fs = C.filter (eligible st) :=
  (invL_reach h).outOK st fs ok he

/-! ### refusals -/

/-- **a refused selection ends the negotiation**: the refusal is the last event, the outcome is
a policy violation, and no callback runs after it -/
theorem C01_recv_refuse {c : Conf} (h : Reach C O st0 script picks c) {n : FName}
    (he : Ev.refuse n ∈ c.tr) : c.pc = .fail .policy ∧ ∃ rest, c.tr = .refuse n :: rest :=
  let ⟨h1, rest, h2, _⟩ := (invG_reach h).refused n he
  ⟨h1, rest, h2⟩

/-- **the receiver refuses what it may not run**, as one step: when the element just read
names a namespace that is not in the list just written, or that was already negotiated on this
stream, or whose feature is informational or no longer eligible, the step logs a refusal (no
callback) and ends with a policy violation -/
theorem C01_recv_refuses (c : Conf) {item : Peer} {name : FName} {iq payload : Bool}
    (hpc : c.pc = .selected item) (hs : item.selName = some (name, iq, payload))
    (hw : (iq && !payload) = false)
    (hbad : c.cache.get name.ns = none ∨ c.negd.contains name.ns = true ∨
      ∃ e, c.cache.get name.ns = some e ∧ (e.f.negotiable = false ∨ eligible c.st e.f = false)) :
    (step C O c).pc = .fail .policy ∧ (step C O c).tr = .refuse name :: c.tr := by
  unfold step
  simp only [hpc, hs, hw]
  rcases hbad with h | h | ⟨e, h, h'⟩
  · simp [h, Conf.log, Conf.goto]
  · have hm : name.ns ∈ c.negd := by simpa using h
    cases hg : c.cache.get name.ns <;> simp [hm, Conf.log, Conf.goto]
  · rcases h' with h' | h' <;> simp [h, h', Conf.log, Conf.goto]

/-- **the receiver runs a selection only if it may**: every `Negotiate` call on the receiving
side is for a feature that is in the list just written (`C01_advertised`), whose namespace was
not negotiated on this stream (`C01_once`), that is negotiable (`C01_negotiable`) and whose
masks hold at that moment (`C01_prereq`); put together for the newest event -/
theorem C01_recv_runs_only_allowed {c : Conf} (h : Reach C O st0 script picks c)
    {f : Feature} {st : St} {req : Bool} {r : NegRes} {rest : List Ev}
    (ht : c.tr = Ev.neg f st req false true r :: rest) :
    f ∈ lastList rest ∧ f.name.ns ∉ segNs rest ∧ f.negotiable = true ∧ eligible st f = true := by
  have hm : Ev.neg f st req false true r ∈ c.tr := by rw [ht]; exact List.mem_cons_self
  exact ⟨C01_advertised_at h [] rest ht, C01_once_at h [] rest ht, C01_negotiable h hm, C01_prereq h hm⟩

/-! ### established only when nothing mandatory is left -/

/-- **ready is sound** — *partial*: the clause of the property ("established only … with no eligible
mandatory feature of the last advertisement left un-negotiated") is proved under the hypothesis
`hf` that no feature's own mask carried `Ready`; without it the clause is **false for the code**
(`C01_ready_sound_feat_fails` below, `known:` finding `ready-sound|feature-ready-leaves-mandatory`):
`BindResource` returns `Ready` itself. If success is reported although neither the caller nor any feature's
own mask supplied the ready bit — i.e. the library itself decided that negotiation is
complete — then the final state is `stb ||| Ready` for the state `stb` in which that decision
was taken, and no mandatory, negotiable feature of the last features list whose prerequisites
hold in `stb` is left un-negotiated: neither one of the cached ones (configured, eligible when
the list was read) nor one of the skipped ones (configured, not eligible when the list was read
but possibly eligible by now) -/
theorem C01_ready_sound_partial {c : Conf} (h : Reach C O st0 script picks c) (hd : c.pc = .done)
    (h0 : has st0 bReady = false) (hf : ¬ FeatReady c.tr) :
    has c.st bReady = true ∧ ∃ stb, c.st = stb ||| bReady ∧ NoMandLeft c stb := by
  have hr := (invC_reach h).doneReady hd
  refine ⟨hr, ?_⟩
  rcases (invR_reach h).top (Or.inr hd) hr with h1 | h1 | h1
  · rw [h0] at h1; cases h1
  · exact absurd h1 hf
  · exact h1

def fRdy : Feature := ⟨0, ⟨3, 1⟩, 0, 0, true⟩
def fMand2 : Feature := ⟨1, ⟨4, 1⟩, 0, 0, true⟩
/-- the `Negotiate` of `fRdy` returns the ready bit itself (as `BindResource` does) -/
def rdyO : Oracle :=
  { neg := fun _ f _ => if f.id == 0 then ⟨bReady, false, false⟩ else ⟨0, false, false⟩,
    list := fun _ _ _ => ⟨false, false⟩, parseErr := fun _ _ _ => false, fault := fun _ => false,
    cancel := fun _ => false, block := fun _ => false, dlRd := true, dlWr := true,
    layer := fun _ _ => false }

/-- **the full-strength clause fails** (negation witness; review A, C01-1): two mandatory,
negotiable, eligible features are advertised; the map iteration picks the one whose `Negotiate`
returns `Ready` in its own mask (what `BindResource` does); the selection loop leaves the list
after a mandatory feature, `negotiateSession` applies the mask and its loop `for s.state&Ready == 0`
ends: the session is reported established while the other mandatory feature of the same
advertisement is cached, eligible and was never negotiated. Replayed on the real code by the
corpus line `C01 run 0 0 3.1:…:4…;4.1… H1;A3.1.1,4.1.1 3.1 -` (in the other map order both are
negotiated). -/
theorem C01_ready_sound_feat_fails :
    ∃ c : Conf, Reach [fRdy, fMand2] rdyO 0
        [.hdr true, .adv [.feat ⟨3, 1⟩ true, .feat ⟨4, 1⟩ true]] [⟨3, 1⟩] c ∧
      c.pc = .done ∧ featReadyB c.tr = true ∧ ¬ NoMandLeft c c.st := by
  refine ⟨_, ⟨30, rfl⟩, by decide, by decide, ?_⟩
  intro h
  have := h ⟨true, fMand2⟩ (by decide) rfl rfl (by decide)
  revert this
  decide

/-- **nothing of the last advertisement is lost**: when the initiator reports success, every
child element of the last features list (`c.curAdv`) that names a configured feature `f` is
accounted for in what `C01_ready_sound` ranges over: the cache slot of `f`'s namespace is
filled (by `f`, or by a later feature of the same namespace — the code keys by namespace), or
`f` is in the skipped list -/
theorem C01_list_complete {c : Conf} (h : Reach C O st0 script picks c) (hd : c.pc = .done)
    (hs : c.srv = false) : Covered C c c.curAdv :=
  (invK_reach h).afterK (by rw [hd]; rfl) hs

/-! ### configured features that share a namespace

The code keys the features cache (`streamFeaturesList.cache`) and `s.negotiated` by namespace.
What holds when two configured features carry the same namespace, and what does not: -/

/-- the cache holds **at most one entry per namespace** (a later feature of the same namespace
replaces the earlier one: receiver in configuration order, initiator in advertisement order) -/
theorem C01_cache_one_per_ns {c : Conf} (h : Reach C O st0 script picks c) :
    (c.cache.map (·.f.name.ns)).Nodup := (invN_reach h).nodup

/-- of all features of one namespace **at most one is negotiated per stream**: a `Negotiate`
call for `f` never follows, on the same stream, a successful one for a feature `g` of the same
namespace (`C01_once` read at the level of features) -/
theorem C01_one_per_ns_per_stream {c : Conf} (h : Reach C O st0 script picks c) (l₁ l₂ : List Ev)
    {f : Feature} {st : St} {req forced srv : Bool} {r : NegRes}
    (ht : c.tr = l₁ ++ Ev.neg f st req forced srv r :: l₂) :
    ∀ ns ∈ segNs l₂, ns ≠ f.name.ns :=
  fun _ hns heq => C01_once_at h l₁ l₂ ht (heq ▸ hns)

/-- **with pairwise distinct namespaces nothing is shadowed**: if no two configured features share
a namespace and the library itself decided that negotiation is complete, then every child of the
last features list that names a configured feature `f` is recorded — cached or skipped — as `f`
itself, and if it was recorded as mandatory, is negotiable and eligible in the state `stb` of the
decision, its namespace has been negotiated -/
theorem C01_ready_sound_unique_ns {c : Conf} (h : Reach C O st0 script picks c) (hd : c.pc = .done)
    (hs : c.srv = false) (h0 : has st0 bReady = false) (hf : ¬ FeatReady c.tr)
    (huniq : ∀ f g, f ∈ C → g ∈ C → f.name.ns = g.name.ns → f = g) :
    ∃ stb, c.st = stb ||| bReady ∧
      ∀ name req f, AdvItem.feat name req ∈ c.curAdv → C.find? (fun f => f.name == name) = some f →
        ∃ e ∈ c.cache ++ c.skipped, e.f = f ∧
          (e.req = true → f.negotiable = true → eligible stb f = true →
            c.negd.contains f.name.ns = true) := by
  obtain ⟨_, stb, hst, hno⟩ := C01_ready_sound_partial h hd h0 hf
  refine ⟨stb, hst, ?_⟩
  intro name req f hm hfind
  have hfC : f ∈ C := List.mem_of_find?_eq_some hfind
  have hN := invN_reach h
  rcases C01_list_complete h hd hs name req f hm hfind with ⟨e, he, hns⟩ | ⟨e, he, hef⟩
  · have : e.f = f := huniq _ _ (hN.cacheC e he) hfC hns
    refine ⟨e, List.mem_append_left _ he, this, ?_⟩
    intro h1 h2 h3
    have := hno e (List.mem_append_left _ he) h1 (this ▸ h2) (this ▸ h3)
    rwa [‹e.f = f›] at this
  · refine ⟨e, List.mem_append_right _ he, hef, ?_⟩
    intro h1 h2 h3
    have := hno e (List.mem_append_right _ he) h1 (hef ▸ h2) (hef ▸ h3)
    rwa [hef] at this

/-- callbacks that succeed and change nothing -/
def plainO : Oracle :=
  { neg := fun _ _ _ => ⟨0, false, false⟩, list := fun _ _ _ => ⟨false, false⟩,
    parseErr := fun _ _ _ => false, fault := fun _ => false, cancel := fun _ => false,
    block := fun _ => false, dlRd := true, dlWr := true, layer := fun _ _ => false }

def fMand : Feature := ⟨0, ⟨2, 1⟩, 0, 0, true⟩
def fInfo : Feature := ⟨1, ⟨2, 2⟩, 0, 0, false⟩

/-- **with a shared namespace a mandatory feature can be shadowed** (negation witness): the peer
offers the mandatory, negotiable, eligible `fMand` and then the informational `fInfo` of the
same namespace; `fInfo` takes the cache slot, nothing is left to pick, the session is reported
established and `fMand` was never negotiated. This is the exact limit of `C01_ready_sound` /
`C01_list_complete` ("the cache slot of its namespace is filled"); configuring two features with
one namespace is outside what the cache can represent. -/
theorem C01_shared_ns_shadows_mandatory :
    ∃ c : Conf, Reach [fMand, fInfo] plainO 0
        [.hdr true, .adv [.feat ⟨2, 1⟩ true, .feat ⟨2, 2⟩ false]] [] c ∧
      c.pc = .done ∧ featReadyB c.tr = false ∧ eligible c.st fMand = true ∧
      c.negd.contains fMand.name.ns = false :=
  ⟨_, ⟨30, rfl⟩, by decide, by decide, by decide, by decide⟩

/-! ### voluntary before mandatory -/

/-- **voluntary first**: whenever the initiator's selection loop negotiates a mandatory entry
of the list (the step from a configuration at the loop head logs a non-forced `Negotiate`
with `req = true`), no voluntary candidate was open: every cached feature that is
negotiable, not yet negotiated on this stream and eligible in the current state is mandatory.
Holds for every pick the map iteration can make. -/
theorem C01_voluntary_first (c : Conf) (hpc : c.pc = .cloop false)
    {f : Feature} {st : St} {srv : Bool} {r : NegRes}
    (he : (step C O c).tr = Ev.neg f st true false srv r :: c.tr) :
    ∀ e' ∈ candidates c, e'.req = true := by
  revert he
  unfold step
  simp only [hpc, negotiate, Conf.log, Conf.goto]
  repeat' split
  all_goals (try dsimp only)
  all_goals intro he
  all_goals first
    | exact absurd he.symm (List.cons_ne_self _ _)
    | (injection he with h1 h2
       injection h1 with _ _ hreq
       have hm := List.mem_of_find?_eq_some ‹List.find? _ (allowed (candidates c)) = some _›
       exact allowed_mandatory hm hreq)

/-- **voluntary first**, as a property of every reachable trace (newest first): whenever the
initiator negotiates a mandatory entry of the list (`req = true`, not forced), every voluntary
entry recorded for that list (`lastEntries`) that is negotiable and eligible in the state of
that call has already been negotiated on the current stream (`segNs`) — for every map
iteration order -/
theorem C01_voluntary_first_trace {c : Conf} (h : Reach C O st0 script picks c) : VolOK c.tr :=
  (invV_reach h).ok

/-! ### TCP and WebSocket framing

`websocket.Negotiator` is the same negotiator with another header syntax. The model is the same
machine for both framings: `Peer.hdr` is a header *of the session's framing*, every theorem of
this file holds for both. What the framing changes: -/

/-- **a header of the other framing is never accepted**: when the machine reads a stream header
(receiver first, initiator after its own header) and the peer sends a well-formed header of the
other framing — `<open/>` on a TCP session, `<stream:stream>` on a WebSocket session — the run
ends with a protocol error -/
theorem C01_header_framing (c : Conf) (next : Pc) (r : List Peer) (hs : c.script = .hdrOther :: r)
    (hc : O.cancel c.tr = false) (hf : O.fault c.io = false) (hb : O.block c.io = false) :
    (readHdr O c next).pc = .fail .proto := by
  unfold readHdr
  simp [hs, hc, hf, hb]

/-- … and where a selection is expected it is refused like any other unadvertised element -/
theorem C01_header_as_selection : (Peer.hdrOther).selName = some (⟨nsStream, 3⟩, false, true) := rfl

/-! ### the tee (`StreamConfig.TeeIn` / `TeeOut`) -/

/-- **the tee is transparent**: a session whose configuration carries a tee (`runT true`: every
negotiator call first wraps a connection that is not yet a `teeConn` and returns it, without I/O
and without state bits; a restart with a new connection layer makes the next call wrap again)
reaches every configuration — control point, state, trace, remaining input — that the session
without a tee reaches; so the trace and the outcome of a run are the same with and without it.
(Stated for contexts that are not cancelled: with a tee a cancelled context is noticed at the
extra negotiator call, one failed I/O attempt earlier.) -/
theorem C01_tee_transparent (C : List Feature) (O : Oracle) (hc : ∀ tr, O.cancel tr = false)
    (st0 : St) (script : List Peer) (picks : List FName) (n : Nat) :
    ∃ m, (runT true C O m ⟨init st0 script picks, false⟩).c = run C O n (init st0 script picks) :=
  let ⟨m, h, _⟩ := tee_simulation C O hc (init st0 script picks) rfl rfl n
  ⟨m, h⟩

/-- **a voluntary feature does not end the list**: in every reachable trace, the event after a
successful, non-restarting negotiation of an entry the list marked voluntary (initiator, not
forced) is another `Negotiate` call — the selection loop goes on with the same list; it is never a
read of the connection (a new features list, a header). Together with
`C01_voluntary_first_trace` this is what a cache that records the list-level `req` flag instead
of the feature's own (seeded change C01-6) breaks. -/
theorem C01_voluntary_stays_in_list {c : Conf} (h : Reach C O st0 script picks c) : StayOK c.tr :=
  (invY_reach h).ok

/-! ### a stream configuration that depends on the session

`NewNegotiator` takes a *function* from the session to the `StreamConfig`; `negotiator` calls it in
every negotiator call, i.e. before every features list, also for a second list on the same stream
(after a mandatory feature that does not restart it). `F st` are the features the function returns
for a session in state `st`; `ReachD F …` are the configurations reachable by `stepD`, which looks the
configuration up afresh at every entry of `negotiateFeatures`. A negotiator that keeps using the
configuration of an earlier call (seeded change C01-18: the function is only consulted when a
stream header was exchanged) advertises and accepts features of a stale configuration. -/

variable {F : St → List Feature}

/-- the machine with a fixed configuration is the special case of a config function that ignores
the session -/
theorem C01_dyn_static (C : List Feature) (O : Oracle) (st0 : St) (script : List Peer)
    (picks : List FName) (n : Nat) :
    (runD (fun _ => C) O n (initD (fun _ => C) st0 script picks)).c = run C O n (init st0 script picks) := by
  unfold initD; rw [runD_const]

/-- **the receiver advertises exactly the *currently* configured features whose prerequisites
hold**: every features list written in state `st` consists of the features the config function
returns for `st`, filtered by their masks in `st` — for the first and for every later list of a
stream -/
theorem C01_dyn_recv_advert {d : DConf} (h : ReachD F O st0 script picks d) {st : St}
    {fs : List Feature} {ok : Bool} (he : Ev.listOut st fs ok ∈ d.c.tr) :
    fs = (F st).filter (eligible st) :=
  (invLD_reach h).outOK st fs ok he

/-- prerequisites and negotiability hold for every `Negotiate` call, whatever the config function
returns -/
theorem C01_dyn_prereq {d : DConf} (h : ReachD F O st0 script picks d)
    {f : Feature} {st : St} {req forced srv : Bool} {r : NegRes}
    (he : Ev.neg f st req forced srv r ∈ d.c.tr) : eligible st f = true ∧ f.negotiable = true :=
  (invA_reachD h).good _ he

/-- at most once per stream, only from the current list, restart ⇒ header, voluntary first, a
refusal ends the run, monotone, ready: the theorems whose statements do not mention the
configuration hold for every config function -/
theorem C01_dyn_once {d : DConf} (h : ReachD F O st0 script picks d) : OnceOK d.c.tr :=
  (invD_reachD h).ok

theorem C01_dyn_advertised {d : DConf} (h : ReachD F O st0 script picks d) : AdvOK d.c.tr :=
  (invF_reachD h).ok

theorem C01_dyn_restart_header {d : DConf} (h : ReachD F O st0 script picks d) : RestartOK d.c.tr :=
  (invE_reachD h).ok

theorem C01_dyn_voluntary_first {d : DConf} (h : ReachD F O st0 script picks d) : VolOK d.c.tr :=
  (invV_reachD h).ok

theorem C01_dyn_recv_refuse {d : DConf} (h : ReachD F O st0 script picks d) {n : FName}
    (he : Ev.refuse n ∈ d.c.tr) : d.c.pc = .fail .policy ∧ ∃ rest, d.c.tr = .refuse n :: rest :=
  let ⟨h1, rest, h2, _⟩ := (invG_reachD h).refused n he
  ⟨h1, rest, h2⟩

theorem C01_dyn_monotone {d : DConf} (h : ReachD F O st0 script picks d) : sub st0 d.c.st := monoD h

theorem C01_dyn_ready {d : DConf} (h : ReachD F O st0 script picks d) (hd : d.c.pc = .done) :
    has d.c.st bReady = true := (invC_reachD h).doneReady hd

/-- **what the initiator keeps of a features list, for every config function** (review A, C01-3;
lifts `C01_cached_advertised`): every feature kept from a list read in state `st` is one the config
function returns **for that state** (`F st` — not for an earlier state of the stream: the stale
configuration of seeded C01-18 on the initiating side), had its masks satisfied when the list was
read, and is named by a child of the list, which is an item of the peer script -/
theorem C01_dyn_cached_advertised {d : DConf} (h : ReachD F O st0 script picks d) {st : St}
    {fs : List Feature} {adv : List AdvItem} {es : List Entry} (he : Ev.listIn st fs adv es ∈ d.c.tr) :
    (adv = [] ∨ Peer.adv adv ∈ script) ∧
    ∀ f ∈ fs, f ∈ F st ∧ eligible st f = true ∧ ∃ req, AdvItem.feat f.name req ∈ adv :=
  (invPD_reach h).inOK st fs adv es he

/-- while a features list is being read the configuration in force is the one for the current state -/
theorem C01_dyn_config_current {d : DConf} (h : ReachD F O st0 script picks d)
    (hr : inRead d.c.pc = true) : d.cfg = F d.c.st := cfgRead_reachD h hr

/-- non-vacuity, and the seeded scenario: a receiver whose config function offers `login` and
`extra` before authentication, `login` and `final` after it; `login` is mandatory, sets `Authn` and
does not restart the stream. The second list of the stream is `[final]`, and the selection of
`extra` — advertised in the first list only — is refused without running it. -/
def dLogin : Feature := ⟨0, ⟨2, 1⟩, 0, bAuthn, true⟩
def dExtra : Feature := ⟨1, ⟨3, 1⟩, 0, 0, true⟩
def dFinal : Feature := ⟨2, ⟨4, 1⟩, 0, 0, true⟩
def dF : St → List Feature := fun st => if has st bAuthn then [dLogin, dFinal] else [dLogin, dExtra]
def dO : Oracle :=
  { plainO with neg := fun _ f _ => if f.id == 0 then ⟨bAuthn, false, false⟩ else ⟨0, false, false⟩,
                list := fun _ f _ => ⟨f.id != 1, false⟩ }
def dRun : DConf :=
  runD dF dO 40 (initD dF bReceived [.hdr true, .elem ⟨2, 1⟩ false true, .elem ⟨3, 1⟩ false true] [])

example : ReachD dF dO bReceived [.hdr true, .elem ⟨2, 1⟩ false true, .elem ⟨3, 1⟩ false true] [] dRun :=
  ⟨40, rfl⟩
example : Ev.listOut bReceived [dLogin, dExtra] true ∈ dRun.c.tr := by decide
example : Ev.listOut (bReceived ||| bAuthn) [dFinal] true ∈ dRun.c.tr := by decide
example : dRun.c.pc = .fail .policy ∧ Ev.refuse ⟨3, 1⟩ ∈ dRun.c.tr := by decide
-- with the configuration of the first call kept (a fixed configuration) the stale `extra` is
-- advertised again and its selection is run: what `C01_dyn_recv_advert` excludes
example : Ev.listOut (bReceived ||| bAuthn) [dExtra] true ∈
    (run [dLogin, dExtra] dO 40 (init bReceived [.hdr true, .elem ⟨2, 1⟩ false true, .elem ⟨3, 1⟩ false true] [])).tr := by
  decide

/-! ### negotiation ends -/

/-- **termination**: for every configuration, callback behaviour, fault pattern, peer script
and pick script the machine reaches a final control point (`done`, `fail`, `crash`, `stuck`)
within a number of steps linear in the size of the peer script and of the pick script — the
"call negotiate until Ready" loop cannot spin on a finite input -/
theorem C01_terminates (C : List Feature) (O : Oracle) (st0 : St) (script : List Peer)
    (picks : List FName) :
    (run C O ((50 + C.length) * scriptSize script + picks.length + (28 + C.length))
      (init st0 script picks)).pc.final = true := by
  apply run_final
  simp [Negotiate.measure, init, pend, localRank]

/-- the loop of the compiled driver (`Driver/C01.lean`, which answers the protocol lines of C01
and C04) computes exactly `run` of the model these theorems are about, and with the fuel it
uses it always ends in a final control point (it never answers `fuel`) -/
theorem C01_driver_runs_model (C : List Feature) (O : Oracle) (st0 : St) (script : List Peer)
    (picks : List FName) :
    Driver.C01.runFast C O (Driver.C01.fuelFor C script picks) (init st0 script picks) =
      run C O (Driver.C01.fuelFor C script picks) (init st0 script picks) ∧
    (Driver.C01.runFast C O (Driver.C01.fuelFor C script picks) (init st0 script picks)).pc.final = true :=
  ⟨runFast_eq_run C O _ _, driver_final C O st0 script picks⟩

/-! ### the data handed to `Negotiate` (`Session.features`, review A C01-2) -/

theorem invFt_reach {c : Conf} (h : Reach C O st0 script picks c) : InvFt c := by
  refine reach_ind (P := InvFt) ?_ (fun c _ hc => invFt_step C O c hc) c h
  refine ⟨?_, True.intro, ?_, ?_⟩
  · intro h; cases h
  · intro h; cases h
  · intro _ h; cases h

/-- **`Negotiate` is handed what `Parse` of the same feature produced on the current list**: in every
reachable trace, every `Negotiate` call of the initiating side other than the unconditional STARTTLS
attempt finds, under its namespace in `Session.features` (`featsOf`: the map as a function of the
trace — filled by `Parse` calls of features whose masks hold, keyed by namespace, emptied by a
restart), the result of a `Parse` call **of that same feature**, made since the last restart and not
overwritten since. (Receiving side and forced attempt: the map holds nothing for them — the harness
checks `nil`.) The real code is tied by the oracle clause `advertised|negotiate-data:*`: the
instrumented `Parse` returns a token (feature, call number), `Negotiate` reports whether its `data`
is the token of the latest `Parse` call of its own feature. -/
theorem C01_negotiate_data {c : Conf} (h : Reach C O st0 script picks c) : DataOK c.tr :=
  (invFt_reach h).ok

/-- one step, readable form: when the selection loop runs a cached entry, `Session.features` holds a
`Parse` result of exactly that feature -/
theorem C01_negotiate_data_cached {c : Conf} (h : Reach C O st0 script picks c) (hs : c.srv = false)
    (hp : inInit c.pc = true) {e : Entry} (he : e ∈ c.cache) :
    ∃ k, featsOf c.tr e.f.name.ns = some (e.f, k) :=
  (invFt_reach h).cache hs hp e he

/-! ### non-vacuity: concrete runs that satisfy the hypotheses of the theorems above -/

def fTls : Feature := ⟨0, ⟨nsTLS, 1⟩, 0, bSecure, true⟩
def fSasl : Feature := ⟨1, ⟨2, 1⟩, bSecure, bAuthn, true⟩
def fVol : Feature := ⟨2, ⟨4, 1⟩, bAuthn, 0, true⟩
def fBind : Feature := ⟨3, ⟨3, 1⟩, bAuthn, bReady, true⟩
def demoC : List Feature := [fTls, fSasl, fVol, fBind]

/-- STARTTLS and authentication restart the stream, the voluntary feature does nothing, the
last feature is mandatory; no callback fails -/
def demoO : Oracle :=
  { neg := fun _ f _ =>
      if f.id == 0 then ⟨bSecure, true, false⟩ else if f.id == 1 then ⟨bAuthn, true, false⟩
      else ⟨0, false, false⟩
    list := fun _ f _ => ⟨f.id != 2, false⟩
    parseErr := fun _ _ _ => false
    fault := fun _ => false
    cancel := fun _ => false
    block := fun _ => false
    dlRd := true
    dlWr := true
    layer := fun _ _ => false }

def demoScript : List Peer :=
  [.hdr true, .adv [.feat ⟨nsTLS, 1⟩ true, .feat ⟨2, 1⟩ true],
   .hdr true, .adv [.feat ⟨2, 1⟩ true],
   .hdr true, .adv [.feat ⟨4, 1⟩ false, .feat ⟨3, 1⟩ true],
   .adv []]

/-- an initiator's complete handshake -/
def demo : Conf := run demoC demoO 60 (init 0 demoScript [⟨nsTLS, 1⟩, ⟨2, 1⟩, ⟨4, 1⟩, ⟨3, 1⟩])

example : Reach demoC demoO 0 demoScript [⟨nsTLS, 1⟩, ⟨2, 1⟩, ⟨4, 1⟩, ⟨3, 1⟩] demo := ⟨60, rfl⟩
example : demo.pc = .done := by decide
example : demo.st = bSecure ||| bAuthn ||| bReady := by decide
-- hypotheses of `C01_prereq`, `C01_negotiable`, `C01_once_at`, `C01_advertised_at`
example : Ev.neg fSasl bSecure true false false ⟨bAuthn, true, false⟩ ∈ demo.tr := by decide
-- hypotheses of `C01_ready_sound`: the library decided (no feature mask carries `Ready`)
example : has (0 : St) bReady = false := by decide
example : headRestart demo.tr = false := by decide
-- the mandatory feature was taken after the voluntary one (`C01_voluntary_first`)
example : (demo.tr.filterMap fun e => match e with
    | .neg f _ req _ _ _ => some (f.id, req) | _ => none) = [(3, true), (2, false), (1, true), (0, true)] := by
  decide

/-- the receiving side of the same handshake; the last selection is refused -/
def demoRecv : Conf :=
  run demoC demoO 60 (init bReceived
    [.hdr true, .elem ⟨nsTLS, 1⟩ false true, .hdr true, .elem ⟨2, 1⟩ false true, .hdr true,
     .elem ⟨4, 1⟩ false true, .elem ⟨4, 1⟩ true true] [])

example : demoRecv.pc = .fail .policy := by decide
-- hypothesis of `C01_recv_refuse` and of `C01_recv_advert`
example : Ev.refuse ⟨4, 1⟩ ∈ demoRecv.tr := by decide
example : Ev.listOut (bReceived ||| bSecure ||| bAuthn) [fVol, fBind] true ∈ demoRecv.tr := by decide

-- `C01_negotiate_data` is not vacuous: at the end of `demo` the map holds, under the namespace of
-- the resource-binding feature, a `Parse` result of that very feature (and nothing for STARTTLS,
-- whose entry was dropped by the restart)
example : (featsOf demo.tr 3).map (·.1) = some fBind := by decide
example : featsOf demo.tr nsTLS = none := by decide

end XmppModel.Props.C01

