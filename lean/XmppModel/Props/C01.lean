import XmppModel.Model.Negotiate
namespace XmppModel.Props.C01
open XmppModel XmppModel.Negotiate

/-- final control points are fixed points of `step` -/
theorem C01_final_fixed (C : List Feature) (O : Oracle) (c : Conf) (h : c.pc.final = true) :
    step C O c = c := by
  unfold step
  cases hp : c.pc <;> simp_all [Pc.final]

end XmppModel.Props.C01
