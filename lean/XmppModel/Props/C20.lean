import XmppModel.Model.Caps
import XmppModel.Lemmas.Caps
import XmppModel.Generated.C20
/-!
# C20 — the entity-capabilities hash is canonical

Property theorems only (helpers: `Lemmas/Caps.lean`; definitions of `verImpl`, `InfoEqv`,
`Info.WF`, `Spec`: `Model/Caps.lean`).  Quantifiers: every info value (any number of
identities, features, forms, fields, values, any byte strings), every rearrangement of them,
every hash function and every base64 function (both are parameters).
-/
namespace XmppModel.Props.C20
open XmppModel XmppModel.Caps

/-! ### Tie to the source: regenerated facts -/

/-! Every fact is a *probe*: the harness hashes, with a recording hash, the info that holds
exactly the two items `[u[i], u[j]]` at one level for every ordered pair of distinct positions
of a small universe `u`, and records whether `u[i]` was written first (the renderings of the
single items are taken from the real code, too).  The `C20_pair_*` theorems say what the model
does with such an info: the order is the comparator's answer.  The `C20_gen_*` theorems say
that the real answers are the comparators' on the whole universe. -/

theorem C20_pair_identities (x y : Identity) : verImpl ⟨[x, y], [], []⟩ =
    if idLe x y then renderId x ++ renderId y else renderId y ++ renderId x := by
  simp only [verImpl, mergeSort_pair, sortStrings]
  split <;> simp

theorem C20_pair_features (x y : Bytes) : verImpl ⟨[], [x, y], []⟩ =
    if lexLe x y then renderFeat x ++ renderFeat y else renderFeat y ++ renderFeat x := by
  simp only [verImpl, mergeSort_pair, sortStrings]
  split <;> simp

theorem C20_pair_forms (x y : Form) : verImpl ⟨[], [], [x, y]⟩ =
    if formLe x y then renderForm x ++ renderForm y else renderForm y ++ renderForm x := by
  simp only [verImpl, mergeSort_pair, sortStrings]
  split <;> simp

theorem C20_pair_fields (t : Bytes) (x y : Field) (hx : x.var ≠ formTypeVar) (hy : y.var ≠ formTypeVar) :
    renderForm ⟨[⟨formTypeVar, [t]⟩, x, y]⟩ =
    t ++ lt ++ if fieldLe x y then renderField x ++ renderField y else renderField y ++ renderField x := by
  have h1 : (Form.mk [⟨formTypeVar, [t]⟩, x, y]).formType = t := by simp [Form.formType]
  have h2 : (Form.mk [⟨formTypeVar, [t]⟩, x, y]).dataFields = [x, y] := by
    simp [Form.dataFields, hx, hy]
  simp only [renderForm, h1, h2, mergeSort_pair]
  split <;> simp

example : (probeField [0x61]).var ≠ formTypeVar := by decide

theorem C20_pair_values (v x y : Bytes) : renderField ⟨v, [x, y]⟩ =
    v ++ lt ++ if lexLe x y then renderFeat x ++ renderFeat y else renderFeat y ++ renderFeat x := by
  simp only [renderField, mergeSort_pair, sortStrings]
  split <;> simp

set_option maxRecDepth 8000 in
/-- the real code orders every pair of the sixteen probe identities (category, type, lang ∈
{a, b}, name ∈ {m, n}; equal keys included) as the cascade `idLe` over `identityKeys` does -/
theorem C20_gen_identity_keys :
    Generated.C20.probeIdentities = probeIds.map (fun i => (i.cat, i.typ, i.lang, i.name)) ∧
    Generated.C20.identityOrder = some (orderTable probeIds idLe) := by decide

/-- the identity is written as `category/type/lang/name<` (the four fields in the order of
`identityArgs`, `/` between them, `<` after the last) -/
theorem C20_identity_format (i : Identity) :
    renderId i = (identityArgs.map (·.get i)).foldr
      (fun x acc => x ++ (if acc = [] then lt else slash ++ acc)) [] := by
  simp [identityArgs, IdSel.get, renderId, lt, slash]

/-- the real code orders every pair of probe strings as features, as `FORM_TYPE`s of two forms,
as names of two fields of a form and as values of a field the way byte-wise `lexLe` does -/
theorem C20_gen_other_sorts :
    Generated.C20.probeStrings = probeStrings ∧
    Generated.C20.featureOrder = some (orderTable probeStrings lexLe) ∧
    Generated.C20.formOrder = some (orderTable (probeStrings.map probeForm) formLe) ∧
    Generated.C20.fieldOrder = some (orderTable (probeStrings.tail.map probeField) fieldLe) ∧
    Generated.C20.valueOrder = some (orderTable probeStrings lexLe) := by decide

/-! ### Order independence -/

/-- **Permutation invariance** (partial: the full statement - for every info whose
identities are pairwise distinct in (category, type, lang), with no condition on forms and
fields - is false of the code, `C20_perm_invariant_fails`; the three kinds of inputs that are
inside the property's quantifier and outside `Info.WF` are `known:` findings).
The string that is hashed does not change when the
identities, the features, the forms, the fields inside any form and the values inside any
field are rearranged in any way — for every info whose identities are pairwise distinct in
(category, type, lang), whose forms are pairwise distinct in FORM_TYPE, whose fields are
pairwise distinct in `var` within a form and whose FORM_TYPE fields carry at most one value
(`Info.WF`: the inputs XEP-0115 §5.4 does not declare ill-formed). -/
theorem C20_perm_invariant_partial (i j : Info) (h : InfoEqv i j) (wf : i.WF) : verImpl i = verImpl j := by
  obtain ⟨hids, hfeats, hforms⟩ := h
  obtain ⟨wids, wforms, wf'⟩ := wf
  unfold verImpl
  rw [sortStrings_perm hfeats, forms_render_congr hforms wforms wf']
  rw [mergeSort_eq_of_perm idLe_trans idLe_total hids
    (fun a b ha hb h1 h2 => pairwise_ne_inj wids ha hb (idLe_antisymm a b h1 h2))]

/-- non-vacuity: a well-formed info with two identities, two features, two forms with
fields and values, and a genuinely rearranged equivalent of it -/
example :
    let i : Info := ⟨[⟨[1], [2], [], [9]⟩, ⟨[1], [3], [], []⟩], [[5], [4]],
      [⟨[⟨formTypeVar, [[7]]⟩, ⟨[8], [[2], [1]]⟩]⟩, ⟨[⟨[8], []⟩]⟩]⟩
    let j : Info := ⟨[⟨[1], [3], [], []⟩, ⟨[1], [2], [], [9]⟩], [[4], [5]],
      [⟨[⟨[8], []⟩]⟩, ⟨[⟨[8], [[1], [2]]⟩, ⟨formTypeVar, [[7]]⟩]⟩]⟩
    i.WF ∧ InfoEqv i j ∧ i ≠ j := by
  refine ⟨⟨by decide, by decide, by decide⟩, ⟨?_, ?_, ?_⟩, by decide⟩
  · exact List.Perm.swap _ _ _
  · exact List.Perm.swap _ _ _
  · refine ⟨_, List.Perm.swap _ _ _, .cons ⟨_, List.Perm.refl _, .cons ⟨rfl, .refl _⟩ .nil⟩
      (.cons ⟨_, List.Perm.swap _ _ _, .cons ⟨rfl, List.Perm.swap _ _ _⟩ (.cons ⟨rfl, .refl _⟩ .nil)⟩ .nil)⟩

/-- Features and field values need no distinctness hypothesis: they are sorted by their
whole content. -/
theorem C20_perm_invariant_features (ids : List Identity) (f₁ f₂ : List Bytes) (forms : List Form)
    (h : f₁.Perm f₂) : verImpl ⟨ids, f₁, forms⟩ = verImpl ⟨ids, f₂, forms⟩ := by
  unfold verImpl; rw [sortStrings_perm h]

theorem C20_perm_invariant_values (var : Bytes) (v₁ v₂ : List Bytes) (h : v₁.Perm v₂) :
    renderField ⟨var, v₁⟩ = renderField ⟨var, v₂⟩ := renderField_congr ⟨rfl, h⟩

/-- **Any correct sort gives the same string.**  Go's `sort.Slice` is not `List.mergeSort`;
but for pairwise distinct keys every sorted rearrangement of the identities *is* the one the
model computes, so the choice of algorithm (and its stability) is irrelevant. -/
theorem C20_sort_unique (ids s : List Identity) (hd : ids.Pairwise (fun a b => idKey a ≠ idKey b))
    (hs : IsSort idLe ids s) : s = ids.mergeSort idLe :=
  sorted_perm_unique idLe_trans idLe_total hs.1 hs.2
    (fun a b ha hb h1 h2 => pairwise_ne_inj hd ha hb (idLe_antisymm a b h1 h2))

theorem C20_sort_unique_strings (l s : List Bytes) (hs : IsSort lexLe l s) : s = sortStrings l :=
  sorted_perm_unique lexLe_trans lexLe_total hs.1 hs.2 (fun a b _ _ => lexLe_antisymm a b)

/-! ### Identities with equal (category, type, lang) but different names

XEP-0115 §5.4 step 3.3 declares a reply ill-formed only when two identities agree in all four
of category/type/lang/**name**; two identities that differ in the name alone are well formed,
and §5.1 step 2 sorts by category, type, lang only — so the XEP leaves their relative order
open and the verification string of such an info is *not* determined by the set of identities.
What the code does: a stable sort (Go's `sort.Slice` is an insertion sort up to 12 elements)
keeps them in the order in which they were given. -/

/-- two identities with equal sort keys are hashed in the order given … -/
theorem C20_equal_key_identities_keep_order (a b : Identity) (h : idKey a = idKey b) :
    verImpl ⟨[a, b], [], []⟩ = renderId a ++ renderId b := by
  have hle : idLe a b = true := by
    unfold idLe; rw [h]
    have : ∀ k : List Bytes, keysLe k k = true := by
      intro k; induction k with
      | nil => rfl
      | cons x xs ih => rw [keysLe_cons]; exact .inr ⟨rfl, ih⟩
    exact this _
  have hs : [a, b].mergeSort idLe = [a, b] :=
    List.mergeSort_of_pairwise (le := idLe) (by simp [hle])
  simp [verImpl, hs, sortStrings]

/-- … hence the string depends on that order: a well-formed info (no two identities equal in
all four fields) whose rearrangement hashes differently.  This is why `C20_perm_invariant_partial`
carries the hypothesis on identities (the property's quantifier has it too). -/
theorem C20_equal_key_identities_order_dependent :
    ∃ a b : Identity, a ≠ b ∧ idKey a = idKey b ∧
      verImpl ⟨[a, b], [], []⟩ ≠ verImpl ⟨[b, a], [], []⟩ := by
  refine ⟨⟨[0x63], [0x74], [], [0x41]⟩, ⟨[0x63], [0x74], [], [0x42]⟩, by decide, rfl, ?_⟩
  rw [C20_equal_key_identities_keep_order ⟨[0x63], [0x74], [], [0x41]⟩ ⟨[0x63], [0x74], [], [0x42]⟩ rfl,
    C20_equal_key_identities_keep_order ⟨[0x63], [0x74], [], [0x42]⟩ ⟨[0x63], [0x74], [], [0x41]⟩ rfl]
  decide

/-! ### What `Info.WF` excludes although the property's quantifier does not (round E, review C20-1/7)

XEP-0115 5.4 declares ill-formed: two identities equal in all four attributes, two forms with
the same `FORM_TYPE`, a `FORM_TYPE` with several different values.  It does *not* say so of
forms that have no `FORM_TYPE` (3.6: such a form is ignored), nor of fields that share a `var`
(two `fixed` fields without `var` are ordinary XEP-0004).  The code keeps the given order
among such items (stable sorts), so the string depends on it. -/

/-- two forms without `FORM_TYPE` are hashed in the order given -/
theorem C20_forms_without_type_order_dependent :
    ∃ F G : Form, F.formType = G.formType ∧
      (∀ fd ∈ F.fields ++ G.fields, fd.var ≠ formTypeVar) ∧
      verImpl ⟨[], [], [F, G]⟩ ≠ verImpl ⟨[], [], [G, F]⟩ := by
  refine ⟨⟨[⟨[0x61], [[0x31]]⟩]⟩, ⟨[⟨[0x62], [[0x32]]⟩]⟩, by decide, by decide, ?_⟩
  simp [verImpl, mergeSort_pair, formLe, Form.formType, formTypeVar, lexLe, renderForm,
    Form.dataFields, renderField, sortStrings, renderFeat, lt]

/-- an empty form next to a form without `FORM_TYPE`: same thing -/
theorem C20_empty_form_order_dependent :
    ∃ G : Form, verImpl ⟨[], [], [⟨[]⟩, G]⟩ ≠ verImpl ⟨[], [], [G, ⟨[]⟩]⟩ := by
  refine ⟨⟨[⟨[0x61], [[0x31]]⟩]⟩, ?_⟩
  simp [verImpl, mergeSort_pair, formLe, Form.formType, formTypeVar, lexLe, renderForm,
    Form.dataFields, renderField, sortStrings, renderFeat, lt]

/-- two fields with the same `var` (in particular two `fixed` fields without `var`) inside a
form with a proper `FORM_TYPE` are hashed in the order given -/
theorem C20_equal_var_fields_order_dependent :
    ∃ f g : Field, f.var = g.var ∧ f.var ≠ formTypeVar ∧
      verImpl ⟨[], [], [⟨[⟨formTypeVar, [[0x74]]⟩, f, g]⟩]⟩ ≠
      verImpl ⟨[], [], [⟨[⟨formTypeVar, [[0x74]]⟩, g, f]⟩]⟩ := by
  refine ⟨⟨[], [[0x78]]⟩, ⟨[], [[0x79]]⟩, rfl, by decide, ?_⟩
  simp [verImpl, mergeSort_pair, fieldLe, Form.formType, formTypeVar, lexLe, renderForm,
    Form.dataFields, renderField, sortStrings, renderFeat, lt]

theorem all₂_refl {α} {R : α → α → Prop} (h : ∀ a, R a a) : ∀ l : List α, All₂ R l l
  | [] => .nil
  | a :: l => .cons (h a) (all₂_refl h l)

theorem formEqv_refl (F : Form) : FormEqv F F :=
  ⟨F.fields, .refl _, all₂_refl (fun _ => ⟨rfl, .refl _⟩) _⟩

/-- **Negation witness of the full-strength clause**: "the verification string depends only on
the sets, not on the order" with the property's own side condition (identities distinct in
category/type/language) and nothing else is false of the code. -/
theorem C20_perm_invariant_fails :
    ¬ ∀ i j : Info, InfoEqv i j → i.ids.Pairwise (fun a b => idKey a ≠ idKey b) →
      verImpl i = verImpl j := by
  intro h
  obtain ⟨F, G, _, _, hne⟩ := C20_forms_without_type_order_dependent
  exact hne (h ⟨[], [], [F, G]⟩ ⟨[], [], [G, F]⟩
    ⟨.refl _, .refl _, [G, F], List.Perm.swap _ _ _, all₂_refl formEqv_refl _⟩ .nil)

/-! ### Agreement with XEP-0115 §5.1 -/

theorem C20_isSort_mergeSort {α} {le : α → α → Bool}
    (trans : ∀ a b c, le a b = true → le b c = true → le a c = true)
    (total : ∀ a b, (le a b || le b a) = true) (l : List α) : IsSort le l (l.mergeSort le) :=
  ⟨List.mergeSort_perm l le, List.pairwise_mergeSort trans total l⟩

/-- **The implementation computes the construction of §5.1** (the relation `Spec`), for
every info value — including empty forms, forms without FORM_TYPE, repeated keys. -/
theorem C20_equals_spec (i : Info) : Spec i (verImpl i) := by
  have hfield : ∀ l : List Field, All₂ FieldSpec l (l.map renderField) := by
    intro l
    induction l with
    | nil => exact .nil
    | cons fd l ih =>
      exact .cons ⟨_, C20_isSort_mergeSort lexLe_trans lexLe_total _, rfl⟩ ih
  have hform : ∀ l : List Form, All₂ FormSpec l (l.map renderForm) := by
    intro l
    induction l with
    | nil => exact .nil
    | cons F l ih =>
      refine .cons ⟨_, _, C20_isSort_mergeSort fieldLe_trans fieldLe_total _, hfield _, ?_⟩ ih
      simp [renderForm, List.flatMap_def]
  refine ⟨_, _, _, _, C20_isSort_mergeSort idLe_trans idLe_total _,
    C20_isSort_mergeSort lexLe_trans lexLe_total _,
    C20_isSort_mergeSort formLe_trans formLe_total _, hform _, ?_⟩
  simp [verImpl, sortStrings, List.flatMap_def]

/-- **… and nothing else does**: for an info without equal sort keys (`Info.WF`) every string
that satisfies the construction of §5.1 — whatever sorting procedure produced it — is the
string the implementation hashes.  Together with `C20_equals_spec`: the implementation
*equals* the specified construction. -/
theorem C20_spec_unique (i : Info) (wf : i.WF) (s : Bytes) (h : Spec i s) : s = verImpl i := by
  obtain ⟨ids, feats, forms, rs, hids, hfeats, hforms, hrs, rfl⟩ := h
  obtain ⟨wids, wforms, wf'⟩ := wf
  have e1 : ids = i.ids.mergeSort idLe := C20_sort_unique i.ids ids wids hids
  have e2 : feats = sortStrings i.feats := C20_sort_unique_strings i.feats feats hfeats
  have e3 : forms = i.forms.mergeSort formLe :=
    sorted_perm_unique formLe_trans formLe_total hforms.1 hforms.2
      (fun a b ha hb h1 h2 => pairwise_ne_inj wforms ha hb (lexLe_antisymm _ _ h1 h2))
  subst e1 e2 e3
  rw [all₂_eq_map hrs (fun F hF r hr =>
    formSpec_unique (wf' F (List.mem_mergeSort.mp hF)) hr)]
  simp [verImpl, List.flatMap_def]

/-! ### `Hash` and `AppendHash` -/

/-- `Hash(h)` is `AppendHash` with an empty destination, for every hash and encoding -/
theorem C20_hash_append (hash b64 : Bytes → Bytes) (i : Info) :
    hashStr hash b64 i = appendHash hash b64 [] i ∧
    ∀ dst, appendHash hash b64 dst i = dst ++ hashStr hash b64 i := by
  simp [hashStr, appendHash]

/-- the verification string of equivalent well-formed infos is the same, through either
entry point, for every hash function -/
theorem C20_hash_perm_invariant (hash b64 : Bytes → Bytes) (i j : Info) (h : InfoEqv i j)
    (wf : i.WF) : hashStr hash b64 i = hashStr hash b64 j := by
  simp [hashStr, appendHash, C20_perm_invariant_partial i j h wf]

/-! ### Totality: the shapes that used to panic or have no FORM_TYPE -/

/-- an empty form contributes an empty FORM_TYPE and nothing else -/
theorem C20_total_empty_form : renderForm ⟨[]⟩ = lt := by
  simp [renderForm, Form.formType, Form.dataFields]

/-- a form without a FORM_TYPE field is hashed with an empty FORM_TYPE followed by all its
fields (the XEP does not define this case for §5.1; §5.4 3.6 would skip the form) -/
theorem C20_total_no_form_type (F : Form) (h : ∀ fd ∈ F.fields, fd.var ≠ formTypeVar) :
    F.formType = [] ∧ F.dataFields = F.fields := by
  constructor
  · unfold Form.formType
    have : F.fields.find? (fun fd => fd.var == formTypeVar) = none := by
      rw [List.find?_eq_none]; intro fd hfd; simpa using h fd hfd
    rw [this]
  · unfold Form.dataFields
    rw [List.filter_eq_self]; intro fd hfd; simpa using h fd hfd

example : (∀ fd ∈ (⟨[⟨[1], [[2]]⟩]⟩ : Form).fields, fd.var ≠ formTypeVar) := by decide

/-- a form that consists of a FORM_TYPE only -/
theorem C20_total_only_form_type (t : Bytes) : renderForm ⟨[⟨formTypeVar, [t]⟩]⟩ = t ++ lt := by
  simp [renderForm, Form.formType, Form.dataFields, formTypeVar]

/-! ## Round D: size.  Sorting moves whole items: nothing is dropped, repeated or cut, whatever
the lengths of the strings and whether or not keys are equal. -/

/-- The bytes `AppendHash` writes are a rearrangement of the bytes of the items written in the
given order - for every info (equal keys, empty forms, no `FORM_TYPE` included). -/
theorem C20_bytes_conserved (i : Info) : (verImpl i).Perm (verGiven i) := by
  unfold verImpl verGiven sortStrings
  exact List.Perm.append (List.Perm.append (flatMap_sort_perm _ _ _) (flatMap_sort_perm _ _ _))
    ((flatMap_sort_perm _ _ _).trans (flatMap_perm_congr _ renderForm_perm))

/-- The number of bytes hashed: every string of the info once and one separator each (four for
an identity) - whatever the order and the lengths.  The harness demands this of the real code
on every case (oracle `equals-spec/length`). -/
theorem C20_length (i : Info) : (verImpl i).length = i.size := by
  rw [(C20_bytes_conserved i).length_eq]
  unfold verGiven Info.size
  rw [List.length_append, List.length_append,
    length_flatMap_eq renderId Identity.size, length_flatMap_eq renderFeat strSize,
    length_flatMap_eq _ _ _ renderFormGiven_length]
  · intro a; simp [renderFeat, strSize, lt]
  · intro a; simp [renderId, Identity.size, lt, slash]; omega

/-- so the length does not depend on the order at the top level even with equal keys -/
theorem C20_length_order_independent (a b : Info) (h1 : a.ids.Perm b.ids) (h2 : a.feats.Perm b.feats)
    (h3 : a.forms.Perm b.forms) : (verImpl a).length = (verImpl b).length := by
  rw [C20_length, C20_length]
  unfold Info.size
  rw [(h1.map Identity.size).sum_nat, (h2.map strSize).sum_nat, (h3.map Form.size).sum_nat]

example : (verImpl ⟨[⟨[1], [2], [], [3, 4]⟩], [[5, 6]], [⟨[⟨formTypeVar, [[7]]⟩, ⟨[8], [[9], []]⟩]⟩, ⟨[]⟩]⟩).length = 19 := by
  rw [C20_length]; decide

/-! ### Calls on a value the caller keeps (round E)

"Depends only on the sets": a call must not change what the caller (and every later or
concurrent call) sees.  `Info.after p` is the caller's value after a call of an implementation
that orders the levels named by `p` in place. -/

theorem C20_field_after_pure (f : Field) : f.after InPlace.pure = f := by
  simp [Field.after, InPlace.pure]

theorem C20_form_after_pure (F : Form) : F.after InPlace.pure = F := by
  have : (fun f : Field => f.after InPlace.pure) = id := funext C20_field_after_pure
  cases F; simp [Form.after, this]; simp [InPlace.pure]

/-- an implementation that copies every level leaves the caller's value as it was -/
theorem C20_after_pure (i : Info) : i.after InPlace.pure = i := by
  have : (fun F : Form => F.after InPlace.pure) = id := funext C20_form_after_pure
  cases i; simp [Info.after, this]; simp [InPlace.pure]

/-- **The code is a pure function of the value**: any number of successive calls on one value
hash the same string and leave the value as it was (the fact `argumentWrites`, probed on the
real code, says that `implInPlace` is what the code does). -/
theorem C20_calls_pure (n : Nat) (i : Info) :
    calls implInPlace n i = List.replicate n (verImpl i) ∧ afterCalls implInPlace n i = i := by
  induction n with
  | zero => simp [calls, afterCalls]
  | succ n ih =>
    simp only [calls, afterCalls, implInPlace, C20_after_pure, List.replicate_succ]
    exact ⟨by rw [← implInPlace, ih.1], by rw [← implInPlace, ih.2]⟩

theorem mergeSort_idem {α} {le : α → α → Bool}
    (trans : ∀ a b c, le a b = true → le b c = true → le a c = true)
    (total : ∀ a b, (le a b || le b a) = true) (l : List α) :
    (l.mergeSort le).mergeSort le = l.mergeSort le :=
  List.mergeSort_of_pairwise (List.pairwise_mergeSort trans total l)

/-- Ordering the identities, the features or the list of forms where they are does not change
what a later call hashes (it is still visible to the caller and a data race between concurrent
calls, which is why the fact demands that it does not happen) … -/
theorem C20_inplace_top_levels_harmless (p : InPlace) (hf : p.fields = false)
    (hv : p.values = false) (i : Info) : verImpl (i.after p) = verImpl i := by
  have hfield : (fun f : Field => f.after p) = id := by
    funext f; simp [Field.after, hv]
  have hform : (fun F : Form => F.after p) = id := by
    funext F; cases F; simp [Form.after, hf, hfield]
  cases i with
  | mk ids feats forms =>
    simp only [Info.after, hform, List.map_id, verImpl, sortStrings]
    congr 1
    · congr 1
      · cases p.ids <;> simp [mergeSort_idem idLe_trans idLe_total]
      · cases p.feats <;> simp [mergeSort_idem lexLe_trans lexLe_total]
    · cases p.forms <;> simp [mergeSort_idem formLe_trans formLe_total]

theorem C20_inplace_top_levels_calls (p : InPlace) (hf : p.fields = false) (hv : p.values = false)
    (n : Nat) (i : Info) : calls p n i = List.replicate n (verImpl i) := by
  induction n generalizing i with
  | zero => simp [calls]
  | succ n ih => simp [calls, ih, C20_inplace_top_levels_harmless p hf hv, List.replicate_succ]

/-- … but ordering the *values* of the fields where they are does: the first value of a
`FORM_TYPE` field is the form's type.  A form whose `FORM_TYPE` carries `b, a` is hashed as
`b<` by the first call and as `a<` by every later one (the class of the seeded change
"sort.Strings(f.Raw) inside ForFields"). -/
theorem C20_inplace_values_breaks_repeat :
    ∃ i : Info, verImpl (i.after ⟨false, false, false, false, true⟩) ≠ verImpl i := by
  refine ⟨⟨[], [], [⟨[⟨formTypeVar, [[0x62], [0x61]]⟩]⟩]⟩, ?_⟩
  simp [Info.after, Form.after, Field.after, sortStrings, mergeSort_pair, verImpl, renderForm,
    Form.formType, Form.dataFields, formTypeVar, lexLe, lt]

/-- each probe value of `writeProbes` is changed by an in-place sort of its level -/
theorem C20_write_probes_discriminate :
    writeTable ⟨true, false, false, false, false⟩ = [true, false, false, false, false, false] ∧
    writeTable ⟨false, true, false, false, false⟩ = [false, true, false, false, false, false] ∧
    writeTable ⟨false, false, true, false, false⟩ = [false, false, true, false, false, false] ∧
    writeTable ⟨false, false, false, true, false⟩ = [false, false, false, true, false, false] ∧
    writeTable ⟨false, false, false, false, true⟩ = [false, false, false, false, true, true] := by
  simp [writeTable, writeProbes, Info.after, Form.after, Field.after, sortStrings, mergeSort_pair,
    idLe, idKey, identityKeys, IdSel.get, keysLe, formLe, fieldLe, Form.formType, formTypeVar, lexLe]

theorem C20_write_table_impl : writeTable implInPlace = [false, false, false, false, false, false] := by
  simp [writeTable, implInPlace, C20_after_pure, writeProbes]

/-- regenerated fact (probe): the real `Hash`, run on the six values of `writeProbes`, leaves
every one of them as it was - the code orders no level of the caller's value in place -/
theorem C20_gen_argument_untouched :
    Generated.C20.argumentWrites = some (writeTable implInPlace) := by
  rw [C20_write_table_impl]; decide

/-! ### The shared vocabulary of `Spec` and `verImpl` against the XEP's wording (review C20-3) -/

/-- the rendering of an identity is XEP-0115 5.1 step 2 written out as an intercalation -/
theorem C20_identity_is_xep (i : Identity) : renderId i = xepIdentity i := by
  simp [renderId, xepIdentity, List.intersperse]

/-- where the XEP defines the `FORM_TYPE` of a form (exactly one field of that name with exactly
one value) the code's `formType` is that value, and the field is not hashed as data -/
theorem C20_formType_is_xep (F : Form) (t : Bytes) (h : F.xepType = some t) :
    F.formType = t ∧ ∀ fd ∈ F.dataFields, fd.var ≠ formTypeVar := by
  refine ⟨?_, ?_⟩
  · unfold Form.xepType at h
    split at h
    · rename_i fd hf
      split at h
      · rename_i v hv
        simp only [Option.some.injEq] at h
        subst h
        have hmem : fd ∈ F.fields.filter (fun fd => fd.var == formTypeVar) := by rw [hf]; simp
        unfold Form.formType
        have hfind : F.fields.find? (fun fd => fd.var == formTypeVar) = some fd := by
          have := List.head?_filter (p := fun fd : Field => fd.var == formTypeVar) (l := F.fields)
          rw [hf] at this
          simpa using this.symm
        rw [hfind]
        simp only [hv]
      · simp at h
    · simp at h
  · intro fd hfd
    unfold Form.dataFields at hfd
    simp only [List.mem_filter, bne_iff_ne, ne_eq] at hfd
    exact hfd.2

/-- the three decisions that are NOT in the XEP, as values of the model (the code's behaviour
where `xepType` is undefined): no FORM_TYPE → the empty type and the fields are hashed; a
FORM_TYPE with two values → the first; two FORM_TYPE fields → the first, the second dropped -/
theorem C20_beyond_xep :
    (⟨[⟨[0x61], [[0x31]]⟩]⟩ : Form).xepType = none ∧ renderForm ⟨[⟨[0x61], [[0x31]]⟩]⟩ = [0x3c, 0x61, 0x3c, 0x31, 0x3c] ∧
    (⟨[⟨formTypeVar, [[0x75], [0x74]]⟩]⟩ : Form).xepType = none ∧ (⟨[⟨formTypeVar, [[0x75], [0x74]]⟩]⟩ : Form).formType = [0x75] ∧
    (⟨[⟨formTypeVar, [[0x74]]⟩, ⟨formTypeVar, [[0x75]]⟩]⟩ : Form).xepType = none ∧
      renderForm ⟨[⟨formTypeVar, [[0x74]]⟩, ⟨formTypeVar, [[0x75]]⟩]⟩ = [0x74, 0x3c] := by
  simp [Form.xepType, renderForm, Form.formType, Form.dataFields, formTypeVar, renderField, sortStrings,
    renderFeat, lt]

/-! ### Raw octets (round F, seeded C20-17)

XEP-0115 5.1 hashes the octets of every string; the model's strings are byte lists and
`verImpl` only concatenates and sorts them.  Stated as theorems: every item of an info appears
*verbatim* (as a contiguous piece) in the hashed string, so no byte of any category, type,
lang, name, feature, FORM_TYPE, var or value is ever rewritten.  The fact `octetProbe` says the
same of the real code for 33 transformation-sensitive texts at every kind of position. -/

theorem infix_flatMap_of_mem {α} (f : α → Bytes) {a : α} {l : List α} (h : a ∈ l) :
    f a <:+: l.flatMap f := by
  induction l with
  | nil => cases h
  | cons b l ih =>
    rw [List.flatMap_cons]
    rcases List.mem_cons.mp h with rfl | h
    · exact ⟨[], l.flatMap f, by simp⟩
    · obtain ⟨s, t, e⟩ := ih h
      exact ⟨f b ++ s, t, by simp [← e]⟩

/-- **every identity is hashed verbatim**: `category/type/lang/name<` with the octets as given -/
theorem C20_identity_verbatim (i : Info) (d : Identity) (h : d ∈ i.ids) : renderId d <:+: verImpl i := by
  have hm : d ∈ i.ids.mergeSort idLe := List.mem_mergeSort.mpr h
  obtain ⟨s, t, e⟩ := infix_flatMap_of_mem renderId hm
  exact ⟨s, t ++ ((sortStrings i.feats).flatMap renderFeat ++ (i.forms.mergeSort formLe).flatMap renderForm),
    by simp only [verImpl, ← e, List.append_assoc]⟩

/-- **every feature is hashed verbatim** -/
theorem C20_feature_verbatim (i : Info) (f : Bytes) (h : f ∈ i.feats) : renderFeat f <:+: verImpl i := by
  have hm : f ∈ sortStrings i.feats := List.mem_mergeSort.mpr h
  obtain ⟨s, t, e⟩ := infix_flatMap_of_mem renderFeat hm
  exact ⟨(i.ids.mergeSort idLe).flatMap renderId ++ s, t ++ (i.forms.mergeSort formLe).flatMap renderForm,
    by simp only [verImpl, ← e, List.append_assoc]⟩

/-- **every form is hashed verbatim** (its FORM_TYPE, then its data fields) … -/
theorem C20_form_verbatim (i : Info) (F : Form) (h : F ∈ i.forms) : renderForm F <:+: verImpl i := by
  have hm : F ∈ i.forms.mergeSort formLe := List.mem_mergeSort.mpr h
  obtain ⟨s, t, e⟩ := infix_flatMap_of_mem renderForm hm
  exact ⟨(i.ids.mergeSort idLe).flatMap renderId ++ (sortStrings i.feats).flatMap renderFeat ++ s, t,
    by simp only [verImpl, ← e, List.append_assoc]⟩

/-- … and inside it every data field: `var<` and every value followed by `<`, octets as given -/
theorem C20_field_verbatim (F : Form) (fd : Field) (h : fd ∈ F.dataFields) (v : Bytes) (hv : v ∈ fd.values) :
    (fd.var ++ lt) <:+: renderForm F ∧ renderFeat v <:+: renderForm F := by
  have hm : fd ∈ F.dataFields.mergeSort fieldLe := List.mem_mergeSort.mpr h
  obtain ⟨s, t, e⟩ := infix_flatMap_of_mem renderField hm
  have hvm : v ∈ sortStrings fd.values := List.mem_mergeSort.mpr hv
  obtain ⟨s', t', e'⟩ := infix_flatMap_of_mem renderFeat hvm
  refine ⟨⟨F.formType ++ lt ++ s, (sortStrings fd.values).flatMap renderFeat ++ t, ?_⟩,
    ⟨F.formType ++ lt ++ s ++ (fd.var ++ lt) ++ s', t' ++ t, ?_⟩⟩
  · simp only [renderForm, ← e, renderField, List.append_assoc]
  · simp only [renderForm, ← e, renderField, ← e', List.append_assoc]

/-- regenerated fact (probe): for each kind of hashed position, no transformation-sensitive
text (not in NFC / NFKC, case pairs, white space, entity-like, zero-width, invalid UTF-8 …) is
hashed as anything but its octets by the real code -/
theorem C20_gen_octets :
    Generated.C20.octetProbe = some (octetKinds.map fun k => (k, 0)) := by decide

/-! ### Operations on the forms between decoding and hashing (round F, seeded C20-16) -/

/-- the code: whatever an application does with the forms of an info (encode, read, `Set`,
`Submit`) the hashed string is that of the info as it was built / decoded -/
theorem C20_history_irrelevant (norm : Field → List Bytes) (i : Info) :
    verImpl (i.afterFormOps implFormOpsWrite norm) = verImpl i := by
  simp [Info.afterFormOps, implFormOpsWrite]

/-- a form whose wire values already are what their types make of them is not affected even
by an implementation that writes the typed values back … -/
theorem C20_writeback_normal_form (norm : Field → List Bytes) (i : Info)
    (h : ∀ F ∈ i.forms, ∀ f ∈ F.fields, norm f = f.values) :
    i.afterFormOps true norm = i := by
  cases i with
  | mk ids feats forms =>
    simp only [Info.afterFormOps, if_true]
    congr
    conv => rhs; rw [← List.map_id forms]
    apply List.map_congr_left
    intro F hF
    cases F with
    | mk fields =>
      simp only [Form.writeBack, id]
      congr
      conv => rhs; rw [← List.map_id fields]
      apply List.map_congr_left
      intro f hf
      cases f with
      | mk var values => simp [h ⟨fields⟩ hF ⟨var, values⟩ hf]

/-- … **but any other form is**: a boolean field sent as `1` is hashed as `true` afterwards
(the class of the seeded change "iterate the fields by pointer in TokenReader / Submit") -/
theorem C20_writeback_changes_hash :
    ∃ i : Info, verImpl (i.afterFormOps true normBool) ≠ verImpl i := by
  refine ⟨⟨[], [], [⟨[⟨[0x62], [[0x31]]⟩]⟩]⟩, ?_⟩
  simp [Info.afterFormOps, Form.writeBack, normBool, verImpl, renderForm, Form.formType, Form.dataFields,
    formTypeVar, renderField, sortStrings, renderFeat, lt]

/-- regenerated fact (probe): none of the operations of `form.Data` - run on the forms of
constructed and decoded infos whose wire values are not in normal form - changes the form as
the peer sent it -/
theorem C20_gen_form_ops_untouched :
    Generated.C20.formOpWrites = some (formOpNames.map fun n => (n, implFormOpsWrite)) := by decide

/-! ### Equality with XEP-0115 5.1 in the XEP's own vocabulary (round F, review C20-3) -/

theorem all₂_imp_mem {α β} {R S : α → β → Prop} {l : List α} {l' : List β}
    (h : ∀ a ∈ l, ∀ b, R a b → S a b) (hr : All₂ R l l') : All₂ S l l' := by
  induction hr with
  | nil => exact .nil
  | cons hab _ ih =>
    exact .cons (h _ (by simp) _ hab) (ih fun a ha b => h a (by simp [ha]) b)

/-- **the implementation equals the construction of XEP-0115 5.1 written in the XEP's own
vocabulary** - for every info whose forms are forms in the XEP's sense (each has exactly one
`FORM_TYPE` field with exactly one value: the side condition names what 5.1 presupposes; what
the code does outside it is `C20_beyond_xep` and the known findings).  Unlike `Spec`, `XepSpec`
shares neither the rendering of identities nor the extraction of the form type with `verImpl`. -/
theorem C20_equals_xep_spec (i : Info) (hx : ∀ F ∈ i.forms, ∃ t, F.xepType = some t) :
    XepSpec i (verImpl i) := by
  obtain ⟨ids, feats, forms, rs, hids, hfeats, hforms, hrs, hs⟩ := C20_equals_spec i
  have hmem : ∀ F ∈ forms, F ∈ i.forms := fun F h => hforms.1.subset h
  refine ⟨ids, feats, forms, rs, hids, hfeats, hforms.1, ?_, ?_, ?_⟩
  · refine List.Pairwise.imp_of_mem ?_ hforms.2
    intro a b ha hb hab
    obtain ⟨x, hxa⟩ := hx a (hmem a ha)
    obtain ⟨y, hyb⟩ := hx b (hmem b hb)
    refine ⟨x, y, hxa, hyb, ?_⟩
    have e1 := (C20_formType_is_xep a x hxa).1
    have e2 := (C20_formType_is_xep b y hyb).1
    simpa [formLe, e1, e2] using hab
  · refine all₂_imp_mem ?_ hrs
    intro F hF r hr
    obtain ⟨t, ht⟩ := hx F (hmem F hF)
    obtain ⟨fields, rs', h1, h2, h3⟩ := hr
    exact ⟨t, fields, rs', ht, h1, h2, by rw [h3, (C20_formType_is_xep F t ht).1]⟩
  · rw [hs]
    have e : renderId = xepIdentity := funext C20_identity_is_xep
    rw [e]
    rfl

/-- non-vacuity: the complex example of XEP-0115 5.3 in miniature - two identities, two
features, a form with FORM_TYPE and a multi-valued field - satisfies the side condition -/
example : ∀ F ∈ (⟨[⟨[1], [2], [], [3]⟩], [[5], [4]], [⟨[⟨formTypeVar, [[7]]⟩, ⟨[8], [[2], [1]]⟩]⟩]⟩ : Info).forms,
    ∃ t, F.xepType = some t := by
  intro F hF
  simp only [List.mem_singleton] at hF
  subst hF
  exact ⟨[7], by simp [Form.xepType, formTypeVar]⟩

/-- … and the construction determines the string: for a well-formed info whose forms are forms
in the XEP's sense, anything that satisfies `XepSpec` is what the code hashes -/
theorem C20_xep_spec_unique (i : Info) (wf : i.WF) (s : Bytes) (h : XepSpec i s) : s = verImpl i := by
  obtain ⟨ids, feats, forms, rs, hids, hfeats, hperm, hpw, hrs, hs⟩ := h
  apply C20_spec_unique i wf
  refine ⟨ids, feats, forms, rs, hids, hfeats, ⟨hperm, ?_⟩, ?_, ?_⟩
  · refine List.Pairwise.imp ?_ hpw
    rintro a b ⟨x, y, hxa, hyb, hle⟩
    simpa [formLe, (C20_formType_is_xep a x hxa).1, (C20_formType_is_xep b y hyb).1] using hle
  · refine all₂_imp_mem ?_ hrs
    rintro F _ r ⟨t, fields, rs', ht, h1, h2, h3⟩
    exact ⟨fields, rs', h1, h2, by rw [h3, (C20_formType_is_xep F t ht).1]⟩
  · rw [hs]
    have e : renderId = xepIdentity := funext C20_identity_is_xep
    rw [e]
    rfl

/-! ### Collision freedom (the converse of permutation invariance)

`C20_perm_invariant_*` say that equal sets give equal bytes.  The reason XEP-0115 hashes this
string at all is the converse: different sets must give different bytes, or a peer could be
served the capabilities of another entity under the same `ver`.  For the feature section this
holds exactly when no feature contains the delimiter `<` (XEP-0115 §5.4 item 3 declares such
input ill-formed); `C20_features_collide_with_lt` shows the hypothesis cannot be dropped.  The
tie to the code is the one of the whole file: the harness compares `verImpl` with the bytes the
real `AppendHash` writes into a recording hash (its word universe contains `"a<"` and `"<"`). -/

/-- a string without the delimiter `<` (XEP-0115 §5.4 item 3.1/3.3: such input is ill-formed) -/
def LtFree (b : Bytes) : Prop := (0x3c : UInt8) ∉ b

theorem split_at_lt (a b r r' : Bytes) (ha : LtFree a) (hb : LtFree b)
    (h : a ++ lt ++ r = b ++ lt ++ r') : a = b ∧ r = r' := by
  induction a generalizing b with
  | nil =>
    cases b with
    | nil => simpa [lt] using h
    | cons y ys =>
      simp [lt] at h
      exact absurd h.1.symm (by intro e; apply hb; simp [e])
  | cons x xs ih =>
    cases b with
    | nil =>
      simp [lt] at h
      exact absurd h.1 (by intro e; apply ha; simp [e])
    | cons y ys =>
      simp at h
      have := ih ys (by intro m; apply ha; simp [m]) (by intro m; apply hb; simp [m])
        (by simpa using h.2)
      exact ⟨by rw [h.1, this.1], this.2⟩

theorem renderFeat_flatMap_inj (l l' : List Bytes) (hl : ∀ f ∈ l, LtFree f) (hl' : ∀ f ∈ l', LtFree f)
    (h : l.flatMap renderFeat = l'.flatMap renderFeat) : l = l' := by
  induction l generalizing l' with
  | nil =>
    cases l' with
    | nil => rfl
    | cons y ys => simp [renderFeat, lt] at h
  | cons x xs ih =>
    cases l' with
    | nil => simp [renderFeat, lt] at h
    | cons y ys =>
      simp only [List.flatMap_cons, renderFeat] at h
      have hs := split_at_lt x y _ _ (hl x (by simp)) (hl' y (by simp)) h
      rw [hs.1, ih ys (fun f m => hl f (by simp [m])) (fun f m => hl' f (by simp [m])) hs.2]

/-- **Collision freedom of the feature section** (the converse of `C20_perm_invariant_features`):
two feature lists of `<`-free strings that are written as the same bytes are the same multiset. -/
theorem C20_features_injective (f₁ f₂ : List Bytes) (h₁ : ∀ f ∈ f₁, LtFree f) (h₂ : ∀ f ∈ f₂, LtFree f)
    (h : verImpl ⟨[], f₁, []⟩ = verImpl ⟨[], f₂, []⟩) : f₁.Perm f₂ := by
  simp only [verImpl, List.mergeSort_nil, List.flatMap_nil, List.nil_append, List.append_nil] at h
  have p₁ : (sortStrings f₁).Perm f₁ := List.mergeSort_perm _ _
  have p₂ : (sortStrings f₂).Perm f₂ := List.mergeSort_perm _ _
  have e := renderFeat_flatMap_inj _ _ (fun f m => h₁ f (p₁.mem_iff.mp m)) (fun f m => h₂ f (p₂.mem_iff.mp m)) h
  exact p₁.symm.trans (e ▸ p₂)

/-- the hypothesis is needed: with a `<` inside a feature two different feature sets collide
(the reason XEP-0115 §5.4 declares such a reply ill-formed) -/
theorem C20_features_collide_with_lt :
    verImpl ⟨[], [[0x61, 0x3c, 0x62]], []⟩ = verImpl ⟨[], [[0x61], [0x62]], []⟩ ∧
    ¬ ([[0x61, 0x3c, 0x62]] : List Bytes).Perm [[0x61], [0x62]] := by
  refine ⟨?_, fun p => ?_⟩
  · simp [verImpl, mergeSort_pair, lexLe, sortStrings, renderFeat, lt]
  · have := p.length_eq
    simp at this

example : (∀ f ∈ ([[0x62], [0x61]] : List Bytes), LtFree f) := by simp [LtFree]
/-! The identity section: `cat/type/lang/name<` parses uniquely when category, type and language
hold no `/` and the name no `<` (the name may contain `/`); the harness word universe contains
`"a/b"` and `"/"`. -/

theorem split_at_sep (c : UInt8) (a b r r' : Bytes) (ha : c ∉ a) (hb : c ∉ b)
    (h : a ++ c :: r = b ++ c :: r') : a = b ∧ r = r' := by
  induction a generalizing b with
  | nil =>
    cases b with
    | nil => simpa using h
    | cons y ys =>
      simp at h
      exact absurd h.1.symm (by intro e; apply hb; simp [e])
  | cons x xs ih =>
    cases b with
    | nil =>
      simp at h
      exact absurd h.1 (by intro e; apply ha; simp [e])
    | cons y ys =>
      simp at h
      have := ih ys (by intro m; apply ha; simp [m]) (by intro m; apply hb; simp [m]) h.2
      exact ⟨by rw [h.1, this.1], this.2⟩

/-- an identity whose parts can be told apart in `cat/type/lang/name<`: no `<` anywhere and no
`/` in category, type and language (the name may contain `/`) -/
structure IdClean (i : Identity) : Prop where
  cat_slash : (0x2f : UInt8) ∉ i.cat
  typ_slash : (0x2f : UInt8) ∉ i.typ
  lang_slash : (0x2f : UInt8) ∉ i.lang
  name_lt : (0x3c : UInt8) ∉ i.name

theorem renderId_parse (x y : Identity) (r r' : Bytes) (hx : IdClean x) (hy : IdClean y)
    (h : renderId x ++ r = renderId y ++ r') : x = y ∧ r = r' := by
  simp only [renderId, slash, lt, List.append_assoc, List.singleton_append] at h
  obtain ⟨e1, h⟩ := split_at_sep _ _ _ _ _ hx.cat_slash hy.cat_slash h
  obtain ⟨e2, h⟩ := split_at_sep _ _ _ _ _ hx.typ_slash hy.typ_slash h
  obtain ⟨e3, h⟩ := split_at_sep _ _ _ _ _ hx.lang_slash hy.lang_slash h
  obtain ⟨e4, h⟩ := split_at_sep _ _ _ _ _ hx.name_lt hy.name_lt h
  refine ⟨?_, h⟩
  cases x; cases y; simp_all

theorem renderId_flatMap_inj (l l' : List Identity) (hl : ∀ i ∈ l, IdClean i) (hl' : ∀ i ∈ l', IdClean i)
    (h : l.flatMap renderId = l'.flatMap renderId) : l = l' := by
  induction l generalizing l' with
  | nil =>
    cases l' with
    | nil => rfl
    | cons y ys => simp [renderId, lt] at h
  | cons x xs ih =>
    cases l' with
    | nil => simp [renderId, lt] at h
    | cons y ys =>
      simp only [List.flatMap_cons] at h
      have hs := renderId_parse x y _ _ (hl x (by simp)) (hl' y (by simp)) h
      rw [hs.1, ih ys (fun f m => hl f (by simp [m])) (fun f m => hl' f (by simp [m])) hs.2]

/-- **Collision freedom of the identity section**: two identity lists of clean identities
written as the same bytes are the same multiset. -/
theorem C20_identities_injective (a b : List Identity) (ha : ∀ i ∈ a, IdClean i) (hb : ∀ i ∈ b, IdClean i)
    (h : verImpl ⟨a, [], []⟩ = verImpl ⟨b, [], []⟩) : a.Perm b := by
  simp only [verImpl, sortStrings, List.mergeSort_nil, List.flatMap_nil, List.append_nil] at h
  have p₁ : (a.mergeSort idLe).Perm a := List.mergeSort_perm _ _
  have p₂ : (b.mergeSort idLe).Perm b := List.mergeSort_perm _ _
  have e := renderId_flatMap_inj _ _ (fun f m => ha f (p₁.mem_iff.mp m)) (fun f m => hb f (p₂.mem_iff.mp m)) h
  exact p₁.symm.trans (e ▸ p₂)

/-- the hypothesis is needed: a `/` in the category moves the boundary -/
theorem C20_identities_collide_with_slash :
    verImpl ⟨[⟨[0x61, 0x2f, 0x62], [0x63], [0x64], [0x65]⟩], [], []⟩ =
      verImpl ⟨[⟨[0x61], [0x62, 0x2f, 0x63], [0x64], [0x65]⟩], [], []⟩ := by
  simp [verImpl, sortStrings, renderId, slash, lt]

example : IdClean ⟨[0x61], [0x62], [], [0x63, 0x2f, 0x64]⟩ := ⟨by simp, by simp, by simp, by simp⟩

/-- **The sections are not delimited from one another** (the known weakness of XEP-0115 that
XEP-0390 repairs): *every* identity is written as the same bytes as the one feature
`cat/type/lang/name`, so injectivity holds per section (`C20_identities_injective`,
`C20_features_injective`) but not for the string as a whole — for clean input, too.  The code
follows the XEP here (`C20_equals_xep_spec`); this is a limit of the property's "canonical",
not a defect of the implementation. -/
theorem C20_sections_collide (i : Identity) :
    verImpl ⟨[i], [], []⟩ =
      verImpl ⟨[], [i.cat ++ slash ++ i.typ ++ slash ++ i.lang ++ slash ++ i.name], []⟩ := by
  simp [verImpl, sortStrings, renderId, renderFeat]

/-- … with a clean identity and a `<`-free feature as witness -/
theorem C20_sections_collide_clean :
    ∃ (i : Identity) (f : Bytes), IdClean i ∧ LtFree f ∧ verImpl ⟨[i], [], []⟩ = verImpl ⟨[], [f], []⟩ :=
  ⟨⟨[0x61], [0x62], [], [0x63]⟩, [0x61, 0x2f, 0x62, 0x2f, 0x2f, 0x63],
    ⟨by simp, by simp, by simp, by simp⟩, by simp [LtFree],
    by simpa [slash] using C20_sections_collide ⟨[0x61], [0x62], [], [0x63]⟩⟩

/-- **Fields are not delimited from their values** (same XEP-0115 weakness inside a form): a
field `a` with the values `b`, `c` is written as the same bytes as the field `a` with the value
`b` followed by a field `c` without value — all strings `<`-free, both forms with the same
proper `FORM_TYPE`.  So the form section is not injective; the per-section results above are as
far as collision freedom goes for this string. -/
theorem C20_fields_collide :
    verImpl ⟨[], [], [⟨[⟨formTypeVar, [[0x74]]⟩, ⟨[0x61], [[0x62], [0x63]]⟩]⟩]⟩ =
    verImpl ⟨[], [], [⟨[⟨formTypeVar, [[0x74]]⟩, ⟨[0x61], [[0x62]]⟩, ⟨[0x63], []⟩]⟩]⟩ := by
  simp [verImpl, mergeSort_pair, fieldLe, Form.formType, formTypeVar, lexLe, renderForm,
    Form.dataFields, renderField, sortStrings, renderFeat, lt]

/-- carried to the `ver` attribute: if the hash and the base64 step do not collide on the two
pre-images (the assumption XEP-0115 makes of its hash function), equal `ver` strings of two
feature-only infos with `<`-free features mean the same feature multiset -/
theorem C20_hash_features_injective (hash b64 : Bytes → Bytes) (f₁ f₂ : List Bytes)
    (hcf : ∀ x y, b64 (hash x) = b64 (hash y) → x = y)
    (h₁ : ∀ f ∈ f₁, LtFree f) (h₂ : ∀ f ∈ f₂, LtFree f)
    (h : hashStr hash b64 ⟨[], f₁, []⟩ = hashStr hash b64 ⟨[], f₂, []⟩) : f₁.Perm f₂ := by
  apply C20_features_injective f₁ f₂ h₁ h₂
  apply hcf
  simpa [hashStr, appendHash] using h

/-- … and the identities likewise -/
theorem C20_hash_identities_injective (hash b64 : Bytes → Bytes) (a b : List Identity)
    (hcf : ∀ x y, b64 (hash x) = b64 (hash y) → x = y)
    (ha : ∀ i ∈ a, IdClean i) (hb : ∀ i ∈ b, IdClean i)
    (h : hashStr hash b64 ⟨a, [], []⟩ = hashStr hash b64 ⟨b, [], []⟩) : a.Perm b := by
  apply C20_identities_injective a b ha hb
  apply hcf
  simpa [hashStr, appendHash] using h
end XmppModel.Props.C20
