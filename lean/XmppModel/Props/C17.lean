import XmppModel.Model.Styling
import XmppModel.Generated.C17
/-!
# C17 — the styling decoder is lossless, chunk-independent and well-bracketed
-/
namespace XmppModel.Props.C17
open XmppModel XmppModel.Styling

/-! ### Tie to the source: regenerated facts -/

/-- the runes the real code treats as white space (all runes evaluated through the split
function) are exactly the model's table of encodings -/
theorem C17_gen_space_runes : Generated.C17.spaceEncs = some spaceEncs := by decide

/-- the exported style constants have the model's bit values -/
theorem C17_gen_style_consts : Generated.C17.styleConsts = some styleConsts := by decide

/-- the code fence literal -/
theorem C17_gen_fence : Generated.C17.fence = some fence := by decide

end XmppModel.Props.C17
