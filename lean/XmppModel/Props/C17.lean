import XmppModel.Model.Styling
import XmppModel.Lemmas.Styling
import XmppModel.Lemmas.StylingScanner
import XmppModel.Generated.C17
/-!
# C17 — the styling decoder is lossless, chunk-independent and well-bracketed
-/
namespace XmppModel.Props.C17
open XmppModel XmppModel.Styling

/-! ### Tie to the source: regenerated facts -/

/-- the runes the real code treats as white space (all runes evaluated through the split
function) are exactly the model's table of encodings -/
theorem C17_gen_space_runes : Generated.C17.spaceEncs = some spaceEncs := by decide

/-- the exported style constants have the model's bit values -/
theorem C17_gen_style_consts : Generated.C17.styleConsts = some styleConsts := by decide

/-- the code fence literal -/
theorem C17_gen_fence : Generated.C17.fence = some fence := by decide

/-! ### Every call of the split function honours the `bufio.SplitFunc` contract

`Dec.OK` (a decoder whose `quoteStarted` flag is set has an inner decoder, along the whole
chain) is the invariant that excludes the nil dereferences in `scan` and `Quote`; it holds
initially and is preserved by every call, whatever data the call is given. -/

/-- the invariant holds for a fresh decoder and every call of `scan` preserves it -/
theorem C17_invariant (d : Dec) (data : Bytes) (atEOF : Bool) (h : d.OK) :
    Dec.OK {} ∧ (d.scan data atEOF).2.OK := by
  refine ⟨Dec.ok_init, ?_⟩
  cases data with
  | nil =>
    cases atEOF with
    | true => exact (decScan_spec.nil_eof d h).2
    | false =>
      -- an empty window before EOF (never handed out by bufio.Scanner): handled like any other
      have hr := scanLv_rel [] false false d.lv d.inner
      exact (scanRel_chain hr h)
  | cons b t => exact (decScan_spec.call_ok d (b :: t) atEOF h (by simp)).2

/-- **prefix**: every result of `scan` is `more` or a token with `token = data[:advance]`,
`0 < advance ≤ len(data)`; it never panics -/
theorem C17_prefix (d : Dec) (data : Bytes) (atEOF : Bool) (h : d.OK) (hne : data ≠ []) :
    match (d.scan data atEOF).1 with
    | .more => True
    | .panic => False
    | .tok adv t => t = data.take adv ∧ 0 < adv ∧ adv ≤ data.length := by
  have := (decScan_spec.call_ok d data atEOF h (List.length_pos_iff.mpr hne)).1
  cases hr : (d.scan data atEOF).1 <;> simp_all [Out.Good]

example : (Dec.scan {} [gt, 0x20, 0x61] true).1 = .tok 2 [gt, 0x20] := by decide

/-- at EOF a non-empty window always yields a token (so nothing is left behind) -/
theorem C17_eof_progress (d : Dec) (data : Bytes) (h : d.OK) (hne : data ≠ []) :
    (d.scan data true).1 ≠ .more :=
  decScan_spec.eof_tok d data h (List.length_pos_iff.mpr hne)

/-! ### Termination and losslessness of a whole run, for every document and schedule -/

/-- **terminates**: for every document, schedule and token limit the scanner run ends
within the structural bound `fuelFor doc` (never `fuel`), without panic and without a
contract violation of the split function; without a limit it ends with EOF -/
theorem C17_terminates (limit : Option Nat) (sch : Schedule) (doc : Bytes) :
    ((scanDoc limit sch doc).2 = .eof ∨ ((scanDoc limit sch doc).2 = .tooLong ∧ limit ≠ none)) ∧
    (limit = none → (scanDoc limit sch doc).2 = .eof) := by
  have h := scanDoc_ok limit sch doc
  refine ⟨h.1, fun hl => ?_⟩
  rcases h.1 with h1 | ⟨_, h2⟩
  · exact h1
  · exact absurd hl h2

/-- **lossless**: whenever the run reaches EOF (always, without a token limit) the
concatenation of the tokens is the document, for every schedule -/
theorem C17_lossless (limit : Option Nat) (sch : Schedule) (doc : Bytes)
    (h : (scanDoc limit sch doc).2 = .eof) : concatToks (scanDoc limit sch doc).1 = doc := by
  exact (scanDoc_ok limit sch doc).2.1 h

/-- the repaired `NewDecoder` sets no token limit: every document is decoded to the end,
`Next`/`Quote` never dereference nil, and the data of the events (the virtual block quote
end tokens are empty) concatenates to the document -/
theorem C17_decoder_lossless (sch : Schedule) (doc : Bytes) :
    (decode none sch doc).2 = .eof ∧
    ∃ evs, (decode none sch doc).1 = some evs ∧ (evs.map (·.data)).flatten = doc := by
  have hrun := scanDoc_ok none sch doc
  have heof := (C17_terminates none sch doc).2 rfl
  refine ⟨heof, ?_⟩
  have hsome := events_isSome 0 (scanDoc none sch doc).1 (fun x hx => (hrun.2.2 x hx).1)
  obtain ⟨evs, hevs⟩ := Option.isSome_iff_exists.mp hsome
  refine ⟨evs, hevs, ?_⟩
  rw [events_concat 0 _ evs hevs]
  exact C17_lossless none sch doc heof

/-- with a token limit (a caller's own `bufio.Scanner` around `styling.Scan()`) the only
other outcome is `ErrTooLong`, and it does occur: one long line -/
theorem C17_limit_witness :
    (scanDoc (some 4) ⟨[1, 1, 1, 1, 1, 1], false⟩ [0x61, 0x61, 0x61, 0x61, 0x61, nl]).2 = .tooLong := by decide

example : (decode none ⟨[1, 1, 1], true⟩ [gt, 0x20, 0x61]).1 =
    some [⟨[gt, 0x20], BlockQuote ||| BlockQuoteStart, 1, none⟩, ⟨[0x61], BlockQuote, 1, none⟩] := by decide

end XmppModel.Props.C17
