import XmppModel.Model.Styling
import XmppModel.Lemmas.Styling
import XmppModel.Lemmas.StylingScanner
import XmppModel.Lemmas.StylingStyle
import XmppModel.Lemmas.StylingChunk
import XmppModel.Lemmas.StylingRun
import XmppModel.Lemmas.StylingSession
import XmppModel.Lemmas.StylingNest
import XmppModel.Lemmas.StylingMasks
import XmppModel.Generated.C17
/-!
# C17 — the styling decoder is lossless, chunk-independent and well-bracketed
-/
namespace XmppModel.Props.C17
open XmppModel XmppModel.Styling

/-! ### Tie to the source: regenerated facts -/

/-- the runes the real code treats as white space (all runes evaluated through the split
function) are exactly the model's table of encodings -/
theorem C17_gen_space_runes : Generated.C17.spaceEncs = some spaceEncs := by decide

/-- the exported style constants have the model's bit values -/
theorem C17_gen_style_consts : Generated.C17.styleConsts = some styleConsts := by decide

/-- the lines of one repeated byte that open a pre block according to the model's `fence`:
every `(b, n)`, `n ≤ 5`, such that `n × b` starts with the fence -/
def fenceTable : List (Nat × Nat) :=
  (List.range 256).flatMap fun b =>
    ((List.range 6).filter fun n => fence.isPrefixOf (List.replicate n (UInt8.ofNat b))).map (b, ·)

/-- the code fence, as behaviour: the real decoder opens a pre block on a line of `n × b`
(all 256 bytes, `n = 1..5`, probed on every run) exactly where the model's `fence` does -/
theorem C17_gen_fence : Generated.C17.fenceProbe = some fenceTable := by decide

/-- the token size limit `NewDecoder` passes to `bufio.Scanner.Buffer`, read from the source
(constant-evaluated; the default 64 KiB when `Buffer` is not called), is the model's: none.
Any finite cap makes this obligation fail. -/
theorem C17_gen_decoder_limit : Generated.C17.decoderLimit = some decoderLimit := by decide

/-! ### Every call of the split function honours the `bufio.SplitFunc` contract

`Dec.OK` (a decoder whose `quoteStarted` flag is set has an inner decoder, along the whole
chain) is the invariant that excludes the nil dereferences in `scan` and `Quote`; it holds
initially and is preserved by every call, whatever data the call is given. -/

/-- the invariant holds for a fresh decoder and every call of `scan` preserves it -/
theorem C17_invariant (d : Dec) (data : Bytes) (atEOF : Bool) (h : d.OK) :
    Dec.OK {} ∧ (d.scan data atEOF).2.OK := by
  refine ⟨Dec.ok_init, ?_⟩
  cases data with
  | nil =>
    cases atEOF with
    | true => exact (decScan_spec.nil_eof d h).2
    | false =>
      -- an empty window before EOF (never handed out by bufio.Scanner): handled like any other
      have hr := scanLv_rel [] false false d.lv d.inner
      exact (scanRel_chain hr h)
  | cons b t => exact (decScan_spec.call_ok d (b :: t) atEOF h (by simp)).2

/-- **prefix**: every result of `scan` is `more` or a token with `token = data[:advance]`,
`0 < advance ≤ len(data)`; it never panics -/
theorem C17_prefix (d : Dec) (data : Bytes) (atEOF : Bool) (h : d.OK) (hne : data ≠ []) :
    match (d.scan data atEOF).1 with
    | .more => True
    | .panic => False
    | .tok adv t => t = data.take adv ∧ 0 < adv ∧ adv ≤ data.length := by
  have := (decScan_spec.call_ok d data atEOF h (List.length_pos_iff.mpr hne)).1
  cases hr : (d.scan data atEOF).1 <;> simp_all [Out.Good]

example : (Dec.scan {} [gt, 0x20, 0x61] true).1 = .tok 2 [gt, 0x20] := by decide

/-- at EOF a non-empty window always yields a token (so nothing is left behind) -/
theorem C17_eof_progress (d : Dec) (data : Bytes) (h : d.OK) (hne : data ≠ []) :
    (d.scan data true).1 ≠ .more :=
  decScan_spec.eof_tok d data h (List.length_pos_iff.mpr hne)

/-! ### Termination and losslessness of a whole run, for every document and schedule -/

/-- **terminates**: for every document, schedule and token limit the scanner run ends
within the structural bound `fuelFor doc` (never `fuel`), without panic and without a
contract violation of the split function; without a limit it ends with EOF -/
theorem C17_terminates (limit : Option Nat) (sch : Schedule) (doc : Bytes) :
    ((scanDoc limit sch doc).2 = .eof ∨ ((scanDoc limit sch doc).2 = .tooLong ∧ limit ≠ none)) ∧
    (limit = none → (scanDoc limit sch doc).2 = .eof) := by
  have h := scanDoc_ok limit sch doc
  refine ⟨h.1, fun hl => ?_⟩
  rcases h.1 with h1 | ⟨_, h2⟩
  · exact h1
  · exact absurd hl h2

/-- **lossless**: whenever the run reaches EOF (always, without a token limit) the
concatenation of the tokens is the document, for every schedule -/
theorem C17_lossless (limit : Option Nat) (sch : Schedule) (doc : Bytes)
    (h : (scanDoc limit sch doc).2 = .eof) : concatToks (scanDoc limit sch doc).1 = doc := by
  exact (scanDoc_ok limit sch doc).2.1 h

/-- the repaired `NewDecoder` sets no token limit: every document is decoded to the end,
`Next`/`Quote` never dereference nil, and the data of the events (the virtual block quote
end tokens are empty) concatenates to the document -/
theorem C17_decoder_lossless (sch : Schedule) (doc : Bytes) :
    (decode none sch doc).2 = .eof ∧
    ∃ evs, (decode none sch doc).1 = some evs ∧ (evs.map (·.data)).flatten = doc := by
  have hrun := scanDoc_ok none sch doc
  have heof := (C17_terminates none sch doc).2 rfl
  refine ⟨heof, ?_⟩
  have hsome := events_isSome 0 (scanDoc none sch doc).1 (fun x hx => (hrun.2.2 x hx).1)
  obtain ⟨evs, hevs⟩ := Option.isSome_iff_exists.mp hsome
  refine ⟨evs, hevs, ?_⟩
  rw [events_concat 0 _ evs hevs]
  exact C17_lossless none sch doc heof

/-- **lossless for the real `NewDecoder`**: the limit that the source gives the scanner
(regenerated fact) admits every document — decoded to EOF under every schedule, with the
event data concatenating to the document.  The "no limit" premise of
`C17_decoder_lossless` is discharged from the fact, not assumed. -/
theorem C17_newdecoder_lossless (sch : Schedule) (doc : Bytes) :
    ∃ lim, Generated.C17.decoderLimit = some lim ∧ (decode lim sch doc).2 = .eof ∧
      ∃ evs, (decode lim sch doc).1 = some evs ∧ (evs.map (·.data)).flatten = doc :=
  ⟨none, C17_gen_decoder_limit, C17_decoder_lossless sch doc⟩

/-- with a token limit (a caller's own `bufio.Scanner` around `styling.Scan()`) the only
other outcome is `ErrTooLong`, and it does occur: one long line -/
theorem C17_limit_witness :
    (scanDoc (some 4) ⟨[1, 1, 1, 1, 1, 1], false⟩ [0x61, 0x61, 0x61, 0x61, 0x61, nl]).2 = .tooLong := by decide

example : (decode none ⟨[1, 1, 1], true⟩ [gt, 0x20, 0x61]).1 =
    some [⟨[gt, 0x20], BlockQuote ||| BlockQuoteStart, 1, none⟩, ⟨[0x61], BlockQuote, 1, none⟩] := by decide

/-! ### Style bookkeeping

`m.Has c` : the mask `m` has (some bit of) `c`. -/

/-- `m` has the (single-bit) style constant `c` -/
def Has (m c : Style) : Prop := m &&& c ≠ 0

/-- "a start or end directive bit implies its style bit" for the block styles and for the
start directives of all spans -/
def StartConsistent (m : Style) : Prop :=
  (Has m BlockPreStart → Has m BlockPre) ∧ (Has m BlockPreEnd → Has m BlockPre) ∧
  (Has m BlockQuoteStart → Has m BlockQuote) ∧ (Has m BlockQuoteEnd → Has m BlockQuote) ∧
  (Has m SpanEmphStart → Has m SpanEmph) ∧ (Has m SpanStrongStart → Has m SpanStrong) ∧
  (Has m SpanStrikeStart → Has m SpanStrike) ∧ (Has m SpanPreStart → Has m SpanPre)

theorem startCons_iff (m : Style) : StartCons m → StartConsistent m := by
  intro h
  have e : ∀ i, i < 32 → (Has m (BitVec.twoPow 32 i) ↔ m.getLsbD i = true) :=
    fun i hi => and_twoPow_ne_zero m i hi
  have c0 : BlockPre = BitVec.twoPow 32 0 := by decide
  have c1 : BlockQuote = BitVec.twoPow 32 1 := by decide
  have c2 : SpanEmph = BitVec.twoPow 32 2 := by decide
  have c3 : SpanStrong = BitVec.twoPow 32 3 := by decide
  have c4 : SpanStrike = BitVec.twoPow 32 4 := by decide
  have c5 : SpanPre = BitVec.twoPow 32 5 := by decide
  have c6 : BlockPreStart = BitVec.twoPow 32 6 := by decide
  have c7 : BlockPreEnd = BitVec.twoPow 32 7 := by decide
  have c8 : BlockQuoteStart = BitVec.twoPow 32 8 := by decide
  have c9 : BlockQuoteEnd = BitVec.twoPow 32 9 := by decide
  have c10 : SpanEmphStart = BitVec.twoPow 32 10 := by decide
  have c12 : SpanStrongStart = BitVec.twoPow 32 12 := by decide
  have c14 : SpanStrikeStart = BitVec.twoPow 32 14 := by decide
  have c16 : SpanPreStart = BitVec.twoPow 32 16 := by decide
  unfold StartConsistent
  rw [c0, c1, c2, c3, c4, c5, c6, c7, c8, c9, c10, c12, c14, c16]
  simp only [e 0 (by omega), e 1 (by omega), e 2 (by omega), e 3 (by omega), e 4 (by omega),
    e 5 (by omega), e 6 (by omega), e 7 (by omega), e 8 (by omega), e 9 (by omega), e 10 (by omega),
    e 12 (by omega), e 14 (by omega), e 16 (by omega)]
  exact h

/-- **style_consistent, block and start bits, any token limit**: for every document, schedule
and limit, every token a `Decoder` returns — real or virtual — carries a style in which each
block directive bit and each span *start* bit comes with its style bit.  (The end bits need
the unread-input invariant: `C17_style_consistent` below.) -/
theorem C17_style_consistent_start (limit : Option Nat) (sch : Schedule) (doc : Bytes) :
    ∃ evs, (decode limit sch doc).1 = some evs ∧ ∀ e ∈ evs, StartConsistent e.style := by
  have hinv := scanDoc_inv limit sch doc
  have hsome := events_isSome 0 (scanDoc limit sch doc).1 (fun x hx => (hinv x hx).1)
  obtain ⟨evs, hevs⟩ := Option.isSome_iff_exists.mp hsome
  refine ⟨evs, hevs, ?_⟩
  have key : ∀ (l : List (Bytes × Dec)) (prev : Nat) (evs : List Event), (∀ x ∈ l, x.2.Inv) →
      events prev l = some evs → ∀ e ∈ evs, StartConsistent e.style := by
    intro l
    induction l with
    | nil => intro prev evs _ h; simp [events] at h; subst h; simp
    | cons x xs ih =>
      intro prev evs hx h
      obtain ⟨t, d⟩ := x
      simp only [events, Option.bind_eq_bind] at h
      cases hq : d.quote with
      | none => simp [hq] at h
      | some cur =>
        cases htl : events cur xs with
        | none => simp [hq, htl] at h
        | some tl =>
          simp only [hq, htl, Option.bind_some] at h
          have hd : StartConsistent d.style :=
            startCons_iff _ (styleLv_startCons (hx (t, d) (by simp)).2)
          have htl' := ih cur tl (fun y hy => hx y (by simp [hy])) htl
          have hv : StartConsistent (BlockQuoteEnd ||| BlockQuote) := by
            unfold StartConsistent Has; decide
          split at h <;> (simp at h; subst h; intro e he; simp at he)
          · rcases he with rfl | rfl | he
            · exact hv
            · exact hd
            · exact htl' e he
          · rcases he with rfl | he
            · exact hd
            · exact htl' e he
  exact key _ 0 evs hinv hevs

example : StartConsistent (SpanStrong ||| SpanStrongStart) := by unfold StartConsistent Has; decide

/-- **style_consistent, end bits, one call** (the whole-run form is `C17_style_consistent`;
the no-duplicate hypothesis is established there by the unread-input invariant):
when `scanSpan` runs on a decoder whose directive bits have been cleared (what `scan` does at
entry — `Clean`), whose open spans all have their style bit set and not scheduled for clearing
(`StackOK`), and whose span stack holds no directive twice, then after the call every span
*end* bit comes with its style bit (bits 11/13/15/17 ⇒ 2/3/4/5) and `StackOK` still holds.
-/
theorem C17_style_consistent_end_call (lv : Level) (data : Bytes) (atEOF : Bool)
    (hc : Clean lv) (hs : StackOK lv) (hn : lv.spanStack.Nodup) :
    EndCons (scanSpan lv data atEOF).2.mask ∧ StackOK (scanSpan lv data atEOF).2 :=
  scanSpan_endCons data atEOF hc hs hn

/-- non-vacuity: a decoder inside `*…` satisfies the hypotheses and the call that closes the
span yields `SpanStrong|SpanStrongEnd` -/
example : let lv : Level := { mask := SpanStrong, spanStack := [star] }
    Clean lv ∧ StackOK lv ∧ lv.spanStack.Nodup ∧
    (scanSpan lv [star, nl] false).2.mask = SpanStrong ||| SpanStrongEnd := by
  refine ⟨⟨by simp [allDir, SpanStrong], rfl⟩, ?_, by simp, by decide⟩
  intro b hb
  simp at hb
  subst hb
  decide

/-! ### Bracket discipline and preformatted spans, per call of the span scanner

`scanSpan` is the only place where the span stack changes.  One call either leaves the
decoder unchanged, or pops the innermost open span — the directive byte equals the top of
the stack and the token carries exactly that kind's end bit — or pushes a new span with its
style and start bits.  Hence ends match starts LIFO with the same kind (structurally). -/

/-- **bracketing (structural part)**: the effect of one `scanSpan` call on the decoder -/
theorem C17_bracketing_lifo (lv : Level) (data : Bytes) (atEOF : Bool) :
    let lv' := (scanSpan lv data atEOF).2
    lv' = lv ∨
    (∃ b, lv.spanStack.head? = some b ∧ isDirective b = true ∧ lv'.spanStack = lv.spanStack.tail ∧
      lv'.mask = lv.mask ||| (bitsOf b).2.2) ∨
    (∃ b, isDirective b = true ∧ lv'.spanStack = b :: lv.spanStack ∧
      lv'.mask = lv.mask ||| (bitsOf b).1 ||| (bitsOf b).2.1) := by
  rcases scanSpan_effect lv data atEOF with h | ⟨b, h1, h2, h3⟩ | ⟨b, h1, _, h3⟩
  · exact Or.inl h
  · exact Or.inr (Or.inl ⟨b, h1, h2, by rw [h3]; rfl, by rw [h3]; rfl⟩)
  · exact Or.inr (Or.inr ⟨b, h1, by rw [h3]; rfl, by rw [h3]; rfl⟩)

/-- **no directive in pre**: inside an inline preformatted span (`SpanPre` in the mask when
`scanSpan` runs) no span is opened; inside a preformatted block `scan` calls `scanPre`,
which never touches the span stack and sets no start bit -/
theorem C17_no_directive_in_pre (lv : Level) (data : Bytes) (atEOF : Bool) :
    (lv.mask &&& SpanPre ≠ 0 →
      (scanSpan lv data atEOF).2.spanStack = lv.spanStack ∨
      (scanSpan lv data atEOF).2.spanStack = lv.spanStack.tail) ∧
    ((scanPre lv data atEOF).2.spanStack = lv.spanStack ∧
      ((scanPre lv data atEOF).2.mask = lv.mask ∨ (scanPre lv data atEOF).2.mask = lv.mask ||| BlockPreEnd)) := by
  constructor
  · intro hp
    rcases scanSpan_effect lv data atEOF with h | ⟨b, _, _, h3⟩ | ⟨b, _, h2, _⟩
    · left; rw [h]
    · right; rw [h3]; rfl
    · exact absurd h2 hp
  · rcases scanPre_frame lv data atEOF with h | h <;> rw [h] <;> simp

/-- non-vacuity: a directive inside an inline pre span stays text -/
example : (decode none ⟨[], false⟩ [tick, star, 0x61, star, tick]).1 =
    some [⟨[tick], SpanPre ||| SpanPreStart, 0, none⟩, ⟨[star, 0x61, star], SpanPre, 0, none⟩,
          ⟨[tick], SpanPre ||| SpanPreEnd, 0, none⟩] := by decide

/-! ### Chunk independence

`Stable split I` (Lemmas/StylingChunk.lean): a token decided on a non-final window is the
decision on every extension of the window (same advance, token and state), and a call that
asks for more data leaves a state from which the next call behaves as from the old one. -/

/-- **chunk independence, scanner level**: for *every* split function that honours the
`SplitFunc` contract and is stable, every schedule (every cut of the input into reads,
EOF with or after the last read) yields exactly the tokens and decoder states of the run
that has the whole input buffered — for all inputs, by induction on the run. -/
theorem C17_chunk_independent_generic {σ : Type} (split : Split σ) (I : σ → Prop)
    (spec : SplitSpec split I) (st : Stable split I) (s0 : σ) (h0 : I s0)
    (sch : Schedule) (doc : Bytes) :
    scanner split none (fuelFor doc) sch.sizes sch.dataEOF s0 [] doc false =
      refRun split (fuelFor doc) s0 doc := by
  have := scanner_chunk_indep split I spec st (fuelFor doc) sch.sizes sch.dataEOF s0 [] doc false h0
    (by simp) (by simp [runMeasure, fuelFor]) (fuelFor doc) (by simp [fuelFor]; omega)
  simpa using this

/-- the styling split function is stable: a token decided before EOF on a window is the
decision (advance, token, decoder state) on every extension of the window with any `atEOF`,
and after a "more" answer the next call on an extension behaves as from the old state.
This is where the two chunk-dependence defects of the unchanged code were (block quote
prefix, pre block at EOF); it holds for the repaired `startsBlockQuote` and `scanPre`. -/
theorem C17_scan_stable : Stable Dec.scan Dec.OK := decScan_stable

/-- **chunk independence**: for every document, any two ways a reader may deliver it (any
cut into reads of at least one byte, `io.EOF` with or after the last bytes) give the same
tokens with the same decoder state after each token — hence the same style masks, quote
depths and info strings, including the virtual block quote end tokens. -/
theorem C17_chunk_independent (sch1 sch2 : Schedule) (doc : Bytes) :
    scanDoc none sch1 doc = scanDoc none sch2 doc ∧ decode none sch1 doc = decode none sch2 doc := by
  have h : scanDoc none sch1 doc = scanDoc none sch2 doc := by
    rw [scanDoc_eq_ref sch1 doc, scanDoc_eq_ref sch2 doc]
  exact ⟨h, by unfold decode; rw [h]⟩

/-- non-vacuity, on the witness of the first defect: byte-by-byte and all-at-once agree -/
example : decode none ⟨[1, 1, 1, 1, 1], false⟩ [gt, 0x20, 0x20, 0x78, nl] =
    decode none ⟨[], true⟩ [gt, 0x20, 0x20, 0x78, nl] := by decide

/-- with a token limit chunk independence holds up to `ErrTooLong`: a run that reaches EOF
is the reference run (the limit only ever cuts a run short) — stated for completeness as
the lossless + terminates pair above; the divergence itself is `C17_limit_witness`. -/
theorem C17_chunk_independent_events (sch : Schedule) (doc : Bytes) :
    decode none sch doc = decode none ⟨[], true⟩ doc :=
  (C17_chunk_independent sch ⟨[], true⟩ doc).2

/-! ### Whole runs: bracket discipline, end bits, preformatted text

The invariant behind these theorems relates the decoder to the *unread input* `R`
(`Closable`, Lemmas/StylingBracket.lean): the closer of the innermost open span occurs in `R`
before any newline, before any other occurrence of itself and before any byte equal to a
span below it, and recursively for the rest of the stack after that closer; only the
innermost decoder of the chain has open spans; no directive is twice on the stack.  It is
proved for the run that has the whole rest buffered at EOF (`scanRel_bracket`,
`refRun_steps`) and carried to every schedule by `C17_chunk_independent`. -/

/-- the run of `NewDecoder` under any schedule is the reference run -/
theorem run_eq_ref (sch : Schedule) (doc : Bytes) :
    scanDoc none sch doc = refRun Dec.scan (fuelFor doc) {} doc := scanDoc_eq_ref sch doc

/-- **bracketing (whole runs)**: for every document and every schedule, every step of the
run — decoder `d` with unread input `R` returns token `t` and becomes `d'` (`StepP`) —
satisfies

* `lifo`: the open spans (`Dec.openSpans`, innermost first) stay the same, or one span is
  pushed, or the innermost one is popped — so ends match starts LIFO with the same kind;
* `line`: if the token contains a newline, no span is open after it — every span opened in a
  line is closed before the line ends;
* `pre_span`: inside an inline preformatted span (a backtick on the stack) no span is pushed;
* `inv`: the invariant (incl. "no directive twice on the stack") holds again;

and when the run is over no span is open. -/
theorem C17_bracketing (sch : Schedule) (doc : Bytes) :
    RunSteps {} doc (scanDoc none sch doc).1 ∧
    (finalDec {} (scanDoc none sch doc).1).openSpans = [] := by
  rw [run_eq_ref]
  have h := refRun_steps (fuelFor doc) {} doc (Dec.RunInv_init doc)
  refine ⟨h.1, h.2 ?_⟩
  rw [← run_eq_ref ⟨[], true⟩ doc]
  exact (C17_terminates none ⟨[], true⟩ doc).2 rfl

/-- non-vacuity: `*a _b_*` opens strong, opens emph inside it, closes emph, closes strong -/
example : ((scanDoc none ⟨[], true⟩ [star, 0x61, 0x20, under, 0x62, under, star, nl]).1.map
    (fun x => x.2.openSpans)) = [[star], [star], [under, star], [under, star], [star], [], []] := by decide

/-- "a span end bit implies its style bit", in mask form -/
def EndConsistent (m : Style) : Prop :=
  (Has m SpanEmphEnd → Has m SpanEmph) ∧ (Has m SpanStrongEnd → Has m SpanStrong) ∧
  (Has m SpanStrikeEnd → Has m SpanStrike) ∧ (Has m SpanPreEnd → Has m SpanPre)

theorem endCons_iff (m : Style) : EndCons m → EndConsistent m := by
  intro h
  have e : ∀ i, i < 32 → (Has m (BitVec.twoPow 32 i) ↔ m.getLsbD i = true) :=
    fun i hi => and_twoPow_ne_zero m i hi
  have c2 : SpanEmph = BitVec.twoPow 32 2 := by decide
  have c3 : SpanStrong = BitVec.twoPow 32 3 := by decide
  have c4 : SpanStrike = BitVec.twoPow 32 4 := by decide
  have c5 : SpanPre = BitVec.twoPow 32 5 := by decide
  have c11 : SpanEmphEnd = BitVec.twoPow 32 11 := by decide
  have c13 : SpanStrongEnd = BitVec.twoPow 32 13 := by decide
  have c15 : SpanStrikeEnd = BitVec.twoPow 32 15 := by decide
  have c17 : SpanPreEnd = BitVec.twoPow 32 17 := by decide
  unfold EndConsistent
  rw [c2, c3, c4, c5, c11, c13, c15, c17]
  simp only [e 2 (by omega), e 3 (by omega), e 4 (by omega), e 5 (by omega), e 11 (by omega),
    e 13 (by omega), e 15 (by omega), e 17 (by omega)]
  exact h

/-- **style_consistent (full)**: for every document and schedule, every token `NewDecoder`
returns — real or virtual — carries a style in which every start *and every end* directive
bit (block and span) comes with its style bit. -/
theorem C17_style_consistent (sch : Schedule) (doc : Bytes) :
    ∃ evs, (decode none sch doc).1 = some evs ∧
      ∀ e ∈ evs, StartConsistent e.style ∧ EndConsistent e.style := by
  obtain ⟨evs, hevs, hstart⟩ := C17_style_consistent_start none sch doc
  refine ⟨evs, hevs, ?_⟩
  have hall : ∀ x ∈ (scanDoc none sch doc).1, LvGood x.2.lv ∧ ∀ q ∈ x.2.inner, LvGood q := by
    have hb := (C17_bracketing sch doc).1
    exact RunSteps_forall (P := fun d => LvGood d.lv ∧ ∀ q ∈ d.inner, LvGood q) _ _ _ hb
      (fun d R t d' hs => hs.inv.good)
  have key : ∀ (l : List (Bytes × Dec)) (prev : Nat) (evs : List Event),
      (∀ x ∈ l, LvGood x.2.lv ∧ ∀ q ∈ x.2.inner, LvGood q) →
      events prev l = some evs → ∀ e ∈ evs, EndConsistent e.style := by
    intro l
    induction l with
    | nil => intro prev evs _ h; simp [events] at h; subst h; simp
    | cons x xs ih =>
      intro prev evs hx h
      obtain ⟨t, d⟩ := x
      simp only [events, Option.bind_eq_bind] at h
      cases hq : d.quote with
      | none => simp [hq] at h
      | some cur =>
        cases htl : events cur xs with
        | none => simp [hq, htl] at h
        | some tl =>
          simp only [hq, htl, Option.bind_some] at h
          have hd : EndConsistent d.style := by
            have := hx (t, d) (by simp)
            exact endCons_iff _ (styleLv_endCons d.lv d.inner this.1 this.2)
          have htl' := ih cur tl (fun y hy => hx y (by simp [hy])) htl
          have hv : EndConsistent (BlockQuoteEnd ||| BlockQuote) := by
            unfold EndConsistent Has; decide
          split at h <;> (simp at h; subst h; intro e he; simp at he)
          · rcases he with rfl | rfl | he
            · exact hv
            · exact hd
            · exact htl' e he
          · rcases he with rfl | he
            · exact hd
            · exact htl' e he
  intro e he
  exact ⟨hstart e he, key _ 0 evs hall (by simpa [decode] using hevs) e he⟩

/-- **no directive inside preformatted text (whole runs)**: for every document and schedule,
at every point of the run: (a) while a backtick span is open no span is pushed (field
`pre_span` of every step); (b) while some decoder of the chain is inside a preformatted
block (`EffPre`: `BlockPre` in its mask and not scheduled for clearing) no span is open at
all — and by `C17_no_directive_in_pre` the decoder that is inside the block only runs
`scanPre`, which touches no stack and sets no start bit. -/
theorem C17_no_directive_in_pre_run (sch : Schedule) (doc : Bytes) :
    ∀ x ∈ (scanDoc none sch doc).1,
      (EffPre x.2.lv ∨ ∃ q ∈ x.2.inner, EffPre q) → x.2.openSpans = [] := by
  have hb := (C17_bracketing sch doc).1
  exact RunSteps_forall (P := fun d => (EffPre d.lv ∨ ∃ q ∈ d.inner, EffPre q) → d.openSpans = []) _ _ _ hb
    (fun d R t d' hs => inPre_closed d'.lv d'.inner _ hs.inv)

/-- non-vacuity: inside a pre block (second token on) a decoder is `EffPre` -/
example : ((scanDoc none ⟨[], true⟩ [tick, tick, tick, nl, star, 0x61, star, nl]).1.map
    (fun x => (x.1.length, decide (x.2.lv.mask.getLsbD 0 = true ∧ x.2.lv.clearMask.getLsbD 0 = false),
      x.2.openSpans))) = [(4, true, []), (4, true, [])] := by decide

/-! ### Sessions: the `Decoder` API as a caller drives it (round C)

Several decoders alive at the same time and used alternately from one goroutine, `Next`
called again after it returned false, `SkipSpan`/`SkipBlock` mixed with `Next`
(Model/StylingSession.lean).  "For every input" means that what a decoder hands out is a
function of its own input and of the calls made on it. -/

/-- the derived directive masks tested by `SkipSpan`/`SkipBlock` are those of the source -/
theorem C17_gen_directive_masks : Generated.C17.directiveMasks = some directiveMasks := by decide

/-- the decoder's code uses no package level variable that is written, aliased or has
methods called on it anywhere in package styling: decoders share no state, as in the model -/
theorem C17_gen_no_shared_state : Generated.C17.sharedState = some sharedState := by decide

/-- `NewDecoder(r)` where `r` delivers `doc` according to `sch` -/
def newDecoder (sch : Schedule) (doc : Bytes) : Option Api := Api.ofDecode (decode none sch doc)

/-- **independence**: in a session of any number of decoders and any interleaving of
operations, decoder `i` observes exactly what it observes when the operations issued on it
are issued on it alone. -/
theorem C17_session_independent (st : List Api) (ops : List (Nat × Op)) (i : Nat) (a : Api)
    (h : st[i]? = some a) : obsOf i (runOps st ops) = solo a (opsOf i ops) :=
  runOps_project ops st i a h

/-- non-vacuity: two decoders used alternately, the first one asked again after its end -/
example :
    let a : Api := { rest := [⟨[0x61], 0, 0, none⟩], fin := .eof }
    let b : Api := { rest := [⟨[gt, 0x20], BlockQuote ||| BlockQuoteStart, 1, none⟩, ⟨[0x62], BlockQuote, 1, none⟩], fin := .eof }
    let ops := [(0, Op.create), (1, .create), (1, .next), (0, .next), (0, .next), (1, .next), (0, .skipBlock), (1, .next)]
    obsOf 1 (runOps [a, b] ops) =
      [.created, .tok ⟨[gt, 0x20], BlockQuote ||| BlockQuoteStart, 1, none⟩, .tok ⟨[0x62], BlockQuote, 1, none⟩,
       .nextEnd .eof BlockQuote 1] ∧
    obsOf 0 (runOps [a, b] ops) =
      [.created, .tok ⟨[0x61], 0, 0, none⟩, .nextEnd .eof 0 0, .skip true false (some .eof) 0 0] := by decide

/-- every decoder of a session is determined by its document alone: whatever the schedule,
`NewDecoder` gives the decoder of the single-read delivery; it ends with EOF and the data of
the events it will hand out concatenates to the document -/
theorem C17_session_decoder (sch : Schedule) (doc : Bytes) :
    ∃ a, newDecoder sch doc = some a ∧ newDecoder ⟨[], true⟩ doc = some a ∧
      a.fin = .eof ∧ (a.rest.map (·.data)).flatten = doc ∧ a.created = false ∧ a.ended = false := by
  obtain ⟨heof, evs, hevs, hcat⟩ := C17_decoder_lossless sch doc
  have hci := C17_chunk_independent_events sch doc
  refine ⟨{ rest := evs, fin := .eof }, ?_, ?_, rfl, hcat, rfl, rfl⟩
  · simp [newDecoder, Api.ofDecode, hevs, heof]
  · rw [newDecoder, ← hci]; simp [Api.ofDecode, hevs, heof]

/-- **chunk independence of sessions**: the observations of a whole session (any decoders,
any operations incl. `SkipSpan`/`SkipBlock` and calls after the end) do not depend on how
the documents are delivered -/
theorem C17_session_chunk_independent (decs : List (Schedule × Bytes)) :
    decs.map (fun d => newDecoder d.1 d.2) = decs.map (fun d => newDecoder ⟨[], true⟩ d.2) := by
  apply List.map_congr_left
  intro d _
  obtain ⟨a, h1, h2, _⟩ := C17_session_decoder d.1 d.2
  rw [h1, h2]

/-- **lossless through the API**: `NewDecoder` then `Next` until it fails hands out events
whose data concatenates to the document, under every schedule -/
theorem C17_session_lossless (sch : Schedule) (doc : Bytes) :
    ∃ a, newDecoder sch doc = some a ∧
      ∃ evs : List Event, solo { a with created := true } (List.replicate a.rest.length .next) = evs.map .tok ∧
        (evs.map (·.data)).flatten = doc := by
  obtain ⟨a, h1, _, _, hcat, _⟩ := C17_session_decoder sch doc
  exact ⟨a, h1, a.rest, solo_nexts a.rest _ rfl rfl, hcat⟩

/-- `SkipSpan`/`SkipBlock` terminate (the model's fuel never runs out), every operation
consumes a prefix of the events that are left -/
theorem C17_skip_terminates (a : Api) (block : Bool) :
    (a.skip block).1 ≠ .fuel ∧ ∀ op, ∃ pre, a.rest = pre ++ (a.step op).2.rest :=
  ⟨Api.skip_ne_fuel a block, Api.step_suffix a⟩

/-- a skip consumes at least one event when there is one, returns false only at the end of
the input with everything consumed, and true otherwise -/
theorem C17_skip_progress (block : Bool) (st : Style) (q : Nat) (rest : List Event) :
    ∃ r, skipLoop block (rest.length + 1) st q rest = some r ∧
      (∃ pre, rest = pre ++ r.rest ∧ (rest ≠ [] → pre ≠ [])) ∧
      (r.ret = false → r.hitEnd = true ∧ r.rest = []) ∧ (r.hitEnd = true → r.ret = false) :=
  skipLoop_spec block _ st q rest (Nat.lt_succ_self _)

/-- non-vacuity: `SkipBlock` at the start of "> a\nb\nc" skips the quote and the line after it
(the end of the plain block) and stops in front of `c` -/
example : ((newDecoder ⟨[], true⟩ [gt, 0x20, 0x61, nl, 0x62, nl, 0x63]).map
    fun a => (solo { a with created := true } [.skipBlock, .next]).map
      fun o => match o with | .skip _ r _ _ _ => (r, []) | .tok e => (true, e.data) | _ => (false, [])) =
    some [(true, []), (true, [0x63])] := by decide

/-- **calls after the end**: once a decoder has handed out everything, every further `Next`,
`SkipSpan`, `SkipBlock` reports the end again (`Err()` the end status, `Style()`/`Quote()`
unchanged) and nothing else changes -/
theorem C17_after_end (a : Api) (op : Op) (hc : a.created = true) (hop : op ≠ .create) (hr : a.rest = []) :
    (a.step op).2 = { a with ended := true } ∧
    ((a.step op).1 = .nextEnd a.fin a.style a.quote ∨
      ∃ blk, (a.step op).1 = .skip blk false (some a.fin) a.style a.quote) :=
  Api.step_at_end a op hc hop hr

/-! ### Nesting depth (round D)

The decoder's span stack grows with every span that is opened inside another one.  How deep
can it get?  The whole-run invariant answers: the open spans are pairwise different directive
bytes and a backtick span is never below another span ("preformatted spans have no
children" — but a backtick span *is* a child).  So at most four spans are open at once, four
only with a backtick span innermost, and that depth is reached. -/

/-- **depth of the span stack**: for every document and schedule, after every token the open
spans are pairwise different directive bytes, a backtick is at most the innermost of them, at
most four are open, and at most three unless the innermost is a backtick span -/
theorem C17_span_depth (sch : Schedule) (doc : Bytes) :
    ∀ x ∈ (scanDoc none sch doc).1,
      x.2.openSpans.Nodup ∧ (∀ b ∈ x.2.openSpans, isDirective b = true) ∧
      tick ∉ x.2.openSpans.tail ∧ x.2.openSpans.length ≤ 4 ∧
      (x.2.openSpans.head? ≠ some tick → x.2.openSpans.length ≤ 3) := by
  have hb := (C17_bracketing sch doc).1
  have hgood := RunSteps_forall
    (P := fun d => d.openSpans.Nodup ∧ ∀ b ∈ d.openSpans, isDirective b = true) _ _ _ hb
    (fun d R t d' hs => G_stacks_good d'.lv d'.inner _ hs.inv)
  have htick := RunSteps_inv (P := TickTop) _ _ _ hb (by simp [TickTop, Dec.openSpans, stacks])
    (fun d R t d' h0 hs => TickTop_step h0 hs)
  intro x hx
  obtain ⟨hn, hd⟩ := hgood x hx
  have ht : tick ∉ x.2.openSpans.tail := htick x hx
  refine ⟨hn, hd, ht, directives_length_le hn hd, fun hh => directives_length_le_three hn hd ?_⟩
  intro hm
  cases hl : x.2.openSpans with
  | nil => rw [hl] at hm; simp at hm
  | cons a l =>
    rw [hl] at hm ht hh
    simp only [List.mem_cons] at hm
    rcases hm with rfl | hm
    · exact hh rfl
    · exact ht hm

/-- the bound is reached: strong, emphasis, strike and a preformatted span open at once
(`*_~\`x\`~_*`: depths after each token), with all four span styles in the returned style -/
theorem C17_span_depth_attained :
    ((scanDoc none ⟨[], true⟩ (nestDoc [star, under, tilde, tick])).1.map fun x => x.2.openSpans.length) =
      [1, 2, 3, 4, 4, 3, 2, 1, 0] ∧
    maxSpanDepth (nestDoc [star, under, tilde, tick]) = some 4 ∧
    maxSpanDepth (nestDoc [tilde, star, under, tick]) = some 4 ∧
    maxSpanDepth (gt :: 0x20 :: nestDoc [under, tilde, star, tick]) = some 4 := by decide +kernel

/-- **nesting depth, as behaviour**: on the spans of every sequence of kinds of length 1..4
opened one inside the other (340 documents, probed on every run) the real decoder reaches the
end of the input and reports exactly as many span styles at once as the model — in particular
four for the six orders of strong/emphasis/strike around a preformatted span -/
theorem C17_gen_nest_depth : Generated.C17.nestProbe = nestDepths := by decide +kernel

/- Full statement (not proved; the oracle checks it on every generated case as
`bracketing|style-without-span`): for every document and schedule and every returned token,
the span style bit of kind `b` is on in `Style()` exactly when `b` is among the open spans
after the token or the token is the end directive of `b`.  Missing: the lift of the per-call
invariant below through the eight paths of `scan` and the chain of quote decoders
(`hasRun` gates `Style()` per level). -/

/-- **span style bits come from open spans, one call** (the converse of `StackOK`, which is
part of the whole-run invariant): if every span style bit that is on in the decoder's mask
belongs to a span on its stack or is scheduled for clearing (`BitsFromStack`; true for a fresh
decoder), the same holds after the entry step of `scan` (where the scheduled bits are cleared,
so afterwards a style bit that is on belongs to an open span) and after `scanSpan` -/
theorem C17_style_bits_open_spans_partial (lv : Level) (data : Bytes) (atEOF : Bool) (h : BitsFromStack lv) :
    BitsFromStack ({} : Level) ∧ BitsFromStack (normLevel lv) ∧ (normLevel lv).clearMask = 0 ∧
    BitsFromStack (scanSpan lv data atEOF).2 := by
  refine ⟨fun b _ hm => by simp at hm, normLevel_bits h, by simp [normLevel], ?_⟩
  exact spanEffect_bits h (scanSpan_effect lv data atEOF)

/-- non-vacuity: a decoder inside `*…` satisfies the hypothesis -/
example : BitsFromStack { mask := SpanStrong, spanStack := [star] } := by
  intro b hb hm
  rcases isDirective_cases hb with rfl | rfl | rfl | rfl
  · left; simp
  all_goals (revert hm; decide)

/-! ### Cost of deep block quotes (round E, review C17-5)

`C17_terminates` counts calls of the split function (at most `2·|doc| + 2`).  Each call - and
each `Style()`/`Quote()` - walks the chain of nested quote decoders, one per `>` of the line.
Full statement (not proved): for every `n`, `levelVisits (quoteDoc n) = (n² + 5n + 2) / 2`
(the markers at depths 1..n, the text at depth n, one more visit each).  Proved: the instances
below.  The real decoder's events on the same documents are compared with the model's on every
run (class `quote-cost`) and the sum is demanded of it; what it means in seconds is the known
finding `terminates/quote-depth-cost`. -/

/-- **the work grows with the square of the quote depth** (instances `n` = 1 … 64): a line of
`n` block quote markers is decoded into `n + 1` tokens whose level visits sum to
`(n² + 5n + 2) / 2` -/
theorem C17_quote_depth_cost_partial :
    ([1, 2, 3, 4, 8, 16, 32, 64].map fun n => levelVisits (quoteDoc n)) =
      [1, 2, 3, 4, 8, 16, 32, 64].map fun n => some ((n * n + 5 * n + 2) / 2) := by decide +kernel

/-- … while the number of tokens (and of split calls) is linear -/
theorem C17_quote_depth_tokens :
    ([1, 2, 3, 4, 8, 16, 32, 64].map fun n => (decode none ⟨[], true⟩ (quoteDoc n)).1.map (·.length)) =
      [1, 2, 3, 4, 8, 16, 32, 64].map fun n => some (n + 1) := by decide +kernel

/-! ### Bracketing on the returned masks (round F, review C17-1)

Full statement (not proved): `∀ sch doc, maskBracketed`-style well-bracketedness of the styles
of `decode none sch doc` - every span start bit in a returned mask is matched by an end bit of
the same kind before its line ends, properly nested, and the span style bits are exactly the
open spans.  `C17_bracketing` proves this about the decoder's span stack; the missing bridge is
"a token's `Style()` carries `XStart` iff that step pushed `X`, `XEnd` iff it popped `X`" through
the chain of quote decoders.  Proved here: the statement itself, in the caller's vocabulary
(`maskStep`, `maskBracketed`, `Model/StylingNest.lean`: the automaton of the harness oracle), for
every document of length ≤ 3 over the directive alphabet and for all 340 span nests of depth
≤ 4; by `C17_chunk_independent` the masks are the same under every schedule.  On the real code
the same automaton runs on every generated document and schedule (oracle clause `bracketing`). -/

/-- **bracketing on the returned masks, small scope** -/
theorem C17_bracketing_masks_partial :
    (([0, 1, 2, 3].flatMap (docsOf smallAlpha)).all maskBracketed = true) ∧
    ((nestSeqs.map nestDoc).all maskBracketed = true) ∧
    ((nestSeqs.map fun ks => gt :: 0x20 :: nestDoc ks).all maskBracketed = true) := by
  refine ⟨by decide +kernel, by decide +kernel, by decide +kernel⟩

/-- the automaton is not vacuous: an end bit for a span that is not the innermost one, a
start bit that is never ended before the newline and a style bit without an open span are
rejected; `*a _b_*` is accepted with the stacks one expects -/
example :
    maskStep [1] ⟨[under], SpanEmph ||| SpanEmphEnd ||| SpanStrong, 0, none⟩ = none ∧
    maskStep [] ⟨[star, nl], SpanStrong ||| SpanStrongStart, 0, none⟩ = none ∧
    maskStep [] ⟨[0x61], SpanEmph, 0, none⟩ = none ∧
    maskStep [] ⟨[star], SpanStrong ||| SpanStrongStart, 0, none⟩ = some [1] ∧
    maskBracketed [star, 0x61, 0x20, under, 0x62, under, star, nl] = true := by decide +kernel

/-! ### Bracketing on the returned masks: the generic half of the bridge (round G)

`C17_bracketing_masks` for all documents needs two things: (a) the decoder's span stack moves
LIFO and is empty at line ends and at the end (`C17_bracketing`, proved), and (b) every
returned mask *agrees* with the stack step of its token (`StepAgree`, `Lemmas/StylingMasks.lean`:
start bit of kind `k` ⇔ `k` pushed, end bit ⇔ `k` popped, span style bits = open spans plus
the one just ended, nothing open after a newline).  Proved here, for every list of events and
every chain of stack steps: (b) implies that the caller's automaton follows the stack, so a
run from the empty stack to the empty stack is accepted.  NOT proved: (b) for the steps of
`scan` through the chain of quote decoders (the eight paths of `scanSpan`/`scanBlock`); the
small-scope theorem `C17_bracketing_masks_partial` and the `brk` lines stand in for it. -/

/-- one event whose mask agrees with a LIFO step: the automaton makes exactly that step -/
theorem C17_mask_step_of_agree_partial (st : List Nat) (e : Event) (st' : List Nat)
    (h : StepAgree st e st') : maskStep st e = some st' := maskStep_of_agree st e st' h

/-- **masks that agree with LIFO stack steps are well bracketed in the caller's sense**
(generic in the events: no assumption on where they come from) -/
theorem C17_bracketing_masks_of_agree_partial (evs : List Event) (h : RunAgree [] evs []) :
    evs.foldlM maskStep [] = some [] := foldlM_maskStep_of_agree h

/-- non-vacuity: the three events of `*a*` agree with push strong / keep / pop strong -/
example : RunAgree []
    [⟨[star], SpanStrong ||| SpanStrongStart, 0, none⟩, ⟨[0x61], SpanStrong, 0, none⟩,
     ⟨[star], SpanStrong ||| SpanStrongEnd, 0, none⟩] [] := by
  refine .cons ⟨some 1, none, .push 1 (by omega), by decide, by decide, by decide, by decide⟩
    (.cons ⟨none, none, .keep, by decide, by decide, by decide, by decide⟩
      (.cons ⟨none, some 1, .pop 1 [] (by omega) rfl, by decide, by decide, by decide, by decide⟩ (.nil _)))

/-- the kind of a span directive byte, as an index into `spanBits` (emph, strong, strike, pre) -/
def kindIdx (b : UInt8) : Nat := if b = under then 0 else if b = star then 1 else if b = tilde then 2 else 3

theorem kindIdx_lt (b : UInt8) : kindIdx b < 4 := by unfold kindIdx; split <;> (try split) <;> (try split) <;> omega

/-- consecutive decoders of a run are related by stack steps of span kinds -/
def StackChain : Dec → List (Bytes × Dec) → Prop
  | _, [] => True
  | d, (_, d') :: rest =>
    (∃ pu po, StackStep (d.openSpans.map kindIdx) (d'.openSpans.map kindIdx) pu po) ∧ StackChain d' rest

theorem stackChain_of_runSteps : ∀ (l : List (Bytes × Dec)) (d : Dec) (R : Bytes), RunSteps d R l → StackChain d l := by
  intro l
  induction l with
  | nil => intro _ _ _; trivial
  | cons y ys ih =>
    intro d R h
    obtain ⟨t, d'⟩ := y
    refine ⟨?_, ih d' _ h.2⟩
    rcases h.1.lifo with e | ⟨b, e⟩ | ⟨b, e⟩
    · rw [e]; exact ⟨none, none, .keep⟩
    · rw [e, List.map_cons]; exact ⟨some (kindIdx b), none, .push _ (kindIdx_lt b)⟩
    · rw [e, List.map_cons]; exact ⟨none, some (kindIdx b), .pop _ _ (kindIdx_lt b) rfl⟩

/-- **half (a) of the bridge, in the automaton's vocabulary**: for every document and schedule
the open spans of the decoder, read as span kinds innermost first, start empty, move by the
stack steps keep / push k / pop k of the caller's automaton from token to token, and end empty.
With `C17_bracketing_masks_of_agree_partial` what remains open for the masks is only that the
start / end / style bits of each returned mask name the step of its token. -/
theorem C17_stack_steps_partial (sch : Schedule) (doc : Bytes) :
    StackChain {} (scanDoc none sch doc).1 ∧
    ((finalDec {} (scanDoc none sch doc).1).openSpans.map kindIdx = []) := by
  have h := C17_bracketing sch doc
  exact ⟨stackChain_of_runSteps _ _ _ h.1, by rw [h.2]; rfl⟩

end XmppModel.Props.C17
