import XmppModel.Model.Close
import XmppModel.Model.CloseProbe
import XmppModel.Model.CloseFraming
import XmppModel.Lemmas.Close
import XmppModel.Lemmas.CloseEnv
import XmppModel.Lemmas.CloseServe
import XmppModel.Generated.C10
/-!
# C10 — closing is idempotent, final and observable

Property theorems only.  `Lts`: every number of goroutines and every schedule.  `Hist`: every
history of operations, in every order and multiplicity.
-/
namespace XmppModel.Props.C10
open XmppModel.Close

/-! ### Tie to the source -/

/-- **lock discipline** (what cannot be probed from one goroutine; regenerated from the source by
an abstract walk that follows calls into the package, closures and method values, accepts if
chains and switches alike and takes the names of the locks from the exported anchors
`TokenWriter` / `State`).  Round E: the walk starts from EVERY exported method of `*Session` (no
list of names in the extractor); a row is emitted for each one that looks at or sets the closed
bit of the output stream, in its body or in any helper.  Every such method does so while it holds
the output lock (so the answer of the test cannot be overtaken by a `Close`: hypothesis `checks`
of the `Lts` senders, the `locked` control point) — a new exported method that tests the bit
outside the lock adds a row with `false` —, the methods the models are about are among them, and
the input context `SetCloseDeadline` replaces is touched under the state mutex only (the data
race of round 1). -/
theorem C10_gen_lock_discipline :
    (∃ l, Generated.C10.closedBitUnderOutputLock = some l ∧ l.all (·.2) = true ∧
      ["Close", "Encode", "EncodeElement", "Send", "SendElement", "Serve"].all (fun n => l.any (·.1 == n)) = true) ∧
    Generated.C10.deadlineSynchronised = some true :=
  ⟨⟨_, rfl, by decide, by decide⟩, by decide⟩

/-- **probe fact** (the real session was run by `harness facts`): for every way the streams get
closed — `Close`, `Close` twice, `Serve` ending on the peer's closing tag, on a handler error
(`sendError`), on a handler's stream error, on the close deadline, `Close` followed by `Serve` —
and for the open session, **every** transmit entry point (all `Send*`/`Encode*`/`SendIQ*`/
`SendMessage*`/`SendPresence*`/`UnmarshalIQ*`/`IterIQ*` families, the three methods of the token
writer), `Close` and the token reader return the error class the history machine computes, and
touch the connection exactly when the machine says so: after closing, `ErrOutputStreamClosed` and
not one `Write` on the connection; `Close` again returns nil and writes nothing; the reader
returns `ErrInputStreamClosed` without a `Read` once `Serve` has returned.  No source pattern is
involved: helpers, renames, switch/if do not matter; a lost check does. -/
theorem C10_probe_transmit : Generated.C10.transmitProbe = some Probe.transmitTable := by decide

/-- **probe fact**: seen from inside the connection's `Write` that receives the closing tag, on
every path that writes it (`Close`, `sendError`, `Serve`'s deferred `Close`): the closed bit is
already set, `State()` can be read (the state mutex is not held across the write), the output lock
is held — the state `RwLts` (repaired lock shape) is in while its closer is at `writing` — and the
number of closing tags at the end is the one `Hist` computes (one). -/
theorem C10_probe_close_write : Generated.C10.closeWriteProbe = some Probe.closeWriteTable := by decide

/-- what the table says at the model's level: bit set, state mutex free, output lock held -/
theorem C10_probe_close_write_view : Probe.writeView false = (true, true, true) := by decide

/-- negation witness: with the state mutex held across the write (the shape before the repair)
the probe would see `State()` blocked -/
theorem C10_probe_close_write_old_shape : Probe.writeView true = (true, false, true) := by decide

/-- every row of the probe table for a closed output stream says `closedout` / nothing written,
for every transmit entry -/
theorem C10_probe_closed_rows :
    ∀ w ∈ Probe.ways, (Probe.stateAfter w).outClosed = true →
      ∀ e ∈ Probe.entries, ∀ b, e.2 = .tx b → Probe.cell (Probe.stateAfter w) e = (e.1, "closedout", false) := by
  decide

/-- the probe table has a column for every transmit family of the property's text (the same list as
`C10_probe_exported_methods_complete`), for `Close`, and for the two token interfaces -/
theorem C10_probe_entries_complete :
    ∀ n ∈ ["Send", "SendElement", "Encode", "EncodeElement", "SendIQ", "SendIQElement", "EncodeIQ", "EncodeIQElement",
        "SendMessage", "SendMessageElement", "EncodeMessage", "EncodeMessageElement", "SendPresence",
        "SendPresenceElement", "EncodePresence", "EncodePresenceElement", "UnmarshalIQ", "UnmarshalIQElement",
        "IterIQ", "IterIQElement", "Close", "TokenWriter.EncodeToken", "TokenWriter.Flush", "TokenWriter.Close",
        "TokenReader.Token"], n ∈ Probe.entries.map (·.1) := by decide

/-- non-vacuity: eight of the nine ways leave the output closed; on the open session every
transmit entry reaches the connection -/
example : (Probe.ways.filter fun w => (Probe.stateAfter w).outClosed).length = 9 := by decide
example : ∀ e ∈ Probe.entries, e.2 ≠ .read → (Probe.cell (Probe.stateAfter ⟨"open", false, []⟩) e).2.2 = true := by decide

/-- **probe fact, closure over the API** (round E; replaces the call-graph facts `wireFns` /
`entryPoints`, which matched names of unexported functions and the spelling of write calls):
`harness facts` enumerates EVERY exported method of `*Session` by reflection — the harness holds
no list of names —, calls each with zero / small arguments on fresh sessions whose output was
closed by `Close`, by `Serve`'s shutdown after the peer's closing tag and after a handler error,
and records whether the connection saw a `Write`.  No exported method writes to the connection of
a closed session, however it reaches the wire (`io.WriteString`, `io.Copy`, a `bufio.Writer`, a
helper of any name): a new exported method that writes on its own is a row with `true`. -/
theorem C10_probe_exported_methods_silent_when_closed :
    ∃ t, Generated.C10.exportedMethodsProbe = some t ∧ t.all (fun r => !r.2) = true :=
  ⟨_, rfl, by decide⟩

/-- … and the enumeration is not empty: it contains every transmit family of the property's
text, `Close`, `Serve` and the two token interfaces -/
theorem C10_probe_exported_methods_complete :
    ∃ t, Generated.C10.exportedMethodsProbe = some t ∧
      ∀ n ∈ ["Send", "SendElement", "Encode", "EncodeElement", "SendIQ", "SendIQElement", "EncodeIQ", "EncodeIQElement",
        "SendMessage", "SendMessageElement", "EncodeMessage", "EncodeMessageElement", "SendPresence",
        "SendPresenceElement", "EncodePresence", "EncodePresenceElement", "UnmarshalIQ", "UnmarshalIQElement",
        "IterIQ", "IterIQElement", "Close", "Serve", "TokenWriter", "TokenReader"], n ∈ t.map (·.1) :=
  ⟨_, rfl, by decide⟩

/-! ### Interleavings -/

open Lts in
/-- the wire never carries more than one closing tag, whatever the goroutines and the schedule -/
theorem C10_close_once (kind : Nat → Kind) (hk : AllCheck kind) (sched : List Nat) :
    (closes (run kind init sched).wire).length ≤ 1 := by
  have inv := inv_run kind hk sched init (inv_init kind)
  cases inv.phase with
  | open_ _ w _ => simp [w]
  | marking _ _ w _ _ => simp [w]
  | shut pre j _ w hp _ => rw [w, closes_append, hp]; simp [closes, List.filter, Ev.isClose]

open Lts in
/-- … and exactly one once any `Close` has returned -/
theorem C10_close_exactly_once (kind : Nat → Kind) (hk : AllCheck kind) (sched : List Nat)
    (i : Nat) (b : Bool) (hki : kind i = .closer) (hd : (run kind init sched).pc i = .done b) :
    (closes (run kind init sched).wire).length = 1 := by
  have inv := inv_run kind hk sched init (inv_init kind)
  obtain ⟨pre, j, hw⟩ := inv.closer_done i b hki hd
  cases inv.phase with
  | open_ _ w _ => rw [hw, closes_append] at w; simp [closes, Ev.isClose] at w
  | marking _ _ w _ _ => rw [hw, closes_append] at w; simp [closes, Ev.isClose] at w
  | shut pre' j' _ w hp _ => rw [w, closes_append, hp]; simp [closes, List.filter, Ev.isClose]

open Lts in
/-- `Close` always returns nil -/
theorem C10_close_returns_nil (kind : Nat → Kind) (s s' : St) (i : Nat) (b : Bool)
    (hki : kind i = .closer) (hs : step kind s i = some s') (hd : s'.pc i = .done b) (hnd : ∀ b', s.pc i ≠ .done b') :
    b = true := by
  unfold step at hs
  cases hpc : s.pc i with
  | idle =>
    rw [hpc] at hs; dsimp only at hs
    cases hl : s.lock with
    | none => rw [hl] at hs; simp only [Option.some.injEq] at hs; subst hs; simp at hd
    | some j => rw [hl] at hs; cases hs
  | locked =>
    rw [hpc, hki] at hs; dsimp only at hs
    by_cases hc : s.closed = true
    · rw [if_pos hc] at hs; simp only [Option.some.injEq] at hs; subst hs
      simp at hd; exact hd
    · rw [if_neg hc] at hs; simp only [Option.some.injEq] at hs; subst hs; simp at hd
  | wrote k => rw [hpc, hki] at hs; cases hs
  | marked =>
    rw [hpc] at hs; simp only [Option.some.injEq] at hs; subst hs
    simp at hd; exact hd
  | done b' => exact absurd hpc (hnd b')

open Lts in
/-- **final**: nothing follows the closing tag on the wire -/
theorem C10_final (kind : Nat → Kind) (hk : AllCheck kind) (sched : List Nat)
    (pre post : List Ev) (e : Ev) (hw : (run kind init sched).wire = pre ++ e :: post) (he : e.isClose = true) :
    post = [] := by
  have inv := inv_run kind hk sched init (inv_init kind)
  have hmem : e ∈ closes (run kind init sched).wire := by
    rw [hw]; simp [closes, he]
  cases inv.phase with
  | open_ _ w _ => rw [w] at hmem; cases hmem
  | marking _ _ w _ _ => rw [w] at hmem; cases hmem
  | shut p j _ w hp _ =>
    rcases List.eq_nil_or_concat post with hnil | ⟨post', x, hx⟩
    · exact hnil
    · exfalso
      rw [hx, w] at hw
      have hw' : p ++ [Ev.close j] = (pre ++ e :: post') ++ [x] := by simpa using hw
      have := (List.append_inj' hw' rfl).1
      have hin : e ∈ closes p := by rw [this]; simp [closes, he]
      rw [hp] at hin; cases hin

open Lts in
/-- effect of one step on the closed bit, on other goroutines and on the wire -/
theorem step_effect (kind : Nat → Kind) (s s' : St) (j : Nat) (h : step kind s j = some s') :
    (s.closed = true → s'.closed = true) ∧ (∀ i, i ≠ j → s'.pc i = s.pc i) ∧
    (s'.wire = s.wire ∨ s'.wire = s.wire ++ [.close j] ∨ (s'.wire = s.wire ++ [.data j] ∧ ∃ k, s.pc j = .wrote k)) := by
  unfold step at h
  cases hpc : s.pc j with
  | idle =>
    rw [hpc] at h; dsimp only at h
    cases hl : s.lock with
    | none =>
      rw [hl] at h; simp only [Option.some.injEq] at h; subst h
      exact ⟨id, fun i hi => setPc_other _ _ hi, Or.inl rfl⟩
    | some _ => rw [hl] at h; cases h
  | locked =>
    rw [hpc] at h; dsimp only at h
    cases hk : kind j with
    | closer =>
      rw [hk] at h; dsimp only at h
      by_cases hc : s.closed = true
      · rw [if_pos hc] at h; simp only [Option.some.injEq] at h; subst h
        exact ⟨id, fun i hi => setPc_other _ _ hi, Or.inl rfl⟩
      · rw [if_neg hc] at h; simp only [Option.some.injEq] at h; subst h
        exact ⟨fun _ => rfl, fun i hi => setPc_other _ _ hi, Or.inl rfl⟩
    | errSender =>
      rw [hk] at h; dsimp only at h
      by_cases hc : s.closed = true
      · rw [if_pos hc] at h; simp only [Option.some.injEq] at h; subst h
        exact ⟨id, fun i hi => setPc_other _ _ hi, Or.inl rfl⟩
      · rw [if_neg hc] at h; simp only [Option.some.injEq] at h; subst h
        exact ⟨fun _ => rfl, fun i hi => setPc_other _ _ hi, Or.inl rfl⟩
    | sender n c =>
      rw [hk] at h; dsimp only at h
      by_cases hc : (c && s.closed) = true
      · rw [if_pos hc] at h; simp only [Option.some.injEq] at h; subst h
        exact ⟨id, fun i hi => setPc_other _ _ hi, Or.inl rfl⟩
      · rw [if_neg hc] at h; simp only [Option.some.injEq] at h; subst h
        exact ⟨id, fun i hi => setPc_other _ _ hi, Or.inl rfl⟩
  | wrote k =>
    rw [hpc] at h; dsimp only at h
    cases hk : kind j with
    | closer => rw [hk] at h; cases h
    | errSender => rw [hk] at h; cases h
    | sender n c =>
      rw [hk] at h; dsimp only at h
      by_cases hkn : k < n
      · rw [if_pos hkn] at h; simp only [Option.some.injEq] at h; subst h
        exact ⟨id, fun i hi => setPc_other _ _ hi, Or.inr (Or.inr ⟨rfl, k, rfl⟩)⟩
      · rw [if_neg hkn] at h; simp only [Option.some.injEq] at h; subst h
        exact ⟨id, fun i hi => setPc_other _ _ hi, Or.inl rfl⟩
  | marked =>
    rw [hpc] at h; simp only [Option.some.injEq] at h; subst h
    exact ⟨id, fun i hi => setPc_other _ _ hi, Or.inr (Or.inl rfl)⟩
  | done b => rw [hpc] at h; cases h

open Lts in
/-- **closed-error**: a transmit call (one that tests the bit) which has not yet taken the lock
when the output is closed never writes anything and can only end with the output-closed error,
whatever the other goroutines do and however it is scheduled -/
theorem C10_closed_error (kind : Nat → Kind) (i n : Nat) (hki : kind i = .sender n true)
    (sched : List Nat) :
    ∀ s, s.closed = true → (s.pc i = .idle ∨ s.pc i = .locked ∨ s.pc i = .done false) →
      let s' := run kind s sched
      (s'.pc i = .idle ∨ s'.pc i = .locked ∨ s'.pc i = .done false) ∧
      s'.wire.filter (· == .data i) = s.wire.filter (· == .data i) := by
  induction sched with
  | nil => intro s _ hp; exact ⟨hp, rfl⟩
  | cons j js ih =>
    intro s hc hp
    simp only [run]
    cases hs : step kind s j with
    | none => exact ih s hc hp
    | some s1 =>
      obtain ⟨hmono, hother, hwire⟩ := step_effect kind s s1 j hs
      have hc1 := hmono hc
      have hp1 : s1.pc i = .idle ∨ s1.pc i = .locked ∨ s1.pc i = .done false := by
        by_cases hji : i = j
        · subst hji
          unfold step at hs
          rcases hp with hp | hp | hp
          · rw [hp] at hs; dsimp only at hs
            cases hl : s.lock with
            | none => rw [hl] at hs; simp only [Option.some.injEq] at hs; subst hs; right; left; simp
            | some _ => rw [hl] at hs; cases hs
          · rw [hp, hki] at hs; dsimp only at hs
            have e : (true && s.closed) = true := by simp [hc]
            rw [if_pos e] at hs; simp only [Option.some.injEq] at hs; subst hs; right; right; simp
          · rw [hp] at hs; cases hs
        · rw [hother i hji]; exact hp
      have hw1 : s1.wire.filter (· == .data i) = s.wire.filter (· == .data i) := by
        rcases hwire with hw | hw | ⟨hw, k, hk⟩
        · rw [hw]
        · rw [hw]; simp
        · rw [hw]
          by_cases hji : i = j
          · subst hji; rcases hp with hp | hp | hp <;> rw [hp] at hk <;> cases hk
          · have : (Ev.data j == Ev.data i) = false := by
              simp only [beq_eq_false_iff_ne, ne_eq, Ev.data.injEq]; exact fun h => hji h.symm
            simp [List.filter_append, this]
      have := ih s1 hc1 hp1
      exact ⟨this.1, by rw [this.2, hw1]⟩

open Lts in
/-- negation witness for the code before the repair: a sender that does not test the bit writes
after the closing tag (`[Close, Send]`) -/
theorem C10_closed_error_fails_unchecked :
    (run (fun i => if i = 0 then Kind.closer else Kind.sender 1 false) init [0, 0, 0, 1, 1, 1, 1]).wire
      = [.close 0, .data 1] := by decide

open Lts in
/-- non-vacuity: the same schedule with a checking sender writes nothing after the tag and the
sender ends with the error -/
example : (run (fun i => if i = 0 then Kind.closer else Kind.sender 1 true) init [0, 0, 0, 1, 1, 1, 1]).wire
      = [.close 0] ∧
    (run (fun i => if i = 0 then Kind.closer else Kind.sender 1 true) init [0, 0, 0, 1, 1, 1, 1]).pc 1 = .done false := by
  decide

open Lts in
example : AllCheck (fun i => if i = 0 then Kind.closer else Kind.sender 1 true) := by
  intro i n c h; by_cases h0 : i = 0 <;> simp [h0] at h; exact h.2

/-! ### Histories -/

open Hist in
/-- invariant of the history machine: the closing tag is on the wire iff the output is closed,
it is the last item, and once `Serve` has returned both directions are closed -/
structure HInv (s : Hist.St) : Prop where
  open_ : s.outClosed = false → closeCount s.wire = 0
  shut : s.outClosed = true → ∃ pre, s.wire = pre ++ [.close] ∧ closeCount pre = 0
  served : s.serve ≠ .running → s.serve ≠ .notStarted → s.inClosed = true ∧ s.outClosed = true
  inClosed : s.inClosed = true → s.serve ≠ .running ∧ s.serve ≠ .notStarted

open Hist in
theorem hinv_init (b : Bool) : HInv (init b) := by
  refine ⟨fun _ => rfl, fun h => by simp [init] at h, ?_, fun h => by simp [init] at h⟩
  cases b <;> simp [init]

open Hist in
theorem hinv_closeOut (s : Hist.St) (h : HInv s) : HInv (closeOut s) ∧ (closeOut s).outClosed = true := by
  by_cases hc : s.outClosed = true
  · have e : closeOut s = s := by simp [closeOut, hc]
    rw [e]; exact ⟨h, hc⟩
  · have hc' : s.outClosed = false := by simpa using hc
    have e : closeOut s = { s with outClosed := true, wire := s.wire ++ [.close] } := by
      simp [closeOut, hc']
    rw [e]
    exact ⟨{ open_ := fun h' => by cases h'
             shut := fun _ => ⟨s.wire, rfl, h.open_ hc'⟩
             served := fun a b => ⟨(h.served a b).1, rfl⟩
             inClosed := h.inClosed }, rfl⟩

open Hist in
theorem hinv_serveReturns (s : Hist.St) (h : HInv s) (r : Ret) (hr : r ≠ .running) (hn : r ≠ .notStarted) :
    HInv (serveReturns s r) := by
  obtain ⟨hc, ho⟩ := hinv_closeOut s h
  exact { open_ := fun h' => by simp only [serveReturns] at h'; rw [ho] at h'; cases h'
          shut := fun _ => hc.shut ho
          served := fun _ _ => ⟨rfl, ho⟩
          inClosed := fun _ => ⟨hr, hn⟩ }

open Hist in
theorem closeOut_closed (s : Hist.St) : (closeOut s).outClosed = true := by
  unfold closeOut; split <;> simp_all

open Hist in
theorem outClosed_mono (s : Hist.St) (op : Op) (hc : s.outClosed = true) : (step s op).1.outClosed = true := by
  have hsr : ∀ (t : Hist.St) r, (serveReturns t r).outClosed = true := fun t r => closeOut_closed t
  cases op with
  | close => exact closeOut_closed s
  | tx => simp [step, hc]
  | read => simp only [step]; split <;> exact hc
  | peerStanza => simp only [step]; split; exact hc; split; exact hsr s _; exact hc
  | peerStanzaReply => simp only [step]; split; exact hc; split; exact hsr s _; simp only [hc, if_true]; exact hsr s _
  | handlerErr => simp only [step]; split; exact hc; split <;> exact hsr s _
  | handlerStreamErr => simp only [step]; split; exact hc; split <;> exact hsr s _
  | handlerFails k => simp only [step]; split; exact hc; split <;> exact hsr s _
  | peerStreamErr => simp only [step]; split; exact hc; split <;> exact hsr s _
  | peerClose => simp only [step]; split; exact hc; split <;> exact hsr s _
  | peerGarbage => simp only [step]; split; exact hc; split <;> exact hsr s _
  | deadline => simp only [step]; split; exact hc; split <;> exact hsr s _
  | setDeadline k => simp only [step]; split; exact hsr _ _; exact hc
  | startServe =>
    simp only [step]; split
    · split
      · exact hsr s _
      · exact hc
    · exact hc

open Hist in
theorem hinv_step (s : Hist.St) (h : HInv s) (op : Op) : HInv (step s op).1 := by
  have tx : ∀ (hc : s.outClosed = false), HInv { s with wire := s.wire ++ [Item.el] } := by
    intro hc
    refine ⟨fun _ => ?_, fun h' => (by simp only at h'; rw [hc] at h'; cases h'), h.served, h.inClosed⟩
    have := h.open_ hc
    simp only [closeCount, List.filter_append] at this ⊢
    simpa using this
  cases op with
  | close => exact (hinv_closeOut s h).1
  | tx =>
    simp only [step]
    by_cases hc : s.outClosed = true
    · rw [if_pos hc]; exact h
    · have hc' : s.outClosed = false := by simpa using hc
      rw [if_neg hc]; exact tx hc'
  | read => simp only [step]; split <;> exact h
  | setDeadline k =>
    have h' : HInv { s with ctxPast := k != .future } := ⟨h.open_, h.shut, h.served, h.inClosed⟩
    simp only [step]; split
    · exact hinv_serveReturns _ h' _ (by decide) (by decide)
    · exact h'
  | startServe =>
    simp only [step]; split
    · rename_i hns
      split
      · exact hinv_serveReturns s h _ (by decide) (by decide)
      · refine ⟨h.open_, h.shut, fun a _ => absurd rfl a, fun hi => ?_⟩
        have := (h.inClosed hi).2
        simp only [beq_iff_eq] at hns
        exact absurd hns this
    · exact h
  | peerStanza =>
    simp only [step]; split; exact h; split; exact hinv_serveReturns s h _ (by decide) (by decide); exact h
  | peerStanzaReply =>
    simp only [step]
    split
    · exact h
    · split
      · exact hinv_serveReturns s h _ (by decide) (by decide)
      · by_cases hc : s.outClosed = true
        · rw [if_pos hc]; exact hinv_serveReturns s h _ (by decide) (by decide)
        · have hc' : s.outClosed = false := by simpa using hc
          rw [if_neg hc]; exact tx hc'
  | handlerErr => simp only [step]; split; exact h; split <;> exact hinv_serveReturns s h _ (by decide) (by decide)
  | handlerStreamErr => simp only [step]; split; exact h; split <;> exact hinv_serveReturns s h _ (by decide) (by decide)
  | handlerFails k => simp only [step]; split; exact h; split <;> exact hinv_serveReturns s h _ (by cases k <;> decide) (by cases k <;> decide)
  | peerStreamErr => simp only [step]; split; exact h; split <;> exact hinv_serveReturns s h _ (by decide) (by decide)
  | peerClose => simp only [step]; split; exact h; split <;> exact hinv_serveReturns s h _ (by decide) (by decide)
  | peerGarbage => simp only [step]; split; exact h; split <;> exact hinv_serveReturns s h _ (by decide) (by decide)
  | deadline => simp only [step]; split; exact h; split <;> exact hinv_serveReturns s h _ (by decide) (by decide)

open Hist in
theorem hinv_run (ops : List Op) : ∀ s, HInv s → HInv (run s ops).1 := by
  induction ops with
  | nil => intro s h; exact h
  | cons op ops ih => intro s h; exact ih _ (hinv_step s h op)

/-! Reading guide (review B.3).  The history-machine theorems are of two kinds.  Inductive over every
history: `C10_hist_close_once`, `C10_hist_close_exactly_once`, `C10_hist_final`, `C10_hist_served_closed`,
`C10_serve_nil_iff_peer_close`, `C10_last_deadline_wins`, `C10_close_attempt_once`, `C10_tee_close_once`,
`C10_write_deadline_cleared`.  One-step unfoldings of `step` that DOCUMENT the model (what the differential
run validates against the code) and are not results: `C10_serve_returns`, `C10_serve_returns_expired`,
`C10_hist_closed_error`, `C10_read_after`, `C10_deadline_while_serving`, `C10_tee_final`, `C10_dead_encoder`.
That `Serve` RETURNS (does not hang) is not expressible in a sequential machine; it is
`C10_serve_returns_when_peer_closed` about `SrvLts` (round E). -/

open Hist in
/-- **idempotent**: whatever the history, at most one closing tag is written … -/
theorem C10_hist_close_once (serve : Bool) (ops : List Op) :
    closeCount (run (init serve) ops).1.wire ≤ 1 := by
  have h := hinv_run ops _ (hinv_init serve)
  by_cases hc : (run (init serve) ops).1.outClosed = true
  · obtain ⟨pre, hw, hp⟩ := h.shut hc
    rw [hw]; simp only [closeCount, List.filter_append] at hp ⊢; simp [hp]
  · rw [h.open_ (by simpa using hc)]; omega

open Hist in
/-- … exactly one after any `Close`, and the output is then marked closed … -/
theorem C10_hist_close_exactly_once (serve : Bool) (ops1 ops2 : List Op) :
    closeCount (run (init serve) (ops1 ++ .close :: ops2)).1.wire = 1 := by
  have key : ∀ (ops : List Op) (s : Hist.St), HInv s → s.outClosed = true →
      (run s ops).1.outClosed = true := by
    intro ops
    induction ops with
    | nil => intro s _ h; exact h
    | cons op ops ih =>
      intro s hi hc
      exact ih _ (hinv_step s hi op) (outClosed_mono s op hc)
  have runapp : ∀ (a b : List Op) (s : Hist.St), (run s (a ++ b)).1 = (run (run s a).1 b).1 := by
    intro a
    induction a with
    | nil => intro b s; rfl
    | cons x a ih => intro b s; simp only [List.cons_append, run]; exact ih b _
  rw [runapp]
  have h1 := hinv_run ops1 _ (hinv_init serve)
  simp only [run]
  obtain ⟨hc, ho⟩ := hinv_closeOut _ h1
  have hfin := hinv_run ops2 _ hc
  have hcl := key ops2 _ hc ho
  obtain ⟨pre, hw, hp⟩ := hfin.shut hcl
  simp only [step]
  rw [hw]; simp only [closeCount, List.filter_append] at hp ⊢; simp [hp]

open Hist in
/-- **final**: in every history nothing is written after the closing tag -/
theorem C10_hist_final (serve : Bool) (ops : List Op) (pre post : List Item)
    (hw : (run (init serve) ops).1.wire = pre ++ .close :: post) : post = [] := by
  have h := hinv_run ops _ (hinv_init serve)
  by_cases hc : (run (init serve) ops).1.outClosed = true
  · obtain ⟨p, hw', hp⟩ := h.shut hc
    rcases List.eq_nil_or_concat post with hnil | ⟨post', x, hx⟩
    · exact hnil
    · exfalso
      rw [hx, hw'] at hw
      have hw2 : p ++ [Item.close] = (pre ++ .close :: post') ++ [x] := by simpa using hw
      have := (List.append_inj' hw2 rfl).1
      rw [this] at hp
      simp [closeCount, List.filter_append] at hp
  · have := h.open_ (by simpa using hc)
    rw [hw] at this
    simp [closeCount, List.filter_append] at this

open Hist in
/-- **closed-error**: once the output is closed every transmit entry point fails with the
output-closed error and writes nothing -/
theorem C10_hist_closed_error (s : Hist.St) (hc : s.outClosed = true) :
    step s .tx = (s, .closedOut) := by simp [step, hc]

open Hist in
/-- **Serve returns**: peer close ⇒ nil; a stream error in either direction ⇒ that error; the
deadline ⇒ an error; a handler error ⇒ that error; and on return both directions are closed and
the closing tag is written -/
theorem C10_serve_returns (s : Hist.St) (hr : s.serve = .running) (hctx : s.ctxPast = false) :
    (step s .peerClose).1.serve = .nil_ ∧ (step s .peerStreamErr).1.serve = .peerStreamErr ∧
    (step s .handlerStreamErr).1.serve = .streamErr ∧ (step s .handlerErr).1.serve = .handlerErr ∧
    (step s .deadline).1.serve = .deadline ∧
    ∀ op ∈ [Op.peerClose, .peerStreamErr, .handlerStreamErr, .handlerErr, .deadline, .peerGarbage],
      (step s op).1.inClosed = true ∧ (step s op).1.outClosed = true := by
  refine ⟨by simp [step, hr, hctx, serveReturns], by simp [step, hr, hctx, serveReturns],
    by simp [step, hr, hctx, serveReturns], by simp [step, hr, hctx, serveReturns],
    by simp [step, hr, hctx, serveReturns], ?_⟩
  intro op hop
  simp only [List.mem_cons, List.not_mem_nil, or_false] at hop
  rcases hop with rfl | rfl | rfl | rfl | rfl | rfl <;>
    exact ⟨by simp [step, hr, hctx, serveReturns], by simp [step, hr, hctx, serveReturns, closeOut_closed]⟩

open Hist in
/-- with an expired input context (a zero-time or past deadline) `Serve` returns the deadline
error at the next peer input instead of handling it, and both directions are closed -/
theorem C10_serve_returns_expired (s : Hist.St) (hr : s.serve = .running) (hctx : s.ctxPast = true)
    (op : Op) (hop : op ∈ [Op.peerStanza, .peerStanzaReply, .handlerErr, .handlerStreamErr, .peerStreamErr,
      .peerClose]) :
    (step s op).1.serve = .deadline ∧ (step s op).1.inClosed = true ∧ (step s op).1.outClosed = true := by
  simp only [List.mem_cons, List.not_mem_nil, or_false] at hop
  rcases hop with rfl | rfl | rfl | rfl | rfl | rfl <;>
    exact ⟨by simp [step, hr, hctx, serveReturns], by simp [step, hr, hctx, serveReturns],
      by simp [step, hr, hctx, serveReturns, closeOut_closed]⟩

open Hist in
/-- in every history, once `Serve` has returned both directions are marked closed -/
theorem C10_hist_served_closed (serve : Bool) (ops : List Op)
    (h1 : (run (init serve) ops).1.serve ≠ .running) (h2 : (run (init serve) ops).1.serve ≠ .notStarted) :
    (run (init serve) ops).1.inClosed = true ∧ (run (init serve) ops).1.outClosed = true :=
  (hinv_run ops _ (hinv_init serve)).served h1 h2

open Hist in
/-- **read-after**: once the input is closed, reads fail with the input-closed error -/
theorem C10_read_after (s : Hist.St) (hc : s.inClosed = true) : step s .read = (s, .closedIn) := by
  simp [step, hc]

open Hist in
theorem run_append (a b : List Op) : ∀ s : Hist.St, (run s (a ++ b)).1 = (run (run s a).1 b).1 := by
  induction a with
  | nil => intro s; rfl
  | cons x a ih => intro s; simp only [List.cons_append, run]; exact ih _

open Hist in
/-- before `Serve` runs, `SetCloseDeadline` calls change nothing but the context in force -/
theorem deadlines_before_serve (ds : List DKind) :
    ∀ s : Hist.St, s.serve = .notStarted → ∃ b, (run s (ds.map .setDeadline)).1 = { s with ctxPast := b } := by
  induction ds with
  | nil => intro s _; exact ⟨s.ctxPast, rfl⟩
  | cons k ds ih =>
    intro s hs
    simp only [List.map_cons, run]
    have hstep : (step s (.setDeadline k)).1 = { s with ctxPast := k != .future } := by
      simp [step, hs]
    rw [hstep]
    obtain ⟨b, hb⟩ := ih { s with ctxPast := k != .future } hs
    exact ⟨b, by rw [hb]⟩

open Hist in
/-- **the deadline in force is the last one set**: whatever deadlines were set before (past,
future, zero, in any number and order), `Serve` started after `SetCloseDeadline(t)` runs iff `t`
is in the future, and returns the deadline error at once otherwise -/
theorem C10_last_deadline_wins (ds : List DKind) (k : DKind) :
    (run (init false) ((ds ++ [k]).map .setDeadline ++ [.startServe])).1.serve =
      if k = .future then .running else .deadline := by
  rw [run_append, List.map_append, run_append]
  obtain ⟨b, hb⟩ := deadlines_before_serve ds (init false) rfl
  rw [hb]
  cases k <;> simp [run, step, init, serveReturns, closeOut]

open Hist in
/-- … and while `Serve` is running a deadline in the past ends it at once, one in the future
leaves it running -/
theorem C10_deadline_while_serving (s : Hist.St) (hr : s.serve = .running) :
    (step s (.setDeadline .past)).1.serve = .deadline ∧ (step s (.setDeadline .future)).1.serve = .running ∧
    (step s (.setDeadline .future)).1.ctxPast = false := by
  simp [step, hr, serveReturns]

/-! ### The state mutex is not held across the write of the closing tag -/

namespace Rw
open RwLts

@[simp] theorem setPc_same (pc : Nat → Pc) (i : Nat) (v : Pc) : setPc pc i v i = v := by simp [setPc]
theorem setPc_other (pc : Nat → Pc) {i j : Nat} (v : Pc) (h : j ≠ i) : setPc pc i v j = pc j := by
  simp [setPc, h]

theorem inv_init : RwLts.Inv init :=
  ⟨(by intro i h; simp [init] at h), (by simp [init]), (by intro _; rfl),
   (by intro i h; simp [init] at h), (by intro i h; simp [init] at h)⟩

theorem inv_step (kind : Nat → Kind) (w : Bool) (s s' : St) (i : Nat) (inv : RwLts.Inv s)
    (h : step false kind w s i = some s') : RwLts.Inv s' := by
  unfold step at h
  cases hk : kind i <;> cases hp : s.pc i <;> rw [hk, hp] at h <;> simp only at h <;> try (cases h; done)
  -- closer, idle
  · split at h
    · rename_i hfree
      simp only [Option.some.injEq] at h; subst h
      refine ⟨?_, inv.tags, inv.tagsOpen, ?_, ?_⟩
      · intro j hj; have := inv.holder j hj
        by_cases hji : j = i
        · subst hji; rw [hp] at this; cases this
        · simpa [setPc_other _ _ hji] using this
      · intro j hj
        by_cases hji : j = i
        · subst hji; rfl
        · simp only [setPc_other _ _ hji] at hj
          have := inv.outHolder j hj; rw [hfree] at this; cases this
      · intro j hj
        by_cases hji : j = i
        · subst hji; simp at hj
        · simp only [setPc_other _ _ hji] at hj; exact inv.writingTags j hj
    · cases h
  -- closer, hasOut
  · split at h
    · simp only [Option.some.injEq] at h; subst h
      have hout := inv.outHolder i (Or.inl hp)
      refine ⟨?_, inv.tags, inv.tagsOpen, ?_, ?_⟩
      · intro j hj; simp only [Option.some.injEq] at hj; subst hj; simp
      · intro j hj
        by_cases hji : j = i
        · subst hji; exact hout
        · simp only [setPc_other _ _ hji] at hj; exact inv.outHolder j hj
      · intro j hj
        by_cases hji : j = i
        · subst hji; simp at hj
        · simp only [setPc_other _ _ hji] at hj; exact inv.writingTags j hj
    · cases h
  -- closer, hasState
  · have hout := inv.outHolder i (Or.inr (Or.inl hp))
    have huniq : ∀ j, j ≠ i → ¬ (s.pc j = .hasOut ∨ s.pc j = .hasState ∨ s.pc j = .writing) := by
      intro j hji hj; have := inv.outHolder j hj; rw [hout] at this; exact hji (Option.some.inj this).symm
    by_cases hc : s.closed = true
    · rw [if_pos hc] at h; simp only [Option.some.injEq] at h; subst h
      refine ⟨(by intro j hj; cases hj), inv.tags, inv.tagsOpen, ?_, ?_⟩
      · intro j hj
        by_cases hji : j = i
        · subst hji; simp at hj
        · simp only [setPc_other _ _ hji] at hj; exact absurd hj (huniq j hji)
      · intro j hj
        by_cases hji : j = i
        · subst hji; simp at hj
        · simp only [setPc_other _ _ hji] at hj; exact absurd (Or.inr (Or.inr hj)) (huniq j hji)
    · rw [if_neg hc] at h; simp only [Bool.false_eq_true, if_false, Option.some.injEq] at h; subst h
      have hc' : s.closed = false := by simpa using hc
      refine ⟨(by intro j hj; cases hj), inv.tags, (by intro h'; cases h'), ?_, ?_⟩
      · intro j hj
        by_cases hji : j = i
        · subst hji; exact hout
        · simp only [setPc_other _ _ hji] at hj; exact absurd hj (huniq j hji)
      · intro j hj
        by_cases hji : j = i
        · subst hji; exact ⟨inv.tagsOpen hc', rfl⟩
        · simp only [setPc_other _ _ hji] at hj; exact absurd (Or.inr (Or.inr hj)) (huniq j hji)
  -- closer, writing
  · split at h
    · simp only [Option.some.injEq] at h; subst h
      have hout := inv.outHolder i (Or.inr (Or.inr hp))
      have huniq : ∀ j, j ≠ i → ¬ (s.pc j = .hasOut ∨ s.pc j = .hasState ∨ s.pc j = .writing) := by
        intro j hji hj; have := inv.outHolder j hj; rw [hout] at this; exact hji (Option.some.inj this).symm
      have hw := inv.writingTags i hp
      refine ⟨(by intro j hj; cases hj), (by simp [hw.1]), (by intro h'; rw [hw.2] at h'; cases h'), ?_, ?_⟩
      · intro j hj
        by_cases hji : j = i
        · subst hji; simp at hj
        · simp only [setPc_other _ _ hji] at hj; exact absurd hj (huniq j hji)
      · intro j hj
        by_cases hji : j = i
        · subst hji; simp at hj
        · simp only [setPc_other _ _ hji] at hj; exact absurd (Or.inr (Or.inr hj)) (huniq j hji)
    · cases h
  -- reader, idle
  · split at h
    · simp only [Option.some.injEq] at h; subst h
      refine ⟨?_, inv.tags, inv.tagsOpen, ?_, ?_⟩
      · intro j hj; have := inv.holder j hj
        by_cases hji : j = i
        · subst hji; rw [hp] at this; cases this
        · simpa [setPc_other _ _ hji] using this
      · intro j hj
        by_cases hji : j = i
        · subst hji; simp at hj
        · simp only [setPc_other _ _ hji] at hj; exact inv.outHolder j hj
      · intro j hj
        by_cases hji : j = i
        · subst hji; simp at hj
        · simp only [setPc_other _ _ hji] at hj; exact inv.writingTags j hj
    · cases h

theorem inv_run (kind : Nat → Kind) (sched : List (Nat × Bool)) : ∀ s, RwLts.Inv s → RwLts.Inv (run false kind s sched) := by
  induction sched with
  | nil => intro s h; exact h
  | cons x xs ih =>
    intro s h
    obtain ⟨i, w⟩ := x
    simp only [run]
    cases hs : step false kind w s i with
    | none => exact ih s h
    | some s' => exact ih s' (inv_step kind w s s' i h hs)

end Rw

open RwLts in
/-- **a Close that is blocked writing the closing tag does not block the session's read
path**: for any goroutines and any schedule, whenever some closer is inside the connection write
(for as long as the transport makes it wait), nobody holds the state mutex, so every reader's
step (`lockReadCloser.Token`, `State()`) is enabled — `Serve` keeps reading, which on a
synchronous transport is what lets the peer make progress and the write complete -/
theorem C10_close_does_not_block_reads (kind : Nat → Kind) (sched : List (Nat × Bool)) (c r : Nat) (w : Bool)
    (hc : (run false kind init sched).pc c = .writing)
    (hr : kind r = .reader) (hri : (run false kind init sched).pc r = .idle) :
    (run false kind init sched).stateLock = none ∧ (step false kind w (run false kind init sched) r).isSome = true := by
  have inv := Rw.inv_run kind sched init Rw.inv_init
  have hfree : (run false kind init sched).stateLock = none := by
    cases hl : (run false kind init sched).stateLock with
    | none => rfl
    | some j =>
      have hj := inv.holder j hl
      have h1 := inv.outHolder j (Or.inr (Or.inl hj))
      have h2 := inv.outHolder c (Or.inr (Or.inr hc))
      rw [h1] at h2
      have : j = c := Option.some.inj h2
      subst this; rw [hc] at hj; cases hj
  refine ⟨hfree, ?_⟩
  simp [step, hr, hri, hfree]

open RwLts in
/-- the state mutex is only ever held by a closer whose next step needs nothing from the
environment (test and set the bit), and the closing tag is handed to the connection at most
once -/
theorem C10_state_mutex_held_briefly (kind : Nat → Kind) (sched : List (Nat × Bool)) (i : Nat)
    (hk : kind i = .closer) (h : (run false kind init sched).stateLock = some i) :
    (step false kind false (run false kind init sched) i).isSome = true ∧ (run false kind init sched).tags ≤ 1 := by
  have inv := Rw.inv_run kind sched init Rw.inv_init
  have hp := inv.holder i h
  refine ⟨?_, inv.tags⟩
  simp only [step, hk, hp]
  split <;> simp

open RwLts in
/-- negation witness for the lock shape before the repair (`stateMutex` held for the whole
body of `Close`): with the write blocked, the reader's step is disabled — `Serve` cannot read,
and on a synchronous transport whose peer is itself blocked writing nothing moves any more
(the hang behind the repository's flaky `TestResponseToTimedOutIQ`) -/
theorem C10_close_blocks_reads_old_shape :
    let kind : Nat → Kind := fun i => if i = 0 then .closer else .reader
    let s := run true kind init [(0, false), (0, false), (0, false), (0, false)]
    s.pc 0 = .writing ∧ step true kind false s 1 = none ∧ step true kind false s 0 = none := by
  decide

open RwLts in
example :
    let kind : Nat → Kind := fun i => if i = 0 then .closer else .reader
    let s := run false kind init [(0, false), (0, false), (0, false), (0, false)]
    s.pc 0 = .writing ∧ (step false kind false s 1).isSome = true := by
  decide

/-! ### A failing connection write -/

open WHist in
/-- once a close has been attempted — successfully or not — nothing changes any more -/
theorem wstep_closed (f : Option Nat) (s : WHist.St) (op : WHist.Op) (h : s.outClosed = true) :
    (WHist.step f s op).1 = s := by
  cases op <;> simp [WHist.step, h]

open WHist in
theorem wrun_closed (f : Option Nat) (ops : List WHist.Op) :
    ∀ s : WHist.St, s.outClosed = true → (WHist.run f s ops).1 = s := by
  induction ops with
  | nil => intro s _; rfl
  | cons op ops ih =>
    intro s h
    simp only [WHist.run]
    rw [wstep_closed f s op h]
    exact ih s h

open WHist in
/-- **one attempt**: whichever connection write fails, the closing tag is handed to the
connection at most once, and exactly once when the output is marked closed (the bit is set
before the write, so a failed close is still a close) -/
theorem C10_close_attempt_once (f : Option Nat) (ops : List WHist.Op) :
    (WHist.run f WHist.init ops).1.closeAttempts ≤ 1 ∧
    ((WHist.run f WHist.init ops).1.outClosed = true ↔ (WHist.run f WHist.init ops).1.closeAttempts = 1) := by
  have key : ∀ (ops : List WHist.Op) (s : WHist.St), s.outClosed = false → s.closeAttempts = 0 →
      (WHist.run f s ops).1.closeAttempts ≤ 1 ∧
      ((WHist.run f s ops).1.outClosed = true ↔ (WHist.run f s ops).1.closeAttempts = 1) := by
    intro ops
    induction ops with
    | nil => intro s h0 h1; simp [WHist.run, h0, h1]
    | cons op ops ih =>
      intro s h0 h1
      simp only [WHist.run]
      cases op with
      | tx =>
        have : (WHist.step f s .tx).1.outClosed = false ∧ (WHist.step f s .tx).1.closeAttempts = 0 := by
          simp only [WHist.step, h0, Bool.false_eq_true, if_false]
          split
          · exact ⟨h0, h1⟩
          · split <;> exact ⟨rfl, h1⟩
        exact ih _ this.1 this.2
      | close =>
        have hc : (WHist.step f s .close).1.outClosed = true ∧ (WHist.step f s .close).1.closeAttempts = 1 := by
          simp only [WHist.step, h0, Bool.false_eq_true, if_false]
          split <;> simp [h1]
        rw [wrun_closed f ops _ hc.1]
        simp [hc.1, hc.2]
  exact key ops WHist.init rfl rfl

open WHist in
/-- … and nothing at all is written after it -/
theorem C10_nothing_after_close_attempt (f : Option Nat) (ops1 ops2 : List WHist.Op)
    (h : (WHist.run f WHist.init ops1).1.outClosed = true) :
    (WHist.run f (WHist.run f WHist.init ops1).1 ops2).1 = (WHist.run f WHist.init ops1).1 :=
  wrun_closed f ops2 _ h

open WHist in
/-- after a flush failed the encoder is dead: every later transmit call fails without writing -/
theorem C10_dead_encoder (f : Option Nat) (s : WHist.St) (hd : s.encDead = true) (ho : s.outClosed = false) :
    WHist.step f s .tx = (s, .ioErr) := by
  simp [WHist.step, hd, ho]


/-! ### round 6: `Serve` returns nil only when the peer closed its stream -/

open Hist in
/-- once `Serve` has returned its result never changes -/
theorem Hist.serve_final (s : Hist.St) (op : Op) (h1 : s.serve ≠ .running) (h2 : s.serve ≠ .notStarted) :
    (step s op).1.serve = s.serve := by
  have hb : (s.serve == Ret.running) = false := by simpa using h1
  have hn : (s.serve == Ret.notStarted) = false := by simpa using h2
  cases op <;> simp [step, hb, hn, h1, closeOut] <;> (try split) <;> simp_all

open Hist in
theorem Hist.run_serve_final : ∀ (ops : List Op) (s : Hist.St), s.serve ≠ .running → s.serve ≠ .notStarted →
    (run s ops).1.serve = s.serve := by
  intro ops
  induction ops with
  | nil => intro s _ _; rfl
  | cons op ops ih =>
    intro s h1 h2
    have h := Hist.serve_final s op h1 h2
    simp only [run]
    rw [ih _ (h ▸ h1) (h ▸ h2), h]

open Hist in
/-- one event: a running (or not yet started) `Serve` ends with nil exactly at the peer's
closing tag read under a context that has not expired; whatever a handler returns — `io.EOF`
itself, an error wrapping it or `io.ErrUnexpectedEOF`, joined errors, wrapped stream and stanza
errors — is never taken for that -/
theorem C10_step_nil_iff (s : Hist.St) (op : Op) (h : s.serve = .running ∨ s.serve = .notStarted) :
    (step s op).1.serve = .nil_ ↔ (op = .peerClose ∧ s.serve = .running ∧ s.ctxPast = false) := by
  rcases h with h | h
  · cases op <;> by_cases hc : s.ctxPast = true <;> by_cases ho : s.outClosed = true <;>
      simp [step, h, serveReturns, closeOut, hc, ho]
    all_goals (try (split <;> simp [h]))
    all_goals (try (rename_i k; cases k <;> simp_all [HErr.ret]))
  · cases op <;> simp [step, h, serveReturns, closeOut] <;> (try split) <;> simp_all

open Hist in
theorem Hist.nil_iff_aux : ∀ (ops : List Op) (s : Hist.St), (s.serve = .running ∨ s.serve = .notStarted) →
    ((run s ops).1.serve = .nil_ ↔
      ∃ pre post, ops = pre ++ Op.peerClose :: post ∧ (run s pre).1.serve = .running ∧
        (run s pre).1.ctxPast = false) := by
  intro ops
  induction ops with
  | nil =>
    intro s h
    constructor
    · intro hn; rcases h with h | h <;> simp [run, h] at hn
    · rintro ⟨pre, post, he, _⟩; simp at he
  | cons op ops ih =>
    intro s h
    simp only [run]
    by_cases hs : (step s op).1.serve = .running ∨ (step s op).1.serve = .notStarted
    · rw [ih _ hs]
      constructor
      · rintro ⟨pre, post, he, hr, hc⟩
        exact ⟨op :: pre, post, by simp [he], by simpa [run] using hr, by simpa [run] using hc⟩
      · rintro ⟨pre, post, he, hr, hc⟩
        cases pre with
        | nil =>
          simp only [List.nil_append, List.cons.injEq] at he
          have : (step s op).1.serve = .nil_ := (C10_step_nil_iff s op h).mpr ⟨he.1, by simpa [run] using hr, by simpa [run] using hc⟩
          rcases hs with hs | hs <;> simp [this] at hs
        | cons a pre =>
          simp only [List.cons_append, List.cons.injEq] at he
          obtain ⟨rfl, he⟩ := he
          exact ⟨pre, post, he, by simpa [run] using hr, by simpa [run] using hc⟩
    · have h1 : (step s op).1.serve ≠ .running := fun e => hs (Or.inl e)
      have h2 : (step s op).1.serve ≠ .notStarted := fun e => hs (Or.inr e)
      rw [Hist.run_serve_final ops _ h1 h2, C10_step_nil_iff s op h]
      constructor
      · rintro ⟨rfl, hr, hc⟩
        exact ⟨[], ops, rfl, by simpa [run] using hr, by simpa [run] using hc⟩
      · rintro ⟨pre, post, he, hr, hc⟩
        cases pre with
        | nil =>
          simp only [List.nil_append, List.cons.injEq] at he
          exact ⟨he.1, by simpa [run] using hr, by simpa [run] using hc⟩
        | cons a pre =>
          simp only [List.cons_append, List.cons.injEq] at he
          obtain ⟨rfl, _⟩ := he
          have : (run (step s op).1 pre).1.serve = (step s op).1.serve := Hist.run_serve_final pre _ h1 h2
          simp only [run] at hr
          rw [this] at hr
          exact absurd hr h1

open Hist in
/-- **`Serve` returns nil iff the peer closed its stream**: in every history — any interleaving
of Close, transmit calls, reads, deadlines, peer input and handlers returning any value of the
alphabet (identical `io.EOF`, wrapped `io.EOF`, wrapped `io.ErrUnexpectedEOF`, joined errors,
wrapped stream and stanza errors), `Serve` started at the beginning or later — the result of
`Serve` is nil exactly when the history contains a peer close that `Serve` was still running
to see (under a context that had not expired) -/
theorem C10_serve_nil_iff_peer_close (serve : Bool) (ops : List Op) :
    (run (init serve) ops).1.serve = .nil_ ↔
      ∃ pre post, ops = pre ++ Op.peerClose :: post ∧ (run (init serve) pre).1.serve = .running ∧
        (run (init serve) pre).1.ctxPast = false :=
  Hist.nil_iff_aux ops (init serve) (by cases serve <;> simp [init])

open Hist in
/-- no handler return value ends `Serve` cleanly, whatever it wraps … -/
theorem C10_handler_never_ends_cleanly (s : Hist.St) (k : HErr) :
    (step s (.handlerFails k)).1.serve = .nil_ → s.serve = .nil_ := by
  intro h
  by_cases hr : s.serve = .running ∨ s.serve = .notStarted
  · have := (C10_step_nil_iff s _ hr).mp h
    simp at this
  · have h1 : s.serve ≠ .running := fun e => hr (Or.inl e)
    have h2 : s.serve ≠ .notStarted := fun e => hr (Or.inr e)
    rw [Hist.serve_final s _ h1 h2] at h
    exact h

/-- … which is a statement about `==`: classified with `errors.Is(err, io.EOF)` a handler error
that wraps `io.EOF` (or joins it) would be taken for the peer's close -/
theorem C10_serve_nil_fails_with_errors_is :
    Hist.HErr.retIs .wrapEof = .nil_ ∧ Hist.HErr.retIs .joinEof = .nil_ ∧
    Hist.HErr.ret .wrapEof = .handlerErr ∧ Hist.HErr.ret .joinEof = .handlerErr := by decide


/-! ### round 5: transmit calls and the connection's deadlines -/

open ConnDl in
/-- **probe fact** (round E; replaces the source facts `deadlineSetters` /
`transmitDeadlineSetters`, which named the unexported helpers `setWriteDeadline` / `setDeadline`):
every transmit entry point of the probe table (all 22 families and the token writer's methods) is
run on a real session whose connection records every deadline call, with a context that outlives
the call and with a context that is cancelled while the connection write is blocked.  Whatever the
helper is called and however it is spelled, the only setter a transmit call ever uses is
`SetWriteDeadline` — the watcher of the model is the write-only one — and with a live context it
uses none. -/
theorem C10_probe_transmit_setters :
    ∃ t, Generated.C10.transmitSetterProbe = some t ∧
      (∀ r ∈ t, r.2.1 = [] ∧ ∀ n ∈ r.2.2, setterOf n = some Setter.write) ∧
      -- non-vacuity: the calls that take a context did use the setter when it ended
      (t.filter (fun r => r.2.2 == ["SetWriteDeadline"])).length = 23 :=
  ⟨_, rfl, by decide, by decide⟩

open ConnDl in
/-- **probe fact**: `SetCloseDeadline` moves the read deadline and nothing else -/
theorem C10_probe_close_deadline_setter :
    ∃ l, Generated.C10.closeDeadlineSetterProbe = some l ∧ l ≠ [] ∧ ∀ n ∈ l, setterOf n = some Setter.read :=
  ⟨_, rfl, by decide, by decide⟩

open ConnDl in
theorem ConnDl.run_write_rd : ∀ (evs : List Ev) (s : St),
    (run .write s evs).rd = match lastClose evs with | some t => .at t | none => s.rd := by
  intro evs
  induction evs with
  | nil => intro s; rfl
  | cons e es ih =>
    intro s
    cases e with
    | closeDeadline t =>
      simp only [run, step, lastClose]
      rw [ih]
      cases lastClose es <;> simp [setDl, Option.orElse]
    | transmit b =>
      simp only [run, step, lastClose]
      rw [ih]
      cases b <;> simp [watcher, setDl]

open ConnDl in
/-- **a transmit call never moves the deadline of `Serve`'s read**: whatever transmit calls are
abandoned (context over while the write is blocked) or complete, in any number and order, and
whatever close deadlines are installed in between, the read deadline in force is the last one
`SetCloseDeadline` installed (the initial one if there was none) -/
theorem C10_transmit_keeps_read_deadline (evs : List Ev) (s : St) :
    (run .write s evs).rd = match lastClose evs with | some t => .at t | none => s.rd :=
  ConnDl.run_write_rd evs s

open ConnDl in
/-- in particular: close deadline `t`, then any number of transmit calls with contexts that end
or not: `Serve`'s blocked read ends at `t`, not earlier, not never -/
theorem C10_abandoned_transmit_serve_ends_at_close_deadline (t : Nat) (es : List Bool) (s : St) :
    readEnds (run .write s (.closeDeadline t :: es.map .transmit)) = some t := by
  have h : ∀ es : List Bool, lastClose (es.map Ev.transmit) = none := by
    intro es; induction es with
    | nil => rfl
    | cons b bs ih => simpa [lastClose] using ih
  rw [readEnds, ConnDl.run_write_rd]
  simp [lastClose, h, Option.orElse]

open ConnDl in
/-- the setter calls a guarded transmit call adds never touch the read deadline -/
theorem C10_transmit_calls_write_setter_only (e : Bool) (s : St) :
    ∃ l, (watcher .write e s).log = s.log ++ l ∧ ∀ c ∈ l, movesRead c.1 = false := by
  cases e
  · exact ⟨[], by simp [watcher], by simp⟩
  · exact ⟨[(.write, .past), (.write, .zero)], by simp [watcher, setDl], by simp [movesRead]⟩

open ConnDl in
/-- the statement is about the write-only watcher: one that moves the whole deadline
(`SetDeadline`) makes `Serve`'s read fail at once while the transmit call is given up, and
afterwards wipes the close deadline so that `Serve` never returns -/
theorem C10_transmit_whole_deadline_breaks_serve (t : Nat) :
    readEnds (setDl .both .past (run .both init [.closeDeadline t])) = some 0 ∧
    readEnds (run .both init [.closeDeadline t, .transmit true]) = none ∧
    ∃ c ∈ (run .both init [.closeDeadline t, .transmit true]).log, c.1 = .both ∧ movesRead c.1 = true := by
  refine ⟨rfl, rfl, (.both, .past), ?_, rfl, rfl⟩
  simp [run, step, watcher, setDl, init]


/-! ### Round D: the session in its environment

Sessions negotiated with `TeeIn`/`TeeOut` (every write goes through `io.MultiWriter(conn, tee)`),
transports that honour write deadlines, and token readers held across the end of `Serve`. -/

/-- **tee'd sessions, every history, every way the tee writer fails** (`fails i`: it fails during
operation `i` — from some point on, once, intermittently): the connection sees the closing tag at
most once, exactly once iff the output is marked closed (whatever `Close` reported: a failing tee
makes it report an error although the tag is on the wire), and nothing follows it. -/
theorem C10_tee_close_once (fails : Nat → Bool) (ops : List Tee.Op) :
    let s := (Tee.run false fails 0 Tee.init ops).1
    Tee.closeCount s.wire ≤ 1 ∧ s.attempts = Tee.closeCount s.wire ∧
    (s.outClosed = true ↔ Tee.closeCount s.wire = 1) ∧ Tee.final s.wire = true := by
  intro s
  have h : Tee.Inv s := Tee.run_inv fails ops 0 Tee.init Tee.inv_init
  have hf := Tee.inv_final s h
  refine ⟨?_, h.count.symm, ?_, hf⟩
  · rw [h.count]
    cases hc : s.outClosed
    · rw [h.opn hc]; omega
    · rw [(h.cls hc).1]; omega
  · rw [h.count]
    constructor
    · intro hc; exact (h.cls hc).1
    · intro h1
      cases hc : s.outClosed
      · rw [h.opn hc] at h1; omega
      · rfl

/-- once the output of a tee'd session is marked closed no operation reaches the connection
(with or without a failing tee), and transmit calls get the output-closed error -/
theorem C10_tee_final (tf : Bool) (s : Tee.St) (op : Tee.Op) (h : s.outClosed = true) :
    (Tee.step false tf s op).1.wire = s.wire ∧ (Tee.step false tf s op).1.attempts = s.attempts ∧
    (op = .tx → (Tee.step false tf s op).2 = .closedOut) := by
  cases op <;> simp [Tee.step, Tee.closeOut, h]
  by_cases hs : s.served = true <;> simp [hs, h]

/-- NOT the code (negation witness): a `teeConn.Write` that retries on the connection when the
multi-writer reports an error puts the closing tag on the wire twice as soon as the TEE is what
failed — `io.MultiWriter` writes to the connection first — and `Close` returns nil -/
theorem C10_tee_fallback_writes_tag_twice :
    (Tee.run true (fun _ => true) 0 Tee.init [.close]).1.wire = [.close, .close] ∧
    (Tee.run true (fun _ => true) 0 Tee.init [.close]).2 = [.ok] ∧
    Tee.final (Tee.run true (fun _ => true) 0 Tee.init [.close]).1.wire = false := by decide

/-- **probe fact** (real sessions negotiated by `xmpp.NewNegotiator` with no tee / a working tee /
a `TeeOut` writer that fails when the session is closed; `Close`, `Close` twice, `Serve`'s own
shutdown): closing tags seen by the connection, results of the closing calls and the closed bit
are what `Tee` computes — one tag, the tee's error reported, the second `Close` nil -/
theorem C10_probe_tee_close : Generated.C10.teeCloseProbe = some (Tee.probeTable false) := by decide

/-- the probe tells the two shapes apart: with the fallback write the failing-tee row has two tags -/
theorem C10_probe_tee_close_fallback_differs : Tee.probeTable true ≠ Tee.probeTable false := by decide

/-- non-vacuity: a tee that fails from the second operation on; the element of the failing
transmit call is on the wire, the encoder is dead, the tag is written once -/
example : (Tee.run false (fun i => decide (1 ≤ i)) 0 Tee.init [.tx, .tx, .tx, .close, .peerClose, .close]) =
    (⟨true, true, true, 1, [.el, .el, .close]⟩, [.ok, .ioErr, .ioErr, .ioErr, .ok, .ok]) := by decide

/-- **write deadlines, every history of transmit calls (context alive, over before the call,
cancelled while the write is blocked) and `Close`**: with the joined watcher the connection's
write deadline is never left in the past; hence the closing tag is written exactly once iff the
output is marked closed — the first `Close` always gets it through — and at most once. -/
theorem C10_write_deadline_cleared (ops : List WdHist.Op) :
    let s := (WdHist.run true WdHist.init ops).1
    s.wdPast = false ∧ Hist.closeCount s.wire = s.tags ∧ s.tags ≤ 1 ∧ (s.outClosed = true ↔ s.tags = 1) := by
  intro s
  have h : WdHist.Inv s := WdHist.run_inv ops WdHist.init WdHist.inv_init
  refine ⟨h.wd, h.count, ?_, ?_⟩
  · cases hc : s.outClosed
    · rw [h.opn hc]; omega
    · rw [h.cls hc]; omega
  · constructor
    · exact h.cls
    · intro h1
      cases hc : s.outClosed
      · rw [h.opn hc] at h1; omega
      · rfl

/-- NOT the code (negation witness): a watcher whose "past" call is not waited for before the
cleanup clears the deadline (`context.AfterFunc`, `stop()` returning false only says the callback
was started).  One send with a context that was already over, and the session can never write
its closing tag: `Close` marks the output closed, the write times out, every later `Close`
returns nil. -/
theorem C10_unjoined_watcher_loses_closing_tag :
    (WdHist.run false WdHist.init [.tx .over, .close, .close]) =
      (⟨true, false, true, 0, [.el], false⟩, [.ok, .failed, .ok]) := by decide

/-- NOT the code (negation witness, round F): `closeSession` using the close deadline as write
deadline of the closing tag.  `SetCloseDeadline(t)`, `t` passes, `Close`: the output is marked
closed, the tag is never written, the next `Close` returns nil — on a healthy transport.  In the
code (`C10_write_deadline_cleared`, which quantifies over histories WITH close deadlines) the close
deadline never touches the write side. -/
theorem C10_close_deadline_as_write_deadline_loses_tag :
    (WdHist.runBounded WdHist.init [.closeDeadline true, .close, .close]) =
      (⟨true, false, false, 0, [], true⟩, [.ok, .failed, .ok]) ∧
    (WdHist.run true WdHist.init [.closeDeadline true, .close, .close]) =
      (⟨true, false, false, 1, [.close], true⟩, [.ok, .ok, .ok]) := by decide

/-- **probe fact** (real session on a transport that honours the write deadline, deadline calls
scheduled adversarially: a "past" call is held until somebody clears the deadline): for every
entry point that takes a context and every fate of that context — result, only "past, clear"
pairs of `SetWriteDeadline`, deadline cleared at return, one closing tag from a following `Close` —
equal to what `WdHist` computes for the joined watcher -/
theorem C10_probe_write_deadline : Generated.C10.writeDeadlineProbe = some (WdHist.probeTable true) := by decide

theorem C10_probe_write_deadline_unjoined_differs : WdHist.probeTable false ≠ WdHist.probeTable true := by decide

open ConnDl in
/-- the two orders of the watcher's calls on the connection: "past, clear" leaves the write
deadline cleared and the read deadline alone; "clear, past" leaves it in the past -/
theorem C10_watcher_call_order (s : St) :
    (watcher .write true s).wd = .zero ∧ (watcher .write true s).rd = s.rd ∧
    (setDl .write .past (setDl .write .zero s)).wd = .past := by
  simp [watcher, setDl]

example : (WdHist.run true WdHist.init [.tx .over, .tx .cancelled, .tx .alive, .close, .close]) =
    (⟨true, true, false, 1, [.el, .close], false⟩, [.ok, .failed, .failed, .ok, .ok]) := by decide

/-- **a token reader held across the end of `Serve`, every schedule** of the holder (take a
reader, read, give it back, take another) and of `Serve`'s shutdown: if the reader tests the
closed bit on every token, or the shutdown takes the input lock before it sets the bit (the code
does both), no token is handed out after `Serve` has returned. -/
theorem C10_no_token_after_serve_returned (perToken shutdownLocks : Bool)
    (h : (perToken || shutdownLocks) = true) (acts : List RdLts.Act) :
    (RdLts.run perToken shutdownLocks RdLts.init acts).bad = false := by
  cases perToken
  · cases shutdownLocks
    · simp at h
    · exact (RdLts.run_invL acts _ RdLts.invL_init).bad
  · exact (RdLts.run_invP shutdownLocks acts _ RdLts.invP_init).bad

/-- with the input lock taken by the shutdown (and even if the reader only cached the bit): while
a reader is held the shutdown is never inside `closeInputStream`, and what the reader cached is
the current value of the bit -/
theorem C10_held_reader_cache_is_current (acts : List RdLts.Act) (c : Bool)
    (hh : (RdLts.run false true RdLts.init acts).hpc = .holding c) :
    c = (RdLts.run false true RdLts.init acts).bit ∧
    (RdLts.run false true RdLts.init acts).spc ≠ .locked ∧ (RdLts.run false true RdLts.init acts).spc ≠ .marked := by
  have h := RdLts.run_invL acts _ RdLts.invL_init
  have hl := h.hold c hh
  refine ⟨hl.2, ?_, ?_⟩
  · intro hs; have := h.srv (Or.inl hs); rw [hl.1] at this; cases this
  · intro hs; have := h.srv (Or.inr hs); rw [hl.1] at this; cases this

example : (RdLts.run false true RdLts.init [.hAcquire, .sStep, .hRead]).hpc = .holding false := by decide

/-- NOT the code (negation witness): the bit cached when the reader was created AND a shutdown
that does not take the input lock — `Serve` returns while the reader is open and the reader goes
on handing out tokens -/
theorem C10_cached_bit_unlocked_shutdown_leaks_tokens :
    (RdLts.run false false RdLts.init [.hAcquire, .sStep, .sStep, .sStep, .hRead]).bad = true ∧
    (RdLts.run false false RdLts.init [.hAcquire, .sStep, .sStep, .sStep, .hRead]).spc = .done := by decide

/-- non-vacuity: with per-token tests alone `Serve` does return while the reader is held, and the
read then fails -/
example : (RdLts.run true false RdLts.init [.hAcquire, .hRead, .sStep, .sStep, .sStep, .hRead]) =
    ⟨true, some .h, .holding false, .done, 1, false⟩ := by decide

/-! ### Round E: the framing of the stream (`internal/stream/stream.go`: `Send`, `Close`, `Reader`)

"The closing stream tag" is the closing element of the framing the stream header was written in:
`</stream:stream>` on TCP, `<close xmlns="urn:ietf:params:xml:ns:xmpp-framing"/>` with the
WebSocket subprotocol; "the peer closes its stream" is the closing element of that framing
arriving.  `Framing.run` maps every concrete event to the event of the history machine it is for
a session of framing `f`, so every `Hist` theorem holds for every framing; these theorems add
which element is written and which peer event ends `Serve`. -/

open Framing in
/-- `intstream.Close` after `intstream.Send`: the closing element is the one of the header's framing -/
theorem C10_framing_close_elem (f : Fr) : closeElem (sendName true f) = f := by cases f <;> rfl

open Framing in
theorem framing_closeCount (records : Bool) (f : Fr) (w : List Hist.Item) :
    Framing.closeCount (w.map (render records f)) = Hist.closeCount w := by
  unfold Framing.closeCount Hist.closeCount
  rw [List.filter_map, List.length_map]
  congr 1
  apply List.filter_congr
  intro x _
  cases x <;> rfl

open Framing in
theorem framing_countOf_own (f : Fr) (w : List Hist.Item) :
    countOf f (w.map (render true f)) = Hist.closeCount w := by
  unfold countOf Hist.closeCount
  rw [List.filter_map, List.length_map]
  congr 1
  apply List.filter_congr
  intro x _
  cases x <;> cases f <;> rfl

open Framing in
/-- **idempotent, in every framing, every history** (any order and multiplicity of `Close`,
transmit calls, peer stanzas, handler errors, the peer's closing element of EITHER framing …): at
most one closing element of either framing reaches the connection, and it is never the closing
element of the other framing. -/
theorem C10_framed_close_once (serve : Bool) (f : Fr) (ops : List Framing.Op) :
    Framing.closeCount (wire true f (Framing.run true f (Hist.init serve) ops).1) ≤ 1 ∧
    ∀ g, Tag.close g ∈ wire true f (Framing.run true f (Hist.init serve) ops).1 → g = f := by
  constructor
  · unfold wire Framing.run
    rw [framing_closeCount]
    exact C10_hist_close_once serve _
  · intro g hg
    unfold wire at hg
    obtain ⟨it, _, hit⟩ := List.mem_map.mp hg
    cases it with
    | el => simp [render] at hit
    | close =>
      simp only [render, C10_framing_close_elem] at hit
      injection hit with h
      exact h.symm

open Framing in
/-- … and exactly one closing element OF THE STREAM'S FRAMING after any `Close`, whatever
precedes and follows it -/
theorem C10_framed_close_exactly_once (serve : Bool) (f : Fr) (ops1 ops2 : List Framing.Op) :
    countOf f (wire true f (Framing.run true f (Hist.init serve) (ops1 ++ .base .close :: ops2)).1) = 1 := by
  unfold wire Framing.run
  rw [framing_countOf_own, List.map_append, List.map_cons]
  exact C10_hist_close_exactly_once serve _ _

open Framing in
/-- which concrete peer events are "the peer closes its stream" for a session of framing `f`:
the closing element of that framing, and no other -/
theorem C10_framed_peer_close_is_own_framing (f : Fr) (op : Framing.Op) :
    tr true f op = .peerClose ↔ (op = .base .peerClose ∨ op = .peerEnds f) := by
  cases op with
  | base o => simp [tr]
  | peerEnds g => cases f <;> cases g <;> simp [tr, peerEnd]

open Framing in
/-- **`Serve` returns nil only when the peer closed its stream in the stream's framing**, every
history: the closing element of the other framing never ends `Serve` cleanly (on TCP it is an
element for the handler, with the WebSocket subprotocol `</stream:stream>` is not well-formed) -/
theorem C10_framed_serve_nil_only_on_own_close (serve : Bool) (f : Fr) (ops : List Framing.Op)
    (h : (Framing.run true f (Hist.init serve) ops).1.serve = .nil_) :
    ∃ op ∈ ops, op = .base .peerClose ∨ op = .peerEnds f := by
  obtain ⟨pre, post, he, _, _⟩ := (C10_serve_nil_iff_peer_close serve _).mp h
  have hm : Hist.Op.peerClose ∈ ops.map (tr true f) := by rw [he]; simp
  obtain ⟨op, hop, htr⟩ := List.mem_map.mp hm
  exact ⟨op, hop, (C10_framed_peer_close_is_own_framing f op).mp htr⟩

/-- non-vacuity / the positive direction on the shortest history, both framings: the closing
element of the own framing ends `Serve` with nil, both directions closed, own closing element
written once; the other framing's does not -/
example : ∀ f : Framing.Fr,
    (Framing.run true f (Hist.init true) [.peerEnds f]).1.serve = .nil_ ∧
    Framing.wire true f (Framing.run true f (Hist.init true) [.peerEnds f]).1 = [.close f] := by
  intro f; cases f <;> decide
example : (Framing.run true .tcp (Hist.init true) [.peerEnds .ws]).1.serve = .running ∧
    (Framing.run true .ws (Hist.init true) [.peerEnds .tcp]).1.serve = .garbage := by decide

/-- NOT the code any more (negation witness, the defect repaired by `fix: a WebSocket session is
closed with </stream:stream> instead of <close/>`): `Send` not recording the framing — `Close` on
a WebSocket session writes the TCP closing tag -/
theorem C10_ws_closed_with_tcp_tag_unrecorded :
    Framing.wire false .ws (Framing.run true .ws (Hist.init true) [.base .close]).1 = [.close .tcp] := by decide

/-- NOT the code any more (negation witness, `fix: sessions negotiated with the WebSocket
subprotocol are not marked as such …`): on an unmarked session the peer's `<close/>` is handed to
the handler and `Serve` keeps running -/
theorem C10_ws_peer_close_ignored_unmarked :
    (Framing.run false .ws (Hist.init true) [.peerEnds .ws]).1.serve = .running := by decide

/-- **probe fact**: real sessions negotiated by `xmpp.NewNegotiator` and `websocket.Negotiator`
in the initiating and in the receiving role × eight closing paths (`Close`, twice, the peer's
closing element of either framing with `Serve` running, then `Close`, a handler error, `Close`
before the peer's own closing element): closing elements of either framing the connection saw,
`Serve`'s result, both closed bits — equal to the table the model computes (which does not depend
on the role). -/
theorem C10_probe_framing_close :
    Generated.C10.framingCloseProbe = some (Framing.probeTable true true) := by decide

/-- the probe tells the repaired code from both defective shapes -/
theorem C10_probe_framing_old_shapes_differ :
    Framing.probeTable false true ≠ Framing.probeTable true true ∧
    Framing.probeTable true false ≠ Framing.probeTable true true := by decide

/-! ### Round E: `Serve` as a thread (`SrvLts`): it returns, and it is never stuck for good

`SrvLts` has the `Serve` goroutine with explicit control points (the read under the input lock,
the handler and its writer taking the output lock while the input lock is held, `sendError`,
`closeInputStream`: input lock then state mutex, the deferred `Close`: output lock), any number
of application goroutines holding a token reader / a token writer / calling `Close` or a
transmit function, the peer and the clock.  A schedule is any list of actions. -/

open SrvLts in
/-- **`Serve` returns** (the clause a sequential history cannot express): in EVERY reachable
state — any schedule of `Serve`, application goroutines, peer input, the deadline, with or
without ill-behaved nesting — in which the peer's closing element has been delivered (or `Serve`
is already in its shutdown) and no application goroutine holds the input or the output lock,
`Serve`'s return is reached by steps of `Serve` alone, within `rankS` steps; and it leaves both
directions marked closed and exactly one closing tag on the wire, the last item. -/
theorem C10_serve_returns_when_peer_closed (nest : Bool) (acts : List Act)
    (hf : (run nest init acts).inLock ≠ .app ∧ (run nest init acts).outLock ≠ .app)
    (hd : (run nest init acts).pending = some .close ∨ inShutdown (run nest init acts).spc = true)
    (hs : (run nest init acts).spc ≠ .notStarted) :
    ∃ r, let s' := serveRun (rankS (run nest init acts)) (run nest init acts)
      s'.spc = .returned r ∧ s'.inClosed = true ∧ s'.outClosed = true ∧
      ∃ pre, s'.wire = pre ++ [.close] ∧ closeCount pre = 0 := by
  have inv := inv_run nest acts init inv_init
  obtain ⟨r, hr⟩ := returns _ _ inv (Nat.le_refl _) hf hd hs
  have inv' := inv_serveRun (rankS (run nest init acts)) _ inv
  have hb := inv'.ret r hr
  exact ⟨r, hr, hb.1, hb.2, inv'.shut hb.2⟩

/-- non-vacuity: `Serve` reading, a stanza answered by the handler, an application `Close` in
between, then the peer's closing element: all hypotheses hold, `Serve` returns nil, wire
`el, close` -/
example :
    let s := SrvLts.run false SrvLts.init [.start, .serve, .serve, .deliver (.stanza true), .serve, .serve, .serve,
      .appAcquireOut, .appCloseSession, .appReleaseOut, .deliver .close]
    (s.inLock ≠ .app ∧ s.outLock ≠ .app) ∧ s.pending = some .close ∧ s.spc = .handling ∧
    (SrvLts.serveRun (SrvLts.rankS s) s).spc = .returned .nil_ ∧
    (SrvLts.serveRun (SrvLts.rankS s) s).wire = [.el, .close] := by decide

open SrvLts in
/-- **no deadlock between `Serve`'s shutdown, the handler's writer and the application**
(lock order input → state → output, review B.4): for well-behaved application goroutines (each
holds at most one of the two locks and does not wait while holding it), in every reachable state
in which `Serve` cannot move it has not been started, has returned, is waiting for the peer or
the deadline inside its read, or waits for a lock whose holder can release it at once — and then
`Serve` can move. -/
theorem C10_serve_never_stuck (acts : List Act) (h : serveStep (run false init acts) = none) :
    (run false init acts).spc = .notStarted ∨ (∃ r, (run false init acts).spc = .returned r) ∨
    ((run false init acts).spc = .reading ∧ (run false init acts).pending = none ∧ (run false init acts).expired = false) ∨
    (∃ s', (step false (run false init acts) .appReleaseIn = some s' ∨
            step false (run false init acts) .appReleaseOut = some s') ∧ serveStep s' ≠ none) :=
  never_stuck _ (inv_run false acts init inv_init) (run_pinned acts init rfl) h

/-- NOT well-behaved (negation witness): an application goroutine that holds a token writer and
asks for a token reader while a handler that holds the input lock wants to reply — `Serve` and
the application wait for each other for good.  (An application-level deadlock the library cannot
prevent; it is the reason for the hypothesis of `C10_serve_never_stuck`.) -/
theorem C10_nested_application_locks_deadlock :
    let s := SrvLts.run true SrvLts.init [.start, .serve, .serve, .appAcquireOut, .appNest, .deliver (.stanza true), .serve]
    s.spc = .wantOut ∧ SrvLts.serveStep s = none ∧ SrvLts.step true s .appReleaseOut = none ∧
    SrvLts.step true s .appNestAcquire = none ∧ SrvLts.step true s .appReleaseIn = none := by decide

open SrvLts in
/-- **idempotent and final, with `Serve` as a thread**: every schedule (also with ill-behaved
nesting): at most one closing tag, nothing after it; once `Serve` has returned both directions
are marked closed and the tag is there -/
theorem C10_srv_close_once_final (nest : Bool) (acts : List Act) :
    closeCount (run nest init acts).wire ≤ 1 ∧
    (∀ pre post, (run nest init acts).wire = pre ++ .close :: post → post = []) ∧
    (∀ r, (run nest init acts).spc = .returned r →
      (run nest init acts).inClosed = true ∧ (run nest init acts).outClosed = true ∧
      closeCount (run nest init acts).wire = 1) := by
  have inv := inv_run nest acts init inv_init
  have hcnt : ∀ (h : (run nest init acts).outClosed = true), closeCount (run nest init acts).wire = 1 := by
    intro h
    obtain ⟨p, hw, hp⟩ := inv.shut h
    rw [hw, closeCount_append, hp]; rfl
  refine ⟨?_, ?_, ?_⟩
  · cases hc : (run nest init acts).outClosed with
    | true => rw [hcnt hc]; exact Nat.le_refl 1
    | false => rw [inv.open_ hc]; exact Nat.zero_le 1
  · intro pre post hw
    cases hc : (run nest init acts).outClosed with
    | false =>
      have := inv.open_ hc
      rw [hw, closeCount_append] at this
      simp [closeCount] at this
    | true =>
      obtain ⟨p, hw', hp⟩ := inv.shut hc
      rcases List.eq_nil_or_concat post with hnil | ⟨post', x, hx⟩
      · exact hnil
      · exfalso
        rw [hx, hw'] at hw
        have hw2 : p ++ [Item.close] = (pre ++ .close :: post') ++ [x] := by simpa using hw
        have := (List.append_inj' hw2 rfl).1
        rw [this, closeCount_append] at hp
        simp [closeCount] at hp
  · intro r hr
    have hb := inv.ret r hr
    exact ⟨hb.1, hb.2, hcnt hb.2⟩

/-! ### Round G: a transmit call queued behind a `Close` that is blocked in its write -/

/-- **probe fact** (real session; the connection's `Write` blocks as on a transport whose peer does
not read, and honours the write deadline): `Close` is inside the connection write of the closing
tag, holding the output lock; a transmit call whose context is ALREADY OVER is issued and queues
for the lock.  While `Close` holds the lock the queued call makes no deadline call at all — the
context watcher (`ConnDl.watcher`) is started under the output lock, never before it —, so when the
peer reads again the tag is written exactly once and `Close` returns nil.  This is the hypothesis
under which the `Lts` lets a sender act on the connection only from `locked` on. -/
theorem C10_probe_queued_transmit_keeps_deadlines :
    ∃ t, Generated.C10.queuedTransmitProbe = some t ∧ t.length = 7 ∧
      ∀ r ∈ t, r.2.1 = [] ∧ r.2.2.1 = 1 ∧ r.2.2.2 = "ok" :=
  ⟨_, rfl, by decide, by decide⟩

/-- NOT the code (negation witness): the watcher of a queued call with a done context acting
before the lock is taken — the write deadline is in the past when `Close` writes: marked closed,
no tag, ever (`WdHist` with a deadline left in the past) -/
theorem C10_watcher_before_lock_loses_closing_tag :
    (WdHist.step true { WdHist.init with wdPast := true } .close) =
      ({ WdHist.init with wdPast := true, outClosed := true }, .failed) := by decide

/-! ### Round H: `Serve` ending with a stream error of its own after the output was closed -/

/-- **probe fact**: `Close`, then `Serve` ends with an error it would report to the peer (a handler's
stream error too large for the encoder's buffer, a small one, a plain handler error, garbage, a large
stream error received from the peer): the connection sees no write after `Close` returned —
`sendError` hands nothing to the encoder once the output is closed (`Lts`: an `errSender` that finds
the bit set leaves at once; `Hist`: `serveReturns` on a closed output adds nothing to the wire). -/
theorem C10_probe_no_late_stream_error :
    ∃ t, Generated.C10.lateErrorProbe = some t ∧ t.length = 5 ∧ ∀ r ∈ t, r.2 = 0 :=
  ⟨_, rfl, by decide, by decide⟩

/-- the model's side, every kind of error ending: on a closed output `Serve`'s end adds nothing -/
theorem C10_hist_no_late_stream_error (s : Hist.St) (hc : s.outClosed = true) (r : Hist.Ret) :
    (Hist.serveReturns s r).wire = s.wire := by
  simp [Hist.serveReturns, Hist.closeOut, hc]

end XmppModel.Props.C10
