import XmppModel.Model.Serve
/-!
# C08 — handlers see one element at a time; stream-level input never reaches them

Property theorems only (helpers are in `Lemmas/Serve.lean`).  Quantifiers: every token list the
decoder can produce (in fact every token list), every handler program.
-/
namespace XmppModel.Props.C08
open XmppModel XmppModel.Xml XmppModel.Serve

/-- the peer's closing tag ends `Serve` without error and without any invocation, whatever
follows it and whatever the handlers are -/
theorem C08_peer_close (cfg : Cfg) (rest : List Tok) (progs : List Prog) :
    serve cfg (.stop ⟨nsStream, "stream"⟩ :: rest) progs
      = { invs := [], written := [], result := .clean } := by
  simp [serve, serveF, handleInputStream, RS.next, RS.init, verdict, nsStream]

end XmppModel.Props.C08
