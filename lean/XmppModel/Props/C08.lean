import XmppModel.Model.Serve
import XmppModel.Lemmas.Serve
import XmppModel.Lemmas.ServeView
import XmppModel.Lemmas.ServeNested
import XmppModel.Generated.C08
/-!
# C08 — handlers see one element at a time; stream-level input never reaches them

Property theorems only (helpers are in `Lemmas/Serve.lean`).  Quantifiers: every token list the
decoder can produce (in fact every token list), every list of handler programs (any reads and
writes, any return value).
-/
namespace XmppModel.Props.C08
open XmppModel XmppModel.Xml XmppModel.Serve

/-! ### tie to the source: what counts as a keep-alive -/

/-- the set of characters the real serve path accepts between top-level elements (regenerated
on every run by running a real session on every Unicode scalar value) is exactly XML white
space — tab, line feed, carriage return, space — and that is the model's `isWsChar`: no
Unicode-only white space (U+00A0, U+0085, U+3000 …), no zero-width character -/
theorem C08_gen_whitespace :
    Generated.C08.topWhitespace = some [9, 10, 13, 32] ∧
    ∀ c : Char, isWsChar c = true ↔ c.toNat ∈ [9, 10, 13, 32] := by
  refine ⟨by decide, ?_⟩
  intro c
  have h : ∀ d : Char, (c == d) = true ↔ c.toNat = d.toNat := by
    intro d
    rw [beq_iff_eq]
    exact Char.toNat_inj.symm
  simp only [isWsChar, Bool.or_eq_true, h, List.mem_cons, List.not_mem_nil, or_false]
  have e1 : ' '.toNat = 32 := rfl
  have e2 : '\t'.toNat = 9 := rfl
  have e3 : '\r'.toNat = 13 := rfl
  have e4 : '\n'.toNat = 10 := rfl
  rw [e1, e2, e3, e4]
  omega

/-- **the reader's verdict table is the model's**: for every token kind (white space, text,
comment, processing instructions with target `xml`, `XML`, `xml-stylesheet` and another,
directive, stream error, stream restart, other stream-namespace element, ordinary element,
closing tag) at nesting depth 0, 1 and 2 of an established stream, the verdict observed on the
real reader (regenerated on every run through real sessions) is `verdict` of the model — in
particular an XML declaration is *not* skipped once the stream is established -/
theorem C08_gen_verdicts :
    ∃ t, Generated.C08.readerVerdicts = some t ∧ t.length = 70 ∧
      ∀ e ∈ t, factVerdict e.1 e.2.1 = some e.2.2 := by
  refine ⟨_, rfl, by decide, by decide⟩

/-- **the same on sessions that use the WebSocket subprotocol** (`Session.ws`, set when the
negotiation context carries the marker of the websocket package): the verdicts observed on real
sessions for the same 70 (kind, depth) pairs are the model's `verdict` on the relabelled input
(`wsTok true`): `<close/>` in the framing namespace (bare, prefixed, with attributes) is the end
of the stream at depth 0 and a restart at depth 1 and 2, every other framing element a restart at
every depth; an element named `close` in another namespace and everything else is as on TCP -/
theorem C08_gen_verdicts_ws :
    ∃ t, Generated.C08.readerVerdictsWs = some t ∧ t.length = 70 ∧
      (∀ e ∈ t, factVerdictW true e.1 e.2.1 = some e.2.2) ∧
      (∀ e ∈ t, factVerdictW true e.1 e.2.1 = factVerdict e.1 e.2.1 ∨
        e.1 ∈ ["framing-open", "framing-close", "framing-other", "framing-close-attrs"]) := by
  refine ⟨_, rfl, by decide, by decide, by decide⟩

/-- while a stream header is expected only white space and an XML declaration (target exactly
`xml`) may precede it; every other construct ends the negotiation with its error -/
theorem C08_gen_header_verdicts :
    Generated.C08.headerVerdicts = some [
      ("ws", "header-reached"), ("text", "chardata"), ("comment", "comment"),
      ("pi-xml", "header-reached"), ("pi-XML", "procinst"), ("pi-stylesheet", "procinst"),
      ("pi-x", "procinst"), ("directive", "directive")] := by decide

/-- **every `SetCloseDeadline` call replaces the input context** — tied to the source: for every
sequence of up to three calls (a time in the future, in the past, in the near future followed by
a wait) made by the handler of a real session, whether the session then gives up with the deadline
error before the next element (regenerated on every run, 40 rows) is the model's `expiredAfter` -/
theorem C08_gen_deadlines :
    ∃ t, Generated.C08.deadlineVerdicts = some t ∧ t.length = 40 ∧
      ∀ r ∈ t, expiredAfter r.1 false = r.2 := by
  refine ⟨_, rfl, by decide, by decide⟩

/-! ### whatever the output state is -/

/-- a step that does not begin with an element's start tag — every stream-level construct at
top level, a keep-alive, the closing tag, a decoder error — is the same whether the output is
open, was left inside an element by a partial write, or has been closed by the local side:
`Serve` returns the construct's error (nil for the closing tag) in all three cases (all the
`C08_top_*` theorems carry over) -/
theorem C08_stream_level_any_output_state (cfg : Cfg) (st : OutSt) (rs : RS) (prog : Prog)
    (h : ∀ n as rs1, ({ rs with dOut := 0, sticky := none } : RS).next ≠ (.tok (.start n as), rs1)) :
    handleInputStreamC cfg st rs prog = handleInputStream cfg rs prog := by
  unfold handleInputStreamC
  generalize hn : ({ rs with dOut := 0, sticky := none } : RS).next = r at h
  obtain ⟨rd, rs1⟩ := r
  cases rd with
  | tok t =>
    cases t with
    | start n as => exact absurd rfl (h n as rs1)
    | _ => rfl
  | err e => rfl
  | eof => rfl

/-- what reaches the wire from whole elements is what was handed to the encoder -/
theorem encWire_balanced : ∀ (ts : List Tok) (d d' : Nat), depthAfter d ts = some d' →
    encWire d ts = (d', false, ts) := by
  intro ts
  induction ts with
  | nil => intro d d' h; simp [depthAfter] at h; subst h; rfl
  | cons t ts ih =>
    intro d d' h
    cases t with
    | start n as => simp only [depthAfter] at h; simp [encWire, ih _ _ h]
    | stop n =>
      cases d with
      | zero => simp [depthAfter] at h
      | succ d => simp only [depthAfter] at h; simp [encWire, ih _ _ h]
    | chars s => simp only [depthAfter] at h; simp [encWire, ih _ _ h]
    | comment s => simp only [depthAfter] at h; simp [encWire, ih _ _ h]
    | procInst a b => simp only [depthAfter] at h; simp [encWire, ih _ _ h]
    | directive s => simp only [depthAfter] at h; simp [encWire, ih _ _ h]

/-- with the output open and a handler that does not close it and writes whole elements (or
nothing), the model with output states is the model of the other theorems, up to what the encoder lets through (`encWire`, the identity
on whole elements) -/
theorem C08_open_output (cfg : Cfg) (rs : RS) (prog : Prog) (hc : prog.close = false)
    (hb : leavesBroken (writesOf prog.ops) = false) :
    handleInputStreamC cfg .opn rs prog
      = (handleInputStream cfg rs prog).mapWritten fun w => (encWire 0 w).2.2 := by
  unfold handleInputStreamC handleInputStream
  generalize ({ rs with dOut := 0, sticky := none } : RS).next = r
  obtain ⟨rd, rs1⟩ := r
  cases rd with
  | tok t => cases t <;> simp [handleElemC, hc, hb, Step.mapWritten, encWire]
  | err e => simp [Step.mapWritten, encWire]
  | eof => simp [Step.mapWritten, encWire]

/-- in no state of the output does an element make `Serve` return nil: the step goes on to the
next element or ends with an error — the handler's, the error of an attempted write
(output-closed, output-broken), or the error of a stream-level construct inside the element -/
theorem C08_output_state_never_clean (cfg : Cfg) (st : OutSt) (n : Name) (as : List Attr) (rs1 : RS)
    (prog : Prog) (inv : Option Inv) (w : List Tok) :
    handleElemC cfg st n as rs1 prog ≠ .stop inv w .clean := by
  unfold handleElemC
  simp only
  generalize (if prog.close = true then OutSt.closed else st) = st1
  by_cases h1 : (st1 == OutSt.opn) = true
  · rw [if_pos h1]
    intro h
    split at h
    · simp at h
    · cases hx : handleElem cfg n as rs1 prog with
      | next i w' rs => simp [hx, Step.mapWritten] at h
      | stop i w' r =>
        simp [hx, Step.mapWritten] at h
        exact handleElem_never_clean cfg n as rs1 prog inv w' (by rw [hx, h.1, h.2.2])
  · rw [if_neg h1]
    split
    · repeat' split
      all_goals simp
    · intro h
      obtain ⟨w', hw⟩ := dropWritten_clean h
      exact handleElem_never_clean cfg n as rs1 prog inv w' hw

/-- **what `Serve` returns does not depend on the state of the output**: in every state — also
after a handler wrote only a start tag, or after the local side closed the stream — the peer's
closing tag makes `Serve` return nil … -/
theorem C08_peer_close_any_output_state (cfg : Cfg) (fuel : Nat) (st : OutSt) (rest : List Tok)
    (a : Nat) (progs : List Prog) :
    serveFC cfg (fuel + 1) st false { inp := .stop ⟨nsStream, "stream"⟩ :: rest, dIn := a, dOut := 0, sticky := none } progs
      = { invs := [], written := [], result := .clean } := by
  simp [serveFC, handleInputStreamC, handleInputStream, RS.next, verdict, nsStream]

/-- … and a received stream error is returned as that error, a comment as the comment error
(and likewise every other top-level construct, by `C08_stream_level_any_output_state`) -/
theorem C08_constructs_any_output_state (cfg : Cfg) (fuel : Nat) (st : OutSt) (as : List Attr) (rest : List Tok)
    (c : String) (hc : closes 0 rest = true) (hcond : seCond rest = some c) (cm : String) (progs : List Prog) :
    (serveFC cfg (fuel + 1) st false
        { inp := .start ⟨nsStream, "error"⟩ as :: rest, dIn := 0, dOut := 0, sticky := none } progs).result
      = .error (.streamError c) ∧
    (serveFC cfg (fuel + 1) st false
        { inp := .comment cm :: rest, dIn := 0, dOut := 0, sticky := none } progs).result
      = .error .comment := by
  constructor <;> simp [serveFC, handleInputStreamC, handleInputStream, RS.next, verdict, nsStream, hc, hcond]

/-- two programs that differ at most in their `SetCloseDeadline` calls, which leave the input
context in the same state -/
def SameCtx (p q : Prog) : Prop :=
  q = { p with dls := q.dls } ∧ expiredAfter p.dls false = expiredAfter q.dls false

/-- what `Serve` does depends on the deadline calls of the handlers only through the state they
leave the input context in -/
theorem serveFC_dls_congr (cfg : Cfg) (g : Prog → Prog) (hg : ∀ p, SameCtx p (g p))
    (hg0 : g Prog.nop = Prog.nop) : ∀ (fuel : Nat) (st : OutSt) (expired : Bool)
    (rs : RS) (ps : List Prog),
    serveFC cfg fuel st expired rs (ps.map g) = serveFC cfg fuel st expired rs ps := by
  intro fuel
  induction fuel with
  | zero => intro st expired rs ps; rfl
  | succ f ih =>
    intro st expired rs ps
    have hh : (ps.map g).headD Prog.nop = g (ps.headD Prog.nop) := by
      cases ps <;> simp [hg0]
    have ht : (ps.map g).tail = ps.tail.map g := by cases ps <;> simp
    have hstep : ∀ p, handleInputStreamC cfg st rs (g p) = handleInputStreamC cfg st rs p := by
      intro p
      rw [(hg p).1]; simp [handleInputStreamC, handleInputStream, handleElemC, handleElem]
    have hplain : ∀ p, handleInputStream cfg rs (g p) = handleInputStream cfg rs p := by
      intro p
      rw [(hg p).1]; simp [handleInputStream, handleElem]
    have hout : ∀ p w, outAfter st (g p) w = outAfter st p w := by
      intro p w; rw [(hg p).1]; simp [outAfter]
    have he : ∀ p, expiredAfter (g p).dls false = expiredAfter p.dls false := fun p => (hg p).2.symm
    unfold serveFC
    simp only [hh, hstep, hplain, hout, he]
    split
    · rfl
    · split
      · rfl
      · rename_i inv w rs' _
        cases inv with
        | none =>
          simp only [Option.isSome_none, Bool.false_eq_true, if_false, Bool.false_and]
          rw [ih]
        | some j =>
          simp only [Option.isSome_some, if_true, Bool.true_and]
          rw [ht, ih]

theorem expiredAfter_all_future : ∀ (ds : List Nat) (e : Bool), ds ≠ [] → ds.all (· == 1) = true →
    expiredAfter ds e = false
  | [], _, h, _ => absurd rfl h
  | [d], e, _, h => by
    have : d = 1 := by simpa using h
    subst this; simp [expiredAfter, isPastDl]
  | d :: d' :: ds, e, _, h => by
    have h' : (d' :: ds).all (· == 1) = true := by
      simp only [List.all_cons, Bool.and_eq_true] at h ⊢; exact h.2
    simp only [expiredAfter]
    exact expiredAfter_all_future (d' :: ds) _ (by simp) h'

/-- **every call replaces the context: the last call decides.**  Whatever calls came before —
deadlines that have already passed included — and whatever the state of the context was, after
a call with a time in the future the context is alive, after a call with a time that has passed
it has ended: a second, later deadline *extends* the first -/
theorem C08_deadline_last_wins (ds : List Nat) (d : Nat) (e : Bool) :
    expiredAfter (ds ++ [d]) e =
      (if isPastDl d then true else if d == 1 then false else expiredAfter ds e) := by
  induction ds generalizing e with
  | nil => simp [expiredAfter]
  | cons x xs ih => simp only [List.cons_append, expiredAfter]; rw [ih]

/-- `SetCloseDeadline` with a time in the future changes nothing: the session is served exactly
as if the deadline had never been set (one invocation per element, nil on the peer's closing
tag, …), for every state of the output -/
def clearFuture (p : Prog) : Prog := { p with dls := if p.dls.all (· == 1) then [] else p.dls }

theorem C08_future_deadline_irrelevant (cfg : Cfg) (fuel : Nat) (st : OutSt) (expired : Bool)
    (rs : RS) (progs : List Prog) :
    serveFC cfg fuel st expired rs (progs.map clearFuture) = serveFC cfg fuel st expired rs progs := by
  refine serveFC_dls_congr cfg clearFuture ?_ (by simp [clearFuture, Prog.nop]) fuel st expired rs progs
  intro p
  refine ⟨rfl, ?_⟩
  by_cases h : p.dls.all (· == 1) = true
  · by_cases hn : p.dls = []
    · simp [clearFuture, hn]
    · simp only [clearFuture, h, if_true]
      rw [expiredAfter_all_future p.dls false hn h]; rfl
  · simp [clearFuture, h]

/-- a handler that moves the deadline — any earlier calls, among them deadlines that have
already passed, and then one with a time in the future — is served exactly like a handler that
never set one: **a later deadline extends the earlier ones**, the session goes on handing
elements to the handler and the peer's closing tag still ends `Serve` without error -/
def dropExtended (p : Prog) : Prog :=
  { p with dls := if p.dls.getLast? == some 1 then [] else p.dls }

theorem C08_later_deadline_extends (cfg : Cfg) (fuel : Nat) (st : OutSt) (expired : Bool)
    (rs : RS) (progs : List Prog) :
    serveFC cfg fuel st expired rs (progs.map dropExtended) = serveFC cfg fuel st expired rs progs := by
  refine serveFC_dls_congr cfg dropExtended ?_ (by simp [dropExtended, Prog.nop]) fuel st expired rs progs
  intro p
  refine ⟨rfl, ?_⟩
  by_cases h : p.dls.getLast? = some 1
  · simp only [dropExtended, h]
    obtain ⟨ds, hds⟩ : ∃ ds, p.dls = ds ++ [1] := by
      have := List.getLast?_eq_some_iff.mp h
      exact this
    rw [hds, C08_deadline_last_wins]; simp [expiredAfter, isPastDl]
  · simp [dropExtended, h]

/-- the same for calls made before `Serve` starts: whatever was set before, once the last call
names a time in the future the session is served as if no deadline had ever been set -/
theorem C08_deadline_before_serve (cfg : Cfg) (closed : Bool) (pre : List Nat) (inp : List Tok)
    (progs : List Prog) :
    serveCD cfg closed (pre ++ [1]) inp progs = serveC cfg closed inp progs ∧
    serveCD cfg closed (pre ++ [2]) inp progs = { invs := [], written := [], result := .error .deadline } := by
  constructor
  · simp [serveCD, serveC, C08_deadline_last_wins, isPastDl]
  · simp [serveCD, C08_deadline_last_wins, isPastDl, serveFC]

example : expiredAfter [2, 1] false = false ∧ expiredAfter [1, 2] false = true ∧
    expiredAfter [3, 1] false = false ∧ expiredAfter [2, 2, 1] false = false ∧
    (dropExtended { ops := [.read], ret := .ok, dls := [2, 1] }).dls = [] := by decide

/-- a deadline in the past ends `Serve` with the deadline error before the next element is
looked at — also when that next token is the peer's closing tag -/
theorem C08_past_deadline (cfg : Cfg) (fuel : Nat) (st : OutSt) (rs : RS) (progs : List Prog) :
    serveFC cfg (fuel + 1) st true rs progs = { invs := [], written := [], result := .error .deadline } := by
  simp [serveFC]

/-! ### stream-level input never reaches a handler -/

/-- **nothing stream-level is ever visible**: for every input and all handler programs, every
invocation starts at a start tag outside the stream namespace and every token any of its reads
returns is ordinary content (text, or a start / end tag outside the stream namespace) — never a
comment, processing instruction, directive, stream error, stream restart or other
stream-namespace element, at any nesting depth -/
theorem C08_stream_level_hidden (cfg : Cfg) (inp : List Tok) (progs : List Prog) :
    ∀ i ∈ (serve cfg inp progs).invs, InvClean i :=
  serveF_clean cfg _ _ progs

/-! ### one element at a time -/

/-- what `k` reads of an element return: its first `k` tokens (through the end tag), then EOF
for every further attempt -/
theorem C08_view_shape : ∀ (body : List Tok) (k : Nat),
    viewOf body k = (body.take k).map Obs.tok ++ List.replicate (k - body.length) Obs.eof := by
  intro body
  induction body with
  | nil =>
    intro k
    induction k with
    | zero => rfl
    | succ k ih => simp [viewOf, ih, List.replicate_succ]
  | cons t ts ih =>
    intro k
    cases k with
    | zero => simp [viewOf]
    | succ k => simp [viewOf, ih k]

/-- **exact view and resynchronisation**: for a well-formed element of ordinary content
`<n as> body` followed by any `rest`, and **every** handler program that returns nil (any
number of reads — none, some, all, beyond the end — interleaved with any writes): the handler
is given the start tag (from normalised) and its reads return exactly the element's tokens up
to and including its end tag, then EOF; afterwards the session's input stands exactly at
`rest` with both readers back at their outer depth, whatever part was consumed -/
theorem C08_exact_view_resync (cfg : Cfg) (rs : RS) (n : Name) (as : List Attr) (body rest : List Tok)
    (prog : Prog)
    (hi : rs.inp = .start n as :: (body ++ rest)) (hn : (n.space != nsStream) = true)
    (hwf : splitElem 0 body = some (body, [])) (hpl : ∀ t ∈ body, plainTok t = true)
    (hret : prog.ret = .ok) (d : List Tok)
    (hd : autoReply cfg n (blankFrom cfg n as)
      (WS.init.encAll (getId (blankFrom cfg n as)) (writesOf prog.ops)).wrote = some d) :
    handleInputStream cfg rs prog =
      .next (some { start := .start n (blankFrom cfg n as), view := viewOf body (nreads prog.ops) })
        (writesOf prog.ops ++ d) { inp := rest, dIn := rs.dIn, dOut := 0, sticky := none } :=
  handleInputStream_elem cfg rs n as body rest prog hi hn
    (by simpa using splitElem_ext body 0 body [] rest hwf) hpl hret d hd

/-- **one invocation per top-level element, in arrival order**: for any sequence of
well-formed elements followed by the peer's closing tag (and anything after it), with handlers
that return nil, the invocations are exactly the elements, in order, each with its own start
tag and exact view; what is written is each handler's output followed by what the session adds
for that element; and `Serve` ends without error -/
theorem C08_one_per_element (cfg : Cfg) (cs : List Case) (junk : List Tok)
    (hok : ∀ c ∈ cs, c.Ok cfg) :
    serve cfg (cs.flatMap Case.toks ++ .stop ⟨nsStream, "stream"⟩ :: junk) (cs.map (·.prog))
      = { invs := cs.map (Case.inv cfg), written := cs.flatMap Case.written, result := .clean } := by
  have hlen : cs.length ≤ (cs.flatMap Case.toks).length := by
    induction cs with
    | nil => simp
    | cons c cs ih =>
      have := ih (fun x hx => hok x (by simp [hx]))
      rw [List.flatMap_cons, List.length_append]
      simp only [Case.toks, List.length_cons]
      omega
  unfold serve
  obtain ⟨f, hf⟩ : ∃ f, (cs.flatMap Case.toks ++ Tok.stop ⟨nsStream, "stream"⟩ :: junk).length + 1
      = (f + 1) + cs.length :=
    ⟨(cs.flatMap Case.toks).length - cs.length + junk.length + 1, by
      rw [List.length_append, List.length_cons]; omega⟩
  rw [hf]
  have := serveF_cases cfg cs (f + 1) 0 (.stop ⟨nsStream, "stream"⟩ :: junk) hok
  simp only [RS.init]
  rw [this]
  simp [serveF, handleInputStream, RS.next, verdict, nsStream]

/-- **from normalisation**: on a stanza whose first unqualified from attribute equals the
session's own bare address the handler is shown an empty from -/
theorem C08_from_blank (cfg : Cfg) (n : Name) (as : List Attr) (hs : isStanza n cfg.ns = true)
    (hf : firstFrom as = cfg.localBare) : firstFrom (blankFrom cfg n as) = "" := by
  unfold blankFrom
  rw [if_pos hs]
  induction as with
  | nil => simp [blankFirstFrom, firstFrom]
  | cons a as ih =>
    unfold blankFirstFrom
    by_cases ha : (a.name.loc == "from" && a.name.space == "") = true
    · rw [if_pos ha]
      have hv : a.value = cfg.localBare := by simpa [firstFrom, List.find?, ha] using hf
      simp [hv, firstFrom, ha]
    · rw [if_neg ha]
      have hf' : firstFrom as = cfg.localBare := by simpa [firstFrom, List.find?, ha] using hf
      have := ih hf'
      simpa [firstFrom, List.find?, ha] using this

/-- … and any other from, and every element that is not a stanza of the stream's namespace, is
handed over unchanged -/
theorem C08_from_kept (cfg : Cfg) (n : Name) (as : List Attr)
    (h : isStanza n cfg.ns = false ∨ firstFrom as ≠ cfg.localBare) : blankFrom cfg n as = as := by
  unfold blankFrom
  rcases h with h | h
  · simp [h]
  · by_cases hs : isStanza n cfg.ns = true
    · rw [if_pos hs]
      induction as with
      | nil => rfl
      | cons a as ih =>
        unfold blankFirstFrom
        by_cases ha : (a.name.loc == "from" && a.name.space == "") = true
        · rw [if_pos ha]
          have hv : a.value ≠ cfg.localBare := by simpa [firstFrom, List.find?, ha] using h
          simp [hv]
        · rw [if_neg ha]
          have h' : firstFrom as ≠ cfg.localBare := by simpa [firstFrom, List.find?, ha] using h
          rw [ih h']
    · simp [hs]

/-- non-vacuity of `Case.Ok`: a message with a body and a nested child, a handler that reads
two tokens and writes nothing -/
example : (Case.mk ⟨nsClient, "message"⟩ [attr "id" "m1"]
    [.start ⟨nsClient, "body"⟩ [], .chars "hi", .stop ⟨nsClient, "body"⟩, .stop ⟨nsClient, "message"⟩]
    { ops := [.read, .read], ret := .ok } []).Ok
    { ns := nsClient, localBare := "me@example.com", jidCanon := fun v => some v } :=
  ⟨by decide, by decide, by decide, rfl, by decide⟩

/-! ### a stream-level construct nested inside an element; keep-alives between elements -/

/-- the constructs whose verdict is an error at every depth: comments, processing
instructions, directives, start tags in the stream namespace (stream error, restart, unknown)
and end tags in the stream namespace other than `</stream:stream>` -/
def nestedErr (t : Tok) (post : List Tok) : Option Err :=
  match t with
  | .chars _ => none
  | _ => match (verdict 1 t post).2 with
    | .err e => some e
    | _ => none

theorem nestedErr_all_depths (t : Tok) (post : List Tok) (e : Err) (h : nestedErr t post = some e) :
    ∀ d, (verdict d t post).2 = Rd.err e := by
  intro d
  cases t with
  | chars s => simp [nestedErr] at h
  | start n as =>
    simp only [nestedErr, verdict] at h ⊢
    split at h <;> simp_all
  | stop n =>
    simp only [nestedErr, verdict] at h ⊢
    split at h <;> simp_all
  | comment s => simp_all [nestedErr, verdict]
  | procInst a b => simp_all [nestedErr, verdict]
  | directive s => simp_all [nestedErr, verdict]

/-- **a nested stream-level construct ends the run and stays invisible**: an element whose
ordinary content `pre` (which does not close it) is followed, at any nesting depth, by a
construct `bad`: for **every** handler program returning nil, the handler's reads return the
tokens of `pre` and from then on only errors — no token of the construct or of anything after
it — and the session ends with the construct's error right after this invocation (what the
handler wrote and the automatic reply, if one is due, are still written) -/
theorem C08_nested_construct (cfg : Cfg) (rs : RS) (n : Name) (as : List Attr)
    (pre : List Tok) (bad : Tok) (post : List Tok) (err : Err) (prog : Prog)
    (hi : rs.inp = .start n as :: (pre ++ bad :: post)) (hn : (n.space != nsStream) = true)
    (hpl : ∀ t ∈ pre, plainTok t = true) (hnc : noClose 0 pre = true)
    (hbad : nestedErr bad post = some err)
    (hret : prog.ret = .ok) (d : List Tok)
    (hd : autoReply cfg n (blankFrom cfg n as)
      (WS.init.encAll (getId (blankFrom cfg n as)) (writesOf prog.ops)).wrote = some d) :
    handleInputStream cfg rs prog =
      .stop (some { start := .start n (blankFrom cfg n as), view := viewBad pre (nreads prog.ops) })
        (writesOf prog.ops ++ d) (.error err) :=
  handleInputStream_nested cfg rs n as pre bad post err prog hi hn hpl hnc
    (nestedErr_all_depths bad post err hbad) hret d hd

/-- the reads of such an invocation: the first tokens of `pre`, then errors only -/
theorem C08_nested_view_shape : ∀ (pre : List Tok) (k : Nat),
    viewBad pre k = (pre.take k).map Obs.tok ++ List.replicate (k - pre.length) Obs.err := by
  intro pre
  induction pre with
  | nil =>
    intro k
    induction k with
    | zero => rfl
    | succ k ih => simp [viewBad, ih, List.replicate_succ]
  | cons t ts ih =>
    intro k
    cases k with
    | zero => simp [viewBad]
    | succ k => simp [viewBad, ih k]

/-- **the whole session**: well-formed elements and white-space keep-alives in any
interleaving, then an element with a nested construct: one invocation per element in order
(keep-alives cause none), the last one for the dirty element, and `Serve` returns the
construct's error -/
theorem C08_session_with_nested (cfg : Cfg) (is : List Item) (hok : ∀ i ∈ is, i.Ok cfg)
    (n : Name) (as : List Attr) (pre : List Tok) (bad : Tok) (post : List Tok) (err : Err) (prog : Prog)
    (hn : (n.space != nsStream) = true) (hpl : ∀ t ∈ pre, plainTok t = true) (hnc : noClose 0 pre = true)
    (hbad : nestedErr bad post = some err) (hret : prog.ret = .ok) (d : List Tok)
    (hd : autoReply cfg n (blankFrom cfg n as)
      (WS.init.encAll (getId (blankFrom cfg n as)) (writesOf prog.ops)).wrote = some d) :
    serve cfg (is.flatMap Item.toks ++ .start n as :: (pre ++ bad :: post)) ((cases is).map (·.prog) ++ [prog])
      = { invs := (cases is).map (Case.inv cfg) ++
            [{ start := .start n (blankFrom cfg n as), view := viewBad pre (nreads prog.ops) }],
          written := (cases is).flatMap Case.written ++ (writesOf prog.ops ++ d),
          result := .error err } := by
  have hlen : is.length ≤ (is.flatMap Item.toks).length := by
    induction is with
    | nil => simp
    | cons i is ih =>
      have := ih (fun x hx => hok x (by simp [hx]))
      rw [List.flatMap_cons, List.length_append]
      cases i <;> simp only [Item.toks, Case.toks, List.length_cons, List.length_nil] <;> omega
  unfold serve
  obtain ⟨f, hf⟩ : ∃ f, (is.flatMap Item.toks ++ Tok.start n as :: (pre ++ bad :: post)).length + 1
      = (f + 1) + is.length :=
    ⟨(is.flatMap Item.toks).length - is.length + (pre ++ bad :: post).length + 1, by
      rw [List.length_append, List.length_cons]; omega⟩
  rw [hf]
  simp only [RS.init]
  rw [serveF_items cfg [prog] is (f + 1) 0 _ hok]
  have hstep := C08_nested_construct cfg
    { inp := .start n as :: (pre ++ bad :: post), dIn := 0, dOut := 0, sticky := none }
    n as pre bad post err prog rfl hn hpl hnc hbad hret d hd
  simp [serveF, hstep]

/-- **one invocation per element with keep-alives in between**: elements and white-space
keep-alives in any interleaving, then the closing tag -/
theorem C08_one_per_element_keepalives (cfg : Cfg) (is : List Item) (junk : List Tok)
    (hok : ∀ i ∈ is, i.Ok cfg) :
    serve cfg (is.flatMap Item.toks ++ .stop ⟨nsStream, "stream"⟩ :: junk) ((cases is).map (·.prog))
      = { invs := (cases is).map (Case.inv cfg), written := (cases is).flatMap Case.written, result := .clean } := by
  have hlen : is.length ≤ (is.flatMap Item.toks).length := by
    induction is with
    | nil => simp
    | cons i is ih =>
      have := ih (fun x hx => hok x (by simp [hx]))
      rw [List.flatMap_cons, List.length_append]
      cases i <;> simp only [Item.toks, Case.toks, List.length_cons, List.length_nil] <;> omega
  unfold serve
  obtain ⟨f, hf⟩ : ∃ f, (is.flatMap Item.toks ++ Tok.stop ⟨nsStream, "stream"⟩ :: junk).length + 1
      = (f + 1) + is.length :=
    ⟨(is.flatMap Item.toks).length - is.length + junk.length + 1, by
      rw [List.length_append, List.length_cons]; omega⟩
  rw [hf]
  simp only [RS.init]
  have := serveF_items cfg [] is (f + 1) 0 (.stop ⟨nsStream, "stream"⟩ :: junk) hok
  simp only [List.append_nil] at this
  rw [this]
  simp [serveF, handleInputStream, RS.next, verdict, nsStream]

example : nestedErr (.comment "c") [] = some .comment ∧ nestedErr (.procInst "pi" "x") [] = some .procInst ∧
    nestedErr (.directive "DOCTYPE x") [] = some .directive ∧
    nestedErr (.start ⟨nsStream, "features"⟩ []) [] = some .unknownElem ∧
    nestedErr (.start ⟨nsStream, "stream"⟩ []) [] = some .restart ∧
    noClose 0 [Tok.start ⟨"urn:a", "a"⟩ [], .chars "x"] = true := by decide

/-- the peer's closing tag ends `Serve` without error and without any invocation, whatever
follows it and whatever the handlers are -/
theorem C08_peer_close (cfg : Cfg) (rest : List Tok) (progs : List Prog) :
    serve cfg (.stop ⟨nsStream, "stream"⟩ :: rest) progs
      = { invs := [], written := [], result := .clean } := by
  simp [serve, serveF, handleInputStream, RS.next, RS.init, verdict, nsStream]

/-- a white-space keep-alive between elements is ignored -/
theorem C08_keepalive (cfg : Cfg) (s : String) (hs : isWs s = true) (inp : List Tok) (progs : List Prog) :
    serve cfg (.chars s :: inp) progs = serve cfg inp progs := by
  simp [serve, serveF, handleInputStream, RS.next, RS.init, verdict, hs]

/-- text other than white space between elements ends the session with an error -/
theorem C08_top_chardata (cfg : Cfg) (s : String) (hs : isWs s = false) (rest : List Tok) (progs : List Prog) :
    serve cfg (.chars s :: rest) progs = { invs := [], written := [], result := .error .chardata } := by
  simp [serve, serveF, handleInputStream, RS.next, RS.init, verdict, hs]

theorem C08_top_comment (cfg : Cfg) (c : String) (rest : List Tok) (progs : List Prog) :
    serve cfg (.comment c :: rest) progs = { invs := [], written := [], result := .error .comment } := by
  simp [serve, serveF, handleInputStream, RS.next, RS.init, verdict]

theorem C08_top_procInst (cfg : Cfg) (a b : String) (rest : List Tok) (progs : List Prog) :
    serve cfg (.procInst a b :: rest) progs = { invs := [], written := [], result := .error .procInst } := by
  simp [serve, serveF, handleInputStream, RS.next, RS.init, verdict]

theorem C08_top_directive (cfg : Cfg) (c : String) (rest : List Tok) (progs : List Prog) :
    serve cfg (.directive c :: rest) progs = { invs := [], written := [], result := .error .directive } := by
  simp [serve, serveF, handleInputStream, RS.next, RS.init, verdict]

/-- a stream restart after negotiation ends the session with the restart error -/
theorem C08_top_restart (cfg : Cfg) (as : List Attr) (rest : List Tok) (progs : List Prog) :
    serve cfg (.start ⟨nsStream, "stream"⟩ as :: rest) progs
      = { invs := [], written := [], result := .error .restart } := by
  simp [serve, serveF, handleInputStream, RS.next, RS.init, verdict, nsStream]

/-- any other element of the stream namespace ends the session -/
theorem C08_top_unknown (cfg : Cfg) (l : String) (as : List Attr) (rest : List Tok) (progs : List Prog)
    (h1 : l ≠ "error") (h2 : l ≠ "stream") (h3 : l ≠ wsCloseMark) :
    serve cfg (.start ⟨nsStream, l⟩ as :: rest) progs
      = { invs := [], written := [], result := .error .unknownElem } := by
  simp [serve, serveF, handleInputStream, RS.next, RS.init, verdict, h1, h2, h3]

/-- **a received stream error is returned as such**: the session ends with that error (its
condition is the one the peer sent) and no handler runs -/
theorem C08_top_stream_error (cfg : Cfg) (as : List Attr) (rest : List Tok) (progs : List Prog)
    (c : String) (hc : closes 0 rest = true) (hcond : seCond rest = some c) :
    serve cfg (.start ⟨nsStream, "error"⟩ as :: rest) progs
      = { invs := [], written := [], result := .error (.streamError c) } := by
  simp [serve, serveF, handleInputStream, RS.next, RS.init, verdict, hc, hcond]

/-- the same error is what negotiation ends with when the stream error arrives in the place of
a stream header (with or without a preceding XML declaration) -/
theorem C08_header_stream_error (as : List Attr) (rest : List Tok) (c : String)
    (hc : closes 0 rest = true) (hcond : seCond rest = some c) :
    expectHeader (.start ⟨nsStream, "error"⟩ as :: rest) = "se:" ++ c ∧
    expectHeader (.procInst "xml" "version=\"1.0\"" :: .start ⟨nsStream, "error"⟩ as :: rest) = "se:" ++ c := by
  simp [expectHeader, expectHeader1, verdict, hc, hcond, Err.name, nsStream]

example : closes 0 [Tok.start ⟨"urn:ietf:params:xml:ns:xmpp-streams", "host-gone"⟩ [],
    .stop ⟨"urn:ietf:params:xml:ns:xmpp-streams", "host-gone"⟩, .stop ⟨nsStream, "error"⟩] = true ∧
    seCond [Tok.start ⟨"urn:ietf:params:xml:ns:xmpp-streams", "host-gone"⟩ [],
    .stop ⟨"urn:ietf:params:xml:ns:xmpp-streams", "host-gone"⟩, .stop ⟨nsStream, "error"⟩] = some "host-gone" := by
  decide

/-! ### received stream errors that carry an application-specific condition -/

theorem skipElem_append : ∀ (body : List Tok) (d d' : Nat) (rest : List Tok),
    depthAfter d body = some d' → skipElem d (body ++ rest) = skipElem d' rest := by
  intro body
  induction body with
  | nil => intro d d' rest h; simp [depthAfter] at h; subst h; rfl
  | cons t ts ih =>
    intro d d' rest h
    cases t with
    | start n as => simp only [depthAfter] at h; simp only [List.cons_append, skipElem]; exact ih _ _ _ h
    | stop n =>
      cases d with
      | zero => simp [depthAfter] at h
      | succ k => simp only [depthAfter] at h; simp only [List.cons_append, skipElem]; exact ih _ _ _ h
    | chars c => simp only [depthAfter] at h; simp only [List.cons_append, skipElem]; exact ih _ _ _ h
    | comment c => simp only [depthAfter] at h; simp only [List.cons_append, skipElem]; exact ih _ _ _ h
    | procInst a b => simp only [depthAfter] at h; simp only [List.cons_append, skipElem]; exact ih _ _ _ h
    | directive c => simp only [depthAfter] at h; simp only [List.cons_append, skipElem]; exact ih _ _ _ h

/-- one more child of a stream error is consumed as a whole — whatever it contains, however deep
— and only a child in the stream-error namespace other than `<text/>` changes the condition:
an **application-specific condition** (any other namespace) at any position, with any content,
leaves the condition what the peer's defined condition says -/
theorem C08_stream_error_child (f : Nat) (cur : String) (n : Name) (as : List Attr) (body rest : List Tok)
    (hb : depthAfter 0 body = some 0) :
    seCondF (f + 1) cur (.start n as :: (body ++ .stop n :: rest))
      = seCondF f (if n.space == nsStreams && n.loc != "text" then n.loc else cur) rest := by
  simp only [seCondF]
  rw [skipElem_append body 0 0 _ hb]
  simp [skipElem]

/-- a defined condition followed by an application-specific condition with arbitrary (balanced)
content, then the end of the error: the error is the defined condition `c` -/
theorem C08_stream_error_app_condition (c : String) (hc : c ≠ "text") (as as' : List Attr) (an : Name)
    (han : an.space ≠ nsStreams) (body rest : List Tok) (hb : depthAfter 0 body = some 0) (en : Name) :
    seCond ([.start ⟨nsStreams, c⟩ as, .stop ⟨nsStreams, c⟩] ++ (.start an as' :: (body ++ .stop an :: .stop en :: rest)))
      = some c ∧
    seCond ((.start an as' :: (body ++ [.stop an])) ++ [.start ⟨nsStreams, c⟩ as, .stop ⟨nsStreams, c⟩] ++ .stop en :: rest)
      = some c := by
  have hne : (an.space == nsStreams) = false := by simpa using han
  have hct : (c != "text") = true := by simpa using hc
  constructor
  · unfold seCond
    simp only [List.cons_append, List.nil_append, List.length_cons, List.length_append]
    have h1 := C08_stream_error_child (body.length + (rest.length + 1 + 1) + 1 + 1 + 1) "" ⟨nsStreams, c⟩ as [] (.start an as' :: (body ++ .stop an :: .stop en :: rest)) rfl
    simp only [List.nil_append] at h1
    rw [show body.length + (rest.length + 1 + 1) + 1 + 1 + 1 + 1 = (body.length + (rest.length + 1 + 1) + 1 + 1 + 1) + 1 from rfl, h1]
    rw [C08_stream_error_child _ _ an as' body (.stop en :: rest) hb]
    simp [seCondF, hne, hct]
  · unfold seCond
    simp only [List.cons_append, List.nil_append, List.append_assoc, List.length_cons, List.length_append]
    rw [C08_stream_error_child _ _ an as' body _ hb]
    simp only [hne, Bool.false_and, Bool.false_eq_true, if_false]
    have h2 := C08_stream_error_child (body.length + (rest.length + 1 + 1 + 1 + 1)) "" ⟨nsStreams, c⟩ as []
      (.stop en :: rest) rfl
    simp only [List.nil_append] at h2
    rw [h2]
    show seCondF ((body.length + (rest.length + 1 + 1 + 1)) + 1) _ _ = _
    simp [seCondF, hct]

example : seCond [Tok.start ⟨nsStreams, "conflict"⟩ [], .stop ⟨nsStreams, "conflict"⟩,
      .start ⟨"urn:example", "replaced-by-new-login"⟩ [], .stop ⟨"urn:example", "replaced-by-new-login"⟩,
      .stop ⟨nsStream, "error"⟩] = some "conflict" ∧
    seCond [Tok.start ⟨"urn:example", "app"⟩ [], .start ⟨"urn:example", "d"⟩ [], .chars "x", .stop ⟨"urn:example", "d"⟩,
      .stop ⟨"urn:example", "app"⟩, .start ⟨nsStreams, "text"⟩ [], .chars "bye", .stop ⟨nsStreams, "text"⟩,
      .start ⟨nsStreams, "host-gone"⟩ [], .stop ⟨nsStreams, "host-gone"⟩, .stop ⟨nsStream, "error"⟩] = some "host-gone" ∧
    seCond [Tok.start ⟨"urn:example", "only"⟩ [], .stop ⟨"urn:example", "only"⟩, .stop ⟨nsStream, "error"⟩] = some "" ∧
    seCond [Tok.start ⟨nsStreams, "reset"⟩ [], .stop ⟨nsStreams, "reset"⟩, .start ⟨"urn:example", "open"⟩ []] = none := by
  decide

/-! ### responses to pending local requests -/

/-- **a response handed to a waiting `SendIQ` caller is skipped as a whole**: for a well-formed
element of type result / error whose id and name match a pending request, no handler runs,
nothing is written, the entry leaves the table, and the session's input then stands exactly at
the token after the element's end tag — however deep the response is nested and whatever part
of it the waiter read before it closed it (the model does not even look at that): the next
invocation begins at the next top-level element -/
theorem C08_response_resync (cfg : Cfg) (pend : List Pend) (rs : RS) (n : Name) (as : List Attr)
    (body rest : List Tok) (prog : Prog) (p : Pend)
    (hi : rs.inp = .start n as :: (body ++ rest)) (hn : (n.space != nsStream) = true)
    (hwf : splitElem 0 body = some (body, [])) (hpl : ∀ t ∈ body, plainTok t = true)
    (hty : isReplyTyp (getTyp (blankFrom cfg n as)) = true)
    (hp : pendMatch pend (getId (blankFrom cfg n as)) n = some p) :
    handleInputStreamP cfg pend rs prog =
      (.next none [] { inp := rest, dIn := rs.dIn, dOut := 0, sticky := none },
       pend.filter (fun q => q.id != p.id), some p.id) := by
  have hsp : splitElem 0 (body ++ rest) = some (body, rest) := by
    simpa using splitElem_ext body 0 body [] rest hwf
  have hne := (splitElem_append _ _ _ _ hsp).2
  have hnext : ({ rs with dOut := 0, sticky := none } : RS).next
      = (.tok (.start n as), { inp := body ++ rest, dIn := rs.dIn + 1, dOut := 1, sticky := none }) := by
    simp [RS.next, hi, verdict, hn]
  have hst : St { rs := { inp := body ++ rest, dIn := rs.dIn + 1, dOut := 1, sticky := none }, cnt := 0, fin := false }
      body rest rs.dIn 0 := Or.inr ⟨hne, ⟨rfl, rfl, hsp, hpl, by simp, by simp⟩⟩
  have hlen := hst.len
  obtain ⟨e'', hdis, hdone⟩ := discard_st _ _ rest rs.dIn 0 ((body ++ rest).length + 2) hst (by simp at hlen ⊢; omega)
  have hrs : e''.rs = { inp := rest, dIn := rs.dIn, dOut := 0, sticky := none } := by
    obtain ⟨_, h1, h2, h3, h4⟩ := hdone
    cases hr : e''.rs
    simp_all
  unfold handleInputStreamP deliveredTo
  rw [hnext]
  simp only [hty, hp, if_true, Option.map_some]
  unfold Serve.discard
  simp only [hdis, hrs]

/-- a handler that returns an error value — nil excepted, every value of the alphabet: a plain
error, `io.EOF` itself, a stanza or stream error, and errors that wrap or join those — ends the
session right after its invocation: no later element is handed to a handler and `Serve` does
not return nil -/
theorem C08_handler_error_ends (cfg : Cfg) (fuel : Nat) (rs rs1 : RS) (n : Name) (as : List Attr)
    (progs : List Prog)
    (hnext : ({ rs with dOut := 0, sticky := none } : RS).next = (.tok (.start n as), rs1))
    (hret : (progs.headD Prog.nop).ret ≠ .ok) :
    ∃ inv w e, serveF cfg (fuel + 1) rs progs = { invs := [inv], written := w, result := .error e } := by
  have hh : handleInputStream cfg rs (progs.headD Prog.nop) = handleElem cfg n as rs1 (progs.headD Prog.nop) := by
    unfold handleInputStream
    rw [hnext]
  obtain ⟨inv, w, e, he⟩ : ∃ inv w e, handleElem cfg n as rs1 (progs.headD Prog.nop) = .stop (some inv) w (.error e) := by
    unfold handleElem
    simp only
    cases hr : (progs.headD Prog.nop).ret
    case ok => exact absurd hr hret
    case readErr => simp only; split <;> exact ⟨_, _, _, rfl⟩
    all_goals exact ⟨_, _, _, rfl⟩
  refine ⟨inv, w, e, ?_⟩
  unfold serveF
  rw [hh, he]
  rfl

/-! ### Round E: sessions that use the WebSocket subprotocol -/

/-- a token that the framing check does not concern -/
def noFraming : Tok → Bool
  | .start n _ => n.space != nsFraming
  | _ => true

theorem wsTok_false (d : Nat) (t : Tok) : wsTok false d t = t := by
  cases t <;> simp [wsTok]

theorem wsInputD_false : ∀ (inp : List Tok) (d : Nat), wsInputD false d inp = inp := by
  intro inp
  induction inp with
  | nil => intro d; rfl
  | cons t ts ih => intro d; simp [wsInputD, wsTok_false, ih]

/-- on a TCP session (`ws = false`) nothing is relabelled: framing elements are ordinary content -/
theorem C08_ws_off_unchanged (cfg : Cfg) (inp : List Tok) (progs : List Prog) :
    serve cfg (wsInput false inp) progs = serve cfg inp progs := by
  rw [wsInput, wsInputD_false]

theorem wsTok_noFraming (ws : Bool) (d : Nat) (t : Tok) (h : noFraming t = true) : wsTok ws d t = t := by
  cases t with
  | start n as =>
    have : (n.space == nsFraming) = false := by simpa [noFraming] using h
    simp [wsTok, this]
  | _ => rfl

/-- nesting after a token list -/
def depthAfterD (d : Nat) (l : List Tok) : Nat := l.foldl depthStep d

theorem wsInputD_append (ws : Bool) : ∀ (l r : List Tok) (d : Nat),
    wsInputD ws d (l ++ r) = wsInputD ws d l ++ wsInputD ws (depthAfterD d l) r := by
  intro l
  induction l with
  | nil => intro r d; rfl
  | cons t ts ih => intro r d; simp [wsInputD, depthAfterD, ih]

theorem wsInputD_noFraming (ws : Bool) : ∀ (l : List Tok) (d : Nat), (∀ t ∈ l, noFraming t = true) →
    wsInputD ws d l = l := by
  intro l
  induction l with
  | nil => intro _ _; rfl
  | cons t ts ih =>
    intro d h
    simp only [wsInputD]
    rw [wsTok_noFraming ws d t (h t (by simp)), ih _ (fun x hx => h x (by simp [hx]))]

/-- **the peer's `<close/>` ends Serve without error** on a WebSocket session: at top level the
framing element named `close`, whatever its attributes and whatever follows, ends the session
cleanly; no handler is invoked for it -/
theorem C08_ws_close_ends_cleanly (cfg : Cfg) (as : List Attr) (rest : List Tok) (progs : List Prog) :
    serve cfg (wsInput true (.start ⟨nsFraming, "close"⟩ as :: rest)) progs
      = { invs := [], written := [], result := .clean } := by
  simp [wsInput, wsInputD, wsTok, serve, serveF, handleInputStream, RS.next, RS.init, verdict, nsFraming, nsStream, wsCloseMark]

/-- **a stream restart never reaches a handler** on a WebSocket session: any other element of the
framing namespace at top level (`<open/>` is how a stream is restarted there) ends the session
with the restart error; no handler is invoked -/
theorem C08_ws_framing_is_restart (cfg : Cfg) (l : String) (as : List Attr) (rest : List Tok) (progs : List Prog)
    (hl : l ≠ "close") :
    serve cfg (wsInput true (.start ⟨nsFraming, l⟩ as :: rest)) progs
      = { invs := [], written := [], result := .error .restart } := by
  simp [wsInput, wsInputD, wsTok, serve, serveF, handleInputStream, RS.next, RS.init, verdict, nsFraming, nsStream, hl]

/-- **no framing element ever reaches a handler** on a WebSocket session, at any depth, for every
input and every list of programs: every start tag of the framing namespace is, in the session's
input, a token that is not ordinary content (first part), and every invocation starts at and
only ever reads ordinary content (second part, `C08_stream_level_hidden` on the relabelled input) -/
theorem C08_ws_framing_hidden (cfg : Cfg) (inp : List Tok) (progs : List Prog) :
    (∀ d n as, n.space = nsFraming → plainTok (wsTok true d (.start n as)) = false) ∧
    ∀ i ∈ (serve cfg (wsInput true inp) progs).invs, InvClean i := by
  refine ⟨?_, fun i hi => serveF_clean cfg _ _ _ i hi⟩
  intro d n as hn
  by_cases hc : (n.loc == "close" && d == 0) = true <;> simp [wsTok, hn, hc, plainTok]

/-- **one invocation per element, closed by `<close/>`**: on a WebSocket session a sequence of
well-formed elements (none of them containing a framing start tag) followed by the peer's
`<close/>` gives exactly one invocation per element, in order, and `Serve` returns nil -/
theorem C08_ws_one_per_element (cfg : Cfg) (cs : List Case) (as : List Attr) (junk : List Tok)
    (hok : ∀ c ∈ cs, c.Ok cfg) (hnf : ∀ t ∈ cs.flatMap Case.toks, noFraming t = true)
    (hbal : depthAfterD 0 (cs.flatMap Case.toks) = 0) :
    serve cfg (wsInput true (cs.flatMap Case.toks ++ .start ⟨nsFraming, "close"⟩ as :: junk)) (cs.map (·.prog))
      = { invs := cs.map (Case.inv cfg), written := cs.flatMap Case.written, result := .clean } := by
  have hin : wsInput true (cs.flatMap Case.toks ++ .start ⟨nsFraming, "close"⟩ as :: junk)
      = cs.flatMap Case.toks ++ .start ⟨nsStream, wsCloseMark⟩ as :: wsInputD true 1 junk := by
    unfold wsInput
    rw [wsInputD_append, wsInputD_noFraming true _ 0 hnf, hbal]
    simp [wsInputD, wsTok, nsFraming, depthStep]
  rw [hin]
  have hlen : cs.length ≤ (cs.flatMap Case.toks).length := by
    clear hnf hin hbal
    induction cs with
    | nil => simp
    | cons c cs ih =>
      have := ih (fun x hx => hok x (by simp [hx]))
      rw [List.flatMap_cons, List.length_append]
      simp only [Case.toks, List.length_cons]
      omega
  unfold serve
  obtain ⟨f, hf⟩ : ∃ f, (cs.flatMap Case.toks ++ Tok.start ⟨nsStream, wsCloseMark⟩ as :: wsInputD true 1 junk).length + 1
      = (f + 1) + cs.length :=
    ⟨(cs.flatMap Case.toks).length - cs.length + (wsInputD true 1 junk).length + 1, by
      rw [List.length_append, List.length_cons]; omega⟩
  rw [hf]
  have := serveF_cases cfg cs (f + 1) 0 (.start ⟨nsStream, wsCloseMark⟩ as :: wsInputD true 1 junk) hok
  simp only [RS.init]
  rw [this]
  simp [serveF, handleInputStream, RS.next, verdict, nsStream, wsCloseMark]

/-- **a `<close/>` inside another element is not the end of the stream**: nested at any depth
`d + 1` every framing start tag, `close` included, is the restart error for the reader — the
handler's view of the element ends with an error, never with an early EOF, and (by
`C08_nested_construct`) the session ends with that error after the invocation -/
theorem C08_ws_nested_close_is_error (d : Nat) (l : String) (as : List Attr) (depth : Nat) (rest : List Tok) :
    (verdict depth (wsTok true (d + 1) (.start ⟨nsFraming, l⟩ as)) rest).2 = .err .restart := by
  simp [wsTok, verdict, nsFraming, nsStream]

example : (serve { ns := nsClient, localBare := "me@example.com", jidCanon := fun _ => none }
    (wsInput true [.start ⟨nsClient, "message"⟩ [], .start ⟨nsFraming, "close"⟩ [], .start ⟨nsFraming, "close"⟩ [],
      .stop ⟨nsFraming, "close"⟩, .stop ⟨nsFraming, "close"⟩, .stop ⟨nsClient, "message"⟩])
    [{ ops := [.read, .read, .read], ret := .ok }]).result = .error .restart := by decide

example : (serve { ns := nsClient, localBare := "me@example.com", jidCanon := fun _ => none }
    (wsInput true [.start ⟨nsClient, "message"⟩ [], .start ⟨nsFraming, "open"⟩ [], .stop ⟨nsFraming, "open"⟩,
      .stop ⟨nsClient, "message"⟩, .start ⟨nsClient, "presence"⟩ [], .stop ⟨nsClient, "presence"⟩])
    [{ ops := [.read, .read, .read], ret := .ok }]).result = .error .restart := by decide

/-! ### Round E: every serve machine hides the stream level

The theorems above are about `serve`; the driver answers `servex` lines with `serveFC` (state of
the output, close deadline) and `servepw` lines with `serveFP` (pending requests).  The
invocations of those machines are clean too. -/

theorem Step.inv_mapWritten (f : List Tok → List Tok) (x : Step) : (x.mapWritten f).inv = x.inv := by
  cases x <;> rfl

theorem Step.inv_dropWritten (x : Step) : x.dropWritten.inv = x.inv := by
  cases x <;> rfl

theorem handleElemC_clean (cfg : Cfg) (st : OutSt) (n : Name) (as : List Attr) (rs1 : RS) (prog : Prog)
    (hn : plainTok (.start n as) = true) :
    ∀ i, (handleElemC cfg st n as rs1 prog).inv = some i → InvClean i := by
  intro i hi
  have hv := runOps_clean (getId (blankFrom cfg n as)) prog.ops { rs := rs1, cnt := 0, fin := false } WS.init []
    (by intro t ht; simp at ht)
  unfold handleElemC at hi
  simp only at hi
  generalize (if prog.close = true then OutSt.closed else st) = st1 at hi
  by_cases h1 : (st1 == OutSt.opn) = true
  · rw [if_pos h1] at hi
    split at hi
    · have key : i = Serve.Inv.mk (Tok.start n (blankFrom cfg n as))
          (runOps (getId (blankFrom cfg n as)) prog.ops { rs := rs1, cnt := 0, fin := false } WS.init []).1 := by
        simp [Step.inv] at hi; exact hi.symm
      subst key
      exact ⟨⟨n, _, rfl, by simpa [plainTok] using hn⟩, hv⟩
    · rw [Step.inv_mapWritten] at hi; exact handleElem_clean cfg n as rs1 prog hn i hi
  · rw [if_neg h1] at hi
    cases hret : prog.ret <;> simp only [hret] at hi
    case ok =>
      have key : i = Serve.Inv.mk (Tok.start n (blankFrom cfg n as))
          (runOps (getId (blankFrom cfg n as)) prog.ops { rs := rs1, cnt := 0, fin := false } WS.init []).1 := by
        repeat' split at hi
        all_goals (simp [Step.inv] at hi; exact hi.symm)
      subst key
      exact ⟨⟨n, _, rfl, by simpa [plainTok] using hn⟩, hv⟩
    all_goals (rw [Step.inv_dropWritten] at hi; exact handleElem_clean cfg n as rs1 prog hn i hi)

theorem handleInputStreamC_clean (cfg : Cfg) (st : OutSt) (rs : RS) (prog : Prog) :
    ∀ i, (handleInputStreamC cfg st rs prog).inv = some i → InvClean i := by
  intro i hi
  unfold handleInputStreamC at hi
  generalize hn : ({ rs with dOut := 0, sticky := none } : RS).next = r at hi
  obtain ⟨rd, rs1⟩ := r
  cases rd with
  | tok t =>
    cases t with
    | start n as => exact handleElemC_clean cfg st n as rs1 prog (RS.next_tok hn) i hi
    | _ => exact handleInputStream_clean cfg rs prog i hi
  | _ => exact handleInputStream_clean cfg rs prog i hi

/-- **nothing stream-level is ever visible, whatever the state of the output and the close
deadline**: every invocation of `serveFC` (output open / left inside an element / closed — before
`Serve` or by a handler —, any sequence of `SetCloseDeadline` calls) starts at a start tag outside
the stream namespace and reads only ordinary content -/
theorem C08_stream_level_hidden_any_output (cfg : Cfg) : ∀ (fuel : Nat) (st : OutSt) (e : Bool) (rs : RS)
    (progs : List Prog), ∀ i ∈ (serveFC cfg fuel st e rs progs).invs, InvClean i := by
  intro fuel
  induction fuel with
  | zero => intro st e rs progs i hi; simp [serveFC] at hi
  | succ f ih =>
    intro st e rs progs i hi
    unfold serveFC at hi
    cases e with
    | true => simp at hi
    | false =>
      simp only [Bool.false_eq_true, ↓reduceIte] at hi
      have hc := handleInputStreamC_clean cfg st rs (progs.headD Prog.nop)
      generalize hs : handleInputStreamC cfg st rs (progs.headD Prog.nop) = x at hi hc
      cases x with
      | stop inv w res =>
        simp only at hi
        cases inv with
        | none => simp at hi
        | some j =>
          have : i = j := by simpa using hi
          rw [this]; exact hc j rfl
      | next inv w rs' =>
        dsimp only at hi
        rw [List.mem_append] at hi
        rcases hi with hi | hi
        · cases inv with
          | none => simp at hi
          | some j =>
            have : i = j := by simpa using hi
            rw [this]; exact hc j rfl
        · exact ih _ _ _ _ i hi

/-- an element that is not handed to a waiter is handled exactly as without any table: the step
is `handleInputStream`'s, the table is unchanged -/
theorem C08_unawaited_element_handled (cfg : Cfg) (pend : List Pend) (rs : RS) (prog : Prog)
    (h : deliveredTo cfg pend rs = none) :
    handleInputStreamP cfg pend rs prog = (handleInputStream cfg rs prog, pend, none) := by
  simp [handleInputStreamP, h]

theorem handleInputStreamP_clean (cfg : Cfg) (pend : List Pend) (rs : RS) (prog : Prog) :
    ∀ i, (handleInputStreamP cfg pend rs prog).1.inv = some i → InvClean i := by
  intro i hi
  unfold handleInputStreamP at hi
  split at hi
  · split at hi <;> simp [Step.inv] at hi
  · exact handleInputStream_clean cfg rs prog i hi

/-- **nothing stream-level is ever visible while local requests are pending**: every invocation
of `serveFP` is clean, for every table, input and list of programs -/
theorem C08_stream_level_hidden_pending (cfg : Cfg) : ∀ (fuel : Nat) (pend : List Pend) (rs : RS)
    (progs : List Prog), ∀ i ∈ (serveFP cfg fuel pend rs progs).out.invs, InvClean i := by
  intro fuel
  induction fuel with
  | zero => intro pend rs progs i hi; simp [serveFP] at hi
  | succ f ih =>
    intro pend rs progs i hi
    unfold serveFP at hi
    have hc := handleInputStreamP_clean cfg pend rs (progs.headD Prog.nop)
    generalize hs : handleInputStreamP cfg pend rs (progs.headD Prog.nop) = x at hi hc
    obtain ⟨x, pend', dl⟩ := x
    cases x with
    | stop inv w res =>
      simp only at hi
      cases inv with
      | none => simp at hi
      | some j =>
        have : i = j := by simpa using hi
        rw [this]; exact hc j rfl
    | next inv w rs' =>
      simp only [List.mem_append] at hi
      rcases hi with hi | hi
      · cases inv with
        | none => simp at hi
        | some j =>
          have : i = j := by simpa using hi
          rw [this]; exact hc j rfl
      · exact ih _ _ _ i hi

/-! ### Round E: the life cycle of a request that expects a response -/

theorem find?_filter_ne (tbl : List Pend) (id : String) :
    (tbl.filter (fun p => p.id != id)).find? (fun p => p.id == id) = none := by
  induction tbl with
  | nil => rfl
  | cons p ps ih =>
    by_cases h : p.id = id
    · simp [List.filter, h, ih]
    · have h' : (p.id != id) = true := by simpa using h
      have h'' : (p.id == id) = false := by simpa using h
      simp [List.filter, h', List.find?, h'', ih]

/-- **a request that is over leaves no entry**: after `sendResp` returned — the transmission of
the request failed, or the caller's context ended while it waited — the table holds no entry for
its id (whatever was there before) -/
theorem C08_finished_request_not_pending (tbl : List Pend) (r : Req) (hf : r.fate ≠ .waiting) (n : Name) :
    pendMatch (sendRespTable tbl r) r.id n = none := by
  have : sendRespTable tbl r
      = (tbl.filter (fun p : Pend => p.id != r.id) ++ [(⟨r.id, r.name⟩ : Pend)]).filter (fun p : Pend => p.id != r.id) := by
    unfold sendRespTable
    cases hfa : r.fate with
    | waiting => exact absurd hfa hf
    | sendFailed => rfl
    | gaveUp => rfl
  rw [this]
  unfold pendMatch
  rw [find?_filter_ne]

/-- … and the entries of the other requests are untouched -/
theorem C08_finished_request_keeps_others (tbl : List Pend) (r : Req) (hf : r.fate ≠ .waiting)
    (hfresh : ∀ p ∈ tbl, p.id ≠ r.id) : sendRespTable tbl r = tbl := by
  have hfil : tbl.filter (fun p : Pend => p.id != r.id) = tbl := by
    rw [List.filter_eq_self]
    intro p hp
    simpa using hfresh p hp
  unfold sendRespTable
  cases hfa : r.fate with
  | waiting => exact absurd hfa hf
  | sendFailed => simp [List.filter_append, hfil]
  | gaveUp => simp [List.filter_append, hfil]

/-- **a response nobody waits for goes to the handler**: when the only request with that id is
over (failed transmission / gave up), an incoming element — also a result or error with exactly
that id and name — is handled like any other element: the step is `handleInputStream`'s, in
arrival order, and the table is unchanged -/
theorem C08_response_to_finished_request_is_handled (cfg : Cfg) (tbl : List Pend) (r : Req)
    (hf : r.fate ≠ .waiting) (rs : RS) (prog : Prog)
    (hid : ∀ n as rs1, ({ rs with dOut := 0, sticky := none } : RS).next = (.tok (.start n as), rs1) →
      getId (blankFrom cfg n as) = r.id) :
    handleInputStreamP cfg (sendRespTable tbl r) rs prog
      = (handleInputStream cfg rs prog, sendRespTable tbl r, none) := by
  apply C08_unawaited_element_handled
  unfold deliveredTo
  generalize hn : ({ rs with dOut := 0, sticky := none } : RS).next = x
  obtain ⟨rd, rs1⟩ := x
  cases rd with
  | tok t =>
    cases t with
    | start n as =>
      simp only
      split
      · rw [hid n as rs1 hn, C08_finished_request_not_pending tbl r hf n]; rfl
      · rfl
    | _ => rfl
  | _ => rfl

example : tableOf [⟨"p1", ⟨"", "iq"⟩, .sendFailed⟩, ⟨"p2", ⟨"", "iq"⟩, .waiting⟩, ⟨"p3", ⟨"", "iq"⟩, .gaveUp⟩]
    = [⟨"p2", ⟨"", "iq"⟩⟩] := by decide

/-! ### Round G: exact view / one invocation per element with local requests pending -/

/-- an element the table of pending requests does not claim: it is not of type result / error, or
no waiting request has its id and name -/
def Unclaimed (cfg : Cfg) (pend : List Pend) (c : Case) : Prop :=
  isReplyTyp (getTyp (blankFrom cfg c.n c.as)) = false ∨
    pendMatch pend (getId (blankFrom cfg c.n c.as)) c.n = none

example : Unclaimed { ns := nsClient, localBare := "me@example.com", jidCanon := fun s => some s }
    [⟨"p1", ⟨"", "iq"⟩⟩]
    { n := ⟨nsClient, "iq"⟩, as := [attr "type" "result", attr "id" "other"], body := [.stop ⟨nsClient, "iq"⟩],
      prog := Prog.nop, added := [] } := Or.inr (by decide)

/-- **exact view and resynchronisation with requests pending**: a well-formed element that no
waiting request claims is handled by `handleInputStreamP` exactly as `C08_exact_view_resync` says —
the handler's reads return the element's tokens through its end tag and then EOF, the input then
stands at the token after the end tag whatever was consumed — and the table is unchanged -/
theorem C08_exact_view_resync_pending (cfg : Cfg) (pend : List Pend) (c : Case) (hc : c.Ok cfg)
    (hu : Unclaimed cfg pend c) (a : Nat) (rest : List Tok) :
    handleInputStreamP cfg pend { inp := c.toks ++ rest, dIn := a, dOut := 0, sticky := none } c.prog
      = (.next (some (c.inv cfg)) c.written { inp := rest, dIn := a, dOut := 0, sticky := none }, pend, none) := by
  have hstep := handleInputStream_elem cfg
    { inp := c.toks ++ rest, dIn := a, dOut := 0, sticky := none }
    c.n c.as c.body rest c.prog (by simp [Case.toks]) hc.ns
    (by simpa using splitElem_ext c.body 0 c.body [] rest hc.wf)
    hc.pl hc.ret c.added hc.add
  have hdel : deliveredTo cfg pend { inp := c.toks ++ rest, dIn := a, dOut := 0, sticky := none } = none := by
    unfold deliveredTo
    have hnext : ({ ({ inp := c.toks ++ rest, dIn := a, dOut := 0, sticky := none } : RS) with dOut := 0, sticky := none } : RS).next
        = (.tok (.start c.n c.as), { inp := c.body ++ rest, dIn := a + 1, dOut := 1, sticky := none }) := by
      simp [RS.next, Case.toks, verdict, hc.ns]
    rw [hnext]
    rcases hu with h | h
    · simp [h]
    · simp [h]
  rw [C08_unawaited_element_handled cfg pend _ c.prog hdel, hstep]
  simp [Case.inv, Case.written]

/-- **one invocation per top-level element, in arrival order, with requests pending**: a sequence
of well-formed elements none of which a waiting request claims is served by `serveFP` (the machine
behind `servepw`) exactly as by `serveF`: one invocation per element with its exact view, each
handler's output followed by what the session adds, the table unchanged, nothing delivered, then
whatever the loop does with the rest of the input -/
theorem C08_serveFP_cases (cfg : Cfg) (pend : List Pend) : ∀ (cs : List Case) (fuel a : Nat) (tail : List Tok),
    (∀ c ∈ cs, c.Ok cfg) → (∀ c ∈ cs, Unclaimed cfg pend c) →
    serveFP cfg (fuel + cs.length) pend { inp := cs.flatMap Case.toks ++ tail, dIn := a, dOut := 0, sticky := none }
        (cs.map (·.prog))
      = { out :=
            { invs := cs.map (Case.inv cfg) ++ (serveFP cfg fuel pend { inp := tail, dIn := a, dOut := 0, sticky := none } []).out.invs,
              written := cs.flatMap Case.written ++ (serveFP cfg fuel pend { inp := tail, dIn := a, dOut := 0, sticky := none } []).out.written,
              result := (serveFP cfg fuel pend { inp := tail, dIn := a, dOut := 0, sticky := none } []).out.result },
          delivered := (serveFP cfg fuel pend { inp := tail, dIn := a, dOut := 0, sticky := none } []).delivered } := by
  intro cs
  induction cs with
  | nil => intro fuel a tail _ _; simp
  | cons c cs ih =>
    intro fuel a tail hok hun
    have hstep := C08_exact_view_resync_pending cfg pend c (hok c (by simp)) (hun c (by simp)) a
      (cs.flatMap Case.toks ++ tail)
    have hin : (c :: cs).flatMap Case.toks ++ tail = c.toks ++ (cs.flatMap Case.toks ++ tail) := by
      simp [List.append_assoc]
    have := ih fuel a tail (fun x hx => hok x (by simp [hx])) (fun x hx => hun x (by simp [hx]))
    rw [show fuel + (c :: cs).length = (fuel + cs.length) + 1 by simp; omega, hin]
    simp only [serveFP, List.map_cons, List.headD_cons, hstep, Option.isSome_some, if_true, List.tail_cons]
    rw [this]
    simp [List.append_assoc]

/-- … followed by the peer's closing tag: `Serve` ends without error, one invocation per element,
nothing handed to a waiter -/
theorem C08_one_per_element_pending (cfg : Cfg) (pend : List Pend) (cs : List Case) (junk : List Tok)
    (hok : ∀ c ∈ cs, c.Ok cfg) (hun : ∀ c ∈ cs, Unclaimed cfg pend c) :
    serveP cfg pend (cs.flatMap Case.toks ++ .stop ⟨nsStream, "stream"⟩ :: junk) (cs.map (·.prog))
      = { out := { invs := cs.map (Case.inv cfg), written := cs.flatMap Case.written, result := .clean },
          delivered := [] } := by
  have hlen : cs.length ≤ (cs.flatMap Case.toks).length := by
    clear hun
    induction cs with
    | nil => simp
    | cons c cs ih =>
      have := ih (fun x hx => hok x (by simp [hx]))
      rw [List.flatMap_cons, List.length_append]
      simp only [Case.toks, List.length_cons]
      omega
  unfold serveP
  obtain ⟨f, hf⟩ : ∃ f, (cs.flatMap Case.toks ++ Tok.stop ⟨nsStream, "stream"⟩ :: junk).length + 1
      = (f + 1) + cs.length :=
    ⟨(cs.flatMap Case.toks).length - cs.length + junk.length + 1, by
      rw [List.length_append, List.length_cons]; omega⟩
  rw [hf]
  have := C08_serveFP_cases cfg pend cs (f + 1) 0 (.stop ⟨nsStream, "stream"⟩ :: junk) hok hun
  simp only [RS.init]
  rw [this]
  simp [serveFP, handleInputStreamP, deliveredTo, handleInputStream, RS.next, verdict, nsStream]

/-! ### Round G: exact view / one invocation per element for the machine with output states -/

/-- a handler that leaves the output as it found it: it does not close it, what it writes (and what
the session adds) are whole elements, and the last of its `SetCloseDeadline` calls (if any) names
a time in the future -/
structure OpenOk (c : Case) : Prop where
  noClose : c.prog.close = false
  whole : leavesBroken (writesOf c.prog.ops) = false
  wholeAll : leavesBroken c.written = false
  live : expiredAfter c.prog.dls false = false

/-- **exact view and resynchronisation, machine with output states**: with the output open, a
well-formed element whose handler leaves the output as it found it is handled by
`handleInputStreamC` with the exact view of `C08_exact_view_resync`, the input then stands at the
token after its end tag, and what reaches the wire is what the encoder lets through -/
theorem C08_exact_view_resync_open_output (cfg : Cfg) (c : Case) (hc : c.Ok cfg) (ho : OpenOk c)
    (a : Nat) (rest : List Tok) :
    handleInputStreamC cfg .opn { inp := c.toks ++ rest, dIn := a, dOut := 0, sticky := none } c.prog
      = .next (some (c.inv cfg)) (encWire 0 c.written).2.2 { inp := rest, dIn := a, dOut := 0, sticky := none } := by
  have hstep := handleInputStream_elem cfg
    { inp := c.toks ++ rest, dIn := a, dOut := 0, sticky := none }
    c.n c.as c.body rest c.prog (by simp [Case.toks]) hc.ns
    (by simpa using splitElem_ext c.body 0 c.body [] rest hc.wf)
    hc.pl hc.ret c.added hc.add
  rw [C08_open_output cfg _ c.prog ho.noClose ho.whole, hstep]
  simp [Step.mapWritten, Case.inv, Case.written]

/-- **one invocation per top-level element, machine with output states** (`serveFC`, what the
driver runs for `servex`): with the output open and the deadline not passed, a sequence of
well-formed elements whose handlers leave the output as they found it gives one invocation per
element with its exact view, in order, the output stays open, then whatever the loop does with
the rest of the input -/
theorem C08_serveFC_cases (cfg : Cfg) : ∀ (cs : List Case) (fuel a : Nat) (tail : List Tok),
    (∀ c ∈ cs, c.Ok cfg) → (∀ c ∈ cs, OpenOk c) →
    serveFC cfg (fuel + cs.length) .opn false { inp := cs.flatMap Case.toks ++ tail, dIn := a, dOut := 0, sticky := none }
        (cs.map (·.prog))
      = { invs := cs.map (Case.inv cfg) ++ (serveFC cfg fuel .opn false { inp := tail, dIn := a, dOut := 0, sticky := none } []).invs,
          written := cs.flatMap (fun c => (encWire 0 c.written).2.2)
            ++ (serveFC cfg fuel .opn false { inp := tail, dIn := a, dOut := 0, sticky := none } []).written,
          result := (serveFC cfg fuel .opn false { inp := tail, dIn := a, dOut := 0, sticky := none } []).result } := by
  intro cs
  induction cs with
  | nil => intro fuel a tail _ _; simp
  | cons c cs ih =>
    intro fuel a tail hok hop
    have hc := hok c (by simp)
    have ho := hop c (by simp)
    have hstepC := C08_exact_view_resync_open_output cfg c hc ho a (cs.flatMap Case.toks ++ tail)
    have hstep := handleInputStream_elem cfg
      { inp := c.toks ++ (cs.flatMap Case.toks ++ tail), dIn := a, dOut := 0, sticky := none }
      c.n c.as c.body (cs.flatMap Case.toks ++ tail) c.prog (by simp [Case.toks]) hc.ns
      (by simpa using splitElem_ext c.body 0 c.body [] (cs.flatMap Case.toks ++ tail) hc.wf)
      hc.pl hc.ret c.added hc.add
    have hin : (c :: cs).flatMap Case.toks ++ tail = c.toks ++ (cs.flatMap Case.toks ++ tail) := by
      simp [List.append_assoc]
    have hout : outAfter .opn c.prog (writesOf c.prog.ops ++ c.added) = .opn := by
      have := ho.wholeAll
      simp only [Case.written] at this
      simp [outAfter, ho.noClose, this]
    have := ih fuel a tail (fun x hx => hok x (by simp [hx])) (fun x hx => hop x (by simp [hx]))
    rw [show fuel + (c :: cs).length = (fuel + cs.length) + 1 by simp; omega, hin]
    simp only [serveFC, Bool.false_eq_true, ↓reduceIte, List.map_cons, List.headD_cons, hstepC, hstep,
      Step.written, Option.isSome_some, if_true, List.tail_cons, hout, ho.live, Bool.and_false, Bool.true_and]
    rw [this]
    simp [List.append_assoc]

/-- … followed by the peer's closing tag: `Serve` ends without error -/
theorem C08_one_per_element_open_output (cfg : Cfg) (cs : List Case) (junk : List Tok)
    (hok : ∀ c ∈ cs, c.Ok cfg) (hop : ∀ c ∈ cs, OpenOk c) :
    serveC cfg false (cs.flatMap Case.toks ++ .stop ⟨nsStream, "stream"⟩ :: junk) (cs.map (·.prog))
      = { invs := cs.map (Case.inv cfg), written := cs.flatMap (fun c => (encWire 0 c.written).2.2),
          result := .clean } := by
  have hlen : cs.length ≤ (cs.flatMap Case.toks).length := by
    clear hop
    induction cs with
    | nil => simp
    | cons c cs ih =>
      have := ih (fun x hx => hok x (by simp [hx]))
      rw [List.flatMap_cons, List.length_append]
      simp only [Case.toks, List.length_cons]
      omega
  unfold serveC
  obtain ⟨f, hf⟩ : ∃ f, (cs.flatMap Case.toks ++ Tok.stop ⟨nsStream, "stream"⟩ :: junk).length + 1
      = (f + 1) + cs.length :=
    ⟨(cs.flatMap Case.toks).length - cs.length + junk.length + 1, by
      rw [List.length_append, List.length_cons]; omega⟩
  rw [hf]
  have := C08_serveFC_cases cfg cs (f + 1) 0 (.stop ⟨nsStream, "stream"⟩ :: junk) hok hop
  simp only [RS.init, Bool.false_eq_true, ↓reduceIte]
  rw [this]
  simp [serveFC, handleInputStreamC, handleInputStream, RS.next, verdict, nsStream]

/-- a message whose handler reads one token, writes a whole element, and moves the deadline twice
(past, then future) -/
def openOkExample : Case :=
  { n := ⟨nsClient, "message"⟩
    as := []
    body := [Tok.stop ⟨nsClient, "message"⟩]
    prog := { ops := [Op.read, Op.write [Tok.start ⟨"", "presence"⟩ [], Tok.stop ⟨"", "presence"⟩]], ret := Ret.ok, dls := [2, 1] }
    added := [] }

example : OpenOk openOkExample := ⟨rfl, by decide, by decide, by decide⟩

end XmppModel.Props.C08
