import XmppModel.Model.Serve
import XmppModel.Lemmas.Serve
/-!
# C08 — handlers see one element at a time; stream-level input never reaches them

Property theorems only (helpers are in `Lemmas/Serve.lean`).  Quantifiers: every token list the
decoder can produce (in fact every token list), every list of handler programs (any reads and
writes, any return value).
-/
namespace XmppModel.Props.C08
open XmppModel XmppModel.Xml XmppModel.Serve

/-! ### stream-level input never reaches a handler -/

/-- **nothing stream-level is ever visible**: for every input and all handler programs, every
invocation starts at a start tag outside the stream namespace and every token any of its reads
returns is ordinary content (text, or a start / end tag outside the stream namespace) — never a
comment, processing instruction, directive, stream error, stream restart or other
stream-namespace element, at any nesting depth -/
theorem C08_stream_level_hidden (cfg : Cfg) (inp : List Tok) (progs : List Prog) :
    ∀ i ∈ (serve cfg inp progs).invs, InvClean i :=
  serveF_clean cfg _ _ progs

/-- the peer's closing tag ends `Serve` without error and without any invocation, whatever
follows it and whatever the handlers are -/
theorem C08_peer_close (cfg : Cfg) (rest : List Tok) (progs : List Prog) :
    serve cfg (.stop ⟨nsStream, "stream"⟩ :: rest) progs
      = { invs := [], written := [], result := .clean } := by
  simp [serve, serveF, handleInputStream, RS.next, RS.init, verdict, nsStream]

/-- a white-space keep-alive between elements is ignored -/
theorem C08_keepalive (cfg : Cfg) (s : String) (hs : isWs s = true) (inp : List Tok) (progs : List Prog) :
    serve cfg (.chars s :: inp) progs = serve cfg inp progs := by
  simp [serve, serveF, handleInputStream, RS.next, RS.init, verdict, hs]

/-- text other than white space between elements ends the session with an error -/
theorem C08_top_chardata (cfg : Cfg) (s : String) (hs : isWs s = false) (rest : List Tok) (progs : List Prog) :
    serve cfg (.chars s :: rest) progs = { invs := [], written := [], result := .error .chardata } := by
  simp [serve, serveF, handleInputStream, RS.next, RS.init, verdict, hs]

theorem C08_top_comment (cfg : Cfg) (c : String) (rest : List Tok) (progs : List Prog) :
    serve cfg (.comment c :: rest) progs = { invs := [], written := [], result := .error .comment } := by
  simp [serve, serveF, handleInputStream, RS.next, RS.init, verdict]

theorem C08_top_procInst (cfg : Cfg) (a b : String) (rest : List Tok) (progs : List Prog) :
    serve cfg (.procInst a b :: rest) progs = { invs := [], written := [], result := .error .procInst } := by
  simp [serve, serveF, handleInputStream, RS.next, RS.init, verdict]

theorem C08_top_directive (cfg : Cfg) (c : String) (rest : List Tok) (progs : List Prog) :
    serve cfg (.directive c :: rest) progs = { invs := [], written := [], result := .error .directive } := by
  simp [serve, serveF, handleInputStream, RS.next, RS.init, verdict]

/-- a stream restart after negotiation ends the session with the restart error -/
theorem C08_top_restart (cfg : Cfg) (as : List Attr) (rest : List Tok) (progs : List Prog) :
    serve cfg (.start ⟨nsStream, "stream"⟩ as :: rest) progs
      = { invs := [], written := [], result := .error .restart } := by
  simp [serve, serveF, handleInputStream, RS.next, RS.init, verdict, nsStream]

/-- any other element of the stream namespace ends the session -/
theorem C08_top_unknown (cfg : Cfg) (l : String) (as : List Attr) (rest : List Tok) (progs : List Prog)
    (h1 : l ≠ "error") (h2 : l ≠ "stream") :
    serve cfg (.start ⟨nsStream, l⟩ as :: rest) progs
      = { invs := [], written := [], result := .error .unknownElem } := by
  simp [serve, serveF, handleInputStream, RS.next, RS.init, verdict, h1, h2]

/-- **a received stream error is returned as such**: the session ends with that error (its
condition is the one the peer sent) and no handler runs -/
theorem C08_top_stream_error (cfg : Cfg) (as : List Attr) (rest : List Tok) (progs : List Prog)
    (c : String) (hc : closes 0 rest = true) (hcond : seCond rest = some c) :
    serve cfg (.start ⟨nsStream, "error"⟩ as :: rest) progs
      = { invs := [], written := [], result := .error (.streamError c) } := by
  simp [serve, serveF, handleInputStream, RS.next, RS.init, verdict, hc, hcond]

/-- the same error is what negotiation ends with when the stream error arrives in the place of
a stream header (with or without a preceding XML declaration) -/
theorem C08_header_stream_error (as : List Attr) (rest : List Tok) (c : String)
    (hc : closes 0 rest = true) (hcond : seCond rest = some c) :
    expectHeader (.start ⟨nsStream, "error"⟩ as :: rest) = "se:" ++ c ∧
    expectHeader (.procInst "xml" "version=\"1.0\"" :: .start ⟨nsStream, "error"⟩ as :: rest) = "se:" ++ c := by
  simp [expectHeader, expectHeader1, verdict, hc, hcond, Err.name, nsStream]

example : closes 0 [Tok.start ⟨"urn:ietf:params:xml:ns:xmpp-streams", "host-gone"⟩ [],
    .stop ⟨"urn:ietf:params:xml:ns:xmpp-streams", "host-gone"⟩, .stop ⟨nsStream, "error"⟩] = true ∧
    seCond [Tok.start ⟨"urn:ietf:params:xml:ns:xmpp-streams", "host-gone"⟩ [],
    .stop ⟨"urn:ietf:params:xml:ns:xmpp-streams", "host-gone"⟩, .stop ⟨nsStream, "error"⟩] = some "host-gone" := by
  decide

end XmppModel.Props.C08
