package main

import "verifharness/c18"

func init() { runners["C18"] = c18.Run; facts["C18"] = c18.Facts }
