package c06

import (
	"fmt"
	"strconv"
	"strings"

	"verifharness/common"
)

// corpus of session-core schedules: every ordering of {lookup, cancel, select,
// failed transmission, close} that has a distinct outcome in the model, plus
// wrong-kind / unknown-id / duplicate / late responses.
var sessCorpus = []struct {
	reqs  string
	sched string
}{
	{"i:0", "c0,o0,s0,pi0r,g,h,k0"},                     // plain round trip
	{"i:0", "c0,o0,pi0r,g,s0,h,k0"},                     // response before the requester selects
	{"i:0", "c0,pi0r,o0,g,s0,k0,h"},                     // response before the request left; close before the serve loop waits
	{"i:0", "c0,pi0r,f0,g"},                             // lookup hit, then the transmission fails (defect witness before the fix)
	{"i:0", "c0,pi0r,g,f0"},                             // same, serve loop already in its select
	{"i:0", "c0,o0,s0,pi0r,x0,g"},                       // cancel window: lookup, then cancel
	{"i:0", "c0,o0,pi0r,x0,s0,g"},                       //
	{"i:0", "c0,o0,s0,x0,pi0r"},                         // late response goes to the handler
	{"i:0", "c0,o0,s0,pi0r,g,h,k0,pi0r"},                // duplicate response goes to the handler
	{"i:0", "c0,o0,s0,pm0e,pp0e,pi7r,pm0n,pi0e,g,h,k0"}, // wrong kind, unknown id, non-response, then the real one
	{"i:0,m:1,p:2", "c0,o0,c1,o1,c2,o2,s0,s1,s2,pp2e,g,h,k2,pm1e,g,h,k1,pi0r,g,h,k0"},
	{"i:0,i:1", "c0,o0,c1,o1,s1,s0,pi1r,g,h,pi0r,k1,g,h,k0"},
	{"i:0,m:0", "c0,o0,c1,o1,s0,s1,pi0r,pm0e,g"},        // two requests with one id: the later registration owns the slot
	{"i:0,i:0", "c0,o0,s0,c1,o1,s1,x1,pi0r"},            // same id twice: the second call's return removes the slot
	{"m:3", "c0,o0,s0,pm3e,g,x0,h,k0"},
	// a response whose content cannot be read to its end: the caller reads into the error (the
	// response closes itself) and then closes it, as UnmarshalIQ does — one close of the hand-off
	// channel, no panic; the serve loop cannot read the rest either and Serve returns that error
	{"i:0:e:r", "c0,o0,s0,pi0rX,g,h,d0,k0"},
	{"i:0:e:r", "c0,o0,s0,pi0eX,g,d0,k0"},
	{"m:0:c:e", "c0,o0,s0,pm0eX,g,h,k0"},
	{"i:0:e:r", "c0,o0,s0,pi0rT,g,h,d0,k0"}, // the input ends in the middle of the response
	{"i:0:c:e", "c0,o0,s0,pi0eT,g,k0"},
	{"i:0:e:r", "c0,o0,s0,pm9nT"},
	{"i:0:e:r,i:1:e:r", "c0,o0,c1,o1,s0,s1,pi1r,g,h,d1,k1,pi0rX,g,h,d0,k0,x1"},
	// after a transmission that failed inside its element the output is broken for good: other
	// waiters still get their replies or their context errors, new calls fail at once, stanzas
	// that need no write still reach the handler, and Serve returns at its first own write
	{"i:0:e:r,i:1:e:r", "c0,o0,s0,c1,f1,pi0r,g,h,k0,pm9n,pi9r"},
	{"i:0:e:r,i:1:e:r", "c0,o0,s0,c1,f1,x0,pm9n,pi9g"},
	{"i:0:e:r,i:1:e:r,m:2:c:e", "c0,f0,c1,c2,pm9n,pi1r,pi9g"},
	{"i:0:e:r", "c0,pi0r,f0,g,pm9e,pi9t"},
	// a transmission that fails WITHOUT touching the wire (output stream already closed): the
	// serve loop goes on with everything that needs no write
	{"i:0:e:r,m:1:e:e", "c0,o0,s0,C,c1,pi0r,g,h,k0,pm1e,pm9n,pp9n"},
	{"i:0:e:r", "C,c0,pi0r,pm9e,pi9g"},
	// requests that spell out the stream's namespace: a response of another kind with the same id
	// must go to the handler, the real one to the caller (every kind, both APIs)
	{"i:0:c:r", "c0,o0,s0,pm0e,pp0e,pi0e,g,h,k0"},
	{"i:0:c:e", "c0,o0,s0,pm0e,pp0e,pm0r,pi0r,g,h,k0"},
	{"m:0:c:r", "c0,o0,s0,pi0e,pi0r,pp0e,pm0e,g,h,k0"},
	{"m:0:c:e", "c0,o0,s0,pi0r,pp0e,pm0e,g,h,k0"},
	{"p:0:c:r", "c0,o0,s0,pi0e,pm0e,pp0e,g,h,k0"},
	{"p:0:c:e", "c0,o0,s0,pi0r,pm0e,pp0e,g,h,k0"},
	{"i:0:e:e,m:1:e:e,p:2:e:e", "c0,o0,c1,o1,c2,o2,s0,s1,s2,pm0e,pp1e,pi2r,pi0r,g,h,k0,pm1e,g,h,k1,pp2e,g,h,k2"},
	// the other stanza namespace: matched only by a stanza that carries it too
	{"i:0:s:r", "c0,o0,s0,pi0r,pi0rS,g,h,k0"},
	{"i:0:c:r", "c0,o0,s0,pi0rS,pi0r,g,h,k0"},
	{"i:0:e:r", "c0,o0,s0,pm0eS,pi0rS,g,h,k0"},
	// only result/error stanzas consult the table: a get/set (or chat, available) with the id of a
	// pending request goes to the handler and the caller keeps waiting
	{"i:0:e:r", "c0,o0,s0,pi0g,pi0t,pm0n,pp0n,pi0r,g,h,k0"},
	{"i:0:c:e,i:1:e:r", "c0,o0,c1,o1,s0,s1,pi1g,pi0t,pi1r,g,h,k1,pi0e,g,h,k0"},
	{"p:3", "c0,o0,s0,pp3e,g,h,x0,k0,pp3e"},
	// the stanza attributes are the UNQUALIFIED id / type: a response to somebody else that merely
	// carries a foreign x:id (or a namespace declaration xmlns:id) with the value of a pending id
	// goes to the handler; a get with a foreign x:type="result" is no response; the real one is
	// found whatever surrounds its attributes
	{"i:0:e:r", "c0,o0,s0,pi7r+qi0b,pi7e+ni0b,pi7r+qi0a,pi0g+qtrb,pi0t+ntea,pi0r+qi7bqtgb,g,h,k0"},
	{"m:1:c:e,i:0:e:r", "c0,o0,c1,o1,s0,s1,pm0e+qi1b,pi1r+ni0b,pm1n+qteb,pm1e+qi0bni0a,g,h,k0,pi0e+qtgbni1b,g,h,k1"},
	{"p:2:e:r", "c0,o0,s0,pp7e+qi2b,pp2n+qteb,pp2e+nt" + "ga,g,h,k0"},
	// … and the same for the request's own start element
	{"i:0:e:r:q", "c0,o0,s0,pi9r,pi0r,g,h,k0"},
	{"m:3:c:r:q,i:9:e:r", "c0,o0,c1,o1,s0,s1,pm9e,pm3e,g,h,k0,pi9r,g,h,k1"},
	// round E (review A C06-4): a second call REGISTERS (and transmits) while the serve loop is
	// parked behind its look-up / inside the hand-off select / waiting for the close — a lock held
	// across the hand-off would stall exactly here
	{"i:0:e:r,i:1:e:r", "c0,o0,pi0r,c1,o1,g,s0,h,k0,s1,pi1r,g,h,k1"},
	{"i:0:e:r,i:1:e:r", "c0,o0,pi0r,g,c1,o1,s1,s0,h,k0,pi1r,g,h,k1"},
	{"i:0:e:r,m:1:c:e", "c0,o0,s0,pi0r,g,h,c1,o1,s1,k0,pm1e,g,h,k1"},
	{"i:0:e:r,i:1:e:r", "c0,o0,s0,pi0r,g,c1,x1,o1,s1,h,k0"},
	// round F (seeded C06-22): the context of a call ends AFTER the call returned its response
	// and BEFORE the caller closed it: the serve loop keeps waiting for the close
	{"i:0:e:r", "c0,o0,s0,pi0r,g,h,x0,k0,pm9n"},
	{"m:0:c:e", "c0,o0,s0,pm0e,g,h,x0,d0,k0,pi9r"},
	{"p:0:e:r,i:1:e:r", "c0,o0,c1,o1,s0,s1,pp0e,g,h,x0,x1,k0,pi1r,g"},
}

// every stanza kind x type (result, error; normal, get, set) x id (two requester ids and an
// unknown one) x namespace (the stream's, jabber:server spelled out)
var peerAlphabet = func() []string {
	var out []string
	for _, k := range "imp" {
		types := "ren"
		if k == 'i' {
			types = "regt"
		}
		for _, t := range types {
			for _, id := range []int{0, 1, 9} {
				out = append(out, fmt.Sprintf("p%c%d%c", k, id, t), fmt.Sprintf("p%c%d%cS", k, id, t))
				// decoy attributes: a foreign / xmlns attribute named id with another requester's
				// id, or named type with the opposite class of type, in front of / behind the real ones
				other := map[int]int{0: 1, 1: 0, 9: 0}[id]
				flip := map[rune]byte{'r': 'g', 'e': 't', 'n': 'r', 'g': 'r', 't': 'e'}[t]
				for _, form := range "qn" {
					for _, pl := range "ba" {
						out = append(out, fmt.Sprintf("p%c%d%c+%ci%d%c", k, id, t, form, other, pl),
							fmt.Sprintf("p%c%d%c+%ct%c%c", k, id, t, form, flip, pl))
					}
				}
				out = append(out, fmt.Sprintf("p%c%d%c+qi%dbqt%cb", k, id, t, other, flip))
			}
		}
	}
	return out
}()

func parseReqs(s string) []reqSpec {
	var out []reqSpec
	if s == "-" || s == "" {
		return out
	}
	for _, f := range strings.Split(s, ",") {
		p := strings.Split(f, ":")
		id, _ := strconv.Atoi(p[1])
		q := reqSpec{kind: p[0][0], id: id, ns: 'e', api: 'r'}
		if len(p) > 4 && p[4] != "" {
			q.dec = p[4][0]
		}
		if len(p) > 2 && p[2] != "" {
			q.ns = p[2][0]
		}
		if len(p) > 3 && p[3] != "" {
			q.api = p[3][0]
		}
		out = append(out, q)
	}
	return out
}

func randSched(rnd *common.Rand, n int, length int) []string {
	var out []string
	for len(out) < length {
		i := strconv.Itoa(rnd.Intn(n))
		switch rnd.Intn(14) {
		case 0, 1:
			out = append(out, "c"+i)
		case 2, 3:
			out = append(out, "o"+i)
		case 4:
			out = append(out, "f"+i)
		case 5:
			out = append(out, "x"+i)
		case 6, 7:
			out = append(out, "s"+i)
		case 8, 9:
			out = append(out, peerAlphabet[rnd.Intn(len(peerAlphabet))])
		case 10, 11:
			out = append(out, "g")
		case 12:
			out = append(out, "h")
		case 13:
			if rnd.Chance(1, 6) {
				out = append(out, "C")
			} else if rnd.Chance(1, 3) {
				out = append(out, "d"+i, "k"+i)
			} else {
				out = append(out, "k"+i)
			}
		}
	}
	return out
}

func randReqs(rnd *common.Rand) []reqSpec {
	n := 1 + rnd.Intn(3)
	var out []reqSpec
	for i := 0; i < n; i++ {
		id := i
		if rnd.Chance(1, 4) {
			id = rnd.Intn(2)
		}
		q := reqSpec{kind: "iiimp"[rnd.Intn(5)], id: id, ns: "eeccs"[rnd.Intn(5)], api: "re"[rnd.Intn(2)]}
		if q.api == 'r' && rnd.Chance(1, 5) {
			q.dec = 'q'
		}
		out = append(out, q)
	}
	return out
}

// Run is the C06 runner.
func Run(r *common.Run) error {
	if r.Replay != "" {
		lines, err := common.ReplayLines(r.Replay)
		if err != nil {
			return err
		}
		for _, l := range lines {
			f := strings.Fields(l)
			if len(f) < 3 || f[0] != "C06" || (len(f) < 4 && f[1] != "exp") {
				continue
			}
			if f[1] == "ibbw" {
				// the runner appends the wind-down itself
				ops := strings.Split(f[3], ",")
				if len(ops) >= 3 && strings.Join(ops[len(ops)-3:], ",") == "a,k,C" {
					ops = ops[:len(ops)-3]
				}
				runIbbw(r, f[2], ops, "replay")
				continue
			}
			if f[1] == "exp" && len(f) >= 3 {
				runExpect(r, strings.Split(f[2], ","), "replay")
				continue
			}
			switch f[1] {
			case "sess":
				runSess(r, parseReqs(f[2]), replayable(f[3]), "replay")
			case "rcpt":
				runRcpt(r, parseIDs(f[2]), replayable(f[3]), "replay")
			case "wrap":
				runWrap(r, f[2][0], f[3], "replay")
			case "key":
				if k, ok := parseKeyLine(f[1:]); ok {
					runKey(r, k, "replay")
				}
			}
		}
		return nil
	}
	// free-running concurrent use (the race-detector run consists of this and the corpora)
	r.Mark("case concurrent 0")
	runConcurrent(r, 6, r.Pick(15, 60))
	if r.Race() {
		for k := 1; k <= 6; k++ {
			r.Mark("case concurrent %d", k)
			runConcurrent(r, 2+k, 40)
		}
	}
	for n, c := range sessCorpus {
		if r.Hist["problem"] >= 8 || len(r.Failures) >= 60 {
			break // a broken tree costs a watchdog per case
		}
		r.Mark("case sess-corpus %d", n)
		runSess(r, parseReqs(c.reqs), strings.Split(c.sched, ","), "sess-corpus")
	}
	for n, c := range rcptCorpus {
		r.Mark("case rcpt-corpus %d", n)
		runRcpt(r, parseIDs(c.ids), strings.Split(c.sched, ","), "rcpt-corpus")
	}
	if r.Race() {
		r.Notes = append(r.Notes, "race-detector run: concurrent scenarios and corpora only")
		return nil
	}
	if len(r.Failures) >= 12 || r.Hist["problem"] >= 8 {
		// the session core is broken: the failing inputs are recorded, every further domain would
		// only add watchdogs (round E self-test: a lock held across the hand-off cost > 10 minutes)
		r.Notes = append(r.Notes, fmt.Sprintf("%d oracle failures in the corpora: the remaining domains were not run", len(r.Failures)))
		return nil
	}
	// the helpers that own the response they wait for, over every reply shape
	runWraps(r)
	// the key a call waits under against the id on the wire; addresses of request and reply
	runKeys(r)
	// the listener's table of expected streams
	runExpects(r)
	// the waits of one in-band bytestream: blocked Read / Write / Close against peer packets on
	// both carriers, peer close, replies
	runIbbws(r)
	// schedules generated from the Lean LTS by the driver
	nGen := 0
	if bin := findDriver(r.Dir); bin != "" {
		configs := r.Pick(40, 400)
		per := r.Pick(30, 60)
		for n := 0; n < configs && len(r.Failures) < 60 && r.Hist["problem"] < 25; n++ {
			reqs := randReqs(r.Rnd)
			if len(reqs) > 2 {
				reqs = reqs[:2]
			}
			ans, err := askDriver(bin, fmt.Sprintf("C06 gen %s %d %d %d", reqField(reqs), r.Rnd.Intn(1<<30), per, 10+r.Rnd.Intn(20)))
			if err != nil {
				r.Notes = append(r.Notes, "schedule generation failed: "+err.Error())
				break
			}
			for _, sc := range strings.Split(ans, ";") {
				if sc == "" || sc == "-" {
					continue
				}
				r.Mark("case sess-model %d", nGen)
				nGen++
				runSessScript(r, reqs, strings.Split(sc, ","), "sess-model")
			}
		}
		if !r.Quick() {
			// every path of the LTS up to a bound, one and two requesters
			for _, cfg := range []struct {
				reqs  string
				depth int
			}{{"i:0:e:r", 9}, {"m:0:c:e", 8}, {"i:0:e:r,i:1:c:e", 6}, {"i:0:c:r,m:0:e:e", 6}} {
				ans, err := askDriver(bin, fmt.Sprintf("C06 genall %s %d %d", cfg.reqs, cfg.depth, 15000))
				if err != nil {
					break
				}
				for _, sc := range strings.Split(ans, ";") {
					if sc == "" || sc == "-" || len(r.Failures) >= 60 || r.Hist["problem"] >= 25 {
						continue
					}
					r.Mark("case sess-model-all %d", nGen)
					nGen++
					runSessScript(r, parseReqs(cfg.reqs), strings.Split(sc, ","), "sess-model-exhaustive")
				}
			}
			r.Exhaustive = append(r.Exhaustive, "every path of the session LTS with <= 9 (one requester) / 6 (two requesters) harness actions over the generated peer alphabet (capped at 15000 per configuration)")
		}
	} else {
		r.Notes = append(r.Notes, "xdriver not found: no model-generated schedules in this run")
	}
	nS := r.Pick(600, 8000)
	for n := 0; n < nS && len(r.Failures) < 60 && r.Hist["problem"] < 25; n++ {
		r.Mark("case sess-random %d", n)
		reqs := randReqs(r.Rnd)
		runSess(r, reqs, randSched(r.Rnd, len(reqs), 10+r.Rnd.Intn(30)), "sess-random")
	}
	nR := r.Pick(1500, 25000)
	for n := 0; n < nR && len(r.Failures) < 60 && r.Hist["problem"] < 25; n++ {
		r.Mark("case rcpt-random %d", n)
		ids := randIDs(r.Rnd)
		runRcpt(r, ids, randRcptSched(r.Rnd, len(ids), 8+r.Rnd.Intn(24)), "rcpt-random")
	}
	r.Notes = append(r.Notes, fmt.Sprintf("forced schedules: %d session corpus + %d generated from the Lean LTS + %d harness-random, %d receipts corpus + %d random", len(sessCorpus), nGen, nS, len(rcptCorpus), nR))
	return nil
}

// replayable turns an observed trace back into a schedule: observation tokens
// (R…, H…, T…, U…) are dropped, the actions are kept.
func replayable(trace string) []string {
	var out []string
	for _, t := range strings.Split(trace, ",") {
		if t == "" || t == "-" {
			continue
		}
		switch t[0] {
		case 'R', 'H', 'T', 'U', 'A':
			continue
		}
		out = append(out, t)
	}
	return out
}
