package c06

import (
	"context"
	"encoding/xml"
	"errors"
	"fmt"
	"io"
	"os"
	"strconv"
	"strings"
	"time"

	"mellium.im/xmpp/jid"
	"mellium.im/xmpp/mux"
	"mellium.im/xmpp/receipts"
	"mellium.im/xmpp/stanza"

	"verifharness/common"
)

// Receipts scenario: waiters call receipts.Handler.SendMessageElement on a real
// served session, the peer sends <received/> messages; the handler and the
// waiters are parked at the receipts yield points.

var rcptCorpus = []struct {
	ids   string
	sched string
}{
	{"0", "c0,o0,s0,q0,d"},       // plain
	{"0", "c0,o0,q0,d,s0"},       // receipt before the sender selects
	{"0", "c0,o0,s0,q0,x0,d"},    // defect witness before the fix: lookup+delete, cancel (close), send
	{"0", "c0,o0,q0,x0,s0,d"},    //
	{"0", "c0,q0,f0,d"},          // lookup, then the transmission fails: nobody receives
	{"0,1", "c0,q7,q0,d,o0,s0"},  // receipts arrive WHILE the message is still being written (the sender is parked inside SendElement): the handler must not wait for it
	{"0,1", "c0,o0,c1,q0,d,q7,o1,s0,s1"},
	{"0", "c0,f0,q0"},            // failed transmission must not leave the id registered
	{"0", "c0,o0,s0,x0,q0"},      // late receipt is unhandled
	{"0", "c0,o0,s0,q0,d,q0,q7"}, // duplicate and unknown receipts are unhandled
	{"0,1", "c0,o0,c1,o1,s0,s1,q1,d,q0,d"},
	{"0,0", "c0,o0,c1,o1,s0,s1,q0,d,x0"},
}

func parseIDs(s string) []int {
	var out []int
	if s == "-" || s == "" {
		return out
	}
	for _, f := range strings.Split(s, ",") {
		n, _ := strconv.Atoi(f)
		out = append(out, n)
	}
	return out
}

func randIDs(rnd *common.Rand) []int {
	n := 1 + rnd.Intn(3)
	var out []int
	for i := 0; i < n; i++ {
		id := i
		if rnd.Chance(1, 5) {
			id = 0
		}
		out = append(out, id)
	}
	return out
}

func randRcptSched(rnd *common.Rand, n, length int) []string {
	var out []string
	for len(out) < length {
		i := strconv.Itoa(rnd.Intn(n))
		switch rnd.Intn(12) {
		case 0, 1:
			out = append(out, "c"+i)
		case 2, 3:
			out = append(out, "o"+i)
		case 4:
			out = append(out, "f"+i)
		case 5:
			out = append(out, "x"+i)
		case 6, 7:
			out = append(out, "s"+i)
		case 8, 9:
			out = append(out, "q"+strconv.Itoa(rnd.Intn(n+1)))
		default:
			out = append(out, "d")
		}
	}
	return out
}

// firstGate parks on its first Token call.
type firstGate struct {
	ctl   *Ctl
	label string
	fail  chan bool
	done  bool
}

func (g *firstGate) Token() (xml.Token, error) {
	if !g.done {
		g.done = true
		g.ctl.Gate(g.label, "payload")
		fail := true
		select {
		case fail = <-g.fail:
		default:
		}
		if fail {
			return nil, errPayload
		}
	}
	return nil, io.EOF
}

type rcptRun struct {
	r   *common.Run
	ctl *Ctl
	rs  *common.RawSession
	h   *receipts.Handler
	ids []int

	wstate   []string // new payload presel insel ret
	outcome  []string
	cancel   []context.CancelFunc
	cancd    []bool
	gates    []*firstGate
	table    map[int]int
	hsend    int // waiter the parked handler is about to signal, -1 none
	buf      []int
	unh      []int
	trace    []string
	skipped  []Ev
	problems []string
	stuck    bool
	broken   bool // a transmission failed inside its element
}

func newRcptRun(r *common.Run, ids []int) (*rcptRun, error) {
	ctl := NewCtl("receipts.handle.send", "receipts.send.select")
	rs, err := common.NewRawSession(0, "jabber:client", jid.MustParse("me@example.net/h"), jid.MustParse("example.net"))
	if err != nil {
		return nil, err
	}
	rr := &rcptRun{r: r, ctl: ctl, rs: rs, ids: ids, table: map[int]int{}, hsend: -1}
	rr.h = &receipts.Handler{Unhandled: func(id string) { ctl.Emit("handler", "unh:"+id, nil) }}
	n := len(ids)
	rr.wstate = make([]string, n)
	rr.outcome = make([]string, n)
	rr.cancel = make([]context.CancelFunc, n)
	rr.cancd = make([]bool, n)
	rr.gates = make([]*firstGate, n)
	rr.buf = make([]int, n)
	for i := range rr.wstate {
		rr.wstate[i], rr.outcome[i] = "new", "-"
	}
	m := mux.New("jabber:client", receipts.Handle(rr.h))
	ctl.Go("serve", func() {
		err := rs.S.Serve(m)
		ctl.Emit("serve", "ret:"+fmt.Sprint(err), nil)
	})
	return rr, nil
}

func (rr *rcptRun) problem(f string, a ...interface{}) {
	rr.problems = append(rr.problems, fmt.Sprintf(f, a...))
}

func (rr *rcptRun) lines() []string {
	var l []string
	for _, id := range rr.ids {
		l = append(l, strconv.Itoa(id))
	}
	return []string{rr.r.Prop + " rcpt " + common.Join(l, ",") + " " + common.Join(rr.trace, ",")}
}

func (rr *rcptRun) wait(pred func(Ev) bool, what string) (Ev, bool) {
	e, ok := rr.ctl.Wait(watchdog, pred, &rr.skipped)
	if !ok {
		rr.problem("WATCHDOG waiting for %s", what)
	}
	return e, ok
}

func (rr *rcptRun) returned(i int, e Ev) {
	err, _ := e.Extra.(error)
	rr.wstate[i] = "ret"
	switch {
	case err == nil:
		rr.outcome[i] = "ok"
		rr.trace = append(rr.trace, "T"+strconv.Itoa(i))
		if rr.buf[i] == 0 {
			rr.r.Fail("own-reply", "receipt-without-signal", rr.lines(), fmt.Sprintf("waiter %d returned nil although no receipt for its id was delivered to it", i))
		} else {
			rr.buf[i]--
		}
	case errors.Is(err, context.Canceled):
		rr.outcome[i] = "err"
		rr.trace = append(rr.trace, "R"+strconv.Itoa(i)+"c")
		delete(rr.table, rr.ids[i])
		if !rr.cancd[i] {
			rr.r.Fail("outcome", "ctx-error-without-cancel", rr.lines(), fmt.Sprintf("waiter %d returned context.Canceled but its context was never cancelled", i))
		}
	case errors.Is(err, errPayload), err != nil && strings.Contains(err.Error(), "abandoned in the middle of an element"):
		rr.outcome[i] = "err"
		delete(rr.table, rr.ids[i])
	default:
		rr.outcome[i] = "other"
		rr.problem("waiter %d returned %v", i, err)
	}
}

func (rr *rcptRun) afterEnable(i int) {
	if rr.wstate[i] != "insel" || (rr.buf[i] == 0 && !rr.cancd[i]) {
		return
	}
	label := "w" + strconv.Itoa(i)
	if e, ok := rr.wait(isEv(label, "ret:"), label+" return from select"); ok {
		rr.returned(i, e)
	}
}

func (rr *rcptRun) act(a string) bool {
	num := func() int { n, _ := strconv.Atoi(a[1:]); return n }
	switch a[0] {
	case 'c':
		i := num()
		if i >= len(rr.ids) || rr.wstate[i] != "new" {
			return false
		}
		for _, st := range rr.wstate {
			if st == "payload" {
				return false
			}
		}
		rr.trace = append(rr.trace, a)
		ctx, cancel := context.WithCancel(context.Background())
		rr.cancel[i] = cancel
		label := "w" + strconv.Itoa(i)
		g := &firstGate{ctl: rr.ctl, label: label, fail: make(chan bool, 1)}
		rr.gates[i] = g
		rr.ctl.Go(label, func() {
			err := rr.h.SendMessageElement(ctx, rr.rs.S, g, stanza.Message{ID: "m" + strconv.Itoa(rr.ids[i]), To: jid.MustParse("you@example.net/x"), Type: stanza.ChatMessage})
			rr.ctl.Emit(label, "ret:", err)
		})
		rr.table[rr.ids[i]] = i
		rr.wstate[i] = "payload"
		// on a broken output (an earlier transmission failed inside its element) the call fails at once
		if e, ok := rr.wait(func(e Ev) bool { return e.Who == label && (e.What == "park:payload" || strings.HasPrefix(e.What, "ret:")) }, label+" at payload gate or returned"); ok && strings.HasPrefix(e.What, "ret:") {
			if !rr.broken {
				rr.problem("waiter %d returned at once on a healthy output", i)
			}
			rr.trace = append(rr.trace, "f"+strconv.Itoa(i))
			rr.returned(i, e)
		}
	case 'o', 'f':
		i := num()
		if i >= len(rr.ids) || rr.wstate[i] != "payload" {
			return false
		}
		rr.trace = append(rr.trace, a)
		label := "w" + strconv.Itoa(i)
		rr.gates[i].fail <- a[0] == 'f'
		if a[0] == 'f' {
			rr.broken = true
		}
		rr.ctl.Release(label, "payload")
		if a[0] == 'o' {
			rr.wstate[i] = "presel"
			rr.wait(isEv(label, "park:receipts.send.select"), label+" before its select")
		} else if e, ok := rr.wait(isEv(label, "ret:"), label+" return after failed transmission"); ok {
			rr.returned(i, e)
		}
	case 'x':
		i := num()
		if i >= len(rr.ids) || rr.cancel[i] == nil || rr.cancd[i] {
			return false
		}
		rr.trace = append(rr.trace, a)
		rr.cancd[i] = true
		rr.cancel[i]()
		rr.afterEnable(i)
	case 's':
		i := num()
		if i >= len(rr.ids) || rr.wstate[i] != "presel" {
			return false
		}
		rr.trace = append(rr.trace, a)
		rr.wstate[i] = "insel"
		rr.ctl.Release("w"+strconv.Itoa(i), "receipts.send.select")
		rr.afterEnable(i)
	case 'q':
		if rr.hsend >= 0 || rr.stuck {
			return false
		}
		id := num()
		rr.trace = append(rr.trace, a)
		go rr.rs.Feed([]byte(fmt.Sprintf(`<message xmlns="jabber:client" from="you@example.net/x" id="r%d"><received xmlns="urn:xmpp:receipts" id="m%d"/></message>`, len(rr.trace), id)))
		j, hit := rr.table[id]
		if hit {
			if _, ok := rr.wait(isEv("serve", "park:receipts.handle.send"), "handler between delete and send"); !ok {
				rr.stuck = true
				rr.r.Fail("unmatched-to-handler", "receipt-lost", rr.lines(), "a receipt for a registered id reached neither the handler's send nor Unhandled")
				return true
			}
			delete(rr.table, id)
			rr.hsend = j
		} else {
			e, ok := rr.wait(func(e Ev) bool { return e.Who == "handler" }, "Unhandled callback")
			if !ok {
				rr.stuck = true
				rr.r.Fail("unmatched-to-handler", "unhandled-not-called", rr.lines(), fmt.Sprintf("receipt for id %d nobody waits for was not reported through Unhandled", id))
				return true
			}
			if e.What != "unh:m"+strconv.Itoa(id) {
				rr.problem("Unhandled(%s), expected m%d", e.What, id)
			}
			rr.unh = append(rr.unh, id)
			rr.trace = append(rr.trace, "U"+strconv.Itoa(id))
		}
	case 'd':
		if rr.hsend < 0 {
			return false
		}
		rr.trace = append(rr.trace, a)
		j := rr.hsend
		rr.hsend = -1
		rr.buf[j]++
		rr.ctl.Release("serve", "receipts.handle.send")
		rr.afterEnable(j)
	default:
		return false
	}
	return true
}

func (rr *rcptRun) epilogue() string {
	for i := range rr.ids {
		if rr.wstate[i] == "payload" {
			rr.act("o" + strconv.Itoa(i))
		}
	}
	if rr.hsend >= 0 {
		rr.act("d")
	}
	for i := range rr.ids {
		if rr.wstate[i] == "presel" {
			rr.act("s" + strconv.Itoa(i))
		}
	}
	for i := range rr.ids {
		if rr.wstate[i] == "insel" {
			rr.act("x" + strconv.Itoa(i))
		}
	}
	probe := "live"
	go rr.rs.Feed([]byte(`<message xmlns="jabber:client" from="you@example.net/x" id="s"><received xmlns="urn:xmpp:receipts" id="sentinel"/></message>`))
	if _, ok := rr.ctl.Wait(watchdog, isEv("handler", "unh:sentinel"), &rr.skipped); !ok {
		probe = "stall"
	}
	for _, e := range rr.ctl.Drain(&rr.skipped) {
		if strings.HasPrefix(e.What, "panic:") {
			rr.r.Fail("no-panic", "panic:"+e.Who+":"+strings.TrimPrefix(e.What, "panic:"), rr.lines(), e.What)
			rr.problem("%s %s", e.Who, e.What)
		} else if e.What != "unh:sentinel" {
			rr.problem("unexpected event %s %s", e.Who, e.What)
		}
	}
	for i := range rr.ids {
		if rr.wstate[i] != "new" && rr.wstate[i] != "ret" {
			rr.outcome[i] = "b"
		}
	}
	var u []string
	for _, id := range rr.unh {
		u = append(u, strconv.Itoa(id))
	}
	return fmt.Sprintf("out=%s unh=%s probe=%s", common.Join(rr.outcome, "/"), common.Join(u, ","), probe)
}

func runRcpt(r *common.Run, ids []int, sched []string, class string) {
	rr, err := newRcptRun(r, ids)
	if err != nil {
		r.Notes = append(r.Notes, "session setup failed: "+err.Error())
		return
	}
	defer func() {
		rr.ctl.Kill()
		for _, c := range rr.cancel {
			if c != nil {
				c()
			}
		}
		rr.rs.In.Close()
		common.WithTimeout(200*time.Millisecond, func() { rr.rs.S.Close() })
	}()
	for _, a := range sched {
		if len(rr.problems) > 0 {
			break
		}
		rr.act(a)
	}
	var obs string
	if len(rr.problems) > 0 {
		r.Hist["problem"]++
		obs = "aborted"
	} else {
		obs = rr.epilogue()
	}
	if len(rr.problems) > 0 {
		obs += " PROBLEM:" + strings.ReplaceAll(strings.Join(rr.problems, ";"), " ", "_")
	}
	line := rr.lines()[0][len(r.Prop)+1:]
	r.Line(line, obs)
	if os.Getenv("VERIF_DEBUG") != "" {
		fmt.Fprintln(os.Stderr, line, "=>", obs)
	}
	nontriv := strings.Contains(obs, "ok") || strings.Contains(obs, "err")
	r.Case(line, nontriv, class)
	if strings.Contains(obs, "probe=stall") {
		r.Fail("serve-continues", "receipts-serve-stalled", rr.lines(), "after every blocked call was cancelled a further receipt does not reach the handler (serve loop stalled or dead): "+obs)
	}
}
