package c06

import (
	"context"
	"encoding/xml"
	"fmt"
	"os"
	"strings"
	"sync/atomic"
	"time"

	"mellium.im/xmlstream"
	"mellium.im/xmpp/ibb"
	"mellium.im/xmpp/jid"
	"mellium.im/xmpp/stanza"

	"verifharness/common"
)

// The blocking IQ helpers that OWN the response they wait for (UnmarshalIQ,
// UnmarshalIQElement, IterIQ, IterIQElement): whatever the reply looks like, the
// call ends once, and the response is closed exactly once — by the helper when it
// returns an error (the caller has nothing it could close), by the caller's
// iterator otherwise — so that the serve loop goes on with the next stanza.
//
//	C06 wrap <api> <shape>     api   U UnmarshalIQ   N UnmarshalIQ(v = nil)   V UnmarshalIQElement
//	                                 I IterIQ        J IterIQElement
//	                                 O ibb OpenIQ (packets in iqs)   P ibb OpenIQ (packets in messages)   [round E]
//	                           shape <typ><from><to><payload>
//	                                 typ r result | e error      from / to  - absent | v valid | x not a JID
//	                                 payload n none | o one child | c child with children | t text, then a child
//	                                         | b content that cannot be read to its end | w only whitespace
//	observation: err=<0|1> handed=<0|1> probe=<live|dead|stall>

var wrapAPIs = "UNVIJOP"

func wrapShapes() []string {
	var out []string
	for _, t := range "re" {
		for _, f := range "-vx" {
			for _, to := range "-vx" {
				for _, p := range "noctbw" {
					out = append(out, string([]rune{t, f, to, p}))
				}
			}
		}
	}
	return out
}

func wrapReply(shape string) string {
	attrs := ` id="w1"`
	if shape[0] == 'r' {
		attrs += ` type="result"`
	} else {
		attrs += ` type="error"`
	}
	switch shape[1] {
	case 'v':
		attrs += ` from="example.net"`
	case 'x':
		attrs += ` from="@example.net"`
	}
	switch shape[2] {
	case 'v':
		attrs += ` to="me@example.net/h"`
	case 'x':
		attrs += ` to="me@@example.net/"`
	}
	el, inner := "n", `<a/><b>x</b>`
	open := `<n xmlns="urn:verif">`
	if shape[0] == 'e' {
		el, inner = "error", `<item-not-found xmlns="urn:ietf:params:xml:ns:xmpp-stanzas"/><text xmlns="urn:ietf:params:xml:ns:xmpp-stanzas">gone</text>`
		open = `<error type="cancel">`
	}
	body := ""
	switch shape[3] {
	case 'o':
		body = open + `</` + el + `>`
		if shape[0] == 'e' {
			body = open + `<item-not-found xmlns="urn:ietf:params:xml:ns:xmpp-stanzas"/></error>`
		}
	case 'c':
		body = open + inner + `</` + el + `>`
	case 't':
		body = "  text " + open + inner + `</` + el + `>`
	case 'b':
		body = open + `<a></b></` + el + `>`
	case 'w':
		body = " \n "
	}
	return `<iq xmlns="jabber:client"` + attrs + `>` + body + `</iq>`
}

func runWrap(r *common.Run, api byte, shape string, class string) {
	rs, err := common.NewRawSession(0, "jabber:client", jid.MustParse("me@example.net/h"), jid.MustParse("example.net"))
	if err != nil {
		r.Notes = append(r.Notes, "session setup failed: "+err.Error())
		return
	}
	sentinel := make(chan struct{}, 1)
	served := make(chan error, 1)
	go func() {
		served <- rs.S.Serve(handlerFn(func(t xmlstream.TokenReadEncoder, start *xml.StartElement) error {
			if unqualified(start.Attr, "id") == "sentinel" {
				select {
				case sentinel <- struct{}{}:
				default:
				}
			}
			return nil
		}))
	}()
	defer func() {
		rs.In.Close()
		common.WithTimeout(200*time.Millisecond, func() { rs.S.Close() })
	}()
	line := fmt.Sprintf("wrap %c %s", api, shape)
	lines := []string{r.Prop + " " + line}
	ctx, cancel := context.WithTimeout(context.Background(), watchdog)
	defer cancel()
	iq := stanza.IQ{ID: "w1", Type: stanza.GetIQ}
	payload := func() xml.TokenReader {
		return xmlstream.Wrap(nil, xml.StartElement{Name: xml.Name{Space: "urn:verif", Local: "q"}})
	}
	type res struct {
		err    error
		iter   *xmlstream.Iter
		panicv string
	}
	done := make(chan res, 1)
	var fed int32
	go func() {
		var out res
		out.panicv = common.Recover(func() {
			var v struct {
				XMLName xml.Name
			}
			switch api {
			case 'U':
				out.err = rs.S.UnmarshalIQ(ctx, iq.Wrap(payload()), &v)
			case 'N':
				out.err = rs.S.UnmarshalIQ(ctx, iq.Wrap(payload()), nil)
			case 'V':
				out.err = rs.S.UnmarshalIQElement(ctx, payload(), iq, &v)
			case 'O', 'P':
				// ibb.open waits for the reply to its own open request and owns the response
				_, out.err = (&ibb.Handler{}).OpenIQ(ctx, stanza.IQ{ID: "w1", To: jid.MustParse("example.net")}, rs.S, api == 'O', 0, "sid1")
			case 'I':
				out.iter, _, out.err = rs.S.IterIQ(ctx, iq.Wrap(payload()))
			default:
				out.iter, _, out.err = rs.S.IterIQElement(ctx, payload(), iq)
			}
		})
		done <- out
	}()
	// the request is on the wire (it was registered before): answer it
	for dl := time.Now().Add(watchdog); !strings.Contains(string(rs.Out.Bytes()), "</iq>") && time.Now().Before(dl); {
		time.Sleep(20 * time.Microsecond)
	}
	go func() {
		rs.Feed([]byte(wrapReply(shape)))
		atomic.StoreInt32(&fed, 1)
	}()
	obs := ""
	select {
	case out := <-done:
		if out.panicv != "" {
			r.Fail("no-panic", "helper-panics", lines, out.panicv)
		}
		handed := out.iter != nil
		if handed {
			// the caller walks the iterator to its end and closes it, as documented
			if p := common.Recover(func() {
				for n := 0; n < 100 && out.iter.Next(); n++ {
					_, c := out.iter.Current()
					if c != nil {
						xmlstream.Copy(xmlstream.Discard(), c)
					}
				}
				out.iter.Close()
			}); p != "" {
				r.Fail("no-panic", "iterator-panics", lines, p)
			}
		}
		if out.err != nil && handed {
			r.Fail("outcome", "error-and-iterator", lines, fmt.Sprintf("the call returned both an iterator and the error %v", out.err))
		}
		if ctx.Err() != nil {
			r.Fail("outcome", "helper-timed-out", lines, fmt.Sprintf("the reply was sent, the call ended with its context instead: %v", out.err))
		}
		obs = fmt.Sprintf("err=%d handed=%d", b2i(out.err != nil), b2i(handed))
	case <-time.After(watchdog + time.Second):
		obs = "err=? handed=? STALL"
		r.Hist["wrap-stall"]++
		r.Fail("outcome", "helper-does-not-return", lines, "the call did not return although its reply arrived")
	}
	// liveness probe: the next stanza reaches the handler, or Serve has returned because the rest
	// of the response could not be read — never a stall
	go rs.Feed([]byte(`<message xmlns="jabber:client" id="sentinel" type="chat"/>`))
	select {
	case <-sentinel:
		obs += " probe=live"
	case <-served:
		obs += " probe=dead"
	case <-time.After(watchdog):
		obs += " probe=stall"
		r.Hist["wrap-stall"]++
		r.Fail("serve-continues", "serve-stalled-after-helper:"+string(api), lines, "after the helper returned (and the caller closed what it was given) a further stanza does not reach the handler: the response was never closed: "+obs)
	}
	r.Line(line, obs)
	if os.Getenv("VERIF_DEBUG") != "" {
		fmt.Fprintln(os.Stderr, line, "=>", obs)
	}
	r.Case(line, true, class)
}

func b2i(b bool) int {
	if b {
		return 1
	}
	return 0
}

// runWraps: the complete domain api x shape (5 x 108).
func runWraps(r *common.Run) {
	n := 0
	for _, api := range wrapAPIs {
		for _, sh := range wrapShapes() {
			if len(r.Failures) >= 60 || r.Hist["wrap-stall"] >= 6 {
				return // a broken tree costs a watchdog per case
			}
			r.Mark("case wrap %d", n)
			n++
			runWrap(r, byte(api), sh, "wrap")
		}
	}
	r.Exhaustive = append(r.Exhaustive, "every IQ helper that owns its response (UnmarshalIQ with and without target, UnmarshalIQElement, IterIQ, IterIQElement, ibb OpenIQ for acknowledged and for message-carried streams) x every reply shape (type x from x to: absent / valid / not a JID x six payload forms)")
}
