// Package c06 drives the correlated-wait protocols (property C06): the
// pending-request table of xmpp.Session (sendResp / handleInputStream) and the
// receipts helper, under schedules forced through the verif yield points.
package c06

import (
	"fmt"
	"runtime"
	"strconv"
	"strings"
	"sync"
	"time"

	"mellium.im/xmpp"
)

// Ev is one observable event of a forced run.
type Ev struct {
	Who   string // goroutine label ("serve", "r0", …) or "handler"
	What  string // "park:<point>", "ret:<outcome>", "h:<descr>", "panic:<msg>"
	Extra interface{}
}

// Ctl parks labelled goroutines at yield points and releases them on demand.
// Only goroutines labelled through Go / Label park; everything else (left-overs
// of earlier cases, unlabelled helpers) passes through.
type Ctl struct {
	mu     sync.Mutex
	labels map[uint64]string
	hold   map[string]bool          // point -> park there?
	parked map[string]chan struct{} // label@point -> release
	Events chan Ev
	dead   bool
}

var (
	curMu sync.Mutex
	cur   *Ctl
)

func goid() uint64 {
	var buf [64]byte
	n := runtime.Stack(buf[:], false)
	// "goroutine 123 [running]:"
	f := strings.Fields(string(buf[:n]))
	if len(f) < 2 {
		return 0
	}
	id, _ := strconv.ParseUint(f[1], 10, 64)
	return id
}

// NewCtl installs a fresh controller as the process-wide yield callback. The
// points listed in hold park; others pass.
func NewCtl(hold ...string) *Ctl {
	c := &Ctl{labels: map[uint64]string{}, hold: map[string]bool{}, parked: map[string]chan struct{}{}, Events: make(chan Ev, 256)}
	for _, h := range hold {
		c.hold[h] = true
	}
	curMu.Lock()
	if cur != nil {
		cur.Kill()
	}
	cur = c
	curMu.Unlock()
	xmpp.VerifSetYield(func(point string) {
		curMu.Lock()
		cc := cur
		curMu.Unlock()
		if cc != nil {
			cc.yield(point)
		}
	})
	return c
}

// Kill releases everything parked and makes every later yield pass through.
func (c *Ctl) Kill() {
	c.mu.Lock()
	c.dead = true
	for k, ch := range c.parked {
		close(ch)
		delete(c.parked, k)
	}
	c.mu.Unlock()
}

// Label names the calling goroutine.
func (c *Ctl) Label(l string) {
	c.mu.Lock()
	c.labels[goid()] = l
	c.mu.Unlock()
}

// Go starts f in a labelled goroutine; a panic is reported as an event.
func (c *Ctl) Go(label string, f func()) {
	go func() {
		c.Label(label)
		defer func() {
			if p := recover(); p != nil {
				c.emit(Ev{Who: label, What: "panic:" + fmt.Sprint(p)})
			}
		}()
		f()
	}()
}

func (c *Ctl) emit(e Ev) {
	c.mu.Lock()
	dead := c.dead
	c.mu.Unlock()
	if dead {
		return
	}
	select {
	case c.Events <- e:
	default:
	}
}

// Emit reports an event from harness-provided code (handlers, payload gates).
func (c *Ctl) Emit(who, what string, extra interface{}) { c.emit(Ev{Who: who, What: what, Extra: extra}) }

func (c *Ctl) yield(point string) {
	c.mu.Lock()
	if c.dead || !c.hold[point] {
		c.mu.Unlock()
		return
	}
	l, ok := c.labels[goid()]
	if !ok {
		c.mu.Unlock()
		return
	}
	ch := make(chan struct{})
	c.parked[l+"@"+point] = ch
	c.mu.Unlock()
	c.emit(Ev{Who: l, What: "park:" + point})
	<-ch
}

// Gate parks the calling (labelled or not) goroutine at a harness-defined point.
func (c *Ctl) Gate(label, point string) {
	c.mu.Lock()
	if c.dead {
		c.mu.Unlock()
		return
	}
	ch := make(chan struct{})
	c.parked[label+"@"+point] = ch
	c.mu.Unlock()
	c.emit(Ev{Who: label, What: "park:" + point})
	<-ch
}

// Release lets the goroutine parked at label@point continue; false if nothing
// is parked there.
func (c *Ctl) Release(label, point string) bool {
	c.mu.Lock()
	ch, ok := c.parked[label+"@"+point]
	if ok {
		delete(c.parked, label+"@"+point)
	}
	c.mu.Unlock()
	if ok {
		close(ch)
	}
	return ok
}

// Parked reports whether label is parked at point.
func (c *Ctl) Parked(label, point string) bool {
	c.mu.Lock()
	defer c.mu.Unlock()
	_, ok := c.parked[label+"@"+point]
	return ok
}

// Wait returns the next event matching pred, or ok=false after the timeout.
// Events that do not match are kept in skipped (returned to the caller for
// later inspection).
func (c *Ctl) Wait(d time.Duration, pred func(Ev) bool, skipped *[]Ev) (Ev, bool) {
	t := time.NewTimer(d)
	defer t.Stop()
	// first look at events skipped earlier
	if skipped != nil {
		for i, e := range *skipped {
			if pred(e) {
				*skipped = append((*skipped)[:i:i], (*skipped)[i+1:]...)
				return e, true
			}
		}
	}
	for {
		select {
		case e := <-c.Events:
			if pred(e) {
				return e, true
			}
			if skipped != nil {
				*skipped = append(*skipped, e)
			}
		case <-t.C:
			return Ev{}, false
		}
	}
}

// Drain returns the events currently queued without waiting.
func (c *Ctl) Drain(skipped *[]Ev) []Ev {
	var out []Ev
	if skipped != nil {
		out = append(out, *skipped...)
		*skipped = nil
	}
	for {
		select {
		case e := <-c.Events:
			out = append(out, e)
		default:
			return out
		}
	}
}
