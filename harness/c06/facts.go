package c06

import (
	"context"
	"encoding/xml"
	"fmt"
	"io"
	"strings"
	"sync"
	"time"

	"mellium.im/xmpp/jid"
	"mellium.im/xmpp/mux"
	"mellium.im/xmpp/receipts"
	"mellium.im/xmpp/stanza"

	"verifharness/common"
)

// Probe facts (round E, review A C06-3): behaviour of the real code on a complete small domain,
// emitted as Lean definitions that a theorem compares with the model.  No source text is read.

// blockReader is a payload that parks inside the transmission until released.
type blockReader struct {
	parked  chan struct{}
	release chan struct{}
	once    sync.Once
}

func (b *blockReader) Token() (xml.Token, error) {
	b.once.Do(func() {
		close(b.parked)
		<-b.release
	})
	return nil, io.EOF
}

// probeReceipts: the sender is INSIDE its transmission (the message start is written, the payload
// reader has not returned); a receipt (for its id / for an unknown id) and then a second, unknown
// receipt arrive.  handlerDone: both were handled while the sender is still parked (the second
// one reached Unhandled).  senderGot: after its transmission ended the sender returned nil.
func probeReceipts(api, which int) (handlerDone, senderGot bool, err error) {
	rs, err := common.NewRawSession(0, "jabber:client", jid.MustParse("me@example.net/h"), jid.MustParse("example.net"))
	if err != nil {
		return false, false, err
	}
	unh := make(chan string, 8)
	h := &receipts.Handler{Unhandled: func(id string) {
		select {
		case unh <- id:
		default:
		}
	}}
	go rs.S.Serve(mux.New("jabber:client", receipts.Handle(h)))
	defer func() {
		rs.In.Close()
		common.WithTimeout(200*time.Millisecond, func() { rs.S.Close() })
	}()
	ctx, cancel := context.WithCancel(context.Background())
	defer cancel()
	b := &blockReader{parked: make(chan struct{}), release: make(chan struct{})}
	msg := stanza.Message{XMLName: xml.Name{Space: "jabber:client", Local: "message"}, ID: "own", To: jid.MustParse("you@example.net/x"), Type: stanza.ChatMessage}
	done := make(chan error, 1)
	go func() {
		if api == 0 {
			done <- h.SendMessage(ctx, rs.S, msg.Wrap(b))
		} else {
			done <- h.SendMessageElement(ctx, rs.S, b, msg)
		}
	}()
	select {
	case <-b.parked:
	case <-time.After(watchdog):
		return false, false, fmt.Errorf("the sender never reached its payload")
	}
	id := "own"
	if which == 1 {
		id = "other"
	}
	rcpt := func(id string) []byte {
		return []byte(`<message xmlns="jabber:client" from="you@example.net/x"><received xmlns="urn:xmpp:receipts" id="` + id + `"/></message>`)
	}
	go func() {
		rs.Feed(rcpt(id))
		rs.Feed(rcpt("zz"))
	}()
	dl := time.After(1500 * time.Millisecond)
wait:
	for {
		select {
		case u := <-unh:
			if u == "zz" {
				handlerDone = true
				break wait
			}
		case <-dl:
			break wait
		}
	}
	close(b.release)
	if which == 1 {
		// nobody will acknowledge: the call ends with its context
		time.AfterFunc(100*time.Millisecond, cancel)
	}
	select {
	case e := <-done:
		senderGot = e == nil
	case <-time.After(watchdog):
	}
	return handlerDone, senderGot, nil
}

// Facts appends the probe facts of C06 to the facts text of the shared extractor.
func Facts(base string) string {
	var sb strings.Builder
	sb.WriteString("/-- probe (real code): rows (api 0 SendMessage | 1 SendMessageElement, receipt 0 for the sender's id | 1 for an unknown id,\n")
	sb.WriteString("the handler finished both receipts WHILE the sender was inside its transmission, the sender returned nil afterwards) -/\n")
	rows, ok := []string{}, true
	for api := 0; api < 2; api++ {
		for which := 0; which < 2; which++ {
			hd, sg, err := probeReceipts(api, which)
			if err != nil {
				ok = false
				sb.WriteString("-- probe failed: " + strings.ReplaceAll(err.Error(), "\n", " ") + "\n")
			}
			rows = append(rows, fmt.Sprintf("(%d, %d, %v, %v)", api, which, hd, sg))
		}
	}
	if ok {
		sb.WriteString("def receiptsWhileSending : Option (List (Nat × Nat × Bool × Bool)) := some [" + strings.Join(rows, ", ") + "]\n\n")
	} else {
		sb.WriteString("def receiptsWhileSending : Option (List (Nat × Nat × Bool × Bool)) := none\n\n")
	}
	const end = "end XmppModel.Generated.C06"
	if n := strings.LastIndex(base, end); n >= 0 {
		return base[:n] + sb.String() + base[n:]
	}
	return base + "\n" + sb.String()
}
