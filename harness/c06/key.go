package c06

import (
	"bytes"
	"context"
	"encoding/xml"
	"errors"
	"fmt"
	"os"
	"strings"
	"time"

	"mellium.im/xmlstream"
	"mellium.im/xmpp"
	"mellium.im/xmpp/jid"
	"mellium.im/xmpp/mux"
	"mellium.im/xmpp/receipts"
	"mellium.im/xmpp/stanza"

	"verifharness/common"
)

// Round E: the KEY a blocking call waits under against the id the peer reads on the wire, and
// the addresses on both sides of the round trip (lean/XmppModel/Model/CorrKey.lean).
//
//	C06 key <kind><api><role> <attrs> <to> <from> <typ>
//	    kind  i m p        api  r SendX (token reader)  e SendXElement  n EncodeX  m EncodeXElement
//	          R  a message sent through receipts.Handler (api r SendMessage, e SendMessageElement); the
//	             peer answers with a <received/> for the id on the wire
//	    role  c client stream (jabber:client)   s received server-to-server stream (jabber:server)
//	    attrs the attribute list with which the start element ENTERS SendIQ / SendMessage /
//	          SendPresence (read off the real library for the APIs that build it themselves), items
//	          <u|q|n><i|t|o><digit>: unqualified / foreign namespace / xmlns declaration; local name
//	          id / type / anything else; value 0 = empty, 1 / 2 = k1 / k2 (the to attribute is the
//	          field of its own and not listed)
//	    to    - none | d a domain | f a full address | i an internationalised domain
//	    from  of the reply:  - none | s the request's to, byte for byte | u the same address, domain in
//	          upper case | x the same address, other spelling (ACE form of the internationalised
//	          domain, capitalised otherwise) | d another entity | b our own bare address | g no address
//	    typ   of the reply: r result | e error
//
// The peer answers with the id IT READ ON THE WIRE (never with the id the harness asked for).
// observation: ids=<the id-named attributes on the wire, R = a generated value> out=<reply|lost|none|fail>
//              h=<the handler saw the reply> [dup=<a duplicate of the delivered reply reached the handler>] probe=<live|dead|stall>

var keyTo = map[byte]string{'d': "example.org", 'f': "juliet@example.org/Balcony", 'i': "bücher.example"}

func keyFrom(role, to, from byte) (string, bool) {
	base := keyTo[to]
	if to == '-' {
		base = "example.net"
	}
	up := func(s string, all bool) string {
		at, sl := strings.IndexByte(s, '@'), strings.IndexByte(s, '/')
		if sl < 0 {
			sl = len(s)
		}
		dom := s[at+1 : sl]
		if all {
			dom = strings.ToUpper(dom)
		} else {
			dom = strings.ToUpper(dom[:1]) + dom[1:]
		}
		return s[:at+1] + dom + s[sl:]
	}
	switch from {
	case '-':
		return "", false
	case 's':
		return base, true
	case 'u':
		return up(base, true), true
	case 'x':
		if to == 'i' {
			return "xn--bcher-kva.example", true
		}
		return up(base, false), true
	case 'd':
		return "mallory@example.com/x", true
	case 'b':
		if role == 's' {
			return "example.net", true
		}
		return "me@example.net", true
	}
	return "@@", true
}

func keyAttr(kind byte, it string) xml.Attr {
	var a xml.Attr
	switch it[0] {
	case 'q':
		a.Name.Space = "urn:verif:x"
	case 'n':
		a.Name.Space = "xmlns"
	}
	v := map[byte]string{'0': "", '1': "k1", '2': "k2"}[it[2]]
	switch it[1] {
	case 'i':
		a.Name.Local = "id"
	case 't':
		a.Name.Local = "type"
		v = map[byte]string{'i': "get", 'm': "chat", 'p': "unavailable"}[kind]
		if it[0] != 'u' {
			v = "result"
		}
	default:
		a.Name.Local = "foo"
		v = "1"
	}
	a.Value = v
	return a
}

// keyItems: the canonical items of a real attribute list (to / from / xml:lang and empty other
// attributes are no part of it)
func keyItems(attrs []xml.Attr) []string {
	var out []string
	for _, a := range attrs {
		sp := "q"
		switch a.Name.Space {
		case "":
			sp = "u"
		case "xmlns":
			sp = "n"
		}
		switch {
		case a.Name.Local == "id":
			v := map[string]string{"": "0", "k1": "1", "k2": "2"}[a.Value]
			if v == "" {
				v = "9"
			}
			out = append(out, sp+"i"+v)
		case a.Name.Local == "type":
			out = append(out, sp+"t1")
		case a.Name.Space == "" && (a.Name.Local == "to" || a.Name.Local == "from"):
		default:
			out = append(out, sp+"o1")
		}
	}
	return out
}

type keyCase struct {
	kind, api, role byte
	items           []string // api r: the attribute list; otherwise only whether "ui1" is in it matters
	to, from, typ   byte
}

type keyPayload struct {
	XMLName xml.Name `xml:"urn:verif q"`
}

// build returns the call and the attribute list with which its start element enters SendX.
func (k keyCase) build(s *xmpp.Session, rh *receipts.Handler) (func(ctx context.Context) (xmlstream.TokenReadCloser, error), []string, error) {
	if k.kind == 'R' {
		return k.buildRcpt(s, rh)
	}
	var to jid.JID
	if k.to != '-' {
		to = jid.MustParse(keyTo[k.to])
	}
	id := ""
	for _, it := range k.items {
		if it == "ui1" {
			id = "k1"
		}
	}
	inner := xml.StartElement{Name: xml.Name{Space: "urn:verif", Local: "q"}}
	payload := func() xml.TokenReader { return xmlstream.Wrap(nil, inner) }
	first := func(r xml.TokenReader) ([]string, error) {
		tok, err := r.Token()
		if err != nil {
			return nil, err
		}
		st, ok := tok.(xml.StartElement)
		if !ok {
			return nil, fmt.Errorf("no start element")
		}
		return keyItems(st.Attr), nil
	}
	marshalled := func(v interface{}) ([]string, error) {
		b, err := xml.Marshal(v)
		if err != nil {
			return nil, err
		}
		return first(xml.NewDecoder(bytes.NewReader(b)))
	}
	iq := stanza.IQ{ID: id, To: to, Type: stanza.GetIQ}
	msg := stanza.Message{ID: id, To: to, Type: stanza.ChatMessage}
	pr := stanza.Presence{ID: id, To: to, Type: stanza.UnavailablePresence}
	switch k.api {
	case 'r':
		st := xml.StartElement{Name: xml.Name{Local: kindLocal(k.kind)}}
		for _, it := range k.items {
			st.Attr = append(st.Attr, keyAttr(k.kind, it))
		}
		if k.to != '-' {
			st.Attr = append(st.Attr, xml.Attr{Name: xml.Name{Local: "to"}, Value: to.String()})
		}
		call := func(ctx context.Context) (xmlstream.TokenReadCloser, error) {
			r := xmlstream.Wrap(payload(), st.Copy())
			switch k.kind {
			case 'i':
				return s.SendIQ(ctx, r)
			case 'm':
				return s.SendMessage(ctx, r)
			}
			return s.SendPresence(ctx, r)
		}
		return call, k.items, nil
	case 'e':
		var items []string
		var err error
		switch k.kind {
		case 'i':
			items, err = first(iq.Wrap(nil))
		case 'm':
			items, err = first(msg.Wrap(nil))
		default:
			items, err = first(pr.Wrap(nil))
		}
		call := func(ctx context.Context) (xmlstream.TokenReadCloser, error) {
			switch k.kind {
			case 'i':
				return s.SendIQElement(ctx, payload(), iq)
			case 'm':
				return s.SendMessageElement(ctx, payload(), msg)
			}
			return s.SendPresenceElement(ctx, payload(), pr)
		}
		return call, items, err
	case 'n':
		vi := struct {
			stanza.IQ
			P keyPayload
		}{IQ: iq}
		vm := struct {
			stanza.Message
			P keyPayload
		}{Message: msg}
		vp := struct {
			stanza.Presence
			P keyPayload
		}{Presence: pr}
		var items []string
		var err error
		switch k.kind {
		case 'i':
			items, err = marshalled(vi)
		case 'm':
			items, err = marshalled(vm)
		default:
			items, err = marshalled(vp)
		}
		call := func(ctx context.Context) (xmlstream.TokenReadCloser, error) {
			switch k.kind {
			case 'i':
				return s.EncodeIQ(ctx, vi)
			case 'm':
				return s.EncodeMessage(ctx, vm)
			}
			return s.EncodePresence(ctx, vp)
		}
		return call, items, err
	}
	var items []string
	var err error
	switch k.kind {
	case 'i':
		items, err = first(iq.Wrap(nil))
	case 'm':
		items, err = first(msg.Wrap(nil))
	default:
		items, err = first(pr.Wrap(nil))
	}
	call := func(ctx context.Context) (xmlstream.TokenReadCloser, error) {
		switch k.kind {
		case 'i':
			return s.EncodeIQElement(ctx, keyPayload{}, iq)
		case 'm':
			return s.EncodeMessageElement(ctx, keyPayload{}, msg)
		}
		return s.EncodePresenceElement(ctx, keyPayload{}, pr)
	}
	return call, items, err
}

// okResponse stands for "the receipt arrived" (receipts calls return only an error).
type okResponse struct{ id string }

func (o okResponse) Token() (xml.Token, error) {
	return xml.StartElement{Name: xml.Name{Local: "message"}, Attr: []xml.Attr{{Name: xml.Name{Local: "id"}, Value: o.id}}}, nil
}
func (okResponse) Close() error { return nil }

func (k keyCase) buildRcpt(s *xmpp.Session, rh *receipts.Handler) (func(ctx context.Context) (xmlstream.TokenReadCloser, error), []string, error) {
	to := jid.MustParse("you@example.org/x")
	if k.to != '-' {
		to = jid.MustParse(keyTo[k.to])
	}
	inner := xml.StartElement{Name: xml.Name{Space: "urn:verif", Local: "q"}}
	if k.api == 'e' {
		id := ""
		for _, it := range k.items {
			if it == "ui1" {
				id = "k1"
			}
		}
		msg := stanza.Message{ID: id, To: to, Type: stanza.ChatMessage}
		var items []string
		if id != "" {
			items = []string{"ui1"}
		}
		return func(ctx context.Context) (xmlstream.TokenReadCloser, error) {
			if err := rh.SendMessageElement(ctx, s, xmlstream.Wrap(nil, inner), msg); err != nil {
				return nil, err
			}
			return okResponse{}, nil
		}, items, nil
	}
	st := xml.StartElement{Name: xml.Name{Space: "jabber:client", Local: "message"}}
	for _, it := range k.items {
		st.Attr = append(st.Attr, keyAttr('m', it))
	}
	st.Attr = append(st.Attr, xml.Attr{Name: xml.Name{Local: "to"}, Value: to.String()})
	return func(ctx context.Context) (xmlstream.TokenReadCloser, error) {
		if err := rh.SendMessage(ctx, s, xmlstream.Wrap(xmlstream.Wrap(nil, inner), st.Copy())); err != nil {
			return nil, err
		}
		return okResponse{}, nil
	}, k.items, nil
}

// wireStanza waits for one complete top-level element of the given local name in out[from:] and
// returns its start element.
func wireStanza(out *common.SafeBuffer, from int, local string) (xml.StartElement, bool) {
	for dl := time.Now().Add(watchdog); time.Now().Before(dl); time.Sleep(20 * time.Microsecond) {
		b := out.Bytes()
		if len(b) <= from {
			continue
		}
		b = b[from:]
		if !bytes.Contains(b, []byte("</"+local+">")) && !bytes.Contains(b, []byte("/>")) {
			continue
		}
		d := xml.NewDecoder(bytes.NewReader(b))
		for {
			tok, err := d.Token()
			if err != nil {
				break
			}
			if st, ok := tok.(xml.StartElement); ok && st.Name.Local == local {
				return st.Copy(), true
			}
		}
	}
	return xml.StartElement{}, false
}

func xmlEsc(s string) string {
	var b bytes.Buffer
	xml.EscapeText(&b, []byte(s))
	return b.String()
}

func runKey(r *common.Run, k keyCase, class string) {
	ns, state := "jabber:client", xmpp.SessionState(0)
	local, remote := jid.MustParse("me@example.net/h"), jid.MustParse("example.net")
	if k.role == 's' {
		ns, state = "jabber:server", xmpp.Received|xmpp.S2S
		local, remote = jid.MustParse("example.net"), jid.MustParse("example.org")
	}
	rs, err := common.NewRawSession(state, ns, local, remote)
	if err != nil {
		r.Notes = append(r.Notes, "session setup failed: "+err.Error())
		return
	}
	handled := make(chan string, 16)
	served := make(chan error, 1)
	note := func(id string) {
		select {
		case handled <- id:
		default:
		}
	}
	var rh *receipts.Handler
	if k.kind == 'R' {
		// the "handler" of a receipt nobody waits for is the Unhandled callback
		rh = &receipts.Handler{Unhandled: note}
		go func() { served <- rs.S.Serve(mux.New(ns, receipts.Handle(rh))) }()
	} else {
		go func() {
			served <- rs.S.Serve(handlerFn(func(t xmlstream.TokenReadEncoder, start *xml.StartElement) error {
				note(unqualified(start.Attr, "id"))
				return nil
			}))
		}()
	}
	defer func() {
		rs.In.Close()
		common.WithTimeout(200*time.Millisecond, func() { rs.S.Close() })
	}()
	call, items, err := k.build(rs.S, rh)
	local1 := kindLocal(k.kind)
	if k.kind == 'R' {
		local1 = "message"
	}
	if err != nil {
		r.Notes = append(r.Notes, "key: cannot build the request: "+err.Error())
		return
	}
	line := fmt.Sprintf("key %c%c%c %s %c %c %c", k.kind, k.api, k.role, common.Join(items, ","), k.to, k.from, k.typ)
	lines := []string{r.Prop + " " + line}
	ctx, cancel := context.WithCancel(context.Background())
	defer cancel()
	type res struct {
		resp xmlstream.TokenReadCloser
		err  error
		p    string
	}
	done := make(chan res, 1)
	go func() {
		var o res
		o.p = common.Recover(func() { o.resp, o.err = call(ctx) })
		done <- o
	}()
	st, onWire := wireStanza(rs.Out, 0, local1)
	var ids []string
	for _, it := range keyItems(st.Attr) {
		if it[1] == 'i' {
			ids = append(ids, strings.Replace(it[:1]+it[2:], "9", "R", 1))
		}
	}
	wid := unqualified(st.Attr, "id")
	out, h, early := "fail", 0, false
	lastReply := ""
	var got res
	select {
	case got = <-done:
		early = true // no wait at all (an IQ that is no request, a failed transmission)
	default:
	}
	if onWire && !early {
		typ := map[byte]string{'r': "result", 'e': "error"}[k.typ]
		fa := ""
		if f, ok := keyFrom(k.role, k.to, k.from); ok {
			fa = ` from="` + xmlEsc(f) + `"`
		}
		reply := fmt.Sprintf(`<%s xmlns="%s" id="%s" type="%s"%s><n xmlns="urn:verif"/></%s>`, kindLocal(k.kind), ns, xmlEsc(wid), typ, fa, kindLocal(k.kind))
		if k.kind == 'R' {
			reply = fmt.Sprintf(`<message xmlns="%s"%s><received xmlns="urn:xmpp:receipts" id="%s"/></message>`, ns, fa, xmlEsc(wid))
		}
		lastReply = reply
		go rs.Feed([]byte(reply))
		// the reply reaches the caller or the handler
		select {
		case got = <-done:
		case hid := <-handled:
			if hid == wid {
				h = 1
			}
			cancel()
			select {
			case got = <-done:
			case <-time.After(watchdog):
				got.err = errors.New("STALL")
			}
		case <-time.After(watchdog):
			cancel()
			got.err = errors.New("STALL")
		}
	}
	switch {
	case got.p != "":
		r.Fail("no-panic", "call-panics", lines, got.p)
		out = "panic"
	case got.err == nil && got.resp != nil:
		out = "reply"
		tok, _ := got.resp.Token()
		rst, _ := tok.(xml.StartElement)
		if k.kind != 'R' && (unqualified(rst.Attr, "id") != wid || rst.Name.Local != kindLocal(k.kind)) {
			r.Fail("own-reply", "wrong-id-or-kind", lines, fmt.Sprintf("the call got <%s id=%q>, the request went out with id %q", rst.Name.Local, unqualified(rst.Attr, "id"), wid))
		}
		if p := common.Recover(func() { got.resp.Close() }); p != "" {
			r.Fail("no-panic", "close-panics", lines, p)
		}
	case got.err == nil:
		out = "none"
	case errors.Is(got.err, context.Canceled):
		out = "lost"
	case got.err.Error() == "STALL":
		out = "stall"
	}
	if !early && onWire && out != "reply" {
		r.Hist["key-lost"]++
		r.Fail("own-reply", fmt.Sprintf("reply-with-the-id-on-the-wire-not-delivered:%c", k.kind), lines,
			fmt.Sprintf("the request went out as <%s id=%q …>, the peer answered with a %s of that id (from=%q): the call ended with %q (%v), handler saw the reply: %v; attributes entering the call: %v, on the wire: %v",
				local1, wid, map[byte]string{'r': "result", 'e': "error"}[k.typ], func() string { f, _ := keyFrom(k.role, k.to, k.from); return f }(), out, got.err, h == 1, items, keyItems(st.Attr)))
	}
	if wid == "" && onWire {
		r.Fail("own-reply", "request-without-id-on-the-wire", lines, "the request went out without an id")
	}
	obs := fmt.Sprintf("ids=%s out=%s h=%d", common.Join(ids, ","), out, h)
	if out == "reply" && lastReply != "" {
		// a second call's worth of evidence on the same session: the call has returned and
		// deregistered, so a DUPLICATE of its reply (same generated id) is a response nobody waits
		// for: the handler (for receipts: Unhandled) must get it
		go rs.Feed([]byte(lastReply))
		dup := 0
		for dl := time.After(watchdog); dup == 0; {
			select {
			case hid := <-handled:
				if hid == wid {
					dup = 1
				}
			case <-served:
				dup = -1
			case <-dl:
				dup = -1
			}
		}
		if dup != 1 {
			dup = 0
			r.Hist["key-lost"]++
			r.Fail("unmatched-to-handler", "duplicate-of-a-delivered-reply-not-handled", lines, "the call got its reply and returned; the same reply sent again did not reach the handler")
		}
		obs += fmt.Sprintf(" dup=%d", dup)
	}
	if k.kind == 'R' {
		go rs.Feed([]byte(`<message xmlns="` + ns + `"><received xmlns="urn:xmpp:receipts" id="sentinel"/></message>`))
	} else {
		go rs.Feed([]byte(`<message xmlns="` + ns + `" id="sentinel" type="chat"/>`))
	}
	probe := ""
	for probe == "" {
		select {
		case hid := <-handled:
			if hid == "sentinel" {
				probe = "live"
			}
		case <-served:
			probe = "dead"
		case <-time.After(watchdog):
			probe = "stall"
			r.Hist["key-lost"]++
			r.Fail("serve-continues", "serve-stalled-after-round-trip", lines, "after the call returned (and its response was closed) a further stanza does not reach the handler")
		}
	}
	obs += " probe=" + probe
	r.Line(line, obs)
	if os.Getenv("VERIF_DEBUG") != "" {
		fmt.Fprintln(os.Stderr, line, "=>", obs)
	}
	r.Case(line, out == "reply", class)
}

var keyAlphabet = []string{"ui0", "ui1", "ui2", "qi0", "qi2", "ni2", "ut1", "qt1", "uo1"}

// keyLists: every well-formed attribute list (no attribute name twice) of length <= n
func keyLists(n int) [][]string {
	out := [][]string{{}}
	var rec func(cur []string)
	rec = func(cur []string) {
		if len(cur) == n {
			return
		}
	next:
		for _, it := range keyAlphabet {
			for _, c := range cur {
				if c[:2] == it[:2] {
					continue next
				}
			}
			l := append(append([]string{}, cur...), it)
			out = append(out, l)
			rec(l)
		}
	}
	rec(nil)
	return out
}

func parseKeyLine(f []string) (keyCase, bool) {
	// f: key <kind><api><role> <attrs> <to> <from> <typ>
	if len(f) < 6 || len(f[1]) < 3 {
		return keyCase{}, false
	}
	k := keyCase{kind: f[1][0], api: f[1][1], role: f[1][2], to: f[3][0], from: f[4][0], typ: f[5][0]}
	if f[2] != "-" {
		k.items = strings.Split(f[2], ",")
	}
	return k, true
}

// runKeys: (1) every API x kind x role x id given / not given, (2) SendX with every well-formed
// attribute list over the alphabet, (3) every to x from x type of the reply.
func runKeys(r *common.Run) {
	n := 0
	stop := func() bool { return len(r.Failures) >= 60 || r.Hist["key-lost"] >= 8 }
	run := func(k keyCase) {
		if stop() {
			return
		}
		if k.kind == 'i' && k.api == 'r' {
			has := false
			for _, it := range k.items {
				has = has || it == "ut1"
			}
			if !has {
				k.items = append(append([]string{}, k.items...), "ut1")
			}
		}
		r.Mark("case key %d", n)
		n++
		runKey(r, k, "key")
	}
	// (1) + (3): every API, every address form
	for _, kind := range "imp" {
		for _, api := range "renm" {
			for _, role := range "cs" {
				for _, idg := range []string{"", "ui1", "ui0"} {
					if idg == "ui0" && api != 'r' {
						continue
					}
					var items []string
					if idg != "" {
						items = []string{idg}
					}
					for _, to := range "-dfi" {
						for _, from := range "-suxdbg" {
							typ := byte('e')
							if kind == 'i' && (int(to)+int(from))%2 == 0 {
								typ = 'r'
							}
							if r.Quick() && role == 's' && (api == 'm' || from == 'g' || to == 'd') {
								continue
							}
							run(keyCase{kind: byte(kind), api: byte(api), role: byte(role), items: items, to: byte(to), from: byte(from), typ: typ})
						}
					}
				}
			}
		}
	}
	// (1r) receipts: both send APIs x id x to x from
	for _, api := range "re" {
		for _, idg := range []string{"", "ui1", "ui0"} {
			if idg == "ui0" && api != 'r' {
				continue
			}
			var items []string
			if idg != "" {
				items = []string{idg}
			}
			for _, to := range "-fi" {
				// (no 'g': the multiplexer in front of the receipts handler refuses a message whose
				// from is no address and Serve returns that error — not a clause of this property)
				for _, from := range "-suxdb" {
					run(keyCase{kind: 'R', api: byte(api), role: 'c', items: items, to: byte(to), from: byte(from), typ: 'r'})
				}
			}
		}
	}
	for _, l := range keyLists(2) {
		run(keyCase{kind: 'R', api: 'r', role: 'c', items: l, to: '-', from: '-', typ: 'r'})
	}
	// (2) every attribute list
	for _, l := range keyLists(r.Pick(2, 3)) {
		for _, kind := range "imp" {
			run(keyCase{kind: byte(kind), api: 'r', role: 'c', items: l, to: '-', from: '-', typ: 'e'})
		}
	}
	r.Exhaustive = append(r.Exhaustive, fmt.Sprintf("every blocking send API (SendX, SendXElement, EncodeX, EncodeXElement) x kind x stream role (client, received s2s) x id given / empty / absent x to (none, domain, full, internationalised) x from of the reply (none, identical, upper-case, other spelling, another entity, own bare address, no address), the peer answering with the id it read on the wire; SendX with every well-formed start-element attribute list of length <= %d over %v", r.Pick(2, 3), keyAlphabet))
}
