package c06

import (
	"context"
	"fmt"
	"io"
	"os"
	"regexp"
	"runtime"
	"sort"
	"strings"
	"time"

	"mellium.im/xmpp/ibb"
	"mellium.im/xmpp/jid"
	"mellium.im/xmpp/mux"
	"mellium.im/xmpp/stanza"

	"verifharness/common"
)

// The waits of one in-band bytestream (ibb/conn.go Read, Write / Flush, Close against ibb.go
// handlePayload and the close branch of HandleIQ) as histories: what the application calls and what
// the peer sends, one operation at a time, each run to quiescence.
//
//	C06 ibbw <carrier><role> <ops>      carrier i|m: stanza kind of the stream (open request)
//	                                    role o|a: the session opened the stream / accepted it
//	ops `,`-joined:
//	  R        the application calls Read (8 byte buffer)
//	  Di<n> Dm<n>  the peer sends the next packet (n bytes) in an iq / in a message
//	  Bi Bm    the peer sends a packet with a sequence number that is not the expected one
//	  C        the peer asks to close the stream
//	  W        the application calls Write (3 bytes: a whole base64 group) and Flush
//	  a e      the peer answers the pending data packet with a result / an error
//	  K        the application calls Close
//	  k j      the peer answers our close request with a result / an error
//	observation: per op what happened because of it, sorted and `+`-joined (`-` nothing):
//	  r<n> a Read returned n bytes (r0: io.EOF)   w1 w0 the Write+Flush returned nil / an error
//	  k1 k0 Close returned nil / an error
//	  A packet acknowledged   Ni Nu packet refused (item-not-found / another condition)
//	  Z Y close request answered with a result / with item-not-found
//	  s a data packet of ours left (not reported for C)    c our close request left
//	then ` probe=live|stall|dead`
//
// Every history ends with `a,k,C` (pending packet acknowledged, pending close answered, the peer
// closes): after that no call may still wait.
//
// No sleeps: the serve loop has dealt with what the peer sent when it has answered a ping fed
// behind it; a call "waits" when the goroutine dump shows it blocked inside Read (channel
// receive), inside the packet's or the close request's sendResp (select) or on the write lock.

const ibbwSID = "W1"

type ibbwRet struct {
	kind byte // r w k
	n    int
	err  error
}

func countG(dump, state, fn string) int {
	n := 0
	for _, g := range strings.Split(dump, "\n\n") {
		nl := strings.IndexByte(g, '\n')
		if nl < 0 {
			continue
		}
		if strings.Contains(g[:nl], state) && strings.Contains(g[nl:], fn+"(") {
			n++
		}
	}
	return n
}

func dumpG() string {
	buf := make([]byte, 1<<20)
	return string(buf[:runtime.Stack(buf, true)])
}

var (
	reOurData  = regexp.MustCompile(`<(iq|message)\b[^>]*>\s*<data [^>]*>[^<]*</data>`)
	reOurClose = regexp.MustCompile(`<iq\b[^>]*>\s*<close `)
	reID       = regexp.MustCompile(`\bid="([^"]*)"`)
)

func blockedCalls(d string) (nr, nw, nk int) {
	nr = countG(d, "[chan receive", "mellium.im/xmpp/ibb.(*Conn).Read")
	nw = countG(d, "[select", "mellium.im/xmpp/ibb.(*Conn).Flush")
	nk = countG(d, "[select", "mellium.im/xmpp/ibb.(*Conn).Close") + countG(d, "[sync.Mutex.Lock", "mellium.im/xmpp/ibb.(*Conn).Close")
	return
}

func runIbbw(r *common.Run, cfg string, ops []string, class string) {
	if len(cfg) != 2 {
		return
	}
	carrier, role := cfg[0], cfg[1]
	rs, err := common.NewRawSession(0, "jabber:client", jid.MustParse("me@example.net/h"), jid.MustParse("example.net"))
	if err != nil {
		r.Notes = append(r.Notes, "session setup failed: "+err.Error())
		return
	}
	h := &ibb.Handler{}
	served := make(chan error, 1)
	go func() { served <- rs.S.Serve(mux.New("jabber:client", ibb.Handle(h))) }()
	defer func() {
		rs.In.Close()
		common.WithTimeout(200*time.Millisecond, func() { rs.S.Close() })
	}()
	baseR, baseW, baseK := blockedCalls(dumpG())
	// what the peer sends, in order
	feedCh := make(chan string, 64)
	feedDone := make(chan struct{})
	defer close(feedDone)
	go func() {
		for {
			select {
			case b := <-feedCh:
				if rs.Feed([]byte(b)) != nil {
					return
				}
			case <-feedDone:
				return
			}
		}
	}()
	feed := func(s string) { feedCh <- s }

	var toks, obs []string
	line := func() []string { return []string{r.Prop + " ibbw " + cfg + " " + common.Join(toks, ",")} }
	outPos := 0
	newOut := func() string {
		b := rs.Out.Bytes()
		s := string(b[outPos:])
		outPos = len(b)
		return s
	}
	waitOut := func(pred func(string) bool) bool {
		for dl := time.Now().Add(watchdog); ; {
			if pred(string(rs.Out.Bytes())) {
				return true
			}
			if time.Now().After(dl) {
				return false
			}
			time.Sleep(50 * time.Microsecond)
		}
	}
	nSync := 0
	stalled, dead := false, false
	// sync: the serve loop has handled everything fed so far
	sync := func(after string) bool {
		nSync++
		id := fmt.Sprintf("sync%d", nSync)
		feed(fmt.Sprintf(`<iq xmlns="jabber:client" type="get" id="%s" from="example.net"><ping xmlns="urn:xmpp:ping"/></iq>`, id))
		ok := waitOut(func(o string) bool {
			if strings.Contains(o, `id="`+id+`"`) {
				return true
			}
			select {
			case e := <-served:
				served <- e
				dead = true
				return true
			default:
				return false
			}
		})
		if !ok {
			stalled = true
			r.Fail("serve-continues", "ibb-serve-stalled-after:"+after, line(), "the serve loop no longer answers after this operation: "+whereServe())
		}
		if dead {
			e := <-served
			served <- e
			r.Fail("serve-continues", "ibb-serve-ended-after:"+after, line(), fmt.Sprintf("Serve returned (%v) although the connection is intact: a stanza for one stream ended the whole session", e))
		}
		return ok && !dead
	}

	// --- set the stream up
	var conn *ibb.Conn
	peerJ := jid.MustParse(expPeer)
	stz := map[byte]string{'i': "iq", 'm': "message"}[carrier]
	switch role {
	case 'a':
		ln := h.Listen(rs.S)
		acc := make(chan *ibb.Conn, 1)
		go func() {
			c, _ := ln.Accept()
			cc, _ := c.(*ibb.Conn)
			acc <- cc
		}()
		feed(fmt.Sprintf(`<iq xmlns="jabber:client" type="set" id="open1" from="%s" to="me@example.net/h"><open xmlns="http://jabber.org/protocol/ibb" sid="%s" block-size="64" stanza="%s"/></iq>`, expPeer, ibbwSID, stz))
		select {
		case conn = <-acc:
		case <-time.After(watchdog):
		}
	default:
		opened := make(chan *ibb.Conn, 1)
		ctx, cancel := context.WithTimeout(context.Background(), 4*watchdog)
		defer cancel()
		go func() {
			c, _ := h.OpenIQ(ctx, stanza.IQ{ID: "open1", To: peerJ}, rs.S, carrier == 'i', 64, ibbwSID)
			opened <- c
		}()
		if waitOut(func(o string) bool { return strings.Contains(o, "</open>") || strings.Contains(o, "<open ") && strings.Contains(o, "</iq>") }) {
			feed(fmt.Sprintf(`<iq xmlns="jabber:client" type="result" id="open1" from="%s"/>`, expPeer))
		}
		select {
		case conn = <-opened:
		case <-time.After(watchdog):
		}
	}
	if conn == nil || !sync("setup") {
		r.Notes = append(r.Notes, "ibbw: the stream could not be set up ("+cfg+")")
		return
	}
	newOut()

	rets := make(chan ibbwRet, 64)
	var started, returned [3]int // r w k
	idx := map[byte]int{'r': 0, 'w': 1, 'k': 2}
	var evs []string
	// bookkeeping of the independent oracle
	accepted, delivered := 0, 0
	ended := false // the peer's close request was answered with a result, or our Close returned
	drain := func() bool {
		got := false
		for {
			select {
			case e := <-rets:
				got = true
				returned[idx[e.kind]]++
				switch e.kind {
				case 'r':
					delivered += e.n
					if e.n == 0 && e.err != io.EOF {
						evs = append(evs, "r?")
					} else {
						evs = append(evs, fmt.Sprintf("r%d", e.n))
					}
				case 'w':
					evs = append(evs, "w"+common.B(e.err == nil))
				case 'k':
					evs = append(evs, "k"+common.B(e.err == nil))
				}
			default:
				return got
			}
		}
	}
	quiesce := func(after string) bool {
		for dl := time.Now().Add(watchdog); ; {
			drain()
			nr, nw, nk := blockedCalls(dumpG())
			if started[0]-returned[0] == nr-baseR && started[1]-returned[1] == nw-baseW && started[2]-returned[2] == nk-baseK && !drain() {
				return true
			}
			if time.Now().After(dl) {
				stalled = true
				r.Fail("outcome", "ibb-call-neither-returns-nor-waits:"+after, line(), fmt.Sprintf("calls started/returned %v/%v, blocked at a known wait: %d Read, %d Write, %d Close", started, returned, nr-baseR, nw-baseW, nk-baseK))
				return false
			}
			time.Sleep(50 * time.Microsecond)
		}
	}
	pendingData, pendingClose := "", ""
	// scan what the session wrote since the last operation
	scan := func(fedIDs map[string]string, reportSent bool) {
		o := newOut()
		for id, what := range fedIDs {
			m := regexp.MustCompile(`<(iq|message)\b[^>]*\bid="` + id + `"[^>]*>`).FindString(o)
			switch {
			case m == "":
			case strings.Contains(m, `type="result"`):
				evs = append(evs, map[string]string{"data": "A", "close": "Z"}[what])
				// while our own Close waits for its reply the stream ends when that call returns
				if what == "close" && started[2] == returned[2] {
					ended = true
				}
			case strings.Contains(m, `type="error"`):
				rest := o[strings.Index(o, m):]
				nf := strings.Contains(rest[:min(len(rest), 400)], "item-not-found")
				if what == "close" {
					evs = append(evs, map[bool]string{true: "Y", false: "Y?"}[nf])
				} else {
					evs = append(evs, map[bool]string{true: "Ni", false: "Nu"}[nf])
				}
			}
		}
		for _, m := range reOurData.FindAllString(o, -1) {
			if id := reID.FindStringSubmatch(m); id != nil && strings.HasPrefix(m, "<iq") {
				if reportSent {
					pendingData = id[1]
				}
			}
			if reportSent {
				evs = append(evs, "s")
			}
		}
		for _, m := range reOurClose.FindAllString(o, -1) {
			if id := reID.FindStringSubmatch(m); id != nil {
				pendingClose = id[1]
			}
			evs = append(evs, "c")
		}
	}
	seq, nFed := 0, 0
	finish := func(op string) {
		sort.Strings(evs)
		if len(evs) == 0 {
			obs = append(obs, "-")
		} else {
			obs = append(obs, strings.Join(evs, "+"))
		}
		evs = nil
		// independent oracle: at quiescence no Read waits while there is data for it or the stream has ended
		if w := started[0] - returned[0]; w > 0 && !stalled && !dead {
			if accepted > delivered {
				r.Fail("outcome", "ibb-read-waits-although-data-was-delivered:"+op[:min(2, len(op))], line(), fmt.Sprintf("%d Read call(s) still wait; %d bytes were accepted from the peer, %d handed to Read calls", w, accepted, delivered))
			}
			// (a second Close returns at once while the first still waits for its reply: the stream
			// has ended when no Close call is left)
			if ended || (returned[2] > 0 && started[2] == returned[2]) {
				r.Fail("outcome", "ibb-read-waits-after-the-stream-ended:"+op[:1], line(), fmt.Sprintf("%d Read call(s) still wait although the stream has been closed", w))
			}
		}
	}
	all := append(append([]string{}, ops...), "a", "k", "C")
	for _, op := range all {
		if stalled || dead {
			break
		}
		toks = append(toks, op)
		fed := map[string]string{}
		peerOp := false
		switch op[0] {
		case 'R':
			started[0]++
			go func() {
				b := make([]byte, 8)
				n, err := conn.Read(b)
				rets <- ibbwRet{'r', n, err}
			}()
		case 'W':
			started[1]++
			go func() {
				_, err := conn.Write([]byte("xyz"))
				if err == nil {
					err = conn.Flush()
				}
				rets <- ibbwRet{'w', 0, err}
			}()
		case 'K':
			started[2]++
			go func() { rets <- ibbwRet{'k', 0, conn.Close()} }()
		case 'D', 'B':
			peerOp = true
			nFed++
			id := fmt.Sprintf("pd%d", nFed)
			n, sq := 1, seq
			if op[0] == 'D' {
				n = int(op[2] - '0')
			} else {
				sq = seq + 7
			}
			pl := map[int]string{0: "", 1: "QQ==", 2: "QUI=", 3: "QUJD", 9: "QUJDREVGR0hJ"}[n]
			if op[1] == 'i' {
				feed(fmt.Sprintf(`<iq xmlns="jabber:client" type="set" id="%s" from="%s"><data xmlns="http://jabber.org/protocol/ibb" seq="%d" sid="%s">%s</data></iq>`, id, expPeer, sq, ibbwSID, pl))
			} else {
				feed(fmt.Sprintf(`<message xmlns="jabber:client" id="%s" from="%s"><data xmlns="http://jabber.org/protocol/ibb" seq="%d" sid="%s">%s</data></message>`, id, expPeer, sq, ibbwSID, pl))
			}
			fed[id] = "data"
		case 'C':
			peerOp = true
			nFed++
			id := fmt.Sprintf("pc%d", nFed)
			feed(fmt.Sprintf(`<iq xmlns="jabber:client" type="set" id="%s" from="%s"><close xmlns="http://jabber.org/protocol/ibb" sid="%s"/></iq>`, id, expPeer, ibbwSID))
			fed[id] = "close"
		case 'a', 'e':
			if pendingData == "" {
				break
			}
			peerOp = true
			if op[0] == 'a' {
				feed(fmt.Sprintf(`<iq xmlns="jabber:client" type="result" id="%s" from="%s"/>`, pendingData, expPeer))
			} else {
				feed(fmt.Sprintf(`<iq xmlns="jabber:client" type="error" id="%s" from="%s"><error type="cancel"><item-not-found xmlns="urn:ietf:params:xml:ns:xmpp-stanzas"/></error></iq>`, pendingData, expPeer))
			}
			pendingData = ""
		case 'k', 'j':
			if pendingClose == "" {
				break
			}
			peerOp = true
			if op[0] == 'k' {
				feed(fmt.Sprintf(`<iq xmlns="jabber:client" type="result" id="%s" from="%s"/>`, pendingClose, expPeer))
			} else {
				feed(fmt.Sprintf(`<iq xmlns="jabber:client" type="error" id="%s" from="%s"><error type="cancel"><item-not-found xmlns="urn:ietf:params:xml:ns:xmpp-stanzas"/></error></iq>`, pendingClose, expPeer))
			}
			pendingClose = ""
		}
		if peerOp && !sync(op[:1]) {
			if dead {
				scan(fed, op[0] != 'C')
				finish(op)
			}
			break
		}
		if !quiesce(op[:1]) {
			break
		}
		scan(fed, op[0] != 'C')
		// what the oracle needs to know about a packet: accepted = acknowledged (iq) / not refused (message)
		if op[0] == 'D' {
			refused := false
			for _, e := range evs {
				if e[0] == 'N' {
					refused = true
				}
			}
			if !refused {
				accepted += int(op[2] - '0')
				seq++
			}
		}
		finish(op)
	}
	probe := "live"
	switch {
	case stalled:
		probe = "stall"
	case dead:
		probe = "dead"
	default:
		if started != returned {
			probe = "stall"
			r.Fail("outcome", "ibb-call-still-waits-after-the-stream-ended", line(), fmt.Sprintf("calls started/returned (Read, Write, Close) %v/%v after the packet was acknowledged, the close answered and the peer closed", started, returned))
		}
	}
	l := "ibbw " + cfg + " " + common.Join(toks, ",")
	o := common.Join(obs, ",") + " probe=" + probe
	r.Line(l, o)
	if os.Getenv("VERIF_DEBUG") != "" {
		fmt.Fprintln(os.Stderr, l, "=>", o)
	}
	r.Case(l, true, class)
}

// whereServe: the innermost library frames of a goroutine that is inside Serve and blocked.
func whereServe() string {
	for _, g := range strings.Split(dumpG(), "\n\n") {
		if !strings.Contains(g, "mellium.im/xmpp.(*Session).Serve") && !strings.Contains(g, "handleInputStream") {
			continue
		}
		ls := strings.Split(g, "\n")
		var fr []string
		for _, l := range ls[1:] {
			if strings.HasPrefix(l, "mellium.im/xmpp") {
				if i := strings.LastIndexByte(l, '('); i > 0 {
					l = l[:i]
				}
				fr = append(fr, l)
				if len(fr) == 3 {
					break
				}
			}
		}
		return ls[0] + " " + strings.Join(fr, " < ")
	}
	return "no goroutine inside Serve"
}

var ibbwCorpus = []string{
	// a Read that already waits when the packet arrives, on either carrier
	"R,Di3", "R,Dm3", "R,R,Dm1,Di2", "Dm3,R,R,Dm2", "R,Bm,Dm1", "R,Bi,Di1",
	// … when the stream ends
	"R,C", "R,R,C", "R,K,k", "R,K,Dm2,k", "R,K,C,j", "Di3,C,R,R",
	// the peer's stanzas arrive while a local call waits for its reply
	"W,C,a", "W,C,e", "W,Di3,a", "W,Dm3,R,a", "R,W,C,a", "W,K,C,a,k", "W,K,a,C,k", "W,e,K", "W,e,C", "W,K,e", "K,C,k", "K,Di2,R,k",
	"C,W,K,R", "K,k,W,K,Di1,C",
}

// runIbbws: corpus for every configuration, then every history the model can take up to a bound
// (generated by the driver from the LTS: only operations that can have an effect).
func runIbbws(r *common.Run) {
	cfgs := []string{"ia", "ma", "io", "mo"}
	n := 0
	for _, cfg := range cfgs {
		for _, c := range ibbwCorpus {
			if len(r.Failures) >= 60 || r.Hist["ibbw-bad"] >= 6 {
				return // a broken tree costs several watchdogs per history
			}
			nf := len(r.Failures)
			r.Mark("case ibbw-corpus %d", n)
			n++
			runIbbw(r, cfg, strings.Split(c, ","), "ibbw-corpus")
			if len(r.Failures) > nf {
				r.Hist["ibbw-bad"]++
			}
		}
	}
	bin := findDriver(r.Dir)
	if bin == "" {
		r.Notes = append(r.Notes, "xdriver not found: no generated stream histories in this run")
		return
	}
	depth := r.Pick(3, 4)
	for ci, cfg := range cfgs {
		d := depth
		if ci >= 2 && r.Quick() {
			d = depth - 1 // the opener's side differs only in how the stream came about
		}
		ans, err := askDriver(bin, fmt.Sprintf("C06 ibbgen %s %d %d", cfg, d, r.Pick(1500, 20000)))
		if err != nil {
			r.Notes = append(r.Notes, "stream history generation failed: "+err.Error())
			return
		}
		for _, hs := range strings.Split(ans, ";") {
			if hs == "" || hs == "-" {
				continue
			}
			if len(r.Failures) >= 60 || r.Hist["ibbw-bad"] >= 6 {
				return
			}
			nf := len(r.Failures)
			r.Mark("case ibbw-all %d", n)
			n++
			runIbbw(r, cfg, strings.Split(hs, ","), "ibbw-exhaustive")
			if len(r.Failures) > nf {
				r.Hist["ibbw-bad"]++
			}
		}
	}
	r.Exhaustive = append(r.Exhaustive, fmt.Sprintf("in-band bytestream waits: every history of %d (opener, quick: %d) effective operations over Read, data packet in an iq / in a message (1-3 bytes, wrong sequence number), peer close, Write+Flush, acknowledgement / error for the packet, Close, result / error for the close request; both carriers, both roles", depth, depth-1))
}
