package c06

import (
	"context"
	"fmt"
	"net"
	"os"
	"runtime"
	"sort"
	"strconv"
	"strings"
	"time"

	"mellium.im/xmpp/ibb"
	"mellium.im/xmpp/jid"
	"mellium.im/xmpp/mux"

	"verifharness/common"
)

// The listener's table of expected streams (ibb/listen.go Expect / Accept, ibb.go handleOpen) as
// a further instance of "every correlated wait ends once with its own reply": several Expect
// calls at a time, for the same or for different streams, a later call for the same stream
// replacing the earlier one, contexts ending, open requests arriving, Accept, Close.
//
//	C06 exp <ops>    ops `,`-joined:  E<i><k> Expect call i (numbered 0,1,… in order) for stream k (a|b)
//	                 X<i> the context of call i ends   O<k> open request for stream k   A Accept   K Listener.Close
//	observation: per op the calls that return because of it, `+`-joined and sorted:
//	                 <i>c<k> Expect i got stream k   <i>e Expect i returned an error
//	                 Ac<k> an Accept got stream k    Ae an Accept returned an error     - nothing
//	             then ` probe=live|stall`
//
// No sleeps: "the call is registered / waits" is read off the goroutine dump (a goroutine inside
// (*Listener).Expect / Accept that is blocked in its select).

const expPeer = "peer@example.net/p"

func blockedIn(fn string) int {
	buf := make([]byte, 1<<20)
	buf = buf[:runtime.Stack(buf, true)]
	n := 0
	for _, g := range strings.Split(string(buf), "\n\n") {
		nl := strings.IndexByte(g, '\n')
		if nl < 0 {
			continue
		}
		if strings.Contains(g[:nl], "[select") && strings.Contains(g[nl:], fn+"(") {
			n++
		}
	}
	return n
}

func waitBlocked(fn string, base, want int) bool {
	for dl := time.Now().Add(watchdog); time.Now().Before(dl); {
		if blockedIn(fn)-base == want {
			return true
		}
		time.Sleep(50 * time.Microsecond)
	}
	return false
}

type expRet struct {
	who string // call number, or "A"
	c   net.Conn
	err error
}

func runExpect(r *common.Run, ops []string, class string) {
	rs, err := common.NewRawSession(0, "jabber:client", jid.MustParse("me@example.net/h"), jid.MustParse("example.net"))
	if err != nil {
		r.Notes = append(r.Notes, "session setup failed: "+err.Error())
		return
	}
	h := &ibb.Handler{}
	served := make(chan error, 1)
	go func() { served <- rs.S.Serve(mux.New("jabber:client", ibb.Handle(h))) }()
	var cancels []context.CancelFunc
	defer func() {
		for _, c := range cancels {
			c()
		}
		rs.In.Close()
		common.WithTimeout(200*time.Millisecond, func() { rs.S.Close() })
	}()
	const fnE, fnA = "mellium.im/xmpp/ibb.(*Listener).Expect", "mellium.im/xmpp/ibb.(*Listener).Accept"
	const fnH = "mellium.im/xmpp/ibb.handleOpen"
	baseE, baseA, baseH := blockedIn(fnE), blockedIn(fnA), blockedIn(fnH) // left over from cases that stalled
	ln := h.Listen(rs.S)
	rets := make(chan expRet, 64)
	// shadow: which returns an op must cause (only to know what to wait for)
	table := map[byte]int{}
	keyOf := map[int]byte{}
	acceptors, closed := 0, false
	pending := byte(0)
	nOpen := 0
	var toks, obs []string
	line := func() []string { return []string{r.Prop + " exp " + common.Join(toks, ",")} }
	stalled := false
	collect := func(n int) string {
		var got []string
		for i := 0; i < n; i++ {
			select {
			case e := <-rets:
				switch {
				case e.err == nil && e.c != nil:
					sid := "?"
					if c, ok := e.c.(*ibb.Conn); ok {
						sid = strings.TrimPrefix(c.SID(), "S")
					}
					got = append(got, e.who+"c"+sid)
				default:
					got = append(got, e.who+"e")
				}
			case <-time.After(watchdog):
				got = append(got, "STALL")
				stalled = true
				r.Fail("outcome", "listener-call-does-not-return", line(), fmt.Sprintf("a call that has to return at this point did not (%d of %d returns seen)", i, n))
				i = n
			}
		}
		// nothing else may return
		select {
		case e := <-rets:
			got = append(got, "EXTRA:"+e.who)
			r.Fail("single-delivery", "listener-extra-return", line(), "a call returned that had no reason to: "+e.who)
		default:
		}
		if len(got) == 0 {
			return "-"
		}
		sort.Strings(got)
		return strings.Join(got, "+")
	}
	feedOpen := func(k byte) {
		nOpen++
		// the peer ends whatever stream still has that session id before it opens a new one with it
		// (answered item-not-found when there is none): a library that refuses an open request for
		// an id in use and one that replaces the older stream then behave alike (round E, asked for
		// by the C15 builder)
		go rs.Feed([]byte(fmt.Sprintf(`<iq xmlns="jabber:client" type="set" id="cl%d" from="%s" to="me@example.net/h"><close xmlns="http://jabber.org/protocol/ibb" sid="S%c"/></iq>`, nOpen, expPeer, k) +
			fmt.Sprintf(`<iq xmlns="jabber:client" type="set" id="open%d" from="%s" to="me@example.net/h"><open xmlns="http://jabber.org/protocol/ibb" sid="S%c" block-size="16" stanza="iq"/></iq>`, nOpen, expPeer, k)))
	}
	nCalls := 0
	for _, op := range ops {
		if stalled || closed {
			break
		}
		switch op[0] {
		case 'E':
			k := op[len(op)-1]
			i := nCalls
			nCalls++
			toks = append(toks, fmt.Sprintf("E%d%c", i, k))
			ctx, cancel := context.WithCancel(context.Background())
			cancels = append(cancels, cancel)
			go func() {
				c, err := ln.Expect(ctx, jid.MustParse(expPeer), "S"+string(k))
				rets <- expRet{strconv.Itoa(i), c, err}
			}()
			n := 0
			if _, ok := table[k]; ok {
				n = 1 // the call it replaces returns
			}
			table[k], keyOf[i] = i, k
			o := collect(n)
			if !stalled && !waitBlocked(fnE, baseE, len(table)) {
				r.Fail("outcome", "expect-not-waiting", line(), "the Expect call neither returned nor waits")
				stalled = true
			}
			obs = append(obs, o)
		case 'X':
			i, _ := strconv.Atoi(op[1:])
			if i >= nCalls {
				continue
			}
			k := keyOf[i]
			if j, ok := table[k]; !ok || j != i {
				continue // that call has returned already
			}
			toks = append(toks, op)
			cancels[i]()
			delete(table, k)
			obs = append(obs, collect(1))
		case 'O':
			if pending != 0 {
				continue // the serve loop is inside the hand-off: a further request would only queue
			}
			k := op[1]
			toks = append(toks, op)
			feedOpen(k)
			switch {
			case func() bool { _, ok := table[k]; return ok }():
				delete(table, k)
				obs = append(obs, collect(1))
			case acceptors > 0:
				acceptors--
				obs = append(obs, collect(1))
			default:
				pending = k
				o := collect(0)
				// the serve loop has looked the stream up and waits in the hand-off to Accept
				if !waitBlocked(fnH, baseH, 1) {
					r.Fail("outcome", "open-not-handed-over", line(), "an open request nobody waits for is neither refused nor offered to Accept")
					stalled = true
				}
				obs = append(obs, o)
			}
		case 'A':
			toks = append(toks, op)
			go func() { c, err := ln.Accept(); rets <- expRet{"A", c, err} }()
			if pending != 0 {
				pending = 0
				obs = append(obs, collect(1))
			} else {
				acceptors++
				o := collect(0)
				if !waitBlocked(fnA, baseA, acceptors) {
					r.Fail("outcome", "accept-not-waiting", line(), "the Accept call neither returned nor waits")
					stalled = true
				}
				obs = append(obs, o)
			}
		case 'K':
			toks = append(toks, op)
			ln.Close()
			obs = append(obs, collect(len(table)+acceptors))
			table, acceptors, pending, closed = map[byte]int{}, 0, 0, true
		}
	}
	// wind down: whoever still waits is released by closing the listener (also an open request
	// that is being handed over), then the serve loop must still answer
	if !closed && !stalled {
		toks = append(toks, "K")
		ln.Close()
		obs = append(obs, collect(len(table)+acceptors))
	}
	probe := "live"
	go rs.Feed([]byte(`<iq xmlns="jabber:client" type="get" id="probe1" from="example.net"><ping xmlns="urn:xmpp:ping"/></iq>`))
	for dl := time.Now().Add(watchdog); !strings.Contains(string(rs.Out.Bytes()), `probe1`); {
		if time.Now().After(dl) {
			probe = "stall"
			r.Fail("serve-continues", "serve-stalled-after-listener-history", line(), "the serve loop no longer answers: an open request is still being handed to a call that no longer waits for it")
			break
		}
		time.Sleep(50 * time.Microsecond)
	}
	l := "exp " + common.Join(toks, ",")
	o := common.Join(obs, ",") + " probe=" + probe
	r.Line(l, o)
	if os.Getenv("VERIF_DEBUG") != "" {
		fmt.Fprintln(os.Stderr, l, "=>", o)
	}
	r.Case(l, true, class)
}

var expCorpus = []string{
	"Ea,Oa", "Ea,Ea,Oa", "Ea,Ea,Ea,Oa,A", "Ea,Eb,Ea,Ob,Oa", "Ea,X0,Oa,A", "Ea,Ea,X1,Oa,A", "Ea,Eb,X0,Oa,A,Ob",
	"A,Ea,Oa,Ob", "A,A,Oa,Ea,Oa,Ob", "Ea,Eb,A,K", "Oa,Ea,A,Oa", "Ea,Ea,Eb,Eb,Ob,Oa",
}

// runExpects: corpus, then every history over the alphabet up to a bound.
func runExpects(r *common.Run) {
	for n, c := range expCorpus {
		r.Mark("case exp-corpus %d", n)
		runExpect(r, strings.Split(c, ","), "exp-corpus")
	}
	alphabet := []string{"Ea", "Eb", "X0", "X1", "Oa", "Ob", "A", "K"}
	max := r.Pick(4, 5)
	n := 0
	var rec func(prefix []string)
	rec = func(prefix []string) {
		if len(r.Failures) >= 60 || r.Hist["exp-stall"] >= 6 {
			return
		}
		if len(prefix) == max || (len(prefix) > 0 && prefix[len(prefix)-1] == "K") {
			nf := len(r.Failures)
			r.Mark("case exp-all %d", n)
			n++
			runExpect(r, prefix, "exp-exhaustive")
			if len(r.Failures) > nf {
				r.Hist["exp-stall"]++
			}
			return
		}
		for _, a := range alphabet {
			rec(append(append([]string{}, prefix...), a))
		}
	}
	rec(nil)
	r.Exhaustive = append(r.Exhaustive, "IBB listener: every history of 4 (thorough: 5) operations over two Expect keys (a later call replaces the earlier one), cancel, open request per key, Accept, Close")
}
