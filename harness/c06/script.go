package c06

import (
	"bytes"
	"fmt"
	"os"
	"os/exec"
	"path/filepath"
	"strconv"
	"strings"
	"time"

	"verifharness/common"
)

// Schedules generated FROM the Lean LTS: the driver (`C06 gen` / `C06 genall`)
// walks the model and answers full traces — harness actions interleaved with
// the events the model says must follow.  The script executor below performs
// the actions and waits for exactly those events; it takes no decision of its
// own (the small shadow in sessRun is only kept up to date for the epilogue
// that releases whatever is still parked).

func findDriver(dir string) string {
	if p := os.Getenv("VERIF_XDRIVER"); p != "" {
		return p
	}
	d, _ := filepath.Abs(dir)
	for i := 0; i < 8; i++ {
		p := filepath.Join(d, "lean", ".lake", "build", "bin", "xdriver")
		if st, err := os.Stat(p); err == nil && !st.IsDir() {
			return p
		}
		d = filepath.Dir(d)
	}
	return ""
}

// askDriver sends one protocol line and returns the answer without the '='.
func askDriver(bin, line string) (string, error) {
	cmd := exec.Command(bin)
	cmd.Stdin = strings.NewReader(line + "\n")
	var out bytes.Buffer
	cmd.Stdout = &out
	if err := cmd.Run(); err != nil {
		return "", err
	}
	a := strings.TrimSpace(out.String())
	if !strings.HasPrefix(a, "=") {
		return "", fmt.Errorf("driver answered %q", a)
	}
	return a[1:], nil
}

func reqField(reqs []reqSpec) string {
	var l []string
	for _, q := range reqs {
		l = append(l, q.field())
	}
	return common.Join(l, ",")
}

// script realises one generated trace.
func (sr *sessRun) script(toks []string) {
	for idx := 0; idx < len(toks) && len(sr.problems) == 0; idx++ {
		t := toks[idx]
		next := ""
		if idx+1 < len(toks) {
			next = toks[idx+1]
		}
		num := func() int { n, _ := strconv.Atoi(strings.TrimRight(t[1:], "rengtScXT")); return n }
		switch t[0] {
		case 'c':
			sr.trace = append(sr.trace, t)
			i := num()
			sr.start(i)
			if sr.rstate[i] == "ret" && strings.HasPrefix(next, "f") {
				idx++ // the model's f<i>: the call failed at once (start recorded it)
			}
		case 'C':
			sr.trace = append(sr.trace, t)
			sr.outClosed = true
			common.WithTimeout(watchdog, func() { sr.rs.S.Close() })
		case 'o', 'f':
			i := num()
			if t[0] == 'f' {
				sr.broken = true
			}
			sr.trace = append(sr.trace, t)
			label := "r" + strconv.Itoa(i)
			sr.gates[i].fail <- t[0] == 'f'
			sr.ctl.Release(label, "payload")
			if t[0] == 'o' {
				sr.rstate[i] = "presel"
				sr.wait(isEv(label, "park:session.sendResp.select"), label+" before its select")
			} else if e, ok := sr.wait(isEv(label, "ret:"), label+" return after failed transmission"); ok {
				sr.returned(i, e)
			}
		case 'x':
			i := num()
			sr.trace = append(sr.trace, t)
			sr.cancd[i] = true
			sr.cancel[i]()
			sr.holdProbe(i)
		case 's':
			i := num()
			sr.trace = append(sr.trace, t)
			sr.rstate[i] = "insel"
			sr.ctl.Release("r"+strconv.Itoa(i), "session.sendResp.select")
		case 'p':
			p := parsePeer(t)
			sr.trace = append(sr.trace, p.tok())
			sr.feedScript(p, strings.HasPrefix(next, "H"))
		case 'H':
			// consumed together with the stanza
		case 'A':
			// the model says the serve loop gives up the hand-off here and the handler gets the stanza
			sr.expectAbandon()
		case 'g':
			sr.trace = append(sr.trace, t)
			sr.serve = "offering"
			sr.ctl.Release("serve", "session.serve.lookup")
		case 'h':
			sr.trace = append(sr.trace, t)
			sr.serve = "waitclose"
			sr.ctl.Release("serve", "session.serve.handed")
		case 'k':
			i := num()
			sr.trace = append(sr.trace, t)
			sr.closed[i] = true
			if p := common.Recover(func() { sr.resp[i].Close() }); p != "" {
				sr.r.Fail("no-panic", "close-panics", sr.lines(), p)
			}
			if sr.serve == "waitclose" {
				sr.serve = "idle"
				sr.afterBadClose(i)
				sr.afterCloseHold()
			} else if sr.serve == "handedpark" {
				sr.serve = "handedpark-closed"
			}
		case 'd':
			sr.trace = append(sr.trace, t)
			sr.drain(num())
		case 'R':
			// the model says requester i returns now, with this outcome
			body := t[1:]
			var i int
			if j := strings.IndexByte(body, 'r'); j >= 0 {
				i, _ = strconv.Atoi(body[:j])
				k, _ := strconv.Atoi(body[j+1:])
				sr.serve, sr.hit, sr.hitK = "offering", i, k
			} else {
				i, _ = strconv.Atoi(strings.TrimSuffix(body, "c"))
			}
			label := "r" + strconv.Itoa(i)
			before := len(sr.trace)
			if e, ok := sr.wait(isEv(label, "ret:"), label+" return predicted by the model"); ok {
				sr.returned(i, e)
				if len(sr.trace) > before && sr.trace[before] != t {
					sr.problem("model predicted %s, observed %s", t, sr.trace[before])
				}
			} else {
				sr.r.Fail("outcome", "predicted-return-missing", sr.lines(), fmt.Sprintf("the model says the call of requester %d returns here (%s); it did not", i, t))
			}
		}
	}
}

func (sr *sessRun) feedScript(p peerStanza, expectHandler bool) {
	k := sr.nread
	sr.nread++
	sr.badK[k] = p.bad
	sr.stz[k] = p
	outBefore := sr.rs.Out.Len()
	autoReply := p.kind == 'i' && p.typ != 'r' && p.typ != 'e'
	want := sr.lookupShadow(p)
	go sr.feedRaw(p)
	if p.typ == 'r' || p.typ == 'e' {
		if _, ok := sr.wait(isEv("serve", "park:session.serve.lookup"), "serve loop after lookup"); !ok {
			sr.serve = "stuck"
			return
		}
		if !expectHandler {
			sr.serve, sr.hit, sr.hitK = "lookup", want, k
			return
		}
		sr.ctl.Release("serve", "session.serve.lookup")
	}
	sr.serve, sr.hit = "idle", -1
	exp := "h:" + kindLocal(p.kind) + ":q" + strconv.Itoa(p.id)
	e, ok := sr.ctl.Wait(watchdog, func(e Ev) bool { return e.Who == "handler" }, &sr.skipped)
	switch {
	case !ok:
		sr.r.Fail("unmatched-to-handler", "not-delivered", sr.lines(), fmt.Sprintf("stanza %d (%s): the model sends it to the handler, it did not arrive", k, p.tok()))
		sr.problem("stanza %d did not reach the handler", k)
		sr.serve = "stuck"
	case e.What != exp:
		sr.problem("handler saw %s, expected %s", e.What, exp)
	default:
		sr.hlog = append(sr.hlog, k)
		sr.trace = append(sr.trace, "H"+strconv.Itoa(k))
		if p.bad {
			sr.awaitServeEnd()
			return
		}
	}
	if autoReply && (sr.broken || sr.outClosed) {
		sr.awaitServeEnd()
	} else if autoReply {
		for dl := time.Now().Add(watchdog); sr.rs.Out.Len() == outBefore && time.Now().Before(dl); {
			time.Sleep(20 * time.Microsecond)
		}
	}
}

// runSessScript executes one model-generated schedule.
func runSessScript(r *common.Run, reqs []reqSpec, toks []string, class string) {
	sr, err := newSessRun(r, reqs)
	if err != nil {
		r.Notes = append(r.Notes, "session setup failed: "+err.Error())
		return
	}
	defer sr.finish()
	sr.script(toks)
	// a schedule ends where a select may go either way: take whatever the real select chose
	for i := range sr.reqs {
		if len(sr.problems) == 0 {
			sr.afterEnable(i)
		}
	}
	sr.conclude(class)
}
