package c06

import (
	"context"
	"encoding/xml"
	"fmt"
	"io"
	"strconv"
	"sync"
	"sync/atomic"
	"time"

	"mellium.im/xmlstream"
	"mellium.im/xmpp/jid"
	"mellium.im/xmpp/mux"
	"mellium.im/xmpp/receipts"
	"mellium.im/xmpp/stanza"

	"verifharness/common"
)

// Free-running concurrent scenarios (no yield points held): several goroutines
// use the blocking calls at once against a peer that answers automatically.
// They exist for the race-detector run of the thorough tier (r.Race()) and run
// in a small size in the other tiers; the oracle is "every call returns, with
// its own reply or its context error".

// Elem is one top-level element written by a session.
type Elem struct {
	Name, ID, Type, To string
	Child              string // local name of the first child element
	ChildNS            string
}

type tapElem struct {
	XMLName  xml.Name
	ID       string `xml:"id,attr"`
	Type     string `xml:"type,attr"`
	To       string `xml:"to,attr"`
	Children []struct {
		XMLName xml.Name
	} `xml:",any"`
}

// Tap parses everything rs writes (install before the session is used).  Its goroutines end
// when the session's input is closed (rs.In.Close makes Feed fail) or done is closed.
func Tap(rs *common.RawSession, done <-chan struct{}) <-chan Elem {
	pr, pw := io.Pipe()
	raw := make(chan []byte, 4096)
	out := make(chan Elem, 4096)
	rs.Out.OnWrite = func(b []byte) {
		select {
		case raw <- append([]byte(nil), b...):
		case <-done:
		}
	}
	go func() {
		defer pw.Close()
		for {
			select {
			case b := <-raw:
				if _, err := pw.Write(b); err != nil {
					return
				}
			case <-done:
				return
			}
		}
	}()
	go func() {
		defer close(out)
		defer pr.Close()
		d := xml.NewDecoder(pr)
		for {
			tok, err := d.Token()
			if err != nil {
				return
			}
			if st, ok := tok.(xml.StartElement); ok {
				var e tapElem
				if d.DecodeElement(&e, &st) != nil {
					return
				}
				el := Elem{Name: e.XMLName.Local, ID: e.ID, Type: e.Type, To: e.To}
				if len(e.Children) > 0 {
					el.Child, el.ChildNS = e.Children[0].XMLName.Local, e.Children[0].XMLName.Space
				}
				select {
				case out <- el:
				case <-done:
					return
				}
			}
		}
	}()
	return out
}

// Feeder writes peer bytes in order until done is closed.
func Feeder(rs *common.RawSession, done <-chan struct{}) chan<- string {
	ch := make(chan string, 4096)
	go func() {
		for {
			select {
			case s := <-ch:
				if rs.Feed([]byte(s)) != nil {
					return
				}
			case <-done:
				return
			}
		}
	}()
	return ch
}

func runConcurrent(r *common.Run, workers, iters int) {
	rs, err := common.NewRawSession(0, "jabber:client", jid.MustParse("me@example.net/h"), jid.MustParse("example.net"))
	if err != nil {
		return
	}
	done := make(chan struct{})
	defer close(done)
	tap := Tap(rs, done)
	feed := Feeder(rs, done)
	h := &receipts.Handler{}
	m := mux.New("jabber:client", receipts.Handle(h))
	go rs.S.Serve(m)
	defer func() {
		rs.In.Close()
		common.WithTimeout(200*time.Millisecond, func() { rs.S.Close() })
	}()
	// the peer: answers every get with a result (sometimes twice, sometimes preceded by an
	// error message with the same id), every message that asks for a receipt with one
	var answered int64
	go func() {
		n := 0
		for e := range tap {
			n++
			switch {
			case e.Name == "iq" && e.Type == "get":
				if n%5 == 0 {
					feed <- fmt.Sprintf(`<message xmlns="jabber:client" type="error" id="%s"/>`, e.ID)
				}
				if n%7 != 0 { // every seventh request is never answered: the caller's context ends it
					feed <- fmt.Sprintf(`<iq xmlns="jabber:client" type="result" id="%s"/>`, e.ID)
				}
				if n%4 == 0 {
					feed <- fmt.Sprintf(`<iq xmlns="jabber:client" type="result" id="%s"/>`, e.ID)
				}
				atomic.AddInt64(&answered, 1)
			case e.Name == "message" && e.Child != "received":
				if n%6 != 0 {
					feed <- fmt.Sprintf(`<message xmlns="jabber:client" from="you@example.net/x"><received xmlns="urn:xmpp:receipts" id="%s"/></message>`, e.ID)
				}
			}
		}
	}()
	var wg sync.WaitGroup
	var stuck, wrong int64
	for w := 0; w < workers; w++ {
		wg.Add(1)
		go func(w int) {
			defer wg.Done()
			for i := 0; i < iters; i++ {
				id := fmt.Sprintf("w%d-%d", w, i)
				ctx, cancel := context.WithTimeout(context.Background(), 30*time.Millisecond)
				if w%2 == 0 {
					resp, err := rs.S.SendIQElement(ctx, xmlstream.Wrap(nil, xml.StartElement{Name: xml.Name{Space: "urn:verif", Local: "q"}}), stanza.IQ{ID: id, Type: stanza.GetIQ})
					if err == nil && resp != nil {
						tok, _ := resp.Token()
						if st, ok := tok.(xml.StartElement); ok {
							got := ""
							for _, a := range st.Attr {
								if a.Name.Local == "id" {
									got = a.Value
								}
							}
							if got != id || st.Name.Local != "iq" {
								atomic.AddInt64(&wrong, 1)
							}
						}
						resp.Close()
					}
				} else {
					_ = h.SendMessageElement(ctx, rs.S, nil, stanza.Message{ID: id, To: jid.MustParse("you@example.net/x"), Type: stanza.ChatMessage})
				}
				cancel()
			}
		}(w)
	}
	if !common.WithTimeout(time.Duration(iters)*200*time.Millisecond+5*time.Second, wg.Wait) {
		atomic.AddInt64(&stuck, 1)
	}
	line := []string{fmt.Sprintf("#concurrent workers=%d iters=%d (free running; iq requesters and receipt senders against an answering peer)", workers, iters)}
	if stuck > 0 {
		r.Fail("serve-continues", "concurrent-calls-do-not-return", line, "blocking calls with a 30 ms context did not all return")
	}
	if wrong > 0 {
		r.Fail("own-reply", "concurrent-wrong-reply", line, strconv.FormatInt(wrong, 10)+" calls were handed a response with another id or kind")
	}
	r.Case(fmt.Sprintf("concurrent %d %d", workers, iters), true, "concurrent")
}
